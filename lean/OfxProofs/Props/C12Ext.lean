/-
C12 (extension) — the refusal theorems in concrete form: a header text produced by corrupting one value of a valid
header, by leaving a line out, or by reordering lines, followed by a body that starts with `<` and does not contain
`OFXHEADER:` (v1) / `<?OFX` (v2), is refused with the header error.  The "marker does not occur later" side
condition of `C12_refuse_text_order_*` is derived from the shape of the text (`marker_infix_NF`), not assumed.

Value texts: any ASCII text without `:` and line feed (v1) / without `"` and `<` (v2); "outside the class" means that
the stripped text is not wholly inside the character class of the field's pattern group (whitespace around a value
is tolerated layout — C05 — and is therefore not a corruption).
-/
import OfxProofs.Lemmas.HeaderExt

namespace Ofx.Header
open Ofx Ofx.Codec

/-! ### v1: any sequence of header lines that is not of the accepted shape is refused -/

theorem names9_suffix : ∀ n ∈ names9, "OFXHEADER".toList <:+ n → n = "OFXHEADER".toList := by decide +kernel

theorem names9_drop1 : ∀ n ∈ names9, ¬ "OFXHEADER".toList <:+ n.drop 1 := by decide +kernel

theorem crlf_space : allSpace crlf := by
  intro c hc; simp [crlf] at hc; rcases hc with hc | hc <;> subst hc <;> decide

theorem ofxMarker_ns : ∀ c ∈ "OFXHEADER".toList, isSpace c = false := by decide

theorem not_marker_crlf_body (body : Str) (h : ¬ ofxMarker <:+: body) : ¬ ofxMarker <:+: crlf ++ body := by
  intro hi
  refine h (infix_skip (by decide) ?_ hi)
  intro c hc
  simp [crlf] at hc
  rcases hc with hc | hc <;> subst hc <;> decide

theorem reSearch_lines_none (nvs : List NV) (g body : Str) (hg : allSpace g)
    (hgood : ∀ nv ∈ nvs, GoodNV nv) (hB : ∀ c ∈ body.head?, c = '<') (hmark : ¬ ofxMarker <:+: body)
    (hshape : ∀ sfx, sfx <:+ nvs → ¬ V1Shape sfx) :
    reSearch v1Regex (NF (linesOf nvs) (g ++ body)) = none := by
  induction nvs with
  | nil =>
    apply reSearch_v1_none
    intro hi
    refine hmark (infix_skip (by decide) ?_ hi)
    intro c hc hm
    have hsp := hg c hc
    have key : ∀ d ∈ ofxMarker, isSpace d = false := by decide
    rw [key c hm] at hsp; cases hsp
  | cons nv rest ih =>
    have g0 := hgood nv (by simp)
    have hf : (⟨nv.1, nv.2, crlf⟩ : Fld).Good := linesOf_good [nv] (fun x hx => by simp at hx; subst hx; exact g0) _ (by simp [linesOf])
    apply reSearch_v1_line ⟨nv.1, nv.2, crlf⟩ _ hf (names9_drop1 _ g0.name)
    · cases hm : reMatch v1Regex (NF (linesOf (nv :: rest)) (g ++ body)) with
      | none => simpa [linesOf, NF] using hm
      | some r =>
        exfalso
        rw [NF_absorb g body _ (by simp [linesOf])] at hm
        have := v1_shape_of_match _ body r
          (absorbLast_good g hg _ (linesOf_good _ hgood)) hB hm
        rw [absorbLast_nv, linesOf_nv] at this
        exact hshape _ (List.suffix_refl _) this
    · exact ih (fun x hx => hgood x (by simp [hx]))
        (fun sfx hs => hshape sfx (List.IsSuffix.trans hs (List.suffix_cons nv rest)))

/-- **general refusal (v1)**: a text made of `NAME:value CRLF` lines (names among the nine field names, values any
    ASCII text without colon and line feed — empty, with blanks inside or around, anything), a blank line and a body that starts with `<` and does not contain
    `OFXHEADER:`, is refused with the header error unless the lines — from some line on — have the accepted shape.
    Nothing is assumed about where markers occur in the whole text: that follows from the shape of the lines. -/
theorem C12_refuse_lines_v1 (p : V1P) (nvs : List NV) (body : Str)
    (hgood : ∀ nv ∈ nvs, GoodNV nv) (hb : body.head? = some '<') (hmark : ¬ ofxMarker <:+: body)
    (hshape : ∀ sfx, sfx <:+ nvs → ¬ V1Shape sfx) :
    parseV1 p (renderLines nvs ++ body) = .error .header := by
  apply C12_refuse_text_nomatch_v1
  rw [renderLines, NF_append]
  have hB : ∀ c ∈ body.head?, c = '<' := by intro c hc; rw [hb] at hc; simp at hc; exact hc.symm
  exact reSearch_lines_none nvs crlf body crlf_space hgood hB hmark hshape


/-! ### refusal decided by the sequence of names alone: omission, transposition, any reordering -/

theorem V1Shape.names {nvs : List NV} (h : V1Shape nvs) :
    (nvs.map Prod.fst).take 8 = names8 ∨ (nvs.map Prod.fst).take 9 = names9 := by
  obtain ⟨k, hk, _⟩ := h
  rcases hk with ⟨_, h⟩ | ⟨_, h⟩
  · exact Or.inl h
  · exact Or.inr h

def tailsOf : List α → List (List α)
  | [] => [[]]
  | a :: l => (a :: l) :: tailsOf l

theorem mem_tailsOf {t : List α} : ∀ {l : List α}, t <:+ l → t ∈ tailsOf l
  | [], h => by simp [List.suffix_nil.1 h, tailsOf]
  | a :: l, h => by
    rcases List.suffix_cons_iff.1 h with h | h
    · simp [h, tailsOf]
    · simp [tailsOf, mem_tailsOf h]

/-- no tail of the name sequence starts with the nine (or the eight mandatory) field names -/
def NamesRefused (ns : List Str) : Prop :=
  ∀ t : List Str, t ∈ tailsOf ns → ¬ (t.take 8 = names8 ∨ t.take 9 = names9)

instance (ns : List Str) : Decidable (NamesRefused ns) := by unfold NamesRefused; infer_instance

theorem C12_refuse_names_v1 (p : V1P) (nvs : List NV) (body : Str)
    (hgood : ∀ nv ∈ nvs, GoodNV nv) (hb : body.head? = some '<') (hmark : ¬ ofxMarker <:+: body)
    (hnames : NamesRefused (nvs.map Prod.fst)) :
    parseV1 p (renderLines nvs ++ body) = .error .header := by
  apply C12_refuse_lines_v1 p nvs body hgood hb hmark
  intro sfx hs hsh
  exact hnames _ (mem_tailsOf (List.IsSuffix.map Prod.fst hs)) hsh.names

/-! ### the lines of a valid header -/

def v1Vals (h : V1) : List Str :=
  [pyStrInt h.ofxheader, h.data, pyStrInt h.version, h.security, h.encoding, h.charset, h.compression,
   h.oldfileuid, h.newfileuid]

/-- the nine (name, value text) lines of `str(h)` -/
def v1NVs (h : V1) : List NV := names9.zip (v1Vals h)

theorem strV1_lines (h : V1) : strV1 h = renderLines (v1NVs h) := by
  simp [strV1, join, crlf, renderLines, NF, linesOf, v1NVs, names9, v1Vals]

theorem v1NVs_names (h : V1) : (v1NVs h).map Prod.fst = names9 := by
  simp [v1NVs, names9, v1Vals]

theorem goodNV_of_class (n v : Str) (hn : n ∈ names9) (hv : inClass isWordDash v) : GoodNV (n, v) :=
  ⟨hn, fun h => absurd (hv.2 _ h) (by decide), fun h => absurd (hv.2 _ h) (by decide),
    fun c hc => wordDash_ascii c (hv.2 c hc)⟩

theorem inClass_mono {p q : Char → Bool} (h : ∀ c, p c = true → q c = true) {v : Str} (hv : inClass p v) :
    inClass q v := ⟨hv.1, fun c hc => h c (hv.2 c hc)⟩

theorem v1NVs_good (p : V1P) (h : V1) (hv : ValidV1 p h) : ∀ nv ∈ v1NVs h, GoodNV nv := by
  have d1 := (pyStrInt_small _ hv.oh0.1 hv.oh0.2).1
  have d3 := (pyStrInt_small _ hv.ver0.1 hv.ver0.2).1
  intro nv hnv
  simp only [v1NVs, names9, v1Vals, List.zip_cons_cons, List.zip_nil_right, List.mem_cons, List.not_mem_nil,
    or_false] at hnv
  rcases hnv with h | h | h | h | h | h | h | h | h <;> subst h <;> apply goodNV_of_class _ _ (by decide)
  · exact inClass_mono digit_wordDash d1
  · exact inClass_mono upper_wordDash hv.data.2
  · exact inClass_mono digit_wordDash d3
  · exact inClass_mono word_wordDash hv.sec.2
  · exact inClass_mono upDigDash_wordDash hv.enc.2
  · exact hv.cs.2
  · exact inClass_mono upper_wordDash hv.comp.2
  · exact hv.old.1
  · exact hv.new.1

theorem map_eraseIdx (f : α → β) : ∀ (l : List α) (i : Nat), (l.eraseIdx i).map f = (l.map f).eraseIdx i
  | [], _ => rfl
  | _ :: _, 0 => rfl
  | a :: l, i + 1 => by simp [List.eraseIdx, map_eraseIdx f l i]

/-- **C12_refuse_omit_field_v1**: `str(h)` of a valid header with line `i` left out (any but the optional
    COMPRESSION line, index 6), followed by a body that starts with `<` and does not contain `OFXHEADER:` -/
theorem C12_refuse_omit_field_v1 (p : V1P) (h : V1) (hv : ValidV1 p h) (i : Nat) (hi : i < 9) (hi6 : i ≠ 6)
    (body : Str) (hb : body.head? = some '<') (hmark : ¬ ofxMarker <:+: body) :
    parseV1 p (renderLines ((v1NVs h).eraseIdx i) ++ body) = .error .header := by
  apply C12_refuse_names_v1 p _ body (fun nv hnv => v1NVs_good p h hv nv (List.mem_of_mem_eraseIdx hnv)) hb hmark
  rw [map_eraseIdx, v1NVs_names]
  have : ∀ i, i < 9 → i ≠ 6 → NamesRefused (names9.eraseIdx i) := by decide +kernel
  exact this i hi hi6

/-- exchange the elements at positions `i`, `i+1` -/
def swapAt : Nat → List α → List α
  | _, [] => []
  | 0, [a] => [a]
  | 0, a :: b :: l => b :: a :: l
  | n + 1, a :: l => a :: swapAt n l

theorem swapAt_map (f : α → β) : ∀ (i : Nat) (l : List α), (swapAt i l).map f = swapAt i (l.map f)
  | 0, [] => rfl
  | 0, [_] => rfl
  | 0, _ :: _ :: _ => rfl
  | _ + 1, [] => rfl
  | n + 1, a :: l => by simp [swapAt, swapAt_map f n l]

theorem mem_swapAt {x : α} : ∀ (i : Nat) (l : List α), x ∈ swapAt i l → x ∈ l
  | 0, [], h => h
  | 0, [_], h => h
  | 0, a :: b :: l, h => by
    simp only [swapAt, List.mem_cons] at h ⊢
    rcases h with h | h | h
    · exact Or.inr (Or.inl h)
    · exact Or.inl h
    · exact Or.inr (Or.inr h)
  | _ + 1, [], h => h
  | n + 1, a :: l, h => by
    simp only [swapAt, List.mem_cons] at h ⊢
    rcases h with h | h
    · exact Or.inl h
    · exact Or.inr (mem_swapAt n l h)

/-- **C12_refuse_swap_fields_v1**: `str(h)` of a valid header with lines `i`, `i+1` transposed -/
theorem C12_refuse_swap_fields_v1 (p : V1P) (h : V1) (hv : ValidV1 p h) (i : Nat) (hi : i < 8)
    (body : Str) (hb : body.head? = some '<') (hmark : ¬ ofxMarker <:+: body) :
    parseV1 p (renderLines (swapAt i (v1NVs h)) ++ body) = .error .header := by
  apply C12_refuse_names_v1 p _ body (fun nv hnv => v1NVs_good p h hv nv (mem_swapAt _ _ hnv)) hb hmark
  rw [swapAt_map, v1NVs_names]
  have : ∀ i, i < 8 → NamesRefused (swapAt i names9) := by decide +kernel
  exact this i hi


/-! ### corruption of one value -/

inductive V1Field where
  | ofxheader | data | version | security | encoding | charset | compression | oldfileuid | newfileuid
  deriving DecidableEq, Repr

def V1Field.idx : V1Field → Nat
  | .ofxheader => 0 | .data => 1 | .version => 2 | .security => 3 | .encoding => 4 | .charset => 5
  | .compression => 6 | .oldfileuid => 7 | .newfileuid => 8

def V1Field.name : V1Field → Str
  | .ofxheader => "OFXHEADER".toList | .data => "DATA".toList | .version => "VERSION".toList
  | .security => "SECURITY".toList | .encoding => "ENCODING".toList | .charset => "CHARSET".toList
  | .compression => "COMPRESSION".toList | .oldfileuid => "OLDFILEUID".toList | .newfileuid => "NEWFILEUID".toList

/-- the character class of the field's group in `OFXHeaderV1.regex` -/
def V1Field.cls : V1Field → Char → Bool
  | .ofxheader => isDigit | .data => isUpper | .version => isDigit | .security => isWord
  | .encoding => isUpDigDash | .charset => isWordDash | .compression => isUpper
  | .oldfileuid => isWordDash | .newfileuid => isWordDash

/-- `str(h)` with the value text of field `f` replaced by `w` -/
def corruptV1 (h : V1) (f : V1Field) (w : Str) : List NV := (v1NVs h).set f.idx (f.name, w)

/-- with all nine names in place, only the whole list can have the accepted shape, and then every value before the
    last lies in its class and the last starts inside its class -/
theorem shape_names9 (nvs sfx : List NV) (hn : nvs.map Prod.fst = names9) (hs : sfx <:+ nvs) (hsh : V1Shape sfx) :
    (∀ nv ∈ nvs.take 8, InStrip (clsOf nv.1) nv.2) ∧
    (∀ nv ∈ (nvs.drop 8).head?, (nv.2.dropWhile isSpace).takeWhile isWordDash ≠ [] ∨
      (allSpace nv.2 ∧ nvs.drop 9 ≠ [])) := by
  have key : ∀ t : List Str, t ∈ tailsOf names9 → (t.take 8 = names8 ∨ t.take 9 = names9) → t = names9 := by
    decide +kernel
  have hs' : sfx.map Prod.fst <:+ names9 := hn ▸ List.IsSuffix.map Prod.fst hs
  have hnm := key _ (mem_tailsOf hs') hsh.names
  have hlen : sfx.length = nvs.length := by
    have h1 := congrArg List.length hnm
    have h2 := congrArg List.length hn
    simp at h1 h2; omega
  have heq : sfx = nvs := hs.eq_of_length hlen
  subst heq
  obtain ⟨k, hk, h1, h2⟩ := hsh
  rcases hk with ⟨_, h8⟩ | ⟨h9, _⟩
  · rw [hnm] at h8; exact absurd h8 (by decide +kernel)
  · subst h9; exact ⟨h1, h2⟩

theorem corruptV1_names (h : V1) (f : V1Field) (w : Str) : (corruptV1 h f w).map Prod.fst = names9 := by
  rw [corruptV1, List.map_set, v1NVs_names]
  cases f <;> rfl

theorem corruptV1_good (p : V1P) (h : V1) (hv : ValidV1 p h) (f : V1Field) (w : Str)
    (hwc : ':' ∉ w) (hwl : '\n' ∉ w) (hwa : ∀ c ∈ w, c.toNat < 128) :
    ∀ nv ∈ corruptV1 h f w, GoodNV nv := by
  intro nv hnv
  rcases List.mem_or_eq_of_mem_set hnv with h1 | h1
  · exact v1NVs_good p h hv nv h1
  · subst h1
    exact ⟨by show f.name ∈ names9; cases f <;> decide, hwc, hwl, hwa⟩

/-- a value the block `\s*(class+)\s*` accepts is, once stripped, wholly inside the class -/
theorem inStrip_strip (p : Char → Bool) (hp : ∀ c, p c = true → isSpace c = false) (v : Str) (h : InStrip p v) :
    inClass p (strip v) := by
  obtain ⟨a, core, b, e, ha, hb, hc⟩ := h
  obtain ⟨c0, cs, hcore⟩ := List.exists_cons_of_ne_nil hc.1
  have hl : core.getLast? = some (core.getLast hc.1) := List.getLast?_eq_some_getLast hc.1
  rw [e, strip_ws_body_ws a core b ha hb c0 cs hcore (hp _ (hc.2 _ (by rw [hcore]; simp))) _ hl
    (hp _ (hc.2 _ (List.getLast_mem hc.1)))]
  exact hc

/-- the membership facts the corruption theorems use -/
theorem corruptV1_mem (h : V1) (f : V1Field) (w : Str) :
    if f = .newfileuid then (f.name, w) ∈ ((corruptV1 h f w).drop 8).head?
      else (f.name, w) ∈ (corruptV1 h f w).take 8 := by
  cases f <;>
    simp only [corruptV1, v1NVs, names9, v1Vals, V1Field.idx, List.zip_cons_cons, List.set_cons_succ,
      List.set_cons_zero, List.take_succ_cons, List.take_zero, List.drop_succ_cons, List.drop_zero, List.head?_cons,
      List.mem_cons, Option.mem_def, reduceCtorEq, if_false, if_true, true_or, or_true]

theorem corruptV1_length (h : V1) (f : V1Field) (w : Str) : (corruptV1 h f w).length = 9 := by
  rw [corruptV1, List.length_set]; simp [v1NVs, names9, v1Vals]

theorem cls_not_space (f : V1Field) : ∀ c, f.cls c = true → isSpace c = false := by
  cases f
  · exact digit_not_space
  · exact upper_not_space
  · exact digit_not_space
  · exact word_not_space
  · exact upDigDash_not_space
  · exact wordDash_not_space
  · exact upper_not_space
  · exact wordDash_not_space
  · exact wordDash_not_space

/-- no suffix of the corrupted lines has the accepted shape -/
theorem corruptV1_noshape (h : V1) (f : V1Field) (w : Str)
    (hbad : if f = .newfileuid then (w.dropWhile isSpace).takeWhile isWordDash = []
      else ¬ inClass f.cls (strip w)) :
    ∀ sfx, sfx <:+ corruptV1 h f w → ¬ V1Shape sfx := by
  intro sfx hs hsh
  obtain ⟨h1, h2⟩ := shape_names9 _ sfx (corruptV1_names h f w) hs hsh
  have hmem := corruptV1_mem h f w
  by_cases hf : f = .newfileuid
  · rw [if_pos hf] at hbad hmem
    rcases h2 _ hmem with h3 | ⟨_, h3⟩
    · exact h3 hbad
    · exact h3 (List.drop_eq_nil_of_le (by rw [corruptV1_length]; exact Nat.le_refl 9))
  · rw [if_neg hf] at hbad hmem
    have := h1 _ hmem
    have hc : clsOf f.name = f.cls := by cases f <;> rfl
    rw [hc] at this
    exact hbad (inStrip_strip _ (cls_not_space f) _ this)

/-- **C12_refuse_corrupt_v1, outside the class**: `str(h)` of a valid header with the value of any field but the
    last replaced by an ASCII text `w` (no colon, no line feed) whose stripped form is not wholly inside the field's
    character class — the empty text, a text with a foreign character, a text with whitespace inside: the pattern no
    longer matches anywhere — header error.  (Whitespace *around* an in-class value is tolerated layout, C05.)  For
    the last field (NEWFILEUID) the pattern is not anchored: the text is refused when `w`, after leading whitespace,
    does not *start* inside the class. -/
theorem C12_refuse_corrupt_v1_class (p : V1P) (h : V1) (hv : ValidV1 p h) (f : V1Field) (w : Str)
    (hwc : ':' ∉ w) (hwl : '\n' ∉ w) (hwa : ∀ c ∈ w, c.toNat < 128)
    (hbad : if f = .newfileuid then (w.dropWhile isSpace).takeWhile isWordDash = []
      else ¬ inClass f.cls (strip w))
    (body : Str) (hb : body.head? = some '<') (hmark : ¬ ofxMarker <:+: body) :
    parseV1 p (renderLines (corruptV1 h f w) ++ body) = .error .header :=
  C12_refuse_lines_v1 p _ body (corruptV1_good p h hv f w hwc hwl hwa) hb hmark (corruptV1_noshape h f w hbad)

/-! ### a value inside the class but outside the field's domain: the pattern matches, the validator refuses -/

/-- the nine lines with explicit value texts -/
def nine (v1 v2 v3 v4 v5 v6 v7 v8 v9 : Str) : List NV := names9.zip [v1, v2, v3, v4, v5, v6, v7, v8, v9]

def nineW (v1 v2 v3 v4 v5 v6 v7 v8 v9 : Str) : V1W :=
  { indent := [], b1 := [], v1 := v1, w1 := crlf, b2 := [], v2 := v2, w2 := crlf, b3 := [], v3 := v3, w3 := crlf,
    b4 := [], v4 := v4, w4 := crlf, b5 := [], v5 := v5, w5 := crlf, b6 := [], v6 := v6, w6 := crlf,
    comp := some ([], v7, crlf), b8 := [], v8 := v8, w8 := crlf, b9 := [], v9 := v9 }

theorem nine_text (v1 v2 v3 v4 v5 v6 v7 v8 v9 body : Str) :
    renderLines (nine v1 v2 v3 v4 v5 v6 v7 v8 v9) ++ body =
      (nineW v1 v2 v3 v4 v5 v6 v7 v8 v9).text (crlf ++ (crlf ++ body)) := by
  simp [renderLines, nine, names9, linesOf, NF, V1W.text, V1W.compText, nineW, fld, crlf]

theorem allSpace_nil : allSpace [] := fun _ h => by cases h

/-- on nine lines whose values lie in their classes the pattern matches and the constructor decides; the pattern
    stops after the NEWFILEUID value, whatever follows (`R` not starting inside the class) -/
theorem parseV1_nineW (p : V1P) (v1 v2 v3 v4 v5 v6 v7 v8 v9 R : Str)
    (c1 : inClass isDigit v1) (c2 : inClass isUpper v2) (c3 : inClass isDigit v3) (c4 : inClass isWord v4)
    (c5 : inClass isUpDigDash v5) (c6 : inClass isWordDash v6) (c7 : inClass isUpper v7)
    (c8 : inClass isWordDash v8) (c9 : inClass isWordDash v9) (hR : ∀ c ∈ R.head?, isWordDash c = false) :
    parseV1 p ((nineW v1 v2 v3 v4 v5 v6 v7 v8 v9).text R) =
      (ctorV1 p (.str v3) (.str v1) (some v2) (some v4) (some v5) (some v6) (some v7) (some v8) (some v9)
        >>= fun h => pure (h, ((nineW v1 v2 v3 v4 v5 v6 v7 v8 v9).text R).length - R.length)) := by
  have ok : (nineW v1 v2 v3 v4 v5 v6 v7 v8 v9).Ok :=
    { indent := allSpace_nil, b1 := allSpace_nil, b2 := allSpace_nil, b3 := allSpace_nil, b4 := allSpace_nil,
      b5 := allSpace_nil, b6 := allSpace_nil, b8 := allSpace_nil, b9 := allSpace_nil,
      w1 := crlf_space, w2 := crlf_space, w3 := crlf_space, w4 := crlf_space, w5 := crlf_space, w6 := crlf_space,
      w8 := crlf_space, v1 := c1, v2 := c2, v3 := c3, v4 := c4, v5 := c5, v6 := c6, v8 := c8, v9 := c9,
      comp := by
        intro b v w h
        simp only [nineW, Option.some.injEq, Prod.mk.injEq] at h
        obtain ⟨rfl, rfl, rfl⟩ := h
        exact ⟨allSpace_nil, c7, crlf_space⟩ }
  have hm := reSearch_of_match _ _ _ (v1_match (nineW v1 v2 v3 v4 v5 v6 v7 v8 v9) R ok hR)
  rw [parseV1, hm]
  rfl

theorem parseV1_nine (p : V1P) (v1 v2 v3 v4 v5 v6 v7 v8 v9 body : Str)
    (c1 : inClass isDigit v1) (c2 : inClass isUpper v2) (c3 : inClass isDigit v3) (c4 : inClass isWord v4)
    (c5 : inClass isUpDigDash v5) (c6 : inClass isWordDash v6) (c7 : inClass isUpper v7)
    (c8 : inClass isWordDash v8) (c9 : inClass isWordDash v9) :
    ∃ n, parseV1 p (renderLines (nine v1 v2 v3 v4 v5 v6 v7 v8 v9) ++ body) =
      (ctorV1 p (.str v3) (.str v1) (some v2) (some v4) (some v5) (some v6) (some v7) (some v8) (some v9)
        >>= fun h => pure (h, n)) := by
  rw [nine_text]
  exact ⟨_, parseV1_nineW p v1 v2 v3 v4 v5 v6 v7 v8 v9 _ c1 c2 c3 c4 c5 c6 c7 c8 c9
    (by intro c hc; simp [crlf] at hc; subst hc; decide)⟩

/-- errors raised inside the constructors are `ValueError`s (incl. `OFXSpecError`) -/
def VS {α : Type} (x : PyM α) : Prop := ∀ e, x = .error e → e = .value ∨ e = .spec

theorem VS_bind {α β : Type} (x : PyM α) (f : α → PyM β) (hx : VS x) (hf : ∀ a, VS (f a)) : VS (x >>= f) := by
  intro e he
  cases x with
  | error e' => simp [bind, Except.bind] at he; subst he; exact hx e' rfl
  | ok a => exact hf a e he

theorem VS_pure {α : Type} (a : α) : VS (pure a : PyM α) := by intro e he; cases he

theorem VS_wrap {α : Type} (x : PyM α) (hx : VS x) : ∀ e, wrapValueError x = .error e → e = .header := by
  intro e he
  cases x with
  | ok a => simp [wrapValueError] at he
  | error e' =>
    rcases hx e' rfl with h | h <;> subst h <;> simp [wrapValueError] at he <;> exact he.symm

theorem VS_toInt_str (s : Str) (d : Arg) (hd : ∃ i, d = .int i) : VS (toInt ((Arg.str s).orElse d)) := by
  intro e he
  obtain ⟨i, rfl⟩ := hd
  cases s with
  | nil => simp [Arg.orElse, toInt, pure, Except.pure] at he
  | cons c cs =>
    simp only [Arg.orElse, toInt] at he
    split at he
    · cases he
    · cases he; exact Or.inl rfl

theorem VS_toInt_str' (s : Str) : VS (toInt (Arg.str s)) := by
  intro e he
  simp only [toInt] at he
  split at he
  · cases he
  · cases he; exact Or.inl rfl

theorem VS_oneOfInt (l : List Str) (i : Int) : VS (oneOfInt l i) := by
  intro e he; unfold oneOfInt at he; split at he
  · cases he
  · cases he; exact Or.inr rfl

theorem VS_oneOfStr (l : List Str) (s : Str) : VS (oneOfStr l s) := by
  intro e he; unfold oneOfStr at he; split at he
  · cases he
  · cases he; exact Or.inr rfl

theorem VS_integerConv (l : Option Nat) (i : Int) : VS (integerConv l i) := by
  intro e he; unfold integerConv at he
  split at he
  · split at he
    · cases he; exact Or.inr rfl
    · cases he
  · cases he

theorem VS_stringConv (l : Option Nat) (s : Str) : VS (stringConv l s) := by
  intro e he; unfold stringConv at he
  simp only at he
  split at he
  · split at he
    · cases he; exact Or.inr rfl
    · cases he
  · cases he

/-- `OFXHeaderV1(...)` called with strings either returns a header object or raises the header error -/
theorem ctorV1_str_error (p : V1P) (ver oh : Str) (d s e c cm o n : Option Str) (err : Err)
    (h : ctorV1 p (.str ver) (.str oh) d s e c cm o n = .error err) : err = .header := by
  unfold ctorV1 at h
  refine VS_wrap _ ?_ err h
  refine VS_bind _ _ (VS_toInt_str _ _ ⟨_, rfl⟩) fun _ => ?_
  refine VS_bind _ _ (VS_oneOfInt _ _) fun _ => ?_
  refine VS_bind _ _ (VS_oneOfStr _ _) fun _ => ?_
  refine VS_bind _ _ (VS_toInt_str _ _ ⟨_, rfl⟩) fun _ => ?_
  refine VS_bind _ _ (VS_integerConv _ _) fun _ => ?_
  refine VS_bind _ _ (VS_oneOfStr _ _) fun _ => ?_
  refine VS_bind _ _ (VS_oneOfStr _ _) fun _ => ?_
  refine VS_bind _ _ (VS_oneOfStr _ _) fun _ => ?_
  refine VS_bind _ _ (VS_oneOfStr _ _) fun _ => ?_
  refine VS_bind _ _ (VS_stringConv _ _) fun _ => ?_
  refine VS_bind _ _ (VS_stringConv _ _) fun _ => ?_
  exact VS_pure _

/-- the domain of each field, on value texts -/
def V1Field.dom (p : V1P) : V1Field → Str → Prop
  | .ofxheader, w => ∃ i, intOfStr w = some i ∧ pyStrInt i ∈ p.ofxheader
  | .data, w => w ∈ p.data
  | .version, w => ∃ i, intOfStr w = some i ∧ ∀ k, p.versionLen = some k → i < (10 : Int) ^ k
  | .security, w => w ∈ p.security
  | .encoding, w => w ∈ p.encoding
  | .charset, w => w ∈ p.charset
  | .compression, w => w ∈ p.compression
  | .oldfileuid, w => ∀ k, p.oldLen = some k → (unescape w).length ≤ k
  | .newfileuid, w => ∀ k, p.newLen = some k → (unescape w).length ≤ k

theorem toInt_str_ok (s : Str) (i : Int) (h : toInt (.str s) = .ok i) : intOfStr s = some i := by
  simp only [toInt] at h
  split at h
  · rename_i j hj; cases h; exact hj
  · cases h

/-- a header object comes back from non-empty value texts only if each text lies in its field's domain -/
theorem ctorV1_str_sound (p : V1P) (v1 v2 v3 v4 v5 v6 v7 v8 v9 : Str) (h : V1)
    (n1 : v1 ≠ []) (n2 : v2 ≠ []) (n3 : v3 ≠ []) (n4 : v4 ≠ []) (n5 : v5 ≠ []) (n6 : v6 ≠ []) (n7 : v7 ≠ [])
    (n8 : v8 ≠ []) (n9 : v9 ≠ [])
    (hk : ctorV1 p (.str v3) (.str v1) (some v2) (some v4) (some v5) (some v6) (some v7) (some v8) (some v9) = .ok h) :
    V1Field.dom p .ofxheader v1 ∧ V1Field.dom p .data v2 ∧ V1Field.dom p .version v3 ∧
    V1Field.dom p .security v4 ∧ V1Field.dom p .encoding v5 ∧ V1Field.dom p .charset v6 ∧
    V1Field.dom p .compression v7 ∧ V1Field.dom p .oldfileuid v8 ∧ V1Field.dom p .newfileuid v9 := by
  unfold ctorV1 at hk
  rw [wrap_ok] at hk
  simp only [bind_ok, orElse_str _ _ n1, orElse_str _ _ n3, orStr_some _ _ n2, orStr_some _ _ n4, orStr_some _ _ n5,
    orStr_some _ _ n6, orStr_some _ _ n7, orStr_some _ _ n8, orStr_some _ _ n9] at hk
  obtain ⟨a1, h1, a2, h2, a3, h3, a4, h4, a5, h5, a6, h6, a7, h7, a8, h8, a9, h9, a10, h10, a11, h11, _⟩ := hk
  obtain ⟨m2, _⟩ := oneOfInt_ok _ _ _ h2
  obtain ⟨m3, _⟩ := oneOfStr_ok _ _ _ h3
  obtain ⟨_, m5⟩ := integerConv_ok _ _ _ h5
  obtain ⟨m6, _⟩ := oneOfStr_ok _ _ _ h6
  obtain ⟨m7, _⟩ := oneOfStr_ok _ _ _ h7
  obtain ⟨m8, _⟩ := oneOfStr_ok _ _ _ h8
  obtain ⟨m9, _⟩ := oneOfStr_ok _ _ _ h9
  obtain ⟨e10, m10⟩ := stringConv_ok _ _ _ h10
  obtain ⟨e11, m11⟩ := stringConv_ok _ _ _ h11
  exact ⟨⟨a1, toInt_str_ok _ _ h1, m2⟩, m3, ⟨a4, toInt_str_ok _ _ h4, m5⟩, m6, m7, m8, m9,
    fun k hk => e10 ▸ m10 k hk, fun k hk => e11 ▸ m11 k hk⟩


/-- nine lines with every value inside its class, one of them outside its domain: header error, whatever follows -/
theorem refuse_nine (p : V1P) (v1 v2 v3 v4 v5 v6 v7 v8 v9 body : Str)
    (c1 : inClass isDigit v1) (c2 : inClass isUpper v2) (c3 : inClass isDigit v3) (c4 : inClass isWord v4)
    (c5 : inClass isUpDigDash v5) (c6 : inClass isWordDash v6) (c7 : inClass isUpper v7)
    (c8 : inClass isWordDash v8) (c9 : inClass isWordDash v9)
    (hbad : ¬ (V1Field.dom p .ofxheader v1 ∧ V1Field.dom p .data v2 ∧ V1Field.dom p .version v3 ∧
      V1Field.dom p .security v4 ∧ V1Field.dom p .encoding v5 ∧ V1Field.dom p .charset v6 ∧
      V1Field.dom p .compression v7 ∧ V1Field.dom p .oldfileuid v8 ∧ V1Field.dom p .newfileuid v9)) :
    parseV1 p (renderLines (nine v1 v2 v3 v4 v5 v6 v7 v8 v9) ++ body) = .error .header := by
  obtain ⟨n, hn⟩ := parseV1_nine p v1 v2 v3 v4 v5 v6 v7 v8 v9 body c1 c2 c3 c4 c5 c6 c7 c8 c9
  rw [hn]
  cases hc : ctorV1 p (.str v3) (.str v1) (some v2) (some v4) (some v5) (some v6) (some v7) (some v8) (some v9) with
  | error e => rw [ctorV1_str_error _ _ _ _ _ _ _ _ _ _ _ hc]; rfl
  | ok h => exact absurd (ctorV1_str_sound p _ _ _ _ _ _ _ _ _ h c1.1 c2.1 c3.1 c4.1 c5.1 c6.1 c7.1 c8.1 c9.1 hc) hbad

/-- the value texts of a valid header lie in their classes -/
theorem valid_classes (p : V1P) (h : V1) (hv : ValidV1 p h) :
    inClass isDigit (pyStrInt h.ofxheader) ∧ inClass isDigit (pyStrInt h.version) :=
  ⟨(pyStrInt_small _ hv.oh0.1 hv.oh0.2).1, (pyStrInt_small _ hv.ver0.1 hv.ver0.2).1⟩

/-- **C12_refuse_corrupt_v1, inside the class but outside the domain**: `str(h)` of a valid header with the value
    of field `f` replaced by a text `w` that the pattern's group accepts but the field's validator does not
    (unknown DATA / SECURITY / ENCODING / CHARSET / COMPRESSION token, OFXHEADER other than 100, VERSION of more
    than three digits, UID longer than 36): header error — for every continuation `body` whatsoever -/
theorem C12_refuse_corrupt_v1_domain (p : V1P) (h : V1) (hv : ValidV1 p h) (f : V1Field) (w : Str)
    (hc : inClass f.cls w) (hd : ¬ f.dom p w) (body : Str) :
    parseV1 p (renderLines (corruptV1 h f w) ++ body) = .error .header := by
  obtain ⟨d1, d3⟩ := valid_classes p h hv
  cases f
  · exact refuse_nine p w _ _ _ _ _ _ _ _ body hc hv.data.2 d3 hv.sec.2 hv.enc.2 hv.cs.2 hv.comp.2 hv.old.1 hv.new.1
      (fun hh => hd hh.1)
  · exact refuse_nine p _ w _ _ _ _ _ _ _ body d1 hc d3 hv.sec.2 hv.enc.2 hv.cs.2 hv.comp.2 hv.old.1 hv.new.1
      (fun hh => hd hh.2.1)
  · exact refuse_nine p _ _ w _ _ _ _ _ _ body d1 hv.data.2 hc hv.sec.2 hv.enc.2 hv.cs.2 hv.comp.2 hv.old.1 hv.new.1
      (fun hh => hd hh.2.2.1)
  · exact refuse_nine p _ _ _ w _ _ _ _ _ body d1 hv.data.2 d3 hc hv.enc.2 hv.cs.2 hv.comp.2 hv.old.1 hv.new.1
      (fun hh => hd hh.2.2.2.1)
  · exact refuse_nine p _ _ _ _ w _ _ _ _ body d1 hv.data.2 d3 hv.sec.2 hc hv.cs.2 hv.comp.2 hv.old.1 hv.new.1
      (fun hh => hd hh.2.2.2.2.1)
  · exact refuse_nine p _ _ _ _ _ w _ _ _ body d1 hv.data.2 d3 hv.sec.2 hv.enc.2 hc hv.comp.2 hv.old.1 hv.new.1
      (fun hh => hd hh.2.2.2.2.2.1)
  · exact refuse_nine p _ _ _ _ _ _ w _ _ body d1 hv.data.2 d3 hv.sec.2 hv.enc.2 hv.cs.2 hc hv.old.1 hv.new.1
      (fun hh => hd hh.2.2.2.2.2.2.1)
  · exact refuse_nine p _ _ _ _ _ _ _ w _ body d1 hv.data.2 d3 hv.sec.2 hv.enc.2 hv.cs.2 hv.comp.2 hc hv.new.1
      (fun hh => hd hh.2.2.2.2.2.2.2.1)
  · exact refuse_nine p _ _ _ _ _ _ _ _ w body d1 hv.data.2 d3 hv.sec.2 hv.enc.2 hv.cs.2 hv.comp.2 hv.old.1 hc
      (fun hh => hd hh.2.2.2.2.2.2.2.2)

/-- `w` is outside the domain of field `f`, in one of the two ways the property lists -/
def OutsideV1 (p : V1P) (f : V1Field) (w : Str) : Prop :=
  (inClass f.cls w ∧ ¬ f.dom p w) ∨
  (':' ∉ w ∧ '\n' ∉ w ∧ (∀ c ∈ w, c.toNat < 128) ∧
    if f = .newfileuid then (w.dropWhile isSpace).takeWhile isWordDash = [] else ¬ inClass f.cls (strip w))

/-- **C12_refuse_corrupt_v1**: both cases together -/
theorem C12_refuse_corrupt_v1 (p : V1P) (h : V1) (hv : ValidV1 p h) (f : V1Field) (w : Str)
    (hout : OutsideV1 p f w) (body : Str) (hb : body.head? = some '<') (hmark : ¬ ofxMarker <:+: body) :
    parseV1 p (renderLines (corruptV1 h f w) ++ body) = .error .header := by
  rcases hout with ⟨hc, hd⟩ | ⟨hwc, hwl, hwa, hbad⟩
  · exact C12_refuse_corrupt_v1_domain p h hv f w hc hd body
  · exact C12_refuse_corrupt_v1_class p h hv f w hwc hwl hwa hbad body hb hmark

/-- `str(h)` itself is `corruptV1` at no field: the texts of the theorems above are single-value changes of it -/
theorem corruptV1_self (h : V1) : renderLines (corruptV1 h .data h.data) = strV1 h := by
  rw [strV1_lines]; rfl

/-! ### the last field is not anchored -/

/-- the statement one would like: *every* value text with a character outside the field's class is refused -/
def C12_refuse_corrupt_v1_full : Prop :=
  ∀ (h : V1) (f : V1Field) (w body : Str), ValidV1 pinnedV1P h → w ≠ [] → ':' ∉ w → (∀ c ∈ w, isSpace c = false) →
    (∀ c ∈ w, c.toNat < 128) → ¬ inClass f.cls w → body.head? = some '<' → ¬ ofxMarker <:+: body →
    parseV1 pinnedV1P (renderLines (corruptV1 h f w) ++ body) = .error .header

/-- the witness text `…NEWFILEUID:abc$def CRLF CRLF <OFX></OFX>` -/
def wTruncText : Str := renderLines (corruptV1 wHdr .newfileuid "abc$def".toList) ++ "<OFX></OFX>".toList

/-- false for NEWFILEUID: `NEWFILEUID:abc$def` is read as `abc` (and `$def…` is handed over with the body) -/
theorem C12_refuse_corrupt_v1_full_false : ¬ C12_refuse_corrupt_v1_full := by
  intro hf
  have h1 : parseV1 pinnedV1P wTruncText = .error .header :=
    hf wHdr .newfileuid "abc$def".toList "<OFX></OFX>".toList wHdr_valid (by decide +kernel) (by decide +kernel)
      (by decide +kernel) (by decide +kernel) (by intro h; exact absurd (h.2 '$' (by decide +kernel)) (by decide +kernel)) rfl
      (by decide +kernel)
  have hw : (match parseV1 pinnedV1P wTruncText with
      | .ok (h, _) => h.newfileuid == "abc".toList
      | .error _ => false) = true := by decide +kernel
  generalize parseV1 pinnedV1P wTruncText = T at h1 hw
  subst h1
  cases hw
/-- what happens instead, in general: the value is cut at the first character outside `[\w-]`; the header object
    carries the prefix -/
theorem C12_newfileuid_prefix_v1 (p : V1P) (h : V1) (hv : ValidV1 p h) (a b body : Str) (c : Char)
    (ha : inClass isWordDash a) (hc : isWordDash c = false) (hlen : ∀ n, p.newLen = some n → a.length ≤ n) :
    ∃ n, parseV1 p (renderLines (corruptV1 h .newfileuid (a ++ c :: b)) ++ body) =
      .ok ({ h with newfileuid := a }, n) := by
  obtain ⟨d1, d3⟩ := valid_classes p h hv
  have e0 : corruptV1 h .newfileuid (a ++ c :: b) = nine (pyStrInt h.ofxheader) h.data (pyStrInt h.version)
      h.security h.encoding h.charset h.compression h.oldfileuid (a ++ c :: b) := rfl
  have e : renderLines (corruptV1 h .newfileuid (a ++ c :: b)) ++ body =
      (nineW (pyStrInt h.ofxheader) h.data (pyStrInt h.version) h.security h.encoding h.charset h.compression
        h.oldfileuid a).text (c :: (b ++ (crlf ++ (crlf ++ body)))) := by
    rw [e0]
    simp [renderLines, nine, names9, linesOf, NF, V1W.text, V1W.compText, nineW, fld, crlf]
  rw [e, parseV1_nineW p _ _ _ _ _ _ _ _ _ _ d1 hv.data.2 d3 hv.sec.2 hv.enc.2 hv.cs.2 hv.comp.2 hv.old.1 ha
    (by intro x hx; simp at hx; subst hx; exact hc)]
  have hv' : ValidV1 p { h with newfileuid := a } :=
    { oh0 := hv.oh0, oh := hv.oh, data := hv.data, ver0 := hv.ver0, ver := hv.ver, sec := hv.sec, enc := hv.enc,
      cs := hv.cs, comp := hv.comp, old := hv.old, new := ⟨ha, hlen⟩ }
  have := ctorV1_valid p { h with newfileuid := a } hv' (some h.compression) (Or.inl rfl)
  simp only at this
  rw [this]
  exact ⟨_, rfl⟩


/-! ## v2 -/

def names5 : List Str :=
  ["OFXHEADER".toList, "VERSION".toList, "SECURITY".toList, "OLDFILEUID".toList, "NEWFILEUID".toList]

/-- the text `OFXHeaderV2.__str__` writes around a list of attributes -/
def renderAttrs (avs : List AV) : Str := xmlDecl ++ (crlf ++ (ofxDecl avs "?>".toList ++ crlf))

def v2Vals (h : V2) : List Str :=
  [pyStrInt h.ofxheader, pyStrInt h.version, h.security, h.oldfileuid, h.newfileuid]

def v2AVs (h : V2) : List AV := names5.zip (v2Vals h)

theorem strV2_attrs (h : V2) : strV2 h = renderAttrs (v2AVs h) := by
  simp [strV2, renderAttrs, ofxDecl, v2AVs, names5, v2Vals, AF, attr, join, crlf,
    show "<?OFX ".toList = "<?OFX".toList ++ [' '] by decide, show "=\"".toList = ['=', '"'] by decide,
    show "\"".toList = ['"'] by decide, show " ".toList = [' '] by decide]

/-- the accepted shape: exactly the five attributes in order, every value wholly inside its class -/
def V2Shape (avs : List AV) : Prop :=
  ∃ v1 v2 v3 v4 v5, avs = [("OFXHEADER".toList, v1), ("VERSION".toList, v2), ("SECURITY".toList, v3),
      ("OLDFILEUID".toList, v4), ("NEWFILEUID".toList, v5)] ∧
    inClass isDigit v1 ∧ inClass isDigit v2 ∧ inClass isWord v3 ∧ inClass isWordDash v4 ∧ inClass isWordDash v5

theorem xmlDecl_split : xmlDecl = '<' :: '?' :: 'x' :: xmlDecl.drop 3 := by decide +kernel

theorem xmlDecl_noLt : '<' ∉ '?' :: 'x' :: xmlDecl.drop 3 := by decide +kernel

/-- the search reaches the OFX declaration -/
theorem reSearch_renderAttrs (avs : List AV) (body : Str) :
    reSearch v2Regex (renderAttrs avs ++ body) = reSearch v2Regex (ofxDecl avs ("?>".toList ++ (crlf ++ body))) := by
  have e : renderAttrs avs ++ body =
      '<' :: '?' :: 'x' :: (xmlDecl.drop 3 ++ (crlf ++ ofxDecl avs ("?>".toList ++ (crlf ++ body)))) := by
    rw [renderAttrs]
    conv => lhs; rw [xmlDecl_split]
    simp [ofxDecl, AF_append]
  rw [e, reSearch_skip_xml]
  have e2 : '?' :: 'x' :: (xmlDecl.drop 3 ++ (crlf ++ ofxDecl avs ("?>".toList ++ (crlf ++ body)))) =
      ('?' :: 'x' :: xmlDecl.drop 3) ++ (crlf ++ ofxDecl avs ("?>".toList ++ (crlf ++ body))) := by simp
  rw [e2, reSearch_skip_noLt _ _ xmlDecl_noLt, reSearch_skip_noLt _ _ (by decide)]

/-- **general refusal (v2)**: the XML declaration, then `<?OFX` with any list of `NAME="value"` attributes (names
    without `=`, `<`, not starting with `?` or whitespace; values without `"` and `<`), `?>`, CRLF and a body that
    does not contain `<?OFX`: header error unless the attributes are exactly the five, in order, each value inside
    its class -/
theorem C12_refuse_attrs_v2 (p : V2P) (avs : List AV) (body : Str) (hgood : ∀ a ∈ avs, GoodAV a)
    (hmark : ¬ ofxOpen <:+: body) (hshape : ¬ V2Shape avs) :
    parseV2 p (renderAttrs avs ++ body) = .error .header := by
  apply C12_refuse_text_nomatch_v2
  rw [reSearch_renderAttrs]
  have hR : ∀ c ∈ ("?>".toList ++ (crlf ++ body)).head?, c = '?' := by
    intro c hc; simp at hc; exact hc.symm
  have hm : reMatch v2Regex (ofxDecl avs ("?>".toList ++ (crlf ++ body))) = none := by
    cases hm : reMatch v2Regex (ofxDecl avs ("?>".toList ++ (crlf ++ body))) with
    | none => rfl
    | some r => exact absurd (v2_match_inv avs _ r hgood hR hm) hshape
  have e : ofxDecl avs ("?>".toList ++ (crlf ++ body)) =
      '<' :: (('?' :: 'O' :: 'F' :: 'X' :: ' ' :: AF avs ("?>".toList ++ crlf)) ++ body) := by
    simp [ofxDecl, AF_append]
  rw [e, reSearch, ← e, hm]
  rw [reSearch_skip_noLt]
  · exact reSearch_v2_none body hmark
  · have := AF_noLt avs ("?>".toList ++ crlf) hgood (by decide)
    simp only [List.mem_cons, not_or]
    exact ⟨by decide, by decide, by decide, by decide, by decide, this⟩


theorem V2Shape.names {avs : List AV} (h : V2Shape avs) : avs.map Prod.fst = names5 := by
  obtain ⟨v1, v2, v3, v4, v5, e, _⟩ := h
  subst e; rfl

theorem v2AVs_names (h : V2) : (v2AVs h).map Prod.fst = names5 := by
  simp [v2AVs, names5, v2Vals]

theorem goodAV_of_class (n v : Str) (hn : n ∈ names5) (hv : inClass isWordDash v) : GoodAV (n, v) := by
  have key : ∀ n ∈ names5, n ≠ [] ∧ '=' ∉ n ∧ (∀ c ∈ n.head?, isSpace c = false ∧ c ≠ '?') ∧ '<' ∉ n := by
    decide +kernel
  obtain ⟨k1, k2, k3, k4⟩ := key n hn
  exact ⟨k1, k2, k3, k4, fun h => absurd (hv.2 _ h) (by decide), fun h => absurd (hv.2 _ h) (by decide),
    fun c hc => wordDash_ascii c (hv.2 c hc)⟩

theorem v2AVs_good (p : V2P) (h : V2) (hv : ValidV2 p h) : ∀ a ∈ v2AVs h, GoodAV a := by
  have d1 := (pyStrInt_small _ hv.oh0.1 hv.oh0.2).1
  have d2 := (pyStrInt_small _ hv.ver0.1 hv.ver0.2).1
  intro a ha
  simp only [v2AVs, names5, v2Vals, List.zip_cons_cons, List.zip_nil_right, List.mem_cons, List.not_mem_nil,
    or_false] at ha
  rcases ha with h | h | h | h | h <;> subst h <;> apply goodAV_of_class _ _ (by decide)
  · exact inClass_mono digit_wordDash d1
  · exact inClass_mono digit_wordDash d2
  · exact inClass_mono word_wordDash hv.sec.2
  · exact hv.old.1
  · exact hv.new.1

/-- **C12_refuse_omit_field_v2**: `str(h)` of a valid v2 header with attribute `i` left out -/
theorem C12_refuse_omit_field_v2 (p : V2P) (h : V2) (hv : ValidV2 p h) (i : Nat) (hi : i < 5)
    (body : Str) (hmark : ¬ ofxOpen <:+: body) :
    parseV2 p (renderAttrs ((v2AVs h).eraseIdx i) ++ body) = .error .header := by
  apply C12_refuse_attrs_v2 p _ body (fun a ha => v2AVs_good p h hv a (List.mem_of_mem_eraseIdx ha)) hmark
  intro hsh
  have := hsh.names
  rw [map_eraseIdx, v2AVs_names] at this
  have key : ∀ i, i < 5 → names5.eraseIdx i ≠ names5 := by decide +kernel
  exact key i hi this

/-- **C12_refuse_swap_fields_v2**: `str(h)` of a valid v2 header with attributes `i`, `i+1` transposed -/
theorem C12_refuse_swap_fields_v2 (p : V2P) (h : V2) (hv : ValidV2 p h) (i : Nat) (hi : i < 4)
    (body : Str) (hmark : ¬ ofxOpen <:+: body) :
    parseV2 p (renderAttrs (swapAt i (v2AVs h)) ++ body) = .error .header := by
  apply C12_refuse_attrs_v2 p _ body (fun a ha => v2AVs_good p h hv a (mem_swapAt _ _ ha)) hmark
  intro hsh
  have := hsh.names
  rw [swapAt_map, v2AVs_names] at this
  have key : ∀ i, i < 4 → swapAt i names5 ≠ names5 := by decide +kernel
  exact key i hi this

/-- any list of attributes whose names are not exactly the five, in order (omission, duplication, reordering) -/
theorem C12_refuse_names_v2 (p : V2P) (avs : List AV) (body : Str) (hgood : ∀ a ∈ avs, GoodAV a)
    (hmark : ¬ ofxOpen <:+: body) (hn : avs.map Prod.fst ≠ names5) :
    parseV2 p (renderAttrs avs ++ body) = .error .header :=
  C12_refuse_attrs_v2 p avs body hgood hmark (fun hsh => hn hsh.names)

inductive V2Field where
  | ofxheader | version | security | oldfileuid | newfileuid
  deriving DecidableEq, Repr

def V2Field.idx : V2Field → Nat
  | .ofxheader => 0 | .version => 1 | .security => 2 | .oldfileuid => 3 | .newfileuid => 4

def V2Field.name : V2Field → Str
  | .ofxheader => "OFXHEADER".toList | .version => "VERSION".toList | .security => "SECURITY".toList
  | .oldfileuid => "OLDFILEUID".toList | .newfileuid => "NEWFILEUID".toList

def V2Field.cls : V2Field → Char → Bool
  | .ofxheader => isDigit | .version => isDigit | .security => isWord
  | .oldfileuid => isWordDash | .newfileuid => isWordDash

def corruptV2 (h : V2) (f : V2Field) (w : Str) : List AV := (v2AVs h).set f.idx (f.name, w)

theorem V2Shape.cls {avs : List AV} (hsh : V2Shape avs) (f : V2Field) (w : Str) (hm : (f.name, w) ∈ avs) :
    inClass f.cls w := by
  obtain ⟨v1, v2, v3, v4, v5, e, c1, c2, c3, c4, c5⟩ := hsh
  subst e
  simp only [List.mem_cons, List.not_mem_nil, or_false, Prod.mk.injEq] at hm
  have hne0 : ∀ f g : V2Field, g ≠ f → g.name ≠ f.name := by
    intro f g; cases f <;> cases g <;> decide
  have hne := hne0 f
  rcases hm with ⟨hn, hw⟩ | ⟨hn, hw⟩ | ⟨hn, hw⟩ | ⟨hn, hw⟩ | ⟨hn, hw⟩
  · have : f = .ofxheader := by
      cases hf : decide (f = .ofxheader) with
      | true => exact of_decide_eq_true hf
      | false => exact absurd hn.symm (hne .ofxheader (fun e => by rw [e] at hf; simp at hf))
    subst this hw; exact c1
  · have : f = .version := by
      cases hf : decide (f = .version) with
      | true => exact of_decide_eq_true hf
      | false => exact absurd hn.symm (hne .version (fun e => by rw [e] at hf; simp at hf))
    subst this hw; exact c2
  · have : f = .security := by
      cases hf : decide (f = .security) with
      | true => exact of_decide_eq_true hf
      | false => exact absurd hn.symm (hne .security (fun e => by rw [e] at hf; simp at hf))
    subst this hw; exact c3
  · have : f = .oldfileuid := by
      cases hf : decide (f = .oldfileuid) with
      | true => exact of_decide_eq_true hf
      | false => exact absurd hn.symm (hne .oldfileuid (fun e => by rw [e] at hf; simp at hf))
    subst this hw; exact c4
  · have : f = .newfileuid := by
      cases hf : decide (f = .newfileuid) with
      | true => exact of_decide_eq_true hf
      | false => exact absurd hn.symm (hne .newfileuid (fun e => by rw [e] at hf; simp at hf))
    subst this hw; exact c5

theorem mem_corruptV2 (h : V2) (f : V2Field) (w : Str) : (f.name, w) ∈ corruptV2 h f w := by
  have hl : f.idx < (v2AVs h).length := by cases f <;> simp [v2AVs, names5, v2Vals, V2Field.idx]
  have := List.getElem_mem (l := (v2AVs h).set f.idx (f.name, w)) (n := f.idx) (by simpa using hl)
  rwa [List.getElem_set_self] at this

/-- **C12_refuse_corrupt_v2, a character outside the class**: `str(h)` of a valid v2 header with the value of any
    attribute replaced by a text `w` (without `"` and `<`) that is not wholly inside the attribute's character
    class — in particular the empty text, a text with whitespace, a text with any other character -/
theorem C12_refuse_corrupt_v2_class (p : V2P) (h : V2) (hv : ValidV2 p h) (f : V2Field) (w : Str)
    (hq : '"' ∉ w) (hlt : '<' ∉ w) (hwa : ∀ c ∈ w, c.toNat < 128) (hbad : ¬ inClass f.cls w) (body : Str)
    (hmark : ¬ ofxOpen <:+: body) :
    parseV2 p (renderAttrs (corruptV2 h f w) ++ body) = .error .header := by
  refine C12_refuse_attrs_v2 p (corruptV2 h f w) body ?_ hmark ?_
  rotate_left
  · intro hsh
    exact hbad (hsh.cls f w (mem_corruptV2 h f w))
  · intro a ha
    rcases List.mem_or_eq_of_mem_set ha with h1 | h1
    · exact v2AVs_good p h hv a h1
    · subst h1
      have key : ∀ n ∈ names5, n ≠ [] ∧ '=' ∉ n ∧ (∀ c ∈ n.head?, isSpace c = false ∧ c ≠ '?') ∧ '<' ∉ n := by
        decide +kernel
      obtain ⟨k1, k2, k3, k4⟩ := key f.name (by cases f <;> decide)
      exact ⟨k1, k2, k3, k4, hq, hlt, hwa⟩


/-! ### v2: a value inside the class but outside the domain -/

def five (v1 v2 v3 v4 v5 : Str) : List AV := names5.zip [v1, v2, v3, v4, v5]

theorem five_text (v1 v2 v3 v4 v5 body : Str) :
    ofxDecl (five v1 v2 v3 v4 v5) ("?>".toList ++ (crlf ++ body)) =
      ofxNF [' '] v1 [' '] v2 [' '] v3 [' '] v4 [' '] v5 [] (crlf ++ body.takeWhile isSpace) (body.dropWhile isSpace)
        '"' '"' '"' '"' '"' := by
  have hb : body = body.takeWhile isSpace ++ body.dropWhile isSpace := List.takeWhile_append_dropWhile.symm
  conv => lhs; rw [hb]
  simp [ofxDecl, five, names5, AF, ofxNF,
    show "OFXHEADER=".toList = "OFXHEADER".toList ++ ['='] by decide,
    show "VERSION=".toList = "VERSION".toList ++ ['='] by decide,
    show "SECURITY=".toList = "SECURITY".toList ++ ['='] by decide,
    show "OLDFILEUID=".toList = "OLDFILEUID".toList ++ ['='] by decide,
    show "NEWFILEUID=".toList = "NEWFILEUID".toList ++ ['='] by decide]

/-- on five attributes whose values lie in their classes the pattern matches and the constructor decides -/
theorem parseV2_five (p : V2P) (v1 v2 v3 v4 v5 body : Str)
    (c1 : inClass isDigit v1) (c2 : inClass isDigit v2) (c3 : inClass isWord v3) (c4 : inClass isWordDash v4)
    (c5 : inClass isWordDash v5) :
    ∃ n, parseV2 p (renderAttrs (five v1 v2 v3 v4 v5) ++ body) =
      (ctorV2 p (.str v2) (.str v1) (some v3) (some v4) (some v5) >>= fun h => pure (h, n)) := by
  have sp : allSpace [' '] := by intro c hc; simp at hc; subst hc; decide
  have hg : allSpace (crlf ++ body.takeWhile isSpace) := by
    intro c hc
    rcases List.mem_append.1 hc with hc | hc
    · exact crlf_space c hc
    · exact takeWhile_all isSpace body c hc
  have hm := reSearch_of_match _ _ _ (v2_match [' '] v1 [' '] v2 [' '] v3 [' '] v4 [' '] v5 []
    (crlf ++ body.takeWhile isSpace) (body.dropWhile isSpace) .dq .dq .dq .dq .dq (by simp) sp (by simp) sp
    (by simp) sp (by simp) sp (by simp) sp allSpace_nil hg c1 c2 c3 c4 c5 (head_dropWhile_space body))
  refine ⟨(renderAttrs (five v1 v2 v3 v4 v5) ++ body).length - (body.dropWhile isSpace).length, ?_⟩
  rw [parseV2, reSearch_renderAttrs, five_text]
  simp only [Spec.HeaderLayout.Quote.ch] at hm
  rw [hm]

theorem ctorV2_str_error (p : V2P) (ver oh : Str) (s o n : Option Str) (err : Err)
    (h : ctorV2 p (.str ver) (.str oh) s o n = .error err) : err = .header := by
  unfold ctorV2 at h
  refine VS_wrap _ ?_ err h
  refine VS_bind _ _ (VS_toInt_str' _) fun _ => ?_
  refine VS_bind _ _ (VS_oneOfInt _ _) fun _ => ?_
  refine VS_bind _ _ (VS_toInt_str _ _ ⟨_, rfl⟩) fun _ => ?_
  refine VS_bind _ _ (VS_oneOfInt _ _) fun _ => ?_
  refine VS_bind _ _ (VS_oneOfStr _ _) fun _ => ?_
  refine VS_bind _ _ (VS_stringConv _ _) fun _ => ?_
  refine VS_bind _ _ (VS_stringConv _ _) fun _ => ?_
  exact VS_pure _

def V2Field.dom (p : V2P) : V2Field → Str → Prop
  | .ofxheader, w => ∃ i, intOfStr w = some i ∧ pyStrInt i ∈ p.ofxheader
  | .version, w => ∃ i, intOfStr w = some i ∧ pyStrInt i ∈ p.version
  | .security, w => w ∈ p.security
  | .oldfileuid, w => ∀ k, p.oldLen = some k → (unescape w).length ≤ k
  | .newfileuid, w => ∀ k, p.newLen = some k → (unescape w).length ≤ k

theorem ctorV2_str_sound (p : V2P) (v1 v2 v3 v4 v5 : Str) (h : V2)
    (n1 : v1 ≠ []) (n3 : v3 ≠ []) (n4 : v4 ≠ []) (n5 : v5 ≠ [])
    (hk : ctorV2 p (.str v2) (.str v1) (some v3) (some v4) (some v5) = .ok h) :
    V2Field.dom p .ofxheader v1 ∧ V2Field.dom p .version v2 ∧ V2Field.dom p .security v3 ∧
    V2Field.dom p .oldfileuid v4 ∧ V2Field.dom p .newfileuid v5 := by
  unfold ctorV2 at hk
  rw [wrap_ok] at hk
  simp only [bind_ok, orElse_str _ _ n1, orStr_some _ _ n3, orStr_some _ _ n4, orStr_some _ _ n5] at hk
  obtain ⟨a1, h1, a2, h2, a3, h3, a4, h4, a5, h5, a6, h6, a7, h7, _⟩ := hk
  obtain ⟨m2, e2⟩ := oneOfInt_ok _ _ _ h2
  obtain ⟨m4, e4⟩ := oneOfInt_ok _ _ _ h4
  obtain ⟨m5, _⟩ := oneOfStr_ok _ _ _ h5
  obtain ⟨e6, m6⟩ := stringConv_ok _ _ _ h6
  obtain ⟨e7, m7⟩ := stringConv_ok _ _ _ h7
  exact ⟨⟨a3, toInt_str_ok _ _ h3, m4⟩, ⟨a1, toInt_str_ok _ _ h1, m2⟩, m5,
    fun k hk => e6 ▸ m6 k hk, fun k hk => e7 ▸ m7 k hk⟩

theorem refuse_five (p : V2P) (v1 v2 v3 v4 v5 body : Str)
    (c1 : inClass isDigit v1) (c2 : inClass isDigit v2) (c3 : inClass isWord v3) (c4 : inClass isWordDash v4)
    (c5 : inClass isWordDash v5)
    (hbad : ¬ (V2Field.dom p .ofxheader v1 ∧ V2Field.dom p .version v2 ∧ V2Field.dom p .security v3 ∧
      V2Field.dom p .oldfileuid v4 ∧ V2Field.dom p .newfileuid v5)) :
    parseV2 p (renderAttrs (five v1 v2 v3 v4 v5) ++ body) = .error .header := by
  obtain ⟨n, hn⟩ := parseV2_five p v1 v2 v3 v4 v5 body c1 c2 c3 c4 c5
  rw [hn]
  cases hc : ctorV2 p (.str v2) (.str v1) (some v3) (some v4) (some v5) with
  | error e => rw [ctorV2_str_error _ _ _ _ _ _ _ hc]; rfl
  | ok h => exact absurd (ctorV2_str_sound p _ _ _ _ _ h c1.1 c3.1 c4.1 c5.1 hc) hbad

/-- **C12_refuse_corrupt_v2, inside the class but outside the domain**: unknown SECURITY token, OFXHEADER other
    than 200, VERSION not one of the seven listed, UID longer than 36 — header error, for every body -/
theorem C12_refuse_corrupt_v2_domain (p : V2P) (h : V2) (hv : ValidV2 p h) (f : V2Field) (w : Str)
    (hc : inClass f.cls w) (hd : ¬ f.dom p w) (body : Str) :
    parseV2 p (renderAttrs (corruptV2 h f w) ++ body) = .error .header := by
  have d1 := (pyStrInt_small _ hv.oh0.1 hv.oh0.2).1
  have d2 := (pyStrInt_small _ hv.ver0.1 hv.ver0.2).1
  cases f
  · exact refuse_five p w _ _ _ _ body hc d2 hv.sec.2 hv.old.1 hv.new.1 (fun hh => hd hh.1)
  · exact refuse_five p _ w _ _ _ body d1 hc hv.sec.2 hv.old.1 hv.new.1 (fun hh => hd hh.2.1)
  · exact refuse_five p _ _ w _ _ body d1 d2 hc hv.old.1 hv.new.1 (fun hh => hd hh.2.2.1)
  · exact refuse_five p _ _ _ w _ body d1 d2 hv.sec.2 hc hv.new.1 (fun hh => hd hh.2.2.2.1)
  · exact refuse_five p _ _ _ _ w body d1 d2 hv.sec.2 hv.old.1 hc (fun hh => hd hh.2.2.2.2)

/-- `w` is outside the domain of attribute `f`, in one of the two ways -/
def OutsideV2 (p : V2P) (f : V2Field) (w : Str) : Prop :=
  (inClass f.cls w ∧ ¬ f.dom p w) ∨ ('"' ∉ w ∧ '<' ∉ w ∧ (∀ c ∈ w, c.toNat < 128) ∧ ¬ inClass f.cls w)

/-- **C12_refuse_corrupt_v2**: both cases together -/
theorem C12_refuse_corrupt_v2 (p : V2P) (h : V2) (hv : ValidV2 p h) (f : V2Field) (w : Str)
    (hout : OutsideV2 p f w) (body : Str) (hmark : ¬ ofxOpen <:+: body) :
    parseV2 p (renderAttrs (corruptV2 h f w) ++ body) = .error .header := by
  rcases hout with ⟨hc, hd⟩ | ⟨hq, hlt, hwa, hbad⟩
  · exact C12_refuse_corrupt_v2_domain p h hv f w hc hd body
  · exact C12_refuse_corrupt_v2_class p h hv f w hq hlt hwa hbad body hmark


/-! ### the guards are satisfiable -/

theorem wHdr2_valid : ValidV2 pinnedV2P
    { version := 220, ofxheader := 200, security := "NONE".toList, oldfileuid := "NONE".toList,
      newfileuid := "NONE".toList } := by
  refine ⟨⟨by decide, by decide⟩, by decide, ⟨by decide, by decide⟩, by decide, ⟨by decide, by decide, by decide⟩,
    ⟨⟨by decide, by decide⟩, ?_⟩, ⟨⟨by decide, by decide⟩, ?_⟩⟩
  · intro n hn; cases hn; decide
  · intro n hn; cases hn; decide

/-- body hypotheses of the v1 theorems: a body that starts with `<` and does not contain `OFXHEADER:` -/
example : "<OFX><X>a:b</X></OFX>".toList.head? = some '<' ∧ ¬ ofxMarker <:+: "<OFX><X>a:b</X></OFX>".toList := by
  decide +kernel

/-- values outside the class: a foreign character, lower case, whitespace inside, the empty text -/
example : OutsideV1 pinnedV1P .data "OFX$GML".toList ∧ OutsideV1 pinnedV1P .encoding "usascii".toList ∧
    OutsideV1 pinnedV1P .data "OFX SGML".toList ∧ OutsideV1 pinnedV1P .security [] := by
  refine ⟨Or.inr ⟨by decide +kernel, by decide +kernel, by decide +kernel, ?_⟩,
    Or.inr ⟨by decide +kernel, by decide +kernel, by decide +kernel, ?_⟩,
    Or.inr ⟨by decide +kernel, by decide +kernel, by decide +kernel, ?_⟩,
    Or.inr ⟨by decide, by decide, by decide, ?_⟩⟩
  · simp only [reduceCtorEq, if_false]
    have e : strip "OFX$GML".toList = "OFX$GML".toList := by decide +kernel
    rw [e]; intro h; exact absurd (h.2 '$' (by decide +kernel)) (by decide +kernel)
  · simp only [reduceCtorEq, if_false]
    have e : strip "usascii".toList = "usascii".toList := by decide +kernel
    rw [e]; intro h; exact absurd (h.2 'u' (by decide +kernel)) (by decide +kernel)
  · simp only [reduceCtorEq, if_false]
    have e : strip "OFX SGML".toList = "OFX SGML".toList := by decide +kernel
    rw [e]; intro h; exact absurd (h.2 ' ' (by decide +kernel)) (by decide +kernel)
  · simp only [reduceCtorEq, if_false]
    have e : strip ([] : Str) = [] := by decide +kernel
    rw [e]; intro h; exact h.1 rfl

/-- … and values inside the class but outside the domain: an unknown DATA token, a four-digit VERSION, a UID of 37
    characters -/
example : OutsideV1 pinnedV1P .data "OFXXML".toList ∧ OutsideV1 pinnedV1P .version "1020".toList ∧
    OutsideV1 pinnedV1P .oldfileuid (List.replicate 37 'a') := by
  refine ⟨Or.inl ⟨⟨by decide, by decide +kernel⟩, ?_⟩, Or.inl ⟨⟨by decide, by decide +kernel⟩, ?_⟩,
    Or.inl ⟨⟨by decide, by decide +kernel⟩, ?_⟩⟩
  · show ¬ ("OFXXML".toList ∈ pinnedV1P.data); decide +kernel
  · rintro ⟨i, hi, hk⟩
    have e : intOfStr "1020".toList = some 1020 := by decide +kernel
    rw [e] at hi; cases hi
    exact absurd (hk 3 rfl) (by decide)
  · intro hk
    have := hk 36 rfl
    rw [unescape_noamp _ (by decide +kernel)] at this
    simp at this

/-- v2: a value with a blank, the empty value, an unlisted VERSION -/
example : OutsideV2 pinnedV2P .security "NO NE".toList ∧ OutsideV2 pinnedV2P .oldfileuid [] ∧
    OutsideV2 pinnedV2P .version "230".toList := by
  refine ⟨Or.inr ⟨by decide +kernel, by decide +kernel, by decide +kernel, ?_⟩,
    Or.inr ⟨by decide, by decide, by decide, fun h => h.1 rfl⟩,
    Or.inl ⟨⟨by decide, by decide +kernel⟩, ?_⟩⟩
  · intro h; exact absurd (h.2 ' ' (by decide +kernel)) (by decide +kernel)
  · rintro ⟨i, hi, hk⟩
    have e : intOfStr "230".toList = some 230 := by decide +kernel
    rw [e] at hi; cases hi
    revert hk; decide +kernel

/-- the concrete texts: `str(h)` with DATA left out, and with DATA and VERSION transposed -/
example : renderLines ((v1NVs wHdr).eraseIdx 1) =
    ("OFXHEADER:100\r\nVERSION:102\r\nSECURITY:NONE\r\nENCODING:USASCII\r\nCHARSET:NONE\r\nCOMPRESSION:NONE\r\n" ++
     "OLDFILEUID:NONE\r\nNEWFILEUID:NONE\r\n\r\n").toList ∧
    renderLines (swapAt 1 (v1NVs wHdr)) =
    ("OFXHEADER:100\r\nVERSION:102\r\nDATA:OFXSGML\r\nSECURITY:NONE\r\nENCODING:USASCII\r\nCHARSET:NONE\r\n" ++
     "COMPRESSION:NONE\r\nOLDFILEUID:NONE\r\nNEWFILEUID:NONE\r\n\r\n").toList := by
  decide +kernel


/-! ### the same through `parse_header` (bytes): v2 -/

theorem isAscii_AF (avs : List AV) (R : Str) (h : ∀ a ∈ avs, GoodAV a) (hn : ∀ a ∈ avs, isAscii a.1)
    (hR : isAscii R) : isAscii (AF avs R) := by
  induction avs with
  | nil => exact hR
  | cons a rest ih =>
    have g := h a (by simp)
    have ih' := ih (fun x hx => h x (by simp [hx])) (fun x hx => hn x (by simp [hx]))
    have hq : ('"').toNat < 128 := by decide
    have he : ('=').toNat < 128 := by decide
    have hs : (' ').toNat < 128 := by decide
    cases rest with
    | nil =>
      simp only [AF]
      exact isAscii_append.2 ⟨hn a (by simp), isAscii_cons.2 ⟨he, isAscii_cons.2 ⟨hq,
        isAscii_append.2 ⟨g.val_ascii, isAscii_cons.2 ⟨hq, hR⟩⟩⟩⟩⟩
    | cons b l =>
      simp only [AF]
      exact isAscii_append.2 ⟨hn a (by simp), isAscii_cons.2 ⟨he, isAscii_cons.2 ⟨hq,
        isAscii_append.2 ⟨g.val_ascii, isAscii_cons.2 ⟨hq, isAscii_cons.2 ⟨hs, ih'⟩⟩⟩⟩⟩⟩

/-- the first line of every file `renderAttrs` starts: the XML declaration and its CRLF -/
def xmlLine : Str := xmlDecl ++ crlf

theorem xmlLine_facts : isAscii (xmlDecl ++ ['\r']) ∧ hasLF (xmlDecl ++ ['\r']) = false ∧
    (strip xmlLine).isEmpty = false ∧ (reMatch xmlRegex xmlLine).isSome = true := by
  refine ⟨?_, by decide +kernel, by decide +kernel, by decide +kernel⟩
  have : ∀ c ∈ xmlDecl ++ ['\r'], c.toNat < 128 := by decide +kernel
  exact this

/-- `parse_header` on the bytes of `renderAttrs avs` and a UTF-8 body refuses whatever `OFXHeaderV2.parse` refuses
    on the text -/
theorem parseHeader_attrs_of_text (p1 : V1P) (p2 : V2P) (tbl : List (Option Nat)) (avs : List AV) (body : Str)
    (bb : Bytes) (hgood : ∀ a ∈ avs, GoodAV a) (hnames : ∀ a ∈ avs, isAscii a.1)
    (henc : encode tbl .utf8 body = .ok bb)
    (hparse : parseV2 p2 (renderAttrs avs ++ body) = .error .header) :
    parseHeader p1 p2 tbl (asciiBytes (renderAttrs avs) ++ bb) = .error .header := by
  obtain ⟨hxa, hxl, hxs, hxm⟩ := xmlLine_facts
  let T : Str := ofxDecl avs "?>".toList ++ crlf
  have hT : isAscii T := by
    refine isAscii_append.2 ⟨isAscii_append.2 ⟨by unfold isAscii; decide, isAscii_cons.2 ⟨by decide, ?_⟩⟩,
      by unfold isAscii crlf; decide⟩
    exact isAscii_AF avs _ hgood hnames (by unfold isAscii; decide)
  have hfile : asciiBytes (renderAttrs avs) ++ bb =
      asciiBytes (xmlDecl ++ ['\r']) ++ (10 :: (asciiBytes T ++ bb)) := by
    have : renderAttrs avs = (xmlDecl ++ ['\r']) ++ ('\n' :: T) := by simp [renderAttrs, crlf, T]
    rw [this, asciiBytes_append]
    simp [asciiBytes, byteOf_10]
  have hline : splitLine (asciiBytes (renderAttrs avs) ++ bb) = asciiBytes xmlLine := by
    rw [hfile, splitLine_noLF _ _ hxa hxl, splitLine_cons, if_pos rfl]
    have : xmlLine = (xmlDecl ++ ['\r']) ++ ['\n'] := by simp [xmlLine, crlf]
    rw [this, asciiBytes_append]
    simp [asciiBytes, byteOf_10]
  have hxla : isAscii xmlLine := by
    have : xmlLine = (xmlDecl ++ ['\r']) ++ ['\n'] := by simp [xmlLine, crlf]
    rw [this]
    exact isAscii_append.2 ⟨hxa, by unfold isAscii; decide⟩
  have hfind : findHeader (asciiBytes (renderAttrs avs) ++ bb) 8 0 = .ok (0, xmlLine, 0 + (asciiBytes xmlLine).length) := by
    rw [findHeader]
    simp only [readline, List.drop_zero, hline,
      show decodeAsciiReplace (asciiBytes xmlLine) = xmlLine from chars_asciiBytes _ hxla, hxs]
    rfl
  obtain ⟨xr, hxml⟩ := Option.isSome_iff_exists.1 hxm
  have hra : isAscii (renderAttrs avs) := by
    have : renderAttrs avs = (xmlDecl ++ ['\r']) ++ ('\n' :: T) := by simp [renderAttrs, crlf, T]
    rw [this]
    exact isAscii_append.2 ⟨hxa, isAscii_cons.2 ⟨by decide, hT⟩⟩
  have hdec : decodeUtf8 (asciiBytes (renderAttrs avs) ++ bb) = .ok (renderAttrs avs ++ body) := by
    rw [decodeUtf8_asciiBytes_append _ hra]
    have := decode_encode tbl .utf8 body bb henc
    simp only [decode] at this
    rw [this]
    rfl
  unfold parseHeader
  simp only [hfind, bind, Except.bind, hxml, hdec, hparse]

/-- **general refusal (v2) through `parse_header`**: the bytes of the text of `C12_refuse_attrs_v2`, the body
    UTF-8 encoded -/
theorem C12_refuse_attrs_v2_file (p1 : V1P) (p2 : V2P) (tbl : List (Option Nat)) (avs : List AV) (body : Str)
    (bb : Bytes) (hgood : ∀ a ∈ avs, GoodAV a) (hnames : ∀ a ∈ avs, isAscii a.1)
    (henc : encode tbl .utf8 body = .ok bb) (hmark : ¬ ofxOpen <:+: body) (hshape : ¬ V2Shape avs) :
    parseHeader p1 p2 tbl (asciiBytes (renderAttrs avs) ++ bb) = .error .header :=
  parseHeader_attrs_of_text p1 p2 tbl avs body bb hgood hnames henc
    (C12_refuse_attrs_v2 p2 avs body hgood hmark hshape)

theorem names5_ascii : ∀ n ∈ names5, isAscii n := by
  have : ∀ n ∈ names5, ∀ c ∈ n, c.toNat < 128 := by decide +kernel
  exact this

/-- … so for the omission / transposition / corruption of a valid v2 header, through `parse_header` -/
theorem C12_refuse_omit_field_v2_file (p1 : V1P) (p2 : V2P) (tbl : List (Option Nat)) (h : V2) (hv : ValidV2 p2 h)
    (i : Nat) (hi : i < 5) (body : Str) (bb : Bytes) (henc : encode tbl .utf8 body = .ok bb)
    (hmark : ¬ ofxOpen <:+: body) :
    parseHeader p1 p2 tbl (asciiBytes (renderAttrs ((v2AVs h).eraseIdx i)) ++ bb) = .error .header := by
  have key := names5_ascii
  apply C12_refuse_attrs_v2_file p1 p2 tbl _ body bb
    (fun a ha => v2AVs_good p2 h hv a (List.mem_of_mem_eraseIdx ha)) ?_ henc hmark
  · intro hsh
    have := hsh.names
    rw [map_eraseIdx, v2AVs_names] at this
    have key : ∀ i, i < 5 → names5.eraseIdx i ≠ names5 := by decide +kernel
    exact key i hi this
  · intro a ha
    have hm : a.1 ∈ (v2AVs h).map Prod.fst := List.mem_map_of_mem (List.mem_of_mem_eraseIdx ha)
    rw [v2AVs_names] at hm
    exact key _ hm

theorem C12_refuse_swap_fields_v2_file (p1 : V1P) (p2 : V2P) (tbl : List (Option Nat)) (h : V2) (hv : ValidV2 p2 h)
    (i : Nat) (hi : i < 4) (body : Str) (bb : Bytes) (henc : encode tbl .utf8 body = .ok bb)
    (hmark : ¬ ofxOpen <:+: body) :
    parseHeader p1 p2 tbl (asciiBytes (renderAttrs (swapAt i (v2AVs h))) ++ bb) = .error .header := by
  have key := names5_ascii
  apply C12_refuse_attrs_v2_file p1 p2 tbl _ body bb
    (fun a ha => v2AVs_good p2 h hv a (mem_swapAt _ _ ha)) ?_ henc hmark
  · intro hsh
    have := hsh.names
    rw [swapAt_map, v2AVs_names] at this
    have key : ∀ i, i < 4 → swapAt i names5 ≠ names5 := by decide +kernel
    exact key i hi this
  · intro a ha
    have hm : a.1 ∈ (v2AVs h).map Prod.fst := List.mem_map_of_mem (mem_swapAt _ _ ha)
    rw [v2AVs_names] at hm
    exact key _ hm

theorem C12_refuse_corrupt_v2_class_file (p1 : V1P) (p2 : V2P) (tbl : List (Option Nat)) (h : V2) (hv : ValidV2 p2 h)
    (f : V2Field) (w : Str) (hq : '"' ∉ w) (hlt : '<' ∉ w) (hwa : ∀ c ∈ w, c.toNat < 128)
    (hbad : ¬ inClass f.cls w) (body : Str) (bb : Bytes) (henc : encode tbl .utf8 body = .ok bb)
    (hmark : ¬ ofxOpen <:+: body) :
    parseHeader p1 p2 tbl (asciiBytes (renderAttrs (corruptV2 h f w)) ++ bb) = .error .header := by
  have key := names5_ascii
  have key2 : ∀ n ∈ names5, n ≠ [] ∧ '=' ∉ n ∧ (∀ c ∈ n.head?, isSpace c = false ∧ c ≠ '?') ∧ '<' ∉ n := by
    decide +kernel
  have hfn : f.name ∈ names5 := by cases f <;> decide
  apply C12_refuse_attrs_v2_file p1 p2 tbl _ body bb ?_ ?_ henc hmark
  · intro hsh
    exact hbad (hsh.cls f w (mem_corruptV2 h f w))
  · intro a ha
    rcases List.mem_or_eq_of_mem_set ha with h1 | h1
    · exact v2AVs_good p2 h hv a h1
    · subst h1
      obtain ⟨k1, k2, k3, k4⟩ := key2 f.name hfn
      exact ⟨k1, k2, k3, k4, hq, hlt, hwa⟩
  · intro a ha
    rcases List.mem_or_eq_of_mem_set ha with h1 | h1
    · have hm : a.1 ∈ (v2AVs h).map Prod.fst := List.mem_map_of_mem h1
      rw [v2AVs_names] at hm
      exact key _ hm
    · subst h1; exact key _ hfn


theorem C12_refuse_corrupt_v2_domain_file (p1 : V1P) (p2 : V2P) (tbl : List (Option Nat)) (h : V2)
    (hv : ValidV2 p2 h) (f : V2Field) (w : Str) (hc : inClass f.cls w) (hd : ¬ f.dom p2 w) (body : Str) (bb : Bytes)
    (henc : encode tbl .utf8 body = .ok bb) :
    parseHeader p1 p2 tbl (asciiBytes (renderAttrs (corruptV2 h f w)) ++ bb) = .error .header := by
  have key := names5_ascii
  have key2 : ∀ n ∈ names5, n ≠ [] ∧ '=' ∉ n ∧ (∀ c ∈ n.head?, isSpace c = false ∧ c ≠ '?') ∧ '<' ∉ n := by
    decide +kernel
  have hfn : f.name ∈ names5 := by cases f <;> decide
  have hwd : inClass isWordDash w := by
    cases f
    · exact inClass_mono digit_wordDash hc
    · exact inClass_mono digit_wordDash hc
    · exact inClass_mono word_wordDash hc
    · exact hc
    · exact hc
  apply parseHeader_attrs_of_text p1 p2 tbl _ body bb ?_ ?_ henc
    (C12_refuse_corrupt_v2_domain p2 h hv f w hc hd body)
  · intro a ha
    rcases List.mem_or_eq_of_mem_set ha with h1 | h1
    · exact v2AVs_good p2 h hv a h1
    · subst h1
      exact goodAV_of_class _ _ hfn hwd
  · intro a ha
    rcases List.mem_or_eq_of_mem_set ha with h1 | h1
    · have hm : a.1 ∈ (v2AVs h).map Prod.fst := List.mem_map_of_mem h1
      rw [v2AVs_names] at hm
      exact key _ hm
    · subst h1; exact key _ hfn

section v1file
open Ofx.Spec.HeaderLayout
/-! ### the same through `parse_header` (bytes): v1 -/

theorem names9_ascii : ∀ n ∈ names9, isAscii n := by
  have : ∀ n ∈ names9, ∀ c ∈ n, c.toNat < 128 := by decide +kernel
  exact this

theorem hasLF_of_ns (v : Str) (hv : ∀ c ∈ v, isSpace c = false) : hasLF v = false :=
  hasLF_of_class (fun c => !isSpace c) (by intro c hc; simpa using hc) v (by intro c hc; simp [hv c hc])

theorem lines_ascii (nvs : List NV) (hgood : ∀ nv ∈ nvs, GoodNV nv) : isAscii (NF (linesOf nvs) []) := by
  induction nvs with
  | nil => exact isAscii_nil
  | cons nv rest ih =>
    have g := hgood nv (by simp)
    simp only [linesOf, List.map_cons, NF]
    exact isAscii_append.2 ⟨names9_ascii _ g.name, isAscii_cons.2 ⟨by decide, isAscii_append.2 ⟨g.val_ascii,
      isAscii_append.2 ⟨by unfold isAscii crlf; decide, ih (fun x hx => hgood x (by simp [hx]))⟩⟩⟩⟩

theorem lines_lfc (nvs : List NV) (hgood : ∀ nv ∈ nvs, GoodNV nv) : lfc (NF (linesOf nvs) []) = nvs.length := by
  induction nvs with
  | nil => rfl
  | cons nv rest ih =>
    have g := hgood nv (by simp)
    have h1 : hasLF nv.1 = false := hasLF_of_ns _ (names9_isName _ g.name).2.2
    have h2 : hasLF nv.2 = false := by
      simp only [hasLF, List.any_eq_false, beq_iff_eq]
      intro c hc e
      exact g.val_nolf (e ▸ hc)
    have e : NF (linesOf (nv :: rest)) [] = nv.1 ++ ([':'] ++ (nv.2 ++ (crlf ++ NF (linesOf rest) []))) := by
      simp [linesOf, NF]
    rw [e]
    simp only [lfc_append, lfc_noLF _ h1, lfc_noLF _ h2, ih (fun x hx => hgood x (by simp [hx]))]
    have : lfc [':'] = 0 := by decide
    have : lfc crlf = 1 := by decide
    simp only [List.length_cons]
    omega

/-- non-empty lines end with a line feed -/
theorem lines_end (nvs : List NV) (hne : nvs ≠ []) : ∃ S, NF (linesOf nvs) [] = S ++ ['\n'] := by
  induction nvs with
  | nil => exact absurd rfl hne
  | cons nv rest ih =>
    cases rest with
    | nil => exact ⟨nv.1 ++ ':' :: (nv.2 ++ ['\r']), by simp [linesOf, NF, crlf]⟩
    | cons nv2 rest' =>
      obtain ⟨S, hS⟩ := ih (by simp)
      refine ⟨nv.1 ++ ':' :: (nv.2 ++ (crlf ++ S)), ?_⟩
      have : NF (linesOf (nv :: nv2 :: rest')) [] = nv.1 ++ ':' :: (nv.2 ++ (crlf ++ NF (linesOf (nv2 :: rest')) [])) := by
        simp [linesOf, NF]
      rw [this, hS]; simp

theorem splitLine_prefix (bs : Bytes) : splitLine bs <+: bs := by
  induction bs with
  | nil => exact List.prefix_refl _
  | cons b bs ih =>
    rw [splitLine_cons]
    split
    · exact ⟨bs, rfl⟩
    · obtain ⟨t, ht⟩ := ih
      exact ⟨t, by simp [ht]⟩

theorem firstLines_prefix (n : Nat) (bs : Bytes) : firstLines n bs <+: bs := by
  induction n generalizing bs with
  | zero => exact ⟨bs, rfl⟩
  | succ n ih =>
    rw [firstLines_succ]
    obtain ⟨t, ht⟩ := splitLine_prefix bs
    have hd : bs.drop (splitLine bs).length = t := by
      have := congrArg (List.drop (splitLine bs).length) ht
      rw [List.drop_left] at this; exact this.symm
    rw [hd]
    obtain ⟨u, hu⟩ := ih t
    exact ⟨u, by rw [List.append_assoc, hu, ht]⟩

theorem chars_prefix {a b : Bytes} (h : a <+: b) : chars a <+: chars b := by
  obtain ⟨t, ht⟩ := h
  exact ⟨chars t, by rw [← ht, chars_append]⟩

/-- the first nine lines of the file: the header lines, and — when there are fewer than nine — the blank line and
    the first lines of the body -/
theorem raw_lines (nvs : List NV) (bb : Bytes) (hgood : ∀ nv ∈ nvs, GoodNV nv) (hne : nvs ≠ [])
    (hlen : nvs.length ≤ 9) :
    ∃ g B, allSpace g ∧ B <+: chars bb ∧
      chars (firstLines 9 (asciiBytes (renderLines nvs) ++ bb)) = NF (linesOf nvs) (g ++ B) := by
  have hA := lines_ascii nvs hgood
  have hl := lines_lfc nvs hgood
  have hfile : asciiBytes (renderLines nvs) ++ bb = asciiBytes (NF (linesOf nvs) []) ++ (13 :: 10 :: bb) := by
    have : renderLines nvs = NF (linesOf nvs) [] ++ crlf := by rw [renderLines, NF_append]; rfl
    rw [this, asciiBytes_append]
    simp [asciiBytes, crlf]
    decide
  by_cases h9 : nvs.length = 9
  · -- nine lines: exactly the header lines
    obtain ⟨S, hS⟩ := lines_end nvs hne
    have hSa : isAscii S := by rw [hS] at hA; exact (isAscii_append.1 hA).1
    have hSl : lfCount (asciiBytes S) = 8 := by
      rw [lfCount_ascii S hSa]
      have := hl
      rw [hS, lfc_append, h9] at this
      have e : lfc ['\n'] = 1 := by decide
      omega
    refine ⟨[], [], allSpace_nil, List.nil_prefix, ?_⟩
    have e : asciiBytes (renderLines nvs) ++ bb = asciiBytes S ++ (10 :: (13 :: 10 :: bb)) := by
      rw [hfile, hS, asciiBytes_append]
      simp [asciiBytes, byteOf_10]
    rw [e, firstLines_append _ _ 9 (by omega), hSl]
    have : firstLines (9 - 8) (10 :: 13 :: 10 :: bb) = [10] := by
      simp [firstLines, splitLine]
    rw [this]
    have e2 : asciiBytes S ++ [10] = asciiBytes (NF (linesOf nvs) []) := by
      rw [hS, asciiBytes_append]; simp [asciiBytes, byteOf_10]
    rw [e2, chars_asciiBytes _ hA]
    rfl
  · -- fewer: the blank line and body lines follow
    have hlt : lfCount (asciiBytes (NF (linesOf nvs) [])) < 9 := by rw [lfCount_ascii _ hA, hl]; omega
    obtain ⟨k, hk⟩ : ∃ k, 9 - lfCount (asciiBytes (NF (linesOf nvs) [])) = k + 1 :=
      ⟨8 - lfCount (asciiBytes (NF (linesOf nvs) [])), by omega⟩
    refine ⟨crlf, chars (firstLines k bb), crlf_space, chars_prefix (firstLines_prefix k bb), ?_⟩
    rw [hfile, firstLines_append _ _ 9 hlt, hk]
    have : firstLines (k + 1) (13 :: 10 :: bb) = 13 :: 10 :: firstLines k bb := by
      rw [firstLines_cons, if_neg (by decide), firstLines_cons, if_pos rfl]
    rw [this, chars_append, chars_asciiBytes _ hA]
    have : chars (13 :: 10 :: firstLines k bb) = crlf ++ chars (firstLines k bb) := by
      rw [chars_head _ _ (by decide), chars_head _ _ (by decide)]
      rfl
    rw [this, NF_append]
    rfl

/-- `parse_header` on a file that starts with a header line: it is refused whenever `OFXHeaderV1.parse` refuses
    the first nine lines -/
theorem parseHeader_of_raw (p1 : V1P) (p2 : V2P) (tbl : List (Option Nat)) (nvs : List NV) (bb : Bytes)
    (hgood : ∀ nv ∈ nvs, GoodNV nv) (hne : nvs ≠ [])
    (hparse : parseV1 p1 (chars (firstLines 9 (asciiBytes (renderLines nvs) ++ bb))) = .error .header) :
    parseHeader p1 p2 tbl (asciiBytes (renderLines nvs) ++ bb) = .error .header := by
  generalize hF : asciiBytes (renderLines nvs) ++ bb = F at hparse
  -- the first line starts with the first character of the first name
  obtain ⟨nv, rest, hnv⟩ := List.exists_cons_of_ne_nil hne
  have g0 := hgood nv (by rw [hnv]; simp)
  have hn0 := names9_isName _ g0.name
  obtain ⟨d, ds, hd⟩ := List.exists_cons_of_ne_nil hn0.1
  have hda : d.toNat < 128 := names9_ascii _ g0.name d (by rw [hd]; simp)
  have hds : isSpace d = false := hn0.2.2 d (by rw [hd]; simp)
  obtain ⟨Y, hY⟩ : ∃ Y, F = byteOf d.toNat :: Y := by
    rw [← hF, hnv]
    simp only [renderLines, linesOf, List.map_cons, NF, hd]
    exact ⟨_, rfl⟩
  have hb10 : byteOf d.toNat ≠ 10 := by
    intro e
    have := (byteOf_eq_lf d hda).1 e
    rw [this] at hds; revert hds; decide
  have hline1 : chars (splitLine F) = d :: chars (splitLine Y) := by
    rw [hY, splitLine_cons, if_neg hb10, chars_head _ _ (by rw [byteOf_toNat _ (by omega)]; exact hda),
      byteChar_byteOf d (by omega)]
  have hfind : findHeader F 8 0 = .ok (0, chars (splitLine F), 0 + (splitLine F).length) := by
    rw [findHeader]
    simp only [readline, List.drop_zero]
    have : strip (chars (splitLine F)) ≠ [] := strip_ne_nil_of_mem _ d (by rw [hline1]; simp) hds
    cases hst : strip (chars (splitLine F)) with
    | nil => exact absurd hst this
    | cons c cs => simp [chars] at hst ⊢; simp [hst]; rfl
  have hxml : reMatch xmlRegex (chars (splitLine F)) = none := by
    apply xml_nomatch
    rw [hline1]
    intro c hc
    simp at hc; subst hc
    intro e
    have : '<' ∈ nv.1 := by rw [hd, e]; simp
    have key : ∀ n ∈ names9, '<' ∉ n := by decide +kernel
    exact key _ g0.name this
  have hrawe : chars (splitLine F) ++ moreLines F 8 (0 + (splitLine F).length) = chars (firstLines 9 F) := by
    rw [moreLines_eq, Nat.zero_add, ← chars_append, ← firstLines_succ]
  unfold parseHeader
  simp only [hfind, bind, Except.bind, hxml, hrawe, hparse]

/-- **general refusal (v1) through `parse_header`**: the bytes of up to nine header lines, the blank line, and any
    body bytes which — read the way the header scanner reads them (ASCII, errors replaced) — start with `<` (or are
    empty) and do not contain `OFXHEADER:` -/
theorem C12_refuse_lines_v1_file (p1 : V1P) (p2 : V2P) (tbl : List (Option Nat)) (nvs : List NV) (bb : Bytes)
    (hgood : ∀ nv ∈ nvs, GoodNV nv) (hne : nvs ≠ []) (hlen : nvs.length ≤ 9)
    (hb : ∀ c ∈ (chars bb).head?, c = '<') (hmark : ¬ ofxMarker <:+: chars bb)
    (hshape : ∀ sfx, sfx <:+ nvs → ¬ V1Shape sfx) :
    parseHeader p1 p2 tbl (asciiBytes (renderLines nvs) ++ bb) = .error .header := by
  apply parseHeader_of_raw p1 p2 tbl nvs bb hgood hne
  obtain ⟨g, B, hg, hBp, hraw⟩ := raw_lines nvs bb hgood hne hlen
  have hB : ∀ c ∈ B.head?, c = '<' := by
    intro c hc
    obtain ⟨t, ht⟩ := hBp
    cases B with
    | nil => cases hc
    | cons b bs =>
      simp at hc; subst hc
      exact hb b (by rw [← ht]; simp)
  have hm : ¬ ofxMarker <:+: B := by
    intro hi
    obtain ⟨t, ht⟩ := hBp
    obtain ⟨x, y, hxy⟩ := hi
    exact hmark ⟨x, y ++ t, by rw [← ht, ← hxy]; simp⟩
  apply C12_refuse_text_nomatch_v1
  rw [hraw]
  exact reSearch_lines_none nvs g B hg hgood hB hm hshape

/-- … by names alone -/
theorem C12_refuse_names_v1_file (p1 : V1P) (p2 : V2P) (tbl : List (Option Nat)) (nvs : List NV) (bb : Bytes)
    (hgood : ∀ nv ∈ nvs, GoodNV nv) (hne : nvs ≠ []) (hlen : nvs.length ≤ 9)
    (hb : ∀ c ∈ (chars bb).head?, c = '<') (hmark : ¬ ofxMarker <:+: chars bb)
    (hnames : NamesRefused (nvs.map Prod.fst)) :
    parseHeader p1 p2 tbl (asciiBytes (renderLines nvs) ++ bb) = .error .header := by
  apply C12_refuse_lines_v1_file p1 p2 tbl nvs bb hgood hne hlen hb hmark
  intro sfx hs hsh
  exact hnames _ (mem_tailsOf (List.IsSuffix.map Prod.fst hs)) hsh.names

theorem v1NVs_length (h : V1) : (v1NVs h).length = 9 := by simp [v1NVs, names9, v1Vals]

theorem C12_refuse_omit_field_v1_file (p1 : V1P) (p2 : V2P) (tbl : List (Option Nat)) (h : V1) (hv : ValidV1 p1 h)
    (i : Nat) (hi : i < 9) (hi6 : i ≠ 6) (bb : Bytes) (hb : ∀ c ∈ (chars bb).head?, c = '<')
    (hmark : ¬ ofxMarker <:+: chars bb) :
    parseHeader p1 p2 tbl (asciiBytes (renderLines ((v1NVs h).eraseIdx i)) ++ bb) = .error .header := by
  have hl : ((v1NVs h).eraseIdx i).length = 8 := by
    rw [List.length_eraseIdx, v1NVs_length, if_pos hi]
  apply C12_refuse_names_v1_file p1 p2 tbl _ bb
    (fun nv hnv => v1NVs_good p1 h hv nv (List.mem_of_mem_eraseIdx hnv))
    (by intro e; rw [e] at hl; simp at hl) (by omega) hb hmark
  rw [map_eraseIdx, v1NVs_names]
  have : ∀ i, i < 9 → i ≠ 6 → NamesRefused (names9.eraseIdx i) := by decide +kernel
  exact this i hi hi6

theorem swapAt_length : ∀ (i : Nat) (l : List α), (swapAt i l).length = l.length
  | 0, [] => rfl
  | 0, [_] => rfl
  | 0, _ :: _ :: _ => rfl
  | _ + 1, [] => rfl
  | n + 1, a :: l => by simp [swapAt, swapAt_length n l]

theorem C12_refuse_swap_fields_v1_file (p1 : V1P) (p2 : V2P) (tbl : List (Option Nat)) (h : V1) (hv : ValidV1 p1 h)
    (i : Nat) (hi : i < 8) (bb : Bytes) (hb : ∀ c ∈ (chars bb).head?, c = '<')
    (hmark : ¬ ofxMarker <:+: chars bb) :
    parseHeader p1 p2 tbl (asciiBytes (renderLines (swapAt i (v1NVs h))) ++ bb) = .error .header := by
  have hl : (swapAt i (v1NVs h)).length = 9 := by rw [swapAt_length, v1NVs_length]
  apply C12_refuse_names_v1_file p1 p2 tbl _ bb
    (fun nv hnv => v1NVs_good p1 h hv nv (mem_swapAt _ _ hnv))
    (by intro e; rw [e] at hl; simp at hl) (by omega) hb hmark
  rw [swapAt_map, v1NVs_names]
  have : ∀ i, i < 8 → NamesRefused (swapAt i names9) := by decide +kernel
  exact this i hi

theorem C12_refuse_corrupt_v1_class_file (p1 : V1P) (p2 : V2P) (tbl : List (Option Nat)) (h : V1)
    (hv : ValidV1 p1 h) (f : V1Field) (w : Str)
    (hwc : ':' ∉ w) (hwl : '\n' ∉ w) (hwa : ∀ c ∈ w, c.toNat < 128)
    (hbad : if f = .newfileuid then (w.dropWhile isSpace).takeWhile isWordDash = []
      else ¬ inClass f.cls (strip w))
    (bb : Bytes) (hb : ∀ c ∈ (chars bb).head?, c = '<') (hmark : ¬ ofxMarker <:+: chars bb) :
    parseHeader p1 p2 tbl (asciiBytes (renderLines (corruptV1 h f w)) ++ bb) = .error .header := by
  have hl := corruptV1_length h f w
  exact C12_refuse_lines_v1_file p1 p2 tbl _ bb (corruptV1_good p1 h hv f w hwc hwl hwa)
    (by intro e; rw [e] at hl; simp at hl) (by omega) hb hmark (corruptV1_noshape h f w hbad)

/-- with nine lines the first nine lines of the file are exactly the header lines -/
theorem raw_nine (nvs : List NV) (bb : Bytes) (hgood : ∀ nv ∈ nvs, GoodNV nv) (h9 : nvs.length = 9) :
    chars (firstLines 9 (asciiBytes (renderLines nvs) ++ bb)) = NF (linesOf nvs) [] := by
  have hA := lines_ascii nvs hgood
  have hl := lines_lfc nvs hgood
  have hne : nvs ≠ [] := by intro e; rw [e] at h9; simp at h9
  obtain ⟨S, hS⟩ := lines_end nvs hne
  have hSa : isAscii S := by rw [hS] at hA; exact (isAscii_append.1 hA).1
  have hSl : lfCount (asciiBytes S) = 8 := by
    rw [lfCount_ascii S hSa]
    have := hl
    rw [hS, lfc_append, h9] at this
    have e : lfc ['\n'] = 1 := by decide
    omega
  have e : asciiBytes (renderLines nvs) ++ bb = asciiBytes S ++ (10 :: (13 :: 10 :: bb)) := by
    have : renderLines nvs = NF (linesOf nvs) [] ++ crlf := by rw [renderLines, NF_append]; rfl
    rw [this, hS, asciiBytes_append, asciiBytes_append]
    simp [asciiBytes, byteOf_10, crlf]
    decide
  rw [e, firstLines_append _ _ 9 (by omega), hSl]
  have : firstLines (9 - 8) (10 :: 13 :: 10 :: bb) = [10] := by
    simp [firstLines, splitLine]
  rw [this]
  have e2 : asciiBytes S ++ [10] = asciiBytes (NF (linesOf nvs) []) := by
    rw [hS, asciiBytes_append]; simp [asciiBytes, byteOf_10]
  rw [e2, chars_asciiBytes _ hA]

theorem nine_raw (v1 v2 v3 v4 v5 v6 v7 v8 v9 : Str) :
    NF (linesOf (nine v1 v2 v3 v4 v5 v6 v7 v8 v9)) [] = (nineW v1 v2 v3 v4 v5 v6 v7 v8 v9).text crlf := by
  simp [nine, names9, linesOf, NF, V1W.text, V1W.compText, nineW, fld, crlf]

/-- the corrupted header, as nine explicit value texts of which one is outside its domain -/
theorem corruptV1_as_nine (p : V1P) (h : V1) (hv : ValidV1 p h) (f : V1Field) (w : Str)
    (hc : inClass f.cls w) (hd : ¬ f.dom p w) :
    ∃ v1 v2 v3 v4 v5 v6 v7 v8 v9, corruptV1 h f w = nine v1 v2 v3 v4 v5 v6 v7 v8 v9 ∧
      inClass isDigit v1 ∧ inClass isUpper v2 ∧ inClass isDigit v3 ∧ inClass isWord v4 ∧ inClass isUpDigDash v5 ∧
      inClass isWordDash v6 ∧ inClass isUpper v7 ∧ inClass isWordDash v8 ∧ inClass isWordDash v9 ∧
      ¬ (V1Field.dom p .ofxheader v1 ∧ V1Field.dom p .data v2 ∧ V1Field.dom p .version v3 ∧
        V1Field.dom p .security v4 ∧ V1Field.dom p .encoding v5 ∧ V1Field.dom p .charset v6 ∧
        V1Field.dom p .compression v7 ∧ V1Field.dom p .oldfileuid v8 ∧ V1Field.dom p .newfileuid v9) := by
  obtain ⟨d1, d3⟩ := valid_classes p h hv
  cases f
  · exact ⟨w, _, _, _, _, _, _, _, _, rfl, hc, hv.data.2, d3, hv.sec.2, hv.enc.2, hv.cs.2, hv.comp.2, hv.old.1,
      hv.new.1, fun hh => hd hh.1⟩
  · exact ⟨_, w, _, _, _, _, _, _, _, rfl, d1, hc, d3, hv.sec.2, hv.enc.2, hv.cs.2, hv.comp.2, hv.old.1,
      hv.new.1, fun hh => hd hh.2.1⟩
  · exact ⟨_, _, w, _, _, _, _, _, _, rfl, d1, hv.data.2, hc, hv.sec.2, hv.enc.2, hv.cs.2, hv.comp.2, hv.old.1,
      hv.new.1, fun hh => hd hh.2.2.1⟩
  · exact ⟨_, _, _, w, _, _, _, _, _, rfl, d1, hv.data.2, d3, hc, hv.enc.2, hv.cs.2, hv.comp.2, hv.old.1,
      hv.new.1, fun hh => hd hh.2.2.2.1⟩
  · exact ⟨_, _, _, _, w, _, _, _, _, rfl, d1, hv.data.2, d3, hv.sec.2, hc, hv.cs.2, hv.comp.2, hv.old.1,
      hv.new.1, fun hh => hd hh.2.2.2.2.1⟩
  · exact ⟨_, _, _, _, _, w, _, _, _, rfl, d1, hv.data.2, d3, hv.sec.2, hv.enc.2, hc, hv.comp.2, hv.old.1,
      hv.new.1, fun hh => hd hh.2.2.2.2.2.1⟩
  · exact ⟨_, _, _, _, _, _, w, _, _, rfl, d1, hv.data.2, d3, hv.sec.2, hv.enc.2, hv.cs.2, hc, hv.old.1,
      hv.new.1, fun hh => hd hh.2.2.2.2.2.2.1⟩
  · exact ⟨_, _, _, _, _, _, _, w, _, rfl, d1, hv.data.2, d3, hv.sec.2, hv.enc.2, hv.cs.2, hv.comp.2, hc,
      hv.new.1, fun hh => hd hh.2.2.2.2.2.2.2.1⟩
  · exact ⟨_, _, _, _, _, _, _, _, w, rfl, d1, hv.data.2, d3, hv.sec.2, hv.enc.2, hv.cs.2, hv.comp.2, hv.old.1,
      hc, fun hh => hd hh.2.2.2.2.2.2.2.2⟩

/-- nine in-class lines, one value outside its domain, through `parse_header`: the nine lines are the whole raw
    header; the body does not matter at all -/
theorem C12_refuse_corrupt_v1_domain_file (p1 : V1P) (p2 : V2P) (tbl : List (Option Nat)) (h : V1)
    (hv : ValidV1 p1 h) (f : V1Field) (w : Str) (hc : inClass f.cls w) (hd : ¬ f.dom p1 w) (bb : Bytes) :
    parseHeader p1 p2 tbl (asciiBytes (renderLines (corruptV1 h f w)) ++ bb) = .error .header := by
  have hl : (corruptV1 h f w).length = 9 := by rw [corruptV1, List.length_set, v1NVs_length]
  have hwd : inClass isWordDash w := by
    cases f
    · exact inClass_mono digit_wordDash hc
    · exact inClass_mono upper_wordDash hc
    · exact inClass_mono digit_wordDash hc
    · exact inClass_mono word_wordDash hc
    · exact inClass_mono upDigDash_wordDash hc
    · exact hc
    · exact inClass_mono upper_wordDash hc
    · exact hc
    · exact hc
  have hgood : ∀ nv ∈ corruptV1 h f w, GoodNV nv :=
    corruptV1_good p1 h hv f w (fun hm => absurd (hwd.2 _ hm) (by decide))
      (fun hm => absurd (hwd.2 _ hm) (by decide)) (fun c hm => wordDash_ascii c (hwd.2 c hm))
  have hne : corruptV1 h f w ≠ [] := by intro e; rw [e] at hl; simp at hl
  apply parseHeader_of_raw p1 p2 tbl _ bb hgood hne
  rw [raw_nine _ bb hgood hl]
  obtain ⟨v1, v2, v3, v4, v5, v6, v7, v8, v9, e, c1, c2, c3, c4, c5, c6, c7, c8, c9, hbad⟩ :=
    corruptV1_as_nine p1 h hv f w hc hd
  rw [e, nine_raw, parseV1_nineW p1 v1 v2 v3 v4 v5 v6 v7 v8 v9 crlf c1 c2 c3 c4 c5 c6 c7 c8 c9
    (by intro c hc; simp [crlf] at hc; subst hc; decide)]
  cases hk : ctorV1 p1 (.str v3) (.str v1) (some v2) (some v4) (some v5) (some v6) (some v7) (some v8) (some v9) with
  | error e => rw [ctorV1_str_error _ _ _ _ _ _ _ _ _ _ _ hk]; rfl
  | ok h' => exact absurd (ctorV1_str_sound p1 _ _ _ _ _ _ _ _ _ h' c1.1 c2.1 c3.1 c4.1 c5.1 c6.1 c7.1 c8.1 c9.1 hk) hbad


end v1file


/-! ### every reordering of the nine lines -/

def compName : Str := "COMPRESSION".toList

theorem suffix_len_cases {t ns : List Str} (hs : t <:+ ns) (hl : ns.length = 9) (h8 : 8 ≤ t.length) :
    t = ns ∨ (∃ y, ns = y :: t) := by
  obtain ⟨x, hx⟩ := hs
  have hlen : x.length + t.length = 9 := by rw [← hl, ← hx]; simp
  match x, hx with
  | [], hx => exact Or.inl (by simpa using hx)
  | [y], hx => exact Or.inr ⟨y, by simpa using hx.symm⟩
  | _ :: _ :: _, _ => simp at hlen; omega

theorem mem_tailsOf_suffix {t : List α} : ∀ {l : List α}, t ∈ tailsOf l → t <:+ l
  | [], h => by simp [tailsOf] at h; subst h; exact List.suffix_refl _
  | a :: l, h => by
    simp only [tailsOf, List.mem_cons] at h
    rcases h with h | h
    · subst h; exact List.suffix_refl _
    · exact List.IsSuffix.trans (mem_tailsOf_suffix h) (List.suffix_cons a l)

/-- a reordering of the nine names is refused unless it is one of the three orders the pattern accepts -/
theorem perm_namesRefused (ns : List Str) (hp : ns.Perm names9) (h1 : ns ≠ names9)
    (h2 : ns ≠ names8 ++ [compName]) (h3 : ns ≠ compName :: names8) : NamesRefused ns := by
  have hl : ns.length = 9 := by rw [hp.length_eq]; rfl
  have hp9 : names9.Perm (names8 ++ [compName]) := by decide +kernel
  have hp9' : names9.Perm (compName :: names8) := by decide +kernel
  intro t ht hc
  have hs := mem_tailsOf_suffix ht
  rcases hc with hc | hc
  · have h8 : 8 ≤ t.length := by
      have := congrArg List.length hc
      simp [names8] at this; omega
    rcases suffix_len_cases hs hl h8 with e | ⟨y, e⟩
    · subst e
      -- ns = names8 ++ [x]
      have hsplit : t = t.take 8 ++ t.drop 8 := (List.take_append_drop 8 t).symm
      have hd : (t.drop 8).length = 1 := by simp [hl]
      obtain ⟨x, hx⟩ : ∃ x, t.drop 8 = [x] := by
        match t.drop 8, hd with
        | [x], _ => exact ⟨x, rfl⟩
      rw [hc, hx] at hsplit
      have : (names8 ++ [x]).Perm (names8 ++ [compName]) := by rw [← hsplit]; exact hp.trans hp9
      have := (List.perm_append_left_iff names8).1 this
      have hxe : x = compName := by simpa using this.eq_singleton
      exact h2 (by rw [hsplit, hxe])
    · have hlt : t.length = 8 := by
        have := congrArg List.length e
        simp [hl] at this; omega
      have ht8 : t = names8 := by rw [← hc, List.take_of_length_le (by omega)]
      have ens : ns = y :: names8 := by rw [e, ht8]
      have : (y :: names8).Perm (compName :: names8) := by rw [← ens]; exact hp.trans hp9'
      have hy : [y].Perm [compName] := by
        have h' : ([y] ++ names8).Perm ([compName] ++ names8) := by simpa using this
        exact (List.perm_append_right_iff names8).1 h'
      have hye : y = compName := by simpa using hy.eq_singleton
      exact h3 (by rw [ens, hye])
  · have h9 : 9 ≤ t.length := by
      have := congrArg List.length hc
      simp [names9] at this; omega
    rcases suffix_len_cases hs hl (by omega) with e | ⟨y, e⟩
    · subst e
      exact h1 (by rw [← hc, List.take_of_length_le (by omega)])
    · have := congrArg List.length e
      simp [hl] at this; omega

/-- **every reordering of the nine lines** of a valid header is refused, except the three orders the pattern
    accepts: the original one, and the optional COMPRESSION line moved to the very end or the very beginning (the
    unanchored search then reads the eight mandatory lines and never sees it) -/
theorem C12_refuse_reorder_v1 (p : V1P) (h : V1) (hv : ValidV1 p h) (nvs : List NV) (hperm : nvs.Perm (v1NVs h))
    (h1 : nvs.map Prod.fst ≠ names9) (h2 : nvs.map Prod.fst ≠ names8 ++ [compName])
    (h3 : nvs.map Prod.fst ≠ compName :: names8)
    (body : Str) (hb : body.head? = some '<') (hmark : ¬ ofxMarker <:+: body) :
    parseV1 p (renderLines nvs ++ body) = .error .header := by
  apply C12_refuse_names_v1 p _ body (fun nv hnv => v1NVs_good p h hv nv (hperm.mem_iff.1 hnv)) hb hmark
  exact perm_namesRefused _ (by rw [← v1NVs_names h]; exact hperm.map _) h1 h2 h3

def wCompLast : Str := renderLines ((v1NVs wHdr).eraseIdx 6 ++ [(compName, "NONE".toList)]) ++ "<OFX></OFX>".toList
def wCompFirst : Str := renderLines ((compName, "NONE".toList) :: (v1NVs wHdr).eraseIdx 6) ++ "<OFX></OFX>".toList
/-- the exceptional orders are indeed accepted; with COMPRESSION last its line is left in front of the body (a
    finding candidate), with COMPRESSION first the search skips it -/
example : (match parseV1 pinnedV1P wCompLast with
      | .ok (h, n) => h.newfileuid == "NONE".toList && wCompLast.drop n == "\r\nCOMPRESSION:NONE\r\n\r\n<OFX></OFX>".toList
      | .error _ => false) = true := by decide +kernel
example : (match parseV1 pinnedV1P wCompFirst with
      | .ok (h, n) => h.newfileuid == "NONE".toList && wCompFirst.drop n == "\r\n\r\n<OFX></OFX>".toList
      | .error _ => false) = true := by decide +kernel

end Ofx.Header
