/-
C09 — date-time and time values mean the instant the OFX notation denotes.

Model: `OfxModel/Ofx/DateTime.lean` (+ `Py/Cal.lean`); specification: `OfxModel/Spec/Instant.lean`.
All theorems are about `dtConvertWith tzs` / `tmConvertWith tzs` for *every* zone table `tzs`
(`dtConvert`/`tmConvert` are the instances at the generated `TZS`) and about `dtUnconvert`/`tmUnconvert`.
-/
import OfxProofs.Lemmas.DateTime

namespace Ofx.DateTime
open Ofx Ofx.Cal Ofx.Spec.Instant

/-! ## guards -/

/-- what `C09_read_partial` asks of an offset text beyond well-formedness:
    * at most 4300 hour digits (CPython's `int()` limit),
    * not the spelling `-0.MM` with MM ≠ 0 (known defect: read as `+0.MM`),
    * if there are no minutes, the zone name does not begin with two digits (known defect: `[5:30]`, i.e.
      offset +5 named "30", is read as +5:30 because the minutes separator is an unescaped `.`). -/
def readGuard (o : OffText) : Bool :=
  decide (o.hdigits.length ≤ intMaxStrDigits) && !o.negZeroHour
  && (match o.minutes, o.name with | none, some n => !nameLooksLikeMinutes n | _, _ => true)

def partsReadGuard (p : Parts) : Bool := match p.off with | some o => readGuard o | none => true

theorem readGuard_ok {o : OffText} (hwf : o.wf = true) (hg : readGuard o = true) : OffReadOk o := by
  simp only [readGuard, Bool.and_eq_true, decide_eq_true_eq, Bool.not_eq_true'] at hg
  obtain ⟨⟨h1, h2⟩, h3⟩ := hg
  refine ⟨hwf, h1, h2, ?_⟩
  intro hm n hn
  rw [hm, hn] at h3
  simpa using h3

theorem parts_off_ok {p : Parts} {t : Bool} (hwf : p.wf t = true) (hg : partsReadGuard p = true) :
    ∀ o, p.off = some o → OffReadOk o := by
  intro o ho
  have h1 : o.wf = true := by
    simp only [Parts.wf, Bool.and_eq_true] at hwf
    have := hwf.2; rw [ho] at this; exact this
  have h2 : readGuard o = true := by
    simp only [partsReadGuard, ho] at hg; exact hg
  exact readGuard_ok h1 h2

/-- the value is the UTC value denoting instant `us` (microseconds): valid fields, tz = UTC, that instant -/
def IsUtcOf (v : Val) (us : Int) : Prop :=
  ∃ r : DT, v = .dt r ∧ dtValid r = true ∧ r.tz = some utc ∧ dtInstantUs r = some us

def IsUtcTimeOf (v : Val) (us : Int) : Prop :=
  ∃ t : TM, v = .tm t ∧ tmValid t = true ∧ t.tz = some utc ∧ tmInstantUs t = some us

theorem utc_eq : utcTz = utc := rfl

theorem isUtcOf_fields (f : Fields) (I : Int)
    (v1 : Cal.validDate f.year f.month f.day = true) (v2 : validTime f.hour f.minute f.second f.us = true)
    (v3 : toUs f.year f.month f.day f.hour f.minute f.second f.us = I) :
    IsUtcOf (.dt (dtOfFields f (some utcTz))) I := by
  refine ⟨_, rfl, ?_, rfl, ?_⟩
  · simp only [validTime, Bool.and_eq_true, decide_eq_true_eq] at v2
    obtain ⟨⟨⟨a, b⟩, c⟩, e⟩ := v2
    simp [dtValid, dtOfFields, spec_validDate_eq, v1, validTod, a, b, c, e]
  · have hm : 1 ≤ f.month ∧ f.month ≤ 12 := by
      simp only [Cal.validDate, Bool.and_eq_true, decide_eq_true_eq] at v1; omega
    have h0 : dtInstantUs (dtOfFields f (some utcTz))
        = some ((((ordinal f.year f.month f.day : Nat) : Int) * 86400
            + (f.hour * 3600 + f.minute * 60 + f.second : Nat)) * 1000000 + (f.us : Nat) - utcTz.offUs) := by
      unfold dtInstantUs dtOfFields; rfl
    have h1 : utcTz.offUs = 0 := by unfold utcTz; rfl
    rw [h0, h1, spec_ordinal_eq _ _ _ hm]
    unfold toUs at v3
    exact congrArg some (by omega)

/-! ## reading -/

/-- **C09_read (partial: the two known defects are excluded by `readGuard`).**
    Every text of the four date-time notations — `YYYYMMDD`, `YYYYMMDDHHMMSS`, with `.XXX`, with `[offset]` after
    either — with valid fields, offset in [-12:00, +14:00] written as sign? digits+ (`.MM`)? (`:name`)?, any name
    without line feed, denoting an instant within years 1..9999, converts to the UTC value denoting `instantOf`. -/
theorem C09_read_partial (tzs : List (Str × Int)) (required : Bool) (p : Parts)
    (hwf : p.wf false = true) (hg : partsReadGuard p = true)
    (hrange : minInstant ≤ p.instant ∧ p.instant < endInstant) :
    ∃ v, dtConvertWith tzs required (.str p.render) = .ok v ∧ IsUtcOf v (1000 * p.instant) := by
  have hoff := parts_off_ok hwf hg
  obtain ⟨date, tod, ms, off⟩ := p
  simp only [Parts.wf, Bool.and_eq_true] at hwf
  obtain ⟨⟨⟨hd, ht⟩, hms⟩, _⟩ := hwf
  cases date with
  | none => simp at hd
  | some ymd =>
    obtain ⟨y, m, d⟩ := ymd
    simp only [Bool.not_false, Bool.true_and] at hd
    cases tod with
    | none =>
      simp only [Bool.not_false, Bool.true_and, Bool.and_eq_true, Option.isNone_iff_eq_none] at ht
      obtain ⟨rfl, rfl⟩ := ht
      obtain ⟨f, hf, v1, v2, v3⟩ := dtConvertStr_date tzs y m d hd
      refine ⟨_, ?_, isUtcOf_fields f _ v1 v2 v3⟩
      simpa [dtConvertWith, Parts.render, dateText] using hf
    | some hms' =>
      obtain ⟨h, mi, s⟩ := hms'
      simp only at ht
      have hmsv : ∀ x, ms = some x → x < 1000 := by
        intro x hx; rw [hx] at hms; simpa using hms
      have hI : Parts.instant ⟨some (y, m, d), some (h, mi, s), ms, off⟩
          = instantOf y m d h mi s (ms.getD 0) (offMinutes off) := by
        cases off <;> rfl
      rw [hI] at hrange ⊢
      obtain ⟨f, hf, v1, v2, v3⟩ := dtConvertStr_full tzs y m d h mi s ms off hd ht hmsv hoff hrange
      refine ⟨_, ?_, isUtcOf_fields f _ v1 v2 v3⟩
      have hr : Parts.render ⟨some (y, m, d), some (h, mi, s), ms, off⟩
          = dateText y m d ++ (todText h mi s ++ (msText ms ++ offText off)) := by
        cases ms <;> cases off <;> simp [Parts.render, dateText, todText, msText, offText]
      simpa [dtConvertWith, hr] using hf

/-- **C09_time_read (partial).** The same for the time notation `HHMMSS[.XXX][[offset]]`, instants modulo 24 h. -/
theorem C09_time_read_partial (tzs : List (Str × Int)) (required : Bool) (p : Parts)
    (hwf : p.wf true = true) (hg : partsReadGuard p = true) :
    ∃ v, tmConvertWith tzs required (.str p.render) = .ok v ∧ IsUtcTimeOf v (1000 * p.instant) := by
  have hoff := parts_off_ok hwf hg
  obtain ⟨date, tod, ms, off⟩ := p
  simp only [Parts.wf, Bool.and_eq_true] at hwf
  obtain ⟨⟨⟨hd, ht⟩, hms⟩, _⟩ := hwf
  cases date with
  | some ymd => obtain ⟨y, m, d⟩ := ymd; simp at hd
  | none =>
    cases tod with
    | none => simp at ht
    | some hms' =>
      obtain ⟨h, mi, s⟩ := hms'
      simp only at ht
      have hmsv : ∀ x, ms = some x → x < 1000 := by
        intro x hx; rw [hx] at hms; simpa using hms
      obtain ⟨t, hf, v1, v2, v3⟩ := tmConvertStr_render tzs h mi s ms off ht hmsv hoff
      have hI : Parts.instant ⟨none, some (h, mi, s), ms, off⟩
          = todInstantOf h mi s (ms.getD 0) (offMinutes off) := by
        cases off <;> rfl
      have hr : Parts.render ⟨none, some (h, mi, s), ms, off⟩
          = todText h mi s ++ (msText ms ++ offText off) := by
        cases ms <;> cases off <;> simp [Parts.render, todText, msText, offText]
      refine ⟨.tm t, ?_, t, rfl, v1, v2, ?_⟩
      · simpa [tmConvertWith, hr] using hf
      · rw [hI]; exact v3

/-- the guards are satisfiable by non-trivial values: `20240229235959.999[-3.30:NST]`, `235959.999[+05.45:a:b]` -/
example : (⟨some (2024, 2, 29), some (23, 59, 59), some 999, some ⟨some true, [3], some 30, some "NST".toList⟩⟩ : Parts).wf false = true
    ∧ partsReadGuard ⟨some (2024, 2, 29), some (23, 59, 59), some 999, some ⟨some true, [3], some 30, some "NST".toList⟩⟩ = true
    ∧ (⟨some (2024, 2, 29), some (23, 59, 59), some 999, some ⟨some true, [3], some 30, some "NST".toList⟩⟩ : Parts).render
        = "20240229235959.999[-3.30:NST]".toList := by decide +kernel
example : (⟨none, some (23, 59, 59), some 999, some ⟨some false, [0, 5], some 45, some "a:b".toList⟩⟩ : Parts).wf true = true
    ∧ partsReadGuard ⟨none, some (23, 59, 59), some 999, some ⟨some false, [0, 5], some 45, some "a:b".toList⟩⟩ = true := by
  decide +kernel

/-! ### the full-strength statement is false of the current code -/

def okIs (r : PyM Val) (v : Val) : Bool := match r with | .ok x => decide (x = v) | .error _ => false
theorem eq_of_okIs {r : PyM Val} {v : Val} (h : okIs r v = true) : r = .ok v := by
  unfold okIs at h
  cases r with
  | error e => simp at h
  | ok x => simp at h; rw [h]
def isErr (r : PyM Val) (e : Err) : Bool := match r with | .ok _ => false | .error x => decide (x = e)
theorem eq_of_isErr {r : PyM Val} {e : Err} (h : isErr r e = true) : r = .error e := by
  unfold isErr at h
  cases r with
  | ok x => simp at h
  | error x => simp at h; rw [h]

/-- C09_read without the guard -/
def C09_read_full : Prop :=
  ∀ (tzs : List (Str × Int)) (required : Bool) (p : Parts), p.wf false = true →
    (∀ o, p.off = some o → o.hdigits.length ≤ intMaxStrDigits) →
    minInstant ≤ p.instant ∧ p.instant < endInstant →
    ∃ v, dtConvertWith tzs required (.str p.render) = .ok v ∧ IsUtcOf v (1000 * p.instant)

def negZeroWitness : Parts := ⟨some (2020, 1, 1), some (12, 0, 0), some 0, some ⟨some true, [0], some 30, none⟩⟩
def nameDigitsWitness : Parts := ⟨some (2020, 1, 1), some (12, 0, 0), none, some ⟨none, [5], none, some "30".toList⟩⟩

/-- what the model (and the code) make of `20200101120000.000[-0.30]`: 11:30 UTC instead of 12:30 UTC -/
theorem negZeroWitness_reads :
    negZeroWitness.render = "20200101120000.000[-0.30]".toList ∧
    dtConvertWith [] false (.str negZeroWitness.render)
      = .ok (.dt ⟨2020, 1, 1, 11, 30, 0, 0, some utcTz⟩) :=
  ⟨by decide +kernel, eq_of_okIs (by decide +kernel)⟩

/-- `20200101120000[5:30]` (offset +5, zone name "30") is read as offset +5:30: 06:30 UTC instead of 07:00 UTC -/
theorem nameDigitsWitness_reads :
    nameDigitsWitness.render = "20200101120000[5:30]".toList ∧
    dtConvertWith [] false (.str nameDigitsWitness.render)
      = .ok (.dt ⟨2020, 1, 1, 6, 30, 0, 0, some utcTz⟩) :=
  ⟨by decide +kernel, eq_of_okIs (by decide +kernel)⟩

theorem C09_read_full_false : ¬ C09_read_full := by
  intro h
  obtain ⟨v, hv, r, hr, _, _, hi⟩ := h [] false negZeroWitness (by decide +kernel)
    (by intro o ho; simp only [negZeroWitness, Option.some.injEq] at ho; subst ho; decide) (by decide +kernel)
  rw [negZeroWitness_reads.2] at hv
  injection hv with hv
  subst hv
  injection hr with hr
  subst hr
  revert hi
  decide +kernel

/-! ## naive values, `None`, foreign types -/

/-- **C09_naive.** A naive `datetime` is refused (ValueError) by `convert` and by `unconvert`. -/
theorem C09_naive (tzs : List (Str × Int)) (required : Bool) (d : DT) (h : d.tz = none) :
    dtConvertWith tzs required (.dt d) = .error .value ∧ dtUnconvert required (.dt d) = .error .value := by
  simp [dtConvertWith, dtUnconvert, utcoffset, h, bind, Except.bind]

/-- **C09_time_naive.** A naive `time` is refused both ways. -/
theorem C09_time_naive (tzs : List (Str × Int)) (required : Bool) (t : TM) (h : t.tz = none) :
    tmConvertWith tzs required (.tm t) = .error .value ∧ tmUnconvert required (.tm t) = .error .value := by
  simp [tmConvertWith, tmUnconvert, utcoffset, h, bind, Except.bind]

/-- aware values with an admissible `utcoffset()` pass through `convert` unchanged -/
theorem C09_aware_passthrough (tzs : List (Str × Int)) (required : Bool) (d : DT) (tz : Tz)
    (h : d.tz = some tz) (hr : -usPerDay < tz.offUs ∧ tz.offUs < usPerDay) :
    dtConvertWith tzs required (.dt d) = .ok (.dt d) := by
  have : ¬ (tz.offUs ≤ -usPerDay ∨ tz.offUs ≥ usPerDay) := by omega
  simp [dtConvertWith, utcoffset, h, this, bind, Except.bind, pure, Except.pure]

theorem C09_time_aware_passthrough (tzs : List (Str × Int)) (required : Bool) (t : TM) (tz : Tz)
    (h : t.tz = some tz) (hr : -usPerDay < tz.offUs ∧ tz.offUs < usPerDay) :
    tmConvertWith tzs required (.tm t) = .ok (.tm t) := by
  have : ¬ (tz.offUs ≤ -usPerDay ∨ tz.offUs ≥ usPerDay) := by omega
  simp [tmConvertWith, utcoffset, h, this, bind, Except.bind, pure, Except.pure]

/-- `None` passes through unless the element is required (OFXSpecError) -/
theorem C09_none (tzs : List (Str × Int)) (required : Bool) :
    dtConvertWith tzs required .none = (if required then .error .spec else .ok .none)
    ∧ dtUnconvert required .none = (if required then .error .spec else .ok .none)
    ∧ tmConvertWith tzs required .none = (if required then .error .spec else .ok .none)
    ∧ tmUnconvert required .none = (if required then .error .spec else .ok .none) := by
  simp [dtConvertWith, dtUnconvert, tmConvertWith, tmUnconvert, enforceRequired]

/-- values of any other type are refused with TypeError: a `time` by `DateTime`, a `datetime` by `Time`,
    strings by `unconvert`, numbers, decimals, booleans and everything else by all four -/
theorem C09_foreign_types (tzs : List (Str × Int)) (required : Bool) (v : Val) :
    ((∀ s, v ≠ .str s) → (∀ d, v ≠ .dt d) → v ≠ .none → dtConvertWith tzs required v = .error .type)
    ∧ ((∀ d, v ≠ .dt d) → v ≠ .none → dtUnconvert required v = .error .type)
    ∧ ((∀ s, v ≠ .str s) → (∀ t, v ≠ .tm t) → v ≠ .none → tmConvertWith tzs required v = .error .type)
    ∧ ((∀ t, v ≠ .tm t) → v ≠ .none → tmUnconvert required v = .error .type) := by
  cases v <;> simp [dtConvertWith, dtUnconvert, tmConvertWith, tmUnconvert]

/-! ## rejecting -/

/-- what `DateTime._convert_str` has accepted went through all of: regex, `int()`, `datetime(...)` validation -/
theorem dtConvertStr_ok_inv (tzs : List (Str × Int)) (s : Str) (v : Val) (h : dtConvertStr tzs s = .ok v) :
    ∃ g y mo d hh mi sec, dtRegex s = some g ∧ intOfAscii g.year = .ok y ∧ intOfAscii g.month = .ok mo
      ∧ intOfAscii g.day = .ok d ∧ intOfAscii g.hour = .ok hh ∧ intOfAscii g.minute = .ok mi
      ∧ intOfAscii g.second = .ok sec ∧ Cal.validDate y mo d = true ∧ hh < 24 ∧ mi < 60 ∧ sec < 60 := by
  unfold dtConvertStr at h
  cases hre : dtRegex s with
  | none => simp [hre, bind, Except.bind] at h
  | some g =>
    simp only [hre, bind, Except.bind, pure, Except.pure] at h
    cases ho : parseGmtOffset tzs g.offH g.offM g.name with
    | error e => simp [ho] at h
    | ok off =>
      cases hy : intOfAscii g.year with
      | error e => simp [ho, hy] at h
      | ok y =>
        cases hmo : intOfAscii g.month with
        | error e => simp [ho, hy, hmo] at h
        | ok mo =>
          cases hd : intOfAscii g.day with
          | error e => simp [ho, hy, hmo, hd] at h
          | ok d =>
            cases hh : intOfAscii g.hour with
            | error e => simp [ho, hy, hmo, hd, hh] at h
            | ok hr =>
              cases hmi : intOfAscii g.minute with
              | error e => simp [ho, hy, hmo, hd, hh, hmi] at h
              | ok mi =>
                cases hs : intOfAscii g.second with
                | error e => simp [ho, hy, hmo, hd, hh, hmi, hs] at h
                | ok sec =>
                  cases hms : intOfAscii g.ms with
                  | error e => simp [ho, hy, hmo, hd, hh, hmi, hs, hms] at h
                  | ok ms =>
                    simp only [ho, hy, hmo, hd, hh, hmi, hs, hms] at h
                    by_cases hv : (Cal.validDate y mo d && validTime hr mi sec (1000 * ms)) = true
                    · simp only [Bool.and_eq_true] at hv
                      have hv2 := hv.2
                      simp only [validTime, Bool.and_eq_true, decide_eq_true_eq] at hv2
                      exact ⟨g, y, mo, d, hr, mi, sec, by first | rfl | assumption, by first | rfl | assumption, by first | rfl | assumption,
                        by first | rfl | assumption, by first | rfl | assumption, by first | rfl | assumption,
                        by first | rfl | assumption, hv.1, hv2.1.1.1, hv2.1.1.2, hv2.1.2⟩
                    · simp [hv] at h

/-- **C09_reject (date-time).** Whatever `DateTime.convert` accepts (one final line feed apart — known finding) begins
    with eight ASCII digits `YYYYMMDD` forming a calendar-valid date (year 1..9999, month 1..12, day 1..days-in-month)
    and then either ends or continues with six ASCII digits `HHMMSS` with HH < 24, MM < 60, SS < 60, after which it
    ends or continues with `.` or `[`.  Hence: wrong length, letters, month 00/13, day 00/32, 31 April, 29 Feb of a
    common year, hour 24, minute 60, second 60 are all rejected. -/
theorem C09_reject (tzs : List (Str × Int)) (required : Bool) (s : Str) (v : Val)
    (h : dtConvertWith tzs required (.str s) = .ok v) :
    (s = stripFinalNewline s ∨ s = stripFinalNewline s ++ ['\n']) ∧
    ∃ y m d rest, stripFinalNewline s = dateText y m d ++ rest ∧ Spec.Instant.validDate y m d = true ∧
      (rest = [] ∨ ∃ hh mi sec rest', rest = todText hh mi sec ++ rest' ∧ validTod hh mi sec = true
        ∧ (rest' = [] ∨ ∃ c t, rest' = c :: t ∧ (c = '.' ∨ c = '['))) := by
  refine ⟨stripFinalNewline_cases s, ?_⟩
  have h' : dtConvertStr tzs s = .ok v := h
  obtain ⟨g, y, mo, d, hh, mi, sec, hre, hy, hmo, hd, hhh, hmi, hsec, hvd, b1, b2, b3⟩ := dtConvertStr_ok_inv tzs s v h'
  obtain ⟨y1, y2, y3, y4, m1, m2, d1, d2c, r, hs, gy, gm, gd, hr⟩ := dtRegex_inv s g hre
  rw [gy] at hy; rw [gm] at hmo; rw [gd] at hd
  obtain ⟨_, ey⟩ := natOfAscii4_inv _ _ _ _ y (intOfAscii_some_ok _ _ hy)
  obtain ⟨_, em⟩ := natOfAscii2_inv _ _ mo (intOfAscii_some_ok _ _ hmo)
  obtain ⟨_, ed⟩ := natOfAscii2_inv _ _ d (intOfAscii_some_ok _ _ hd)
  refine ⟨y, mo, d, r, ?_, by rw [spec_validDate_eq]; exact hvd, ?_⟩
  · rw [hs, dateText, ← ey, ← em, ← ed]; rfl
  · rcases hr with ⟨hr, _⟩ | ⟨h1, h2, mi1, mi2, s1, s2, r', hr, gh, gmi, gs, hshape⟩
    · exact Or.inl hr
    · right
      rw [gh] at hhh; rw [gmi] at hmi; rw [gs] at hsec
      obtain ⟨_, eh⟩ := natOfAscii2_inv _ _ hh (intOfAscii_some_ok _ _ hhh)
      obtain ⟨_, emi⟩ := natOfAscii2_inv _ _ mi (intOfAscii_some_ok _ _ hmi)
      obtain ⟨_, es⟩ := natOfAscii2_inv _ _ sec (intOfAscii_some_ok _ _ hsec)
      refine ⟨hh, mi, sec, r', ?_, by simp [validTod, b1, b2, b3], hshape⟩
      rw [hr, todText, ← eh, ← emi, ← es]; rfl

/-! ## writing -/

/-- naive ("wall clock") fields of a datetime as microseconds since ordinal 0 -/
def localUs (d : DT) : Int := toUs d.year d.month d.day d.hour d.minute d.second d.us
/-- 1000-01-01T00:00 and 10000-01-01T00:00 on that scale -/
def us1000 : Int := 364878 * 86400000000
def usEnd : Int := 3652060 * 86400000000

theorem dtInstantUs_local (d : DT) (tz : Tz) (hv : dtValid d = true) (htz : d.tz = some tz) :
    dtInstantUs d = some (localUs d - tz.offUs) := by
  have hm : 1 ≤ d.month ∧ d.month ≤ 12 := by
    simp only [dtValid, Bool.and_eq_true] at hv
    have := validDate_bounds hv.1.1
    omega
  unfold dtInstantUs localUs toUs
  rw [htz, Option.map_some, spec_ordinal_eq _ _ _ hm]

/-- **C09_write (partial; text).** An aware, valid datetime whose offset is a whole number of minutes in
    [-12:00, +14:00], whose zone name (if any) has no line feed and whose wall-clock time plus 500 µs lies in years
    1000..9999 is written as the text of the notation `YYYYMMDDHHMMSS.XXX[±h(.mm)?(:name)?]` (structurally: `p.render`
    with a date, a time of day, milliseconds and the canonical offset `canonOff`), and that text denotes the value's
    instant rounded to the nearest millisecond. -/
theorem C09_write_partial (required : Bool) (d : DT) (tz : Tz)
    (hv : dtValid d = true) (htz : d.tz = some tz)
    (hwhole : tz.offUs % 60000000 = 0)
    (hoff : -720 ≤ tz.offUs / 60000000 ∧ tz.offUs / 60000000 ≤ 840)
    (hname : ∀ n, tz.name = some n → '\n' ∉ n)
    (hyear : us1000 ≤ localUs d + 500 ∧ localUs d + 500 < usEnd) :
    ∃ (p : Parts) (us : Int), dtInstantUs d = some us
      ∧ dtUnconvert required (.dt d) = .ok (.str p.render)
      ∧ p.wf false = true
      ∧ p.date.isSome = true ∧ p.tod.isSome = true ∧ p.ms.isSome = true
      ∧ p.off = some (canonOff (tz.offUs / 60000000) tz.name)
      ∧ p.instant = roundMs us := by
  unfold us1000 usEnd at hyear
  have hr : -usPerDay < tz.offUs ∧ tz.offUs < usPerDay := by unfold usPerDay; omega
  obtain ⟨b, hb, v1, v2, v3⟩ := fromUs_spec (localUs d + 500) (by unfold usPerDay; omega)
    (by unfold usPerDay maxOrdinal; omega)
  have hv1 := v1
  simp only [Cal.validDate, Bool.and_eq_true, decide_eq_true_eq] at hv1
  obtain ⟨⟨⟨⟨⟨y1, y2⟩, m1⟩, m2⟩, d1⟩, d2'⟩ := hv1
  have hv2 := v2
  simp only [validTime, Bool.and_eq_true, decide_eq_true_eq] at hv2
  obtain ⟨⟨⟨t1, t2⟩, t3⟩, t4⟩ := hv2
  -- the year of the bumped value
  have hN : 364878 ≤ ymd2ord b.year b.month b.day := by
    unfold toUs at v3; omega
  have hy1000 : 1000 ≤ b.year := by
    have := ord2ymd_year_ge _ hN
    rw [ord2ymd_ymd2ord b.year b.month b.day y1 ⟨m1, m2⟩ ⟨d1, d2'⟩] at this
    exact this
  have hoffmin := canonOff_minutesEast (tz.offUs / 60000000) tz.name (by omega)
  refine ⟨⟨some (b.year, b.month, b.day), some (b.hour, b.minute, b.second), some (b.us / 1000),
    some (canonOff (tz.offUs / 60000000) tz.name)⟩, localUs d - tz.offUs, dtInstantUs_local d tz hv htz, ?_, ?_,
    rfl, rfl, rfl, rfl, ?_⟩
  · have hfd : fieldsOfDT d = ⟨d.year, d.month, d.day, d.hour, d.minute, d.second, d.us⟩ := rfl
    simp only [dtUnconvert, htz, utcoffset_some tz hr, bind, Except.bind, pure, Except.pure,
      formatDatetime_eq false (fieldsOfDT d) b tz hr (by simpa [localUs, hfd] using hb)]
    simp only [Bool.false_eq_true, if_false, strftimeYmdHMS, strftimeHMS, pyStrNat_year b.year hy1000 (by omega),
      pad2_eq, pad3_eq, formatOffset_eq tz.offUs tz.name hr, Parts.render]
    simp
  · simp only [Parts.wf, Bool.not_false, Bool.true_and, spec_validDate_eq, v1, validTod, Bool.and_eq_true,
      decide_eq_true_eq]
    exact ⟨⟨⟨⟨t1, t2⟩, t3⟩, by omega⟩, canonOff_wf _ _ hoff hname⟩
  · show instantOf b.year b.month b.day b.hour b.minute b.second (b.us / 1000)
        (canonOff (tz.offUs / 60000000) tz.name).minutesEast = roundMs (localUs d - tz.offUs)
    rw [hoffmin]
    unfold instantOf roundMs
    rw [spec_ordinal_eq _ _ _ ⟨m1, m2⟩]
    unfold toUs at v3
    omega

/-- **C09_write (partial; write then read).** Under the hypotheses of `C09_write_partial`, if moreover the written
    offset passes `readGuard` (i.e. the zone is not in (-1:00, 0) — known defect — and, for whole-hour zones, the
    name does not begin with two digits — known defect) and the rounded instant lies in years 1..9999 (UTC), then
    reading the written text back gives the UTC value denoting the original instant rounded to the millisecond. -/
theorem C09_write_roundtrip_partial (tzs : List (Str × Int)) (required required' : Bool) (d : DT) (tz : Tz)
    (hv : dtValid d = true) (htz : d.tz = some tz)
    (hwhole : tz.offUs % 60000000 = 0)
    (hoff : -720 ≤ tz.offUs / 60000000 ∧ tz.offUs / 60000000 ≤ 840)
    (hname : ∀ n, tz.name = some n → '\n' ∉ n)
    (hyear : us1000 ≤ localUs d + 500 ∧ localUs d + 500 < usEnd)
    (hguard : readGuard (canonOff (tz.offUs / 60000000) tz.name) = true)
    (hutc : minInstant ≤ roundMs (localUs d - tz.offUs) ∧ roundMs (localUs d - tz.offUs) < endInstant) :
    ∃ (text : Str) (v : Val), dtUnconvert required (.dt d) = .ok (.str text)
      ∧ dtConvertWith tzs required' (.str text) = .ok v
      ∧ IsUtcOf v (1000 * roundMs (localUs d - tz.offUs))
      ∧ dtInstantUs d = some (localUs d - tz.offUs) := by
  obtain ⟨p, us, hus, hun, hwf, _, _, _, hpo, hpi⟩ :=
    C09_write_partial required d tz hv htz hwhole hoff hname hyear
  have hus' := dtInstantUs_local d tz hv htz
  rw [hus'] at hus
  injection hus with hus
  subst hus
  have hg : partsReadGuard p = true := by simp only [partsReadGuard, hpo]; exact hguard
  rw [← hpi] at hutc
  obtain ⟨v, hc, hi⟩ := C09_read_partial tzs required' p hwf hg hutc
  exact ⟨p.render, v, hun, hc, by rw [← hpi]; exact hi, hus'⟩

/-- the guards of the write theorems are satisfiable: 2024-02-29T23:59:59.999500-03:30 "NST" -/
example : dtValid ⟨2024, 2, 29, 23, 59, 59, 999500, some ⟨-12600000000, some "NST".toList⟩⟩ = true
    ∧ (-12600000000 : Int) % 60000000 = 0
    ∧ us1000 ≤ localUs ⟨2024, 2, 29, 23, 59, 59, 999500, some ⟨-12600000000, some "NST".toList⟩⟩ + 500
    ∧ localUs ⟨2024, 2, 29, 23, 59, 59, 999500, some ⟨-12600000000, some "NST".toList⟩⟩ + 500 < usEnd
    ∧ readGuard (canonOff ((-12600000000 : Int) / 60000000) (some "NST".toList)) = true := by decide +kernel

def C09_write_roundtrip_full : Prop :=
  ∀ (tzs : List (Str × Int)) (d : DT) (tz : Tz), dtValid d = true → d.tz = some tz →
    tz.offUs % 60000000 = 0 → (-720 ≤ tz.offUs / 60000000 ∧ tz.offUs / 60000000 ≤ 840) →
    (∀ n, tz.name = some n → '\n' ∉ n) → (us1000 ≤ localUs d + 500 ∧ localUs d + 500 < usEnd) →
    (minInstant ≤ roundMs (localUs d - tz.offUs) ∧ roundMs (localUs d - tz.offUs) < endInstant) →
    ∃ (text : Str) (v : Val), dtUnconvert false (.dt d) = .ok (.str text)
      ∧ dtConvertWith tzs false (.str text) = .ok v ∧ IsUtcOf v (1000 * roundMs (localUs d - tz.offUs))

def writeWitness : DT := ⟨2020, 1, 1, 12, 0, 0, 0, some ⟨-1800000000, none⟩⟩

/-- the library writes noon at -00:30 as `20200101120000.000[-0.30]` and reads that back as 11:30 UTC (not 12:30) -/
theorem writeWitness_roundtrip :
    dtUnconvert false (.dt writeWitness) = .ok (.str "20200101120000.000[-0.30]".toList)
    ∧ dtConvertWith [] false (.str "20200101120000.000[-0.30]".toList)
        = .ok (.dt ⟨2020, 1, 1, 11, 30, 0, 0, some utcTz⟩) :=
  ⟨eq_of_okIs (by decide +kernel), eq_of_okIs (by decide +kernel)⟩

theorem C09_write_roundtrip_full_false : ¬ C09_write_roundtrip_full := by
  intro h
  obtain ⟨text, v, h1, h2, r, hr, _, _, hi⟩ := h [] writeWitness ⟨-1800000000, none⟩ (by decide +kernel) rfl
    (by decide +kernel) (by decide +kernel) (by intro n hn; simp at hn) (by decide +kernel) (by decide +kernel)
  rw [writeWitness_roundtrip.1] at h1
  injection h1 with h1
  injection h1 with h1
  subst h1
  rw [writeWitness_roundtrip.2] at h2
  injection h2 with h2
  subst h2
  injection hr with hr
  subst hr
  revert hi
  decide +kernel

/-! ## Time: rejecting and writing -/

theorem tmConvertStr_ok_inv (tzs : List (Str × Int)) (s : Str) (v : Val) (h : tmConvertStr tzs s = .ok v) :
    ∃ g hh mi sec, tmRegex s = some g ∧ intOfAscii g.hour = .ok hh ∧ intOfAscii g.minute = .ok mi
      ∧ intOfAscii g.second = .ok sec ∧ hh < 24 ∧ mi < 60 ∧ sec < 60 := by
  unfold tmConvertStr at h
  cases hre : tmRegex s with
  | none => simp [hre, bind, Except.bind] at h
  | some g =>
    simp only [hre, bind, Except.bind, pure, Except.pure] at h
    cases ho : parseGmtOffset tzs g.offH g.offM g.name with
    | error e => simp [ho] at h
    | ok off =>
      cases hh : intOfAscii g.hour with
      | error e => simp [ho, hh] at h
      | ok hr =>
        cases hmi : intOfAscii g.minute with
        | error e => simp [ho, hh, hmi] at h
        | ok mi =>
          cases hs : intOfAscii g.second with
          | error e => simp [ho, hh, hmi, hs] at h
          | ok sec =>
            cases hms : intOfAscii g.ms with
            | error e => simp [ho, hh, hmi, hs, hms] at h
            | ok ms =>
              simp only [ho, hh, hmi, hs, hms] at h
              by_cases hv : validTime hr mi sec (1000 * ms) = true
              · simp only [validTime, Bool.and_eq_true, decide_eq_true_eq] at hv
                exact ⟨g, hr, mi, sec, by first | rfl | assumption, by first | rfl | assumption,
                  by first | rfl | assumption, by first | rfl | assumption, hv.1.1.1, hv.1.1.2, hv.1.2⟩
              · simp [hv] at h

/-- **C09_time_reject.** Whatever `Time.convert` accepts (one final line feed apart) begins with six ASCII digits
    `HHMMSS`, HH < 24, MM < 60, SS < 60, and then ends or continues with `.` or `[`. -/
theorem C09_time_reject (tzs : List (Str × Int)) (required : Bool) (s : Str) (v : Val)
    (h : tmConvertWith tzs required (.str s) = .ok v) :
    (s = stripFinalNewline s ∨ s = stripFinalNewline s ++ ['\n']) ∧
    ∃ hh mi sec rest', stripFinalNewline s = todText hh mi sec ++ rest' ∧ validTod hh mi sec = true
        ∧ (rest' = [] ∨ ∃ c t, rest' = c :: t ∧ (c = '.' ∨ c = '[')) := by
  refine ⟨stripFinalNewline_cases s, ?_⟩
  have h' : tmConvertStr tzs s = .ok v := h
  obtain ⟨g, hh, mi, sec, hre, hhh, hmi, hsec, b1, b2, b3⟩ := tmConvertStr_ok_inv tzs s v h'
  unfold tmRegex at hre
  obtain ⟨h1, h2, mi1, mi2, s1, s2, r', hr, _, _, _, gh, gmi, gs, hshape⟩ := timePart_inv _ _ _ hre
  rw [gh] at hhh; rw [gmi] at hmi; rw [gs] at hsec
  obtain ⟨_, eh⟩ := natOfAscii2_inv _ _ hh (intOfAscii_some_ok _ _ hhh)
  obtain ⟨_, emi⟩ := natOfAscii2_inv _ _ mi (intOfAscii_some_ok _ _ hmi)
  obtain ⟨_, es⟩ := natOfAscii2_inv _ _ sec (intOfAscii_some_ok _ _ hsec)
  refine ⟨hh, mi, sec, r', ?_, by simp [validTod, b1, b2, b3], hshape⟩
  rw [hr, todText, ← eh, ← emi, ← es]; rfl

/-- time of day of a `time` value in microseconds -/
def todUs (t : TM) : Int := ((t.hour * 3600 + t.minute * 60 + t.second : Nat) : Int) * 1000000 + (t.us : Nat)

theorem tmInstantUs_local (t : TM) (tz : Tz) (htz : t.tz = some tz) :
    tmInstantUs t = some ((todUs t - tz.offUs) % 86400000000) := by
  unfold tmInstantUs todUs
  rw [htz, Option.map_some]

/-- **C09_time_write (partial; text).** An aware, valid `time` whose offset is a whole number of minutes in
    [-12:00, +14:00] and whose zone name has no line feed is written as `HHMMSS.XXX[±h(.mm)?(:name)?]`, denoting the
    value's instant (mod 24 h) rounded to the nearest millisecond (mod 24 h). -/
theorem C09_time_write_partial (required : Bool) (t : TM) (tz : Tz)
    (hv : tmValid t = true) (htz : t.tz = some tz)
    (hwhole : tz.offUs % 60000000 = 0)
    (hoff : -720 ≤ tz.offUs / 60000000 ∧ tz.offUs / 60000000 ≤ 840)
    (hname : ∀ n, tz.name = some n → '\n' ∉ n) :
    ∃ (p : Parts), tmUnconvert required (.tm t) = .ok (.str p.render)
      ∧ p.wf true = true
      ∧ p.date = none ∧ p.tod.isSome = true ∧ p.ms.isSome = true
      ∧ p.off = some (canonOff (tz.offUs / 60000000) tz.name)
      ∧ p.instant = roundMs ((todUs t - tz.offUs) % 86400000000) % 86400000 := by
  have hr : -usPerDay < tz.offUs ∧ tz.offUs < usPerDay := by unfold usPerDay; omega
  simp only [tmValid, validTod, Bool.and_eq_true, decide_eq_true_eq] at hv
  obtain ⟨⟨⟨a1, a2⟩, a3⟩, a4⟩ := hv
  have hN : ymd2ord 1999 6 8 = 729913 := by decide
  have hT : toUs 1999 6 8 t.hour t.minute t.second t.us = 729913 * 86400000000 + todUs t := by
    unfold toUs todUs; rw [hN]; omega
  have htod : 0 ≤ todUs t ∧ todUs t < 86400000000 := by unfold todUs; omega
  obtain ⟨b, hb, v1, v2, v3⟩ := fromUs_spec (toUs 1999 6 8 t.hour t.minute t.second t.us + 500)
    (by rw [hT]; unfold usPerDay; omega) (by rw [hT]; unfold usPerDay maxOrdinal; omega)
  have hv2 := v2
  simp only [validTime, Bool.and_eq_true, decide_eq_true_eq] at hv2
  obtain ⟨⟨⟨t1, t2⟩, t3⟩, t4⟩ := hv2
  have hoffmin := canonOff_minutesEast (tz.offUs / 60000000) tz.name (by omega)
  refine ⟨⟨none, some (b.hour, b.minute, b.second), some (b.us / 1000),
    some (canonOff (tz.offUs / 60000000) tz.name)⟩, ?_, ?_, rfl, rfl, rfl, rfl, ?_⟩
  · simp only [tmUnconvert, htz, utcoffset_some tz hr, bind, Except.bind, pure, Except.pure,
      formatDatetime_eq true ⟨1999, 6, 8, t.hour, t.minute, t.second, t.us⟩ b tz hr hb]
    simp only [if_true, strftimeHMS, pad2_eq, pad3_eq, formatOffset_eq tz.offUs tz.name hr, Parts.render]
    simp
  · simp only [Parts.wf, Bool.true_and, validTod, Bool.and_eq_true, decide_eq_true_eq]
    exact ⟨⟨⟨⟨t1, t2⟩, t3⟩, by omega⟩, canonOff_wf _ _ hoff hname⟩
  · show todInstantOf b.hour b.minute b.second (b.us / 1000)
        (canonOff (tz.offUs / 60000000) tz.name).minutesEast
      = roundMs ((todUs t - tz.offUs) % 86400000000) % 86400000
    rw [hoffmin]
    unfold todInstantOf roundMs
    rw [hT] at v3
    unfold toUs at v3
    generalize ymd2ord b.year b.month b.day = N at v3
    generalize todUs t = U at *
    omega

/-- **C09_time_write (partial; write then read).** -/
theorem C09_time_write_roundtrip_partial (tzs : List (Str × Int)) (required required' : Bool) (t : TM) (tz : Tz)
    (hv : tmValid t = true) (htz : t.tz = some tz)
    (hwhole : tz.offUs % 60000000 = 0)
    (hoff : -720 ≤ tz.offUs / 60000000 ∧ tz.offUs / 60000000 ≤ 840)
    (hname : ∀ n, tz.name = some n → '\n' ∉ n)
    (hguard : readGuard (canonOff (tz.offUs / 60000000) tz.name) = true) :
    ∃ (text : Str) (v : Val), tmUnconvert required (.tm t) = .ok (.str text)
      ∧ tmConvertWith tzs required' (.str text) = .ok v
      ∧ IsUtcTimeOf v (1000 * (roundMs ((todUs t - tz.offUs) % 86400000000) % 86400000))
      ∧ tmInstantUs t = some ((todUs t - tz.offUs) % 86400000000) := by
  obtain ⟨p, hun, hwf, _, _, _, hpo, hpi⟩ := C09_time_write_partial required t tz hv htz hwhole hoff hname
  have hg : partsReadGuard p = true := by simp only [partsReadGuard, hpo]; exact hguard
  obtain ⟨v, hc, hi⟩ := C09_time_read_partial tzs required' p hwf hg
  exact ⟨p.render, v, hun, hc, by rw [← hpi]; exact hi, tmInstantUs_local t tz htz⟩

/-- the guards of the time write theorems are satisfiable: 23:59:59.999500+05:45 "NPT" -/
example : tmValid ⟨23, 59, 59, 999500, some ⟨20700000000, some "NPT".toList⟩⟩ = true
    ∧ (20700000000 : Int) % 60000000 = 0
    ∧ -720 ≤ (20700000000 : Int) / 60000000 ∧ (20700000000 : Int) / 60000000 ≤ 840
    ∧ readGuard (canonOff ((20700000000 : Int) / 60000000) (some "NPT".toList)) = true := by decide +kernel

/-- a short text is rejected (corollary of `C09_reject`; e.g. `2020010`, `202001011200` is handled by the shape clause) -/
theorem C09_reject_short (tzs : List (Str × Int)) (required : Bool) (s : Str) (hlen : s.length < 8) (v : Val) :
    dtConvertWith tzs required (.str s) ≠ .ok v := by
  intro h
  obtain ⟨hs, y, m, d, rest, he, _, _⟩ := C09_reject tzs required s v h
  have h8 : (dateText y m d).length = 8 := by simp [dateText, d4, d2]
  have hl : (stripFinalNewline s).length ≥ 8 := by rw [he, List.length_append]; omega
  rcases hs with hs | hs
  · rw [← hs] at hl; omega
  · have := congrArg List.length hs
    rw [List.length_append] at this
    simp at this
    omega

/-! ### the full-strength rejection statement is false of the current code -/

/-- "texts outside the notation are rejected", literally -/
def C09_reject_full : Prop :=
  ∀ (tzs : List (Str × Int)) (s : Str) (v : Val), dtConvertWith tzs false (.str s) = .ok v → InNotation false s

/-- no text of the notation ends in a line feed -/
theorem render_last (t : Bool) (p : Parts) (hwf : p.wf t = true) :
    ∃ pre c, c ≠ '\n' ∧ p.render = pre ++ [c] := by
  obtain ⟨date, tod, ms, off⟩ := p
  simp only [Parts.wf, Bool.and_eq_true] at hwf
  obtain ⟨⟨⟨hd, ht⟩, _⟩, _⟩ := hwf
  cases tod with
  | none =>
    simp only [Bool.and_eq_true, Option.isNone_iff_eq_none] at ht
    obtain ⟨⟨_, rfl⟩, rfl⟩ := ht
    cases date with
    | none => simp_all
    | some ymd =>
      obtain ⟨y, m, d⟩ := ymd
      exact ⟨d4 y ++ d2 m ++ [dch (d / 10)], dch d, dch_ne_newline d, by simp [Parts.render, d2]⟩
  | some hms =>
    obtain ⟨h, mi, sec⟩ := hms
    cases date with
    | none =>
      obtain ⟨pre', c', hc', he⟩ := snoc_of_tail ms off (d2 h ++ d2 mi ++ [dch (sec / 10)]) (dch sec) (dch_ne_newline sec)
      refine ⟨pre', c', hc', ?_⟩
      rw [← he]
      cases ms <;> cases off <;> simp [Parts.render, msText, offText, d2]
    | some ymd =>
      obtain ⟨y, m, d⟩ := ymd
      obtain ⟨pre', c', hc', he⟩ := snoc_of_tail ms off (d4 y ++ d2 m ++ d2 d ++ d2 h ++ d2 mi ++ [dch (sec / 10)])
        (dch sec) (dch_ne_newline sec)
      refine ⟨pre', c', hc', ?_⟩
      rw [← he]
      cases ms <;> cases off <;> simp [Parts.render, msText, offText, d2]

/-- `"20200101\n"` (nine characters) is accepted as 2020-01-01T00:00Z although it is outside the notation
    (`$` matches before a final line feed) -/
theorem C09_reject_full_false : ¬ C09_reject_full := by
  intro h
  have hacc : dtConvertWith [] false (.str "20200101\n".toList)
      = .ok (.dt ⟨2020, 1, 1, 0, 0, 0, 0, some utcTz⟩) := eq_of_okIs (by decide +kernel)
  obtain ⟨p, hwf, hren⟩ := h [] _ _ hacc
  obtain ⟨pre, c, hc, he⟩ := render_last false p hwf
  rw [he] at hren
  have := congrArg List.getLast? hren
  simp at this
  exact hc this

end Ofx.DateTime
