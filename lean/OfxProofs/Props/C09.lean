/-
C09 — date-time and time values mean the instant the OFX notation denotes.

Model: `OfxModel/Ofx/DateTime.lean` (+ `Py/Cal.lean`); specification: `OfxModel/Spec/Instant.lean`.
The model follows /repo HEAD including the three `fix:` commits for C09 (sign of `-0.MM` kept; offset minutes are
`\.[0-5][0-9]`; patterns end in `\Z`), so the former guards are gone.
All theorems are about `dtConvertWith tzs` / `tmConvertWith tzs` for *every* zone table `tzs`
(`dtConvert`/`tmConvert` are the instances at the generated `TZS`) and about `dtUnconvert`/`tmUnconvert`.
-/
import OfxProofs.Lemmas.DateTime

namespace Ofx.DateTime
open Ofx Ofx.Cal Ofx.Spec.Instant

/-! ## the one remaining side condition of the read theorems -/

/-- CPython's `int()` refuses more than 4300 digits (`sys.get_int_max_str_digits()`); the hours of an offset are
    written with at most that many digits.  (Not an ofxtools matter; `C09_read_full_false` shows it is needed.) -/
def lenOk (p : Parts) : Bool :=
  match p.off with | some o => decide (o.hdigits.length ≤ intMaxStrDigits) | none => true

theorem parts_off_ok {p : Parts} {t : Bool} (hwf : p.wf t = true) (hg : lenOk p = true) :
    ∀ o, p.off = some o → OffReadOk o := by
  intro o ho
  have h1 : o.wf = true := by
    simp only [Parts.wf, Bool.and_eq_true] at hwf
    have := hwf.2; rw [ho] at this; exact this
  have h2 : o.hdigits.length ≤ intMaxStrDigits := by
    simp only [lenOk, ho, decide_eq_true_eq] at hg; exact hg
  exact ⟨h1, h2⟩

/-- the value is the UTC value denoting instant `us` (microseconds): valid fields, tz = UTC, that instant -/
def IsUtcOf (v : Val) (us : Int) : Prop :=
  ∃ r : DT, v = .dt r ∧ dtValid r = true ∧ r.tz = some utc ∧ dtInstantUs r = some us

def IsUtcTimeOf (v : Val) (us : Int) : Prop :=
  ∃ t : TM, v = .tm t ∧ tmValid t = true ∧ t.tz = some utc ∧ tmInstantUs t = some us

theorem utc_eq : utcTz = utc := rfl

theorem isUtcOf_fields (f : Fields) (I : Int)
    (v1 : Cal.validDate f.year f.month f.day = true) (v2 : validTime f.hour f.minute f.second f.us = true)
    (v3 : toUs f.year f.month f.day f.hour f.minute f.second f.us = I) :
    IsUtcOf (.dt (dtOfFields f (some utcTz))) I := by
  refine ⟨_, rfl, ?_, rfl, ?_⟩
  · simp only [validTime, Bool.and_eq_true, decide_eq_true_eq] at v2
    obtain ⟨⟨⟨a, b⟩, c⟩, e⟩ := v2
    simp [dtValid, dtOfFields, spec_validDate_eq, v1, validTod, a, b, c, e]
  · have hm : 1 ≤ f.month ∧ f.month ≤ 12 := by
      simp only [Cal.validDate, Bool.and_eq_true, decide_eq_true_eq] at v1; omega
    have h0 : dtInstantUs (dtOfFields f (some utcTz))
        = some ((((ordinal f.year f.month f.day : Nat) : Int) * 86400
            + (f.hour * 3600 + f.minute * 60 + f.second : Nat)) * 1000000 + (f.us : Nat) - utcTz.offUs) := by
      unfold dtInstantUs dtOfFields; rfl
    have h1 : utcTz.offUs = 0 := by unfold utcTz; rfl
    rw [h0, h1, spec_ordinal_eq _ _ _ hm]
    unfold toUs at v3
    exact congrArg some (by omega)

/-! ## reading -/

/-- **C09_read.**
    Every text of the four date-time notations — `YYYYMMDD`, `YYYYMMDDHHMMSS`, with `.XXX`, with `[offset]` after
    either — with valid fields, offset in [-12:00, +14:00] written as sign? digits+ (`.MM`)? (`:name`)?, any name
    without line feed, denoting an instant within years 1..9999, converts to the UTC value denoting `instantOf`. -/
theorem C09_read (tzs : List (Str × Int)) (required : Bool) (p : Parts)
    (hwf : p.wf false = true) (hg : lenOk p = true)
    (hrange : minInstant ≤ p.instant ∧ p.instant < endInstant) :
    ∃ v, dtConvertWith tzs required (.str p.render) = .ok v ∧ IsUtcOf v (1000 * p.instant) := by
  have hoff := parts_off_ok hwf hg
  obtain ⟨date, tod, ms, off⟩ := p
  simp only [Parts.wf, Bool.and_eq_true] at hwf
  obtain ⟨⟨⟨hd, ht⟩, hms⟩, _⟩ := hwf
  cases date with
  | none => simp at hd
  | some ymd =>
    obtain ⟨y, m, d⟩ := ymd
    simp only [Bool.not_false, Bool.true_and] at hd
    cases tod with
    | none =>
      simp only [Bool.not_false, Bool.true_and, Bool.and_eq_true, Option.isNone_iff_eq_none] at ht
      obtain ⟨rfl, rfl⟩ := ht
      obtain ⟨f, hf, v1, v2, v3⟩ := dtConvertStr_date tzs y m d hd
      refine ⟨_, ?_, isUtcOf_fields f _ v1 v2 v3⟩
      simpa [dtConvertWith, Parts.render, dateText] using hf
    | some hms' =>
      obtain ⟨h, mi, s⟩ := hms'
      simp only at ht
      have hmsv : ∀ x, ms = some x → x < 1000 := by
        intro x hx; rw [hx] at hms; simpa using hms
      have hI : Parts.instant ⟨some (y, m, d), some (h, mi, s), ms, off⟩
          = instantOf y m d h mi s (ms.getD 0) (offMinutes off) := by
        cases off <;> rfl
      rw [hI] at hrange ⊢
      obtain ⟨f, hf, v1, v2, v3⟩ := dtConvertStr_full tzs y m d h mi s ms off hd ht hmsv hoff hrange
      refine ⟨_, ?_, isUtcOf_fields f _ v1 v2 v3⟩
      have hr : Parts.render ⟨some (y, m, d), some (h, mi, s), ms, off⟩
          = dateText y m d ++ (todText h mi s ++ (msText ms ++ offText off)) := by
        cases ms <;> cases off <;> simp [Parts.render, dateText, todText, msText, offText]
      simpa [dtConvertWith, hr] using hf

/-- **C09_time_read.** The same for the time notation `HHMMSS[.XXX][[offset]]`, instants modulo 24 h. -/
theorem C09_time_read (tzs : List (Str × Int)) (required : Bool) (p : Parts)
    (hwf : p.wf true = true) (hg : lenOk p = true) :
    ∃ v, tmConvertWith tzs required (.str p.render) = .ok v ∧ IsUtcTimeOf v (1000 * p.instant) := by
  have hoff := parts_off_ok hwf hg
  obtain ⟨date, tod, ms, off⟩ := p
  simp only [Parts.wf, Bool.and_eq_true] at hwf
  obtain ⟨⟨⟨hd, ht⟩, hms⟩, _⟩ := hwf
  cases date with
  | some ymd => obtain ⟨y, m, d⟩ := ymd; simp at hd
  | none =>
    cases tod with
    | none => simp at ht
    | some hms' =>
      obtain ⟨h, mi, s⟩ := hms'
      simp only at ht
      have hmsv : ∀ x, ms = some x → x < 1000 := by
        intro x hx; rw [hx] at hms; simpa using hms
      obtain ⟨t, hf, v1, v2, v3⟩ := tmConvertStr_render tzs h mi s ms off ht hmsv hoff
      have hI : Parts.instant ⟨none, some (h, mi, s), ms, off⟩
          = todInstantOf h mi s (ms.getD 0) (offMinutes off) := by
        cases off <;> rfl
      have hr : Parts.render ⟨none, some (h, mi, s), ms, off⟩
          = todText h mi s ++ (msText ms ++ offText off) := by
        cases ms <;> cases off <;> simp [Parts.render, todText, msText, offText]
      refine ⟨.tm t, ?_, t, rfl, v1, v2, ?_⟩
      · simpa [tmConvertWith, hr] using hf
      · rw [hI]; exact v3

/-- the hypotheses are satisfiable by non-trivial values: `20240229235959.999[-3.30:NST]`, `235959.999[+05.45:a:b]` -/
example : (⟨some (2024, 2, 29), some (23, 59, 59), some 999, some ⟨some true, [3], some 30, some "NST".toList⟩⟩ : Parts).wf false = true
    ∧ lenOk ⟨some (2024, 2, 29), some (23, 59, 59), some 999, some ⟨some true, [3], some 30, some "NST".toList⟩⟩ = true
    ∧ (⟨some (2024, 2, 29), some (23, 59, 59), some 999, some ⟨some true, [3], some 30, some "NST".toList⟩⟩ : Parts).render
        = "20240229235959.999[-3.30:NST]".toList := by decide +kernel
example : (⟨none, some (23, 59, 59), some 999, some ⟨some false, [0, 5], some 45, some "a:b".toList⟩⟩ : Parts).wf true = true
    ∧ lenOk ⟨none, some (23, 59, 59), some 999, some ⟨some false, [0, 5], some 45, some "a:b".toList⟩⟩ = true := by
  decide +kernel

/-! ### evaluating the model on concrete texts -/

def okIs (r : PyM Val) (v : Val) : Bool := match r with | .ok x => decide (x = v) | .error _ => false
theorem eq_of_okIs {r : PyM Val} {v : Val} (h : okIs r v = true) : r = .ok v := by
  unfold okIs at h
  cases r with
  | error e => simp at h
  | ok x => simp at h; rw [h]
def isErr (r : PyM Val) (e : Err) : Bool := match r with | .ok _ => false | .error x => decide (x = e)
theorem eq_of_isErr {r : PyM Val} {e : Err} (h : isErr r e = true) : r = .error e := by
  unfold isErr at h
  cases r with
  | ok x => simp at h
  | error x => simp at h; rw [h]

/-! ### regression witnesses of the repaired defects (were `_full_false` witnesses before the `fix:` commits) -/

/-- `20200101120000.000[-0.30]` is 12:30 UTC (was read as 11:30) -/
theorem fixed_negZero : dtConvertWith [] false (.str "20200101120000.000[-0.30]".toList)
    = .ok (.dt ⟨2020, 1, 1, 12, 30, 0, 0, some utcTz⟩) := eq_of_okIs (by decide +kernel)

/-- `20200101120000[5:30]` is offset +5 with zone name "30": 07:00 UTC (was read as +5:30) -/
theorem fixed_nameDigits : dtConvertWith [] false (.str "20200101120000[5:30]".toList)
    = .ok (.dt ⟨2020, 1, 1, 7, 0, 0, 0, some utcTz⟩) := eq_of_okIs (by decide +kernel)

/-- `[5x30]`, `[5.75]`, a final line feed: rejected (OFXSpecError) -/
theorem fixed_lenient :
    dtConvertWith [] false (.str "20200101120000[5x30]".toList) = .error .spec
    ∧ dtConvertWith [] false (.str "20200101120000[5.75]".toList) = .error .spec
    ∧ dtConvertWith [] false (.str "20200101\n".toList) = .error .spec
    ∧ tmConvertWith [] false (.str "120000\n".toList) = .error .spec :=
  ⟨eq_of_isErr (by decide +kernel), eq_of_isErr (by decide +kernel), eq_of_isErr (by decide +kernel),
   eq_of_isErr (by decide +kernel)⟩

/-! ## naive values, `None`, foreign types -/

/-- **C09_naive.** A naive `datetime` is refused (ValueError) by `convert` and by `unconvert`. -/
theorem C09_naive (tzs : List (Str × Int)) (required : Bool) (d : DT) (h : d.tz = none) :
    dtConvertWith tzs required (.dt d) = .error .value ∧ dtUnconvert required (.dt d) = .error .value := by
  simp [dtConvertWith, dtUnconvert, utcoffset, h, bind, Except.bind]

/-- **C09_time_naive.** A naive `time` is refused both ways. -/
theorem C09_time_naive (tzs : List (Str × Int)) (required : Bool) (t : TM) (h : t.tz = none) :
    tmConvertWith tzs required (.tm t) = .error .value ∧ tmUnconvert required (.tm t) = .error .value := by
  simp [tmConvertWith, tmUnconvert, utcoffset, h, bind, Except.bind]

/-- aware values with an admissible `utcoffset()` pass through `convert` unchanged -/
theorem C09_aware_passthrough (tzs : List (Str × Int)) (required : Bool) (d : DT) (tz : Tz)
    (h : d.tz = some tz) (hr : -usPerDay < tz.offUs ∧ tz.offUs < usPerDay) :
    dtConvertWith tzs required (.dt d) = .ok (.dt d) := by
  have : ¬ (tz.offUs ≤ -usPerDay ∨ tz.offUs ≥ usPerDay) := by omega
  simp [dtConvertWith, utcoffset, h, this, bind, Except.bind, pure, Except.pure]

theorem C09_time_aware_passthrough (tzs : List (Str × Int)) (required : Bool) (t : TM) (tz : Tz)
    (h : t.tz = some tz) (hr : -usPerDay < tz.offUs ∧ tz.offUs < usPerDay) :
    tmConvertWith tzs required (.tm t) = .ok (.tm t) := by
  have : ¬ (tz.offUs ≤ -usPerDay ∨ tz.offUs ≥ usPerDay) := by omega
  simp [tmConvertWith, utcoffset, h, this, bind, Except.bind, pure, Except.pure]

/-- `None` passes through unless the element is required (OFXSpecError) -/
theorem C09_none (tzs : List (Str × Int)) (required : Bool) :
    dtConvertWith tzs required .none = (if required then .error .spec else .ok .none)
    ∧ dtUnconvert required .none = (if required then .error .spec else .ok .none)
    ∧ tmConvertWith tzs required .none = (if required then .error .spec else .ok .none)
    ∧ tmUnconvert required .none = (if required then .error .spec else .ok .none) := by
  simp [dtConvertWith, dtUnconvert, tmConvertWith, tmUnconvert, enforceRequired]

/-- values of any other type are refused with TypeError: a `time` by `DateTime`, a `datetime` by `Time`,
    strings by `unconvert`, numbers, decimals, booleans and everything else by all four -/
theorem C09_foreign_types (tzs : List (Str × Int)) (required : Bool) (v : Val) :
    ((∀ s, v ≠ .str s) → (∀ d, v ≠ .dt d) → v ≠ .none → dtConvertWith tzs required v = .error .type)
    ∧ ((∀ d, v ≠ .dt d) → v ≠ .none → dtUnconvert required v = .error .type)
    ∧ ((∀ s, v ≠ .str s) → (∀ t, v ≠ .tm t) → v ≠ .none → tmConvertWith tzs required v = .error .type)
    ∧ ((∀ t, v ≠ .tm t) → v ≠ .none → tmUnconvert required v = .error .type) := by
  cases v <;> simp [dtConvertWith, dtUnconvert, tmConvertWith, tmUnconvert]

/-! ## writing -/

/-- naive ("wall clock") fields of a datetime as microseconds since ordinal 0 -/
def localUs (d : DT) : Int := toUs d.year d.month d.day d.hour d.minute d.second d.us
/-- 1000-01-01T00:00 and 10000-01-01T00:00 on that scale -/
def us1000 : Int := 364878 * 86400000000
def usEnd : Int := 3652060 * 86400000000

theorem dtInstantUs_local (d : DT) (tz : Tz) (hv : dtValid d = true) (htz : d.tz = some tz) :
    dtInstantUs d = some (localUs d - tz.offUs) := by
  have hm : 1 ≤ d.month ∧ d.month ≤ 12 := by
    simp only [dtValid, Bool.and_eq_true] at hv
    have := validDate_bounds hv.1.1
    omega
  unfold dtInstantUs localUs toUs
  rw [htz, Option.map_some, spec_ordinal_eq _ _ _ hm]

/-! Remark on tzinfos whose offset depends on the wall-clock time (zoneinfo zones, PEP-495 classes).  A `DT`/`TM` value
carries the pair `(utcoffset(), tzname())` *of the value itself*; the write theorems below take that pair as input and
state that the written offset and name are exactly it (`p.off = canonOff (tz.offUs / 60000000) tz.name`) while the
date/time fields are those of the value bumped by 500 µs.  Taking `utcoffset()`/`tzname()` from the *bumped* value
instead — which differs in the last 500 µs before a transition, e.g. 2021-11-07 01:59:59.9996 EDT — violates precisely
this statement; the correspondence exercises it with transition tzinfos canonicalised by the original value's pair. -/

/-- **C09_write (text).** An aware, valid datetime whose offset is a whole number of minutes in
    [-12:00, +14:00], whose zone name (if any) has no line feed and whose wall-clock time plus 500 µs lies in years
    1000..9999 is written as the text of the notation `YYYYMMDDHHMMSS.XXX[±h(.mm)?(:name)?]` (structurally: `p.render`
    with a date, a time of day, milliseconds and the canonical offset `canonOff`), and that text denotes the value's
    instant rounded to the nearest millisecond. -/
theorem C09_write (required : Bool) (d : DT) (tz : Tz)
    (hv : dtValid d = true) (htz : d.tz = some tz)
    (hwhole : tz.offUs % 60000000 = 0)
    (hoff : -720 ≤ tz.offUs / 60000000 ∧ tz.offUs / 60000000 ≤ 840)
    (hname : ∀ n, tz.name = some n → '\n' ∉ n)
    (hyear : us1000 ≤ localUs d + 500 ∧ localUs d + 500 < usEnd) :
    ∃ (p : Parts) (us : Int), dtInstantUs d = some us
      ∧ dtUnconvert required (.dt d) = .ok (.str p.render)
      ∧ p.wf false = true
      ∧ p.date.isSome = true ∧ p.tod.isSome = true ∧ p.ms.isSome = true
      ∧ p.off = some (canonOff (tz.offUs / 60000000) tz.name)
      ∧ p.instant = roundMs us := by
  unfold us1000 usEnd at hyear
  have hr : -usPerDay < tz.offUs ∧ tz.offUs < usPerDay := by unfold usPerDay; omega
  obtain ⟨b, hb, v1, v2, v3⟩ := fromUs_spec (localUs d + 500) (by unfold usPerDay; omega)
    (by unfold usPerDay maxOrdinal; omega)
  have hv1 := v1
  simp only [Cal.validDate, Bool.and_eq_true, decide_eq_true_eq] at hv1
  obtain ⟨⟨⟨⟨⟨y1, y2⟩, m1⟩, m2⟩, d1⟩, d2'⟩ := hv1
  have hv2 := v2
  simp only [validTime, Bool.and_eq_true, decide_eq_true_eq] at hv2
  obtain ⟨⟨⟨t1, t2⟩, t3⟩, t4⟩ := hv2
  -- the year of the bumped value
  have hN : 364878 ≤ ymd2ord b.year b.month b.day := by
    unfold toUs at v3; omega
  have hy1000 : 1000 ≤ b.year := by
    have := ord2ymd_year_ge _ hN
    rw [ord2ymd_ymd2ord b.year b.month b.day y1 ⟨m1, m2⟩ ⟨d1, d2'⟩] at this
    exact this
  have hoffmin := canonOff_minutesEast (tz.offUs / 60000000) tz.name (by omega)
  refine ⟨⟨some (b.year, b.month, b.day), some (b.hour, b.minute, b.second), some (b.us / 1000),
    some (canonOff (tz.offUs / 60000000) tz.name)⟩, localUs d - tz.offUs, dtInstantUs_local d tz hv htz, ?_, ?_,
    rfl, rfl, rfl, rfl, ?_⟩
  · have hfd : fieldsOfDT d = ⟨d.year, d.month, d.day, d.hour, d.minute, d.second, d.us⟩ := rfl
    simp only [dtUnconvert, htz, utcoffset_some tz hr, bind, Except.bind, pure, Except.pure,
      formatDatetime_eq false (fieldsOfDT d) b tz hr (by simpa [localUs, hfd] using hb)]
    simp only [Bool.false_eq_true, if_false, strftimeYmdHMS, strftimeHMS, pyStrNat_year b.year hy1000 (by omega),
      pad2_eq, pad3_eq, formatOffset_eq tz.offUs tz.name hr, Parts.render]
    simp
  · simp only [Parts.wf, Bool.not_false, Bool.true_and, spec_validDate_eq, v1, validTod, Bool.and_eq_true,
      decide_eq_true_eq]
    exact ⟨⟨⟨⟨t1, t2⟩, t3⟩, by omega⟩, canonOff_wf _ _ hoff hname⟩
  · show instantOf b.year b.month b.day b.hour b.minute b.second (b.us / 1000)
        (canonOff (tz.offUs / 60000000) tz.name).minutesEast = roundMs (localUs d - tz.offUs)
    rw [hoffmin]
    unfold instantOf roundMs
    rw [spec_ordinal_eq _ _ _ ⟨m1, m2⟩]
    unfold toUs at v3
    omega

/-- **C09_write (write then read).** Under the hypotheses of `C09_write`, if the rounded instant lies in years
    1..9999 (UTC), reading the written text back gives the UTC value denoting the original instant rounded to the
    millisecond (so within 500 µs of the original).  No guard is left: zones in (−1:00, 0) and zone names beginning
    with digits read back correctly since the `fix:` commits. -/
theorem C09_write_roundtrip (tzs : List (Str × Int)) (required required' : Bool) (d : DT) (tz : Tz)
    (hv : dtValid d = true) (htz : d.tz = some tz)
    (hwhole : tz.offUs % 60000000 = 0)
    (hoff : -720 ≤ tz.offUs / 60000000 ∧ tz.offUs / 60000000 ≤ 840)
    (hname : ∀ n, tz.name = some n → '\n' ∉ n)
    (hyear : us1000 ≤ localUs d + 500 ∧ localUs d + 500 < usEnd)
    (hutc : minInstant ≤ roundMs (localUs d - tz.offUs) ∧ roundMs (localUs d - tz.offUs) < endInstant) :
    ∃ (text : Str) (v : Val), dtUnconvert required (.dt d) = .ok (.str text)
      ∧ dtConvertWith tzs required' (.str text) = .ok v
      ∧ IsUtcOf v (1000 * roundMs (localUs d - tz.offUs))
      ∧ dtInstantUs d = some (localUs d - tz.offUs) := by
  obtain ⟨p, us, hus, hun, hwf, _, _, _, hpo, hpi⟩ :=
    C09_write required d tz hv htz hwhole hoff hname hyear
  have hus' := dtInstantUs_local d tz hv htz
  rw [hus'] at hus
  injection hus with hus
  subst hus
  have hg : lenOk p = true := by
    have hh : (tz.offUs / 60000000).natAbs / 60 < 25 := by omega
    obtain ⟨_, _, _, _, hl⟩ := natDigits_small _ hh
    simp only [lenOk, hpo, decide_eq_true_eq]
    exact Nat.le_trans hl (by decide)
  rw [← hpi] at hutc
  obtain ⟨v, hc, hi⟩ := C09_read tzs required' p hwf hg hutc
  exact ⟨p.render, v, hun, hc, by rw [← hpi]; exact hi, hus'⟩

/-- the hypotheses of the write theorems are satisfiable, also by the formerly excluded zone −00:30:
    2024-02-29T23:59:59.999500−00:30 "30" (a name beginning with digits) -/
example : dtValid ⟨2024, 2, 29, 23, 59, 59, 999500, some ⟨-1800000000, some "30".toList⟩⟩ = true
    ∧ (-1800000000 : Int) % 60000000 = 0
    ∧ us1000 ≤ localUs ⟨2024, 2, 29, 23, 59, 59, 999500, some ⟨-1800000000, some "30".toList⟩⟩ + 500
    ∧ localUs ⟨2024, 2, 29, 23, 59, 59, 999500, some ⟨-1800000000, some "30".toList⟩⟩ + 500 < usEnd := by
  decide +kernel

/-- regression witness: noon at −00:30 is written `20200101120000.000[-0.30]` and reads back as 12:30 UTC -/
theorem fixed_write_roundtrip :
    dtUnconvert false (.dt ⟨2020, 1, 1, 12, 0, 0, 0, some ⟨-1800000000, none⟩⟩)
      = .ok (.str "20200101120000.000[-0.30]".toList)
    ∧ dtConvertWith [] false (.str "20200101120000.000[-0.30]".toList)
        = .ok (.dt ⟨2020, 1, 1, 12, 30, 0, 0, some utcTz⟩) :=
  ⟨eq_of_okIs (by decide +kernel), eq_of_okIs (by decide +kernel)⟩

/-! ## Time: writing -/

/-- time of day of a `time` value in microseconds -/
def todUs (t : TM) : Int := ((t.hour * 3600 + t.minute * 60 + t.second : Nat) : Int) * 1000000 + (t.us : Nat)

theorem tmInstantUs_local (t : TM) (tz : Tz) (htz : t.tz = some tz) :
    tmInstantUs t = some ((todUs t - tz.offUs) % 86400000000) := by
  unfold tmInstantUs todUs
  rw [htz, Option.map_some]

/-- **C09_time_write (text).** An aware, valid `time` whose offset is a whole number of minutes in
    [-12:00, +14:00] and whose zone name has no line feed is written as `HHMMSS.XXX[±h(.mm)?(:name)?]`, denoting the
    value's instant (mod 24 h) rounded to the nearest millisecond (mod 24 h). -/
theorem C09_time_write (required : Bool) (t : TM) (tz : Tz)
    (hv : tmValid t = true) (htz : t.tz = some tz)
    (hwhole : tz.offUs % 60000000 = 0)
    (hoff : -720 ≤ tz.offUs / 60000000 ∧ tz.offUs / 60000000 ≤ 840)
    (hname : ∀ n, tz.name = some n → '\n' ∉ n) :
    ∃ (p : Parts), tmUnconvert required (.tm t) = .ok (.str p.render)
      ∧ p.wf true = true
      ∧ p.date = none ∧ p.tod.isSome = true ∧ p.ms.isSome = true
      ∧ p.off = some (canonOff (tz.offUs / 60000000) tz.name)
      ∧ p.instant = roundMs ((todUs t - tz.offUs) % 86400000000) % 86400000 := by
  have hr : -usPerDay < tz.offUs ∧ tz.offUs < usPerDay := by unfold usPerDay; omega
  simp only [tmValid, validTod, Bool.and_eq_true, decide_eq_true_eq] at hv
  obtain ⟨⟨⟨a1, a2⟩, a3⟩, a4⟩ := hv
  have hN : ymd2ord 1999 6 8 = 729913 := by decide
  have hT : toUs 1999 6 8 t.hour t.minute t.second t.us = 729913 * 86400000000 + todUs t := by
    unfold toUs todUs; rw [hN]; omega
  have htod : 0 ≤ todUs t ∧ todUs t < 86400000000 := by unfold todUs; omega
  obtain ⟨b, hb, v1, v2, v3⟩ := fromUs_spec (toUs 1999 6 8 t.hour t.minute t.second t.us + 500)
    (by rw [hT]; unfold usPerDay; omega) (by rw [hT]; unfold usPerDay maxOrdinal; omega)
  have hv2 := v2
  simp only [validTime, Bool.and_eq_true, decide_eq_true_eq] at hv2
  obtain ⟨⟨⟨t1, t2⟩, t3⟩, t4⟩ := hv2
  have hoffmin := canonOff_minutesEast (tz.offUs / 60000000) tz.name (by omega)
  refine ⟨⟨none, some (b.hour, b.minute, b.second), some (b.us / 1000),
    some (canonOff (tz.offUs / 60000000) tz.name)⟩, ?_, ?_, rfl, rfl, rfl, rfl, ?_⟩
  · simp only [tmUnconvert, htz, utcoffset_some tz hr, bind, Except.bind, pure, Except.pure,
      formatDatetime_eq true ⟨1999, 6, 8, t.hour, t.minute, t.second, t.us⟩ b tz hr hb]
    simp only [if_true, strftimeHMS, pad2_eq, pad3_eq, formatOffset_eq tz.offUs tz.name hr, Parts.render]
    simp
  · simp only [Parts.wf, Bool.true_and, validTod, Bool.and_eq_true, decide_eq_true_eq]
    exact ⟨⟨⟨⟨t1, t2⟩, t3⟩, by omega⟩, canonOff_wf _ _ hoff hname⟩
  · show todInstantOf b.hour b.minute b.second (b.us / 1000)
        (canonOff (tz.offUs / 60000000) tz.name).minutesEast
      = roundMs ((todUs t - tz.offUs) % 86400000000) % 86400000
    rw [hoffmin]
    unfold todInstantOf roundMs
    rw [hT] at v3
    unfold toUs at v3
    generalize ymd2ord b.year b.month b.day = N at v3
    generalize todUs t = U at *
    omega

/-- **C09_time_write (write then read).** -/
theorem C09_time_write_roundtrip (tzs : List (Str × Int)) (required required' : Bool) (t : TM) (tz : Tz)
    (hv : tmValid t = true) (htz : t.tz = some tz)
    (hwhole : tz.offUs % 60000000 = 0)
    (hoff : -720 ≤ tz.offUs / 60000000 ∧ tz.offUs / 60000000 ≤ 840)
    (hname : ∀ n, tz.name = some n → '\n' ∉ n) :
    ∃ (text : Str) (v : Val), tmUnconvert required (.tm t) = .ok (.str text)
      ∧ tmConvertWith tzs required' (.str text) = .ok v
      ∧ IsUtcTimeOf v (1000 * (roundMs ((todUs t - tz.offUs) % 86400000000) % 86400000))
      ∧ tmInstantUs t = some ((todUs t - tz.offUs) % 86400000000) := by
  obtain ⟨p, hun, hwf, _, _, _, hpo, hpi⟩ := C09_time_write required t tz hv htz hwhole hoff hname
  have hg : lenOk p = true := by
    have hh : (tz.offUs / 60000000).natAbs / 60 < 25 := by omega
    obtain ⟨_, _, _, _, hl⟩ := natDigits_small _ hh
    simp only [lenOk, hpo, decide_eq_true_eq]
    exact Nat.le_trans hl (by decide)
  obtain ⟨v, hc, hi⟩ := C09_time_read tzs required' p hwf hg
  exact ⟨p.render, v, hun, hc, by rw [← hpi]; exact hi, tmInstantUs_local t tz htz⟩

/-- the hypotheses of the time write theorems are satisfiable: 23:59:59.999500+05:45 "NPT" -/
example : tmValid ⟨23, 59, 59, 999500, some ⟨20700000000, some "NPT".toList⟩⟩ = true
    ∧ (20700000000 : Int) % 60000000 = 0
    ∧ -720 ≤ (20700000000 : Int) / 60000000 ∧ (20700000000 : Int) / 60000000 ≤ 840 := by decide +kernel

/-! ## rejecting: everything accepted is in the notation (or the Interactive Brokers form) -/

/-- what `DateTime._convert_str` has accepted went through all of: regex, offset parsing, `int()`, validation -/
theorem dtConvertStr_ok_inv (tzs : List (Str × Int)) (s : Str) (v : Val) (h : dtConvertStr tzs s = .ok v) :
    ∃ g y mo d hh mi sec ms off, dtRegex s = some g ∧ parseGmtOffset tzs g.offH g.offM g.name = .ok off
      ∧ intOfAscii g.year = .ok y ∧ intOfAscii g.month = .ok mo
      ∧ intOfAscii g.day = .ok d ∧ intOfAscii g.hour = .ok hh ∧ intOfAscii g.minute = .ok mi
      ∧ intOfAscii g.second = .ok sec ∧ intOfAscii g.ms = .ok ms
      ∧ Cal.validDate y mo d = true ∧ hh < 24 ∧ mi < 60 ∧ sec < 60 := by
  unfold dtConvertStr at h
  cases hre : dtRegex s with
  | none => simp [hre, bind, Except.bind] at h
  | some g =>
    simp only [hre, bind, Except.bind, pure, Except.pure] at h
    cases ho : parseGmtOffset tzs g.offH g.offM g.name with
    | error e => simp [ho] at h
    | ok off =>
      cases hy : intOfAscii g.year with
      | error e => simp [ho, hy] at h
      | ok y =>
        cases hmo : intOfAscii g.month with
        | error e => simp [ho, hy, hmo] at h
        | ok mo =>
          cases hd : intOfAscii g.day with
          | error e => simp [ho, hy, hmo, hd] at h
          | ok d =>
            cases hh : intOfAscii g.hour with
            | error e => simp [ho, hy, hmo, hd, hh] at h
            | ok hr =>
              cases hmi : intOfAscii g.minute with
              | error e => simp [ho, hy, hmo, hd, hh, hmi] at h
              | ok mi =>
                cases hs : intOfAscii g.second with
                | error e => simp [ho, hy, hmo, hd, hh, hmi, hs] at h
                | ok sec =>
                  cases hms : intOfAscii g.ms with
                  | error e => simp [ho, hy, hmo, hd, hh, hmi, hs, hms] at h
                  | ok ms =>
                    simp only [ho, hy, hmo, hd, hh, hmi, hs, hms] at h
                    by_cases hv : (Cal.validDate y mo d && validTime hr mi sec (1000 * ms)) = true
                    · simp only [Bool.and_eq_true] at hv
                      have hv2 := hv.2
                      simp only [validTime, Bool.and_eq_true, decide_eq_true_eq] at hv2
                      exact ⟨g, y, mo, d, hr, mi, sec, ms, off, by first | rfl | assumption,
                        by first | rfl | assumption, by first | rfl | assumption, by first | rfl | assumption,
                        by first | rfl | assumption, by first | rfl | assumption, by first | rfl | assumption,
                        by first | rfl | assumption, by first | rfl | assumption,
                        hv.1, hv2.1.1.1, hv2.1.1.2, hv2.1.2⟩
                    · simp [hv] at h

theorem tmConvertStr_ok_inv (tzs : List (Str × Int)) (s : Str) (v : Val) (h : tmConvertStr tzs s = .ok v) :
    ∃ g hh mi sec ms off, tmRegex s = some g ∧ parseGmtOffset tzs g.offH g.offM g.name = .ok off
      ∧ intOfAscii g.hour = .ok hh ∧ intOfAscii g.minute = .ok mi
      ∧ intOfAscii g.second = .ok sec ∧ intOfAscii g.ms = .ok ms ∧ hh < 24 ∧ mi < 60 ∧ sec < 60 := by
  unfold tmConvertStr at h
  cases hre : tmRegex s with
  | none => simp [hre, bind, Except.bind] at h
  | some g =>
    simp only [hre, bind, Except.bind, pure, Except.pure] at h
    cases ho : parseGmtOffset tzs g.offH g.offM g.name with
    | error e => simp [ho] at h
    | ok off =>
      cases hh : intOfAscii g.hour with
      | error e => simp [ho, hh] at h
      | ok hr =>
        cases hmi : intOfAscii g.minute with
        | error e => simp [ho, hh, hmi] at h
        | ok mi =>
          cases hs : intOfAscii g.second with
          | error e => simp [ho, hh, hmi, hs] at h
          | ok sec =>
            cases hms : intOfAscii g.ms with
            | error e => simp [ho, hh, hmi, hs, hms] at h
            | ok ms =>
              simp only [ho, hh, hmi, hs, hms] at h
              by_cases hv : validTime hr mi sec (1000 * ms) = true
              · simp only [validTime, Bool.and_eq_true, decide_eq_true_eq] at hv
                exact ⟨g, hr, mi, sec, ms, off, by first | rfl | assumption, by first | rfl | assumption,
                  by first | rfl | assumption, by first | rfl | assumption, by first | rfl | assumption,
                  by first | rfl | assumption, hv.1.1.1, hv.1.1.2, hv.1.2⟩
              · simp [hv] at h

/-- how `parse_gmt_offset` can succeed on an hours text: it is an integer −12 … 14, or it is not an integer and the
    zone name is in the table (Interactive Brokers) -/
theorem parseGmtOffset_some_inv (tzs : List (Str × Int)) (hh : Str) (om nm : Option Str) (off : Int)
    (h : parseGmtOffset tzs (some hh) om nm = .ok off) :
    (∃ hv, pyIntSigned hh = some hv ∧ -12 ≤ hv ∧ hv ≤ 14)
    ∨ (pyIntSigned hh = none ∧ ∃ n z, nm = some n ∧ tzs.lookup n = some z) := by
  unfold parseGmtOffset at h
  cases hp : pyIntSigned hh with
  | some hv =>
    left
    simp only [hp, bind, Except.bind, pure, Except.pure] at h
    cases hm : intOfAscii om with
    | error e => simp [hm] at h
    | ok m =>
      simp only [hm] at h
      unfold gmtOffset at h
      by_cases hr : hv < -12 ∨ hv > 14
      · simp [hr] at h
      · exact ⟨hv, rfl, by omega, by omega⟩
  | none =>
    right
    refine ⟨rfl, ?_⟩
    simp only [hp, bind, Except.bind] at h
    cases nm with
    | none => simp at h
    | some n =>
      cases hl : tzs.lookup n with
      | none => simp [hl] at h
      | some z => exact ⟨n, z, rfl, hl⟩

/-- The Interactive Brokers form, which the code accepts on purpose although it is outside the notation: a text of the
    notation without offset (but with a time of day) followed by `[h(.MM)?:NAME]` where `h` is a non-empty text over
    `[0-9+-]` that is *not* an integer (typically just `-`) and `NAME` is a key of the zone table. -/
def IsIBForm (tzs : List (Str × Int)) (isTime : Bool) (s : Str) : Prop :=
  ∃ (p : Parts) (hh n : Str) (mm : Option Nat) (z : Int),
    p.wf isTime = true ∧ p.off = none ∧ p.tod.isSome = true
    ∧ hh ≠ [] ∧ (∀ c ∈ hh, isHoursChar c = true) ∧ pyIntSigned hh = none
    ∧ (∀ m, mm = some m → m < 60) ∧ '\n' ∉ n ∧ tzs.lookup n = some z
    ∧ s = p.render ++ '[' :: (hh ++ (minutesText mm ++ (':' :: (n ++ [']']))))

/-- what follows the seconds in an accepted text: `.XXX`? then nothing, a well-formed `[offset]`, or the IB bracket -/
theorem tail_classify (tzs : List (Str × Int)) (g : Groups) (r : Str) (hts : TailStruct g r)
    (ms : Nat) (hms : intOfAscii g.ms = .ok ms) (off : Int)
    (hoff : parseGmtOffset tzs g.offH g.offM g.name = .ok off) :
    ∃ msO : Option Nat, (∀ x, msO = some x → x < 1000) ∧
      ((∃ offO : Option OffText, (∀ o, offO = some o → o.wf = true) ∧ r = msText msO ++ offText offO)
       ∨ (∃ (hh n : Str) (mm : Option Nat) (z : Int), hh ≠ [] ∧ (∀ c ∈ hh, isHoursChar c = true)
            ∧ pyIntSigned hh = none ∧ (∀ m, mm = some m → m < 60) ∧ '\n' ∉ n ∧ tzs.lookup n = some z
            ∧ r = msText msO ++ '[' :: (hh ++ (minutesText mm ++ (':' :: (n ++ [']'])))))) := by
  obtain ⟨r2, hr, hmsd, hofs⟩ := hts
  -- milliseconds
  have hmsO : ∃ msO : Option Nat, (∀ x, msO = some x → x < 1000) ∧ msRaw g.ms = msText msO := by
    cases hg : g.ms with
    | none => exact ⟨none, by simp, rfl⟩
    | some t =>
      obtain ⟨a, b, c, rfl, _, _, _⟩ := hmsd t hg
      rw [hg] at hms
      obtain ⟨hlt, e⟩ := natOfAscii3_inv a b c ms (intOfAscii_some_ok _ _ hms)
      exact ⟨some ms, by intro x hx; injection hx with hx; omega, by simp [msRaw, msText, e]⟩
  obtain ⟨msO, hmsO1, hmsO2⟩ := hmsO
  refine ⟨msO, hmsO1, ?_⟩
  rw [hr, hmsO2]
  rcases hofs with ⟨rfl, _, _, _⟩ | ⟨t, hh, rfl, hoh, hscan⟩
  · exact Or.inl ⟨none, by simp, by simp [offText]⟩
  · rw [hoh] at hoff
    rcases parseGmtOffset_some_inv tzs hh g.offM g.name off hoff with ⟨hv, hp, h1, h2⟩ | ⟨hp, n, z, hn, hz⟩
    · obtain ⟨o, hwf, ht, _, _, _⟩ := offset_in_notation hh g.offM g.name t hv hscan hp ⟨h1, h2⟩
      exact Or.inl ⟨some o, by intro o' ho'; injection ho' with ho'; subst ho'; exact hwf, by simp [offText, ht]⟩
    · right
      obtain ⟨h', t', hne, hall, ht, hofft⟩ := hoursScan_inv t [] _ hscan
      simp only [List.reverse_nil, List.nil_append] at hofft
      obtain ⟨e1, mt, rest', hrest, hnt, hmt⟩ := offTail_inv _ _ _ hofft
      simp only at e1 hnt hmt
      subst e1
      have hmin : ∃ mm : Option Nat, (∀ m, mm = some m → m < 60) ∧ mt = minutesText mm := by
        rcases hmt with ⟨rfl, _⟩ | ⟨d1, d2c, rfl, hok, _⟩
        · exact ⟨none, by simp, rfl⟩
        · obtain ⟨mm, hmm, e⟩ := min2Ok_inv d1 d2c hok
          exact ⟨some mm, by intro m hm; injection hm with hm; omega, by simp [minutesText, ← e]⟩
      obtain ⟨mm, hmm, emt⟩ := hmin
      rw [hn] at hnt
      rcases nameTail_inv _ _ hnt with ⟨hcontra, _⟩ | ⟨n', hn', hrest', hnl⟩
      · exact absurd hcontra (by simp)
      · injection hn' with hn'
        subst hn'
        exact ⟨hh, n, mm, z, hne, hall, hp, hmm, hnl, hz, by rw [ht, hrest, emt, hrest']⟩

theorem ms_wf : ∀ (msO : Option Nat), (match msO with | some ms => decide (ms < 1000) | none => true) = true ∨
    ¬ (∀ x, msO = some x → x < 1000) := by
  intro msO
  cases msO with
  | none => exact Or.inl rfl
  | some x =>
    by_cases h : x < 1000
    · exact Or.inl (by simpa using h)
    · exact Or.inr (fun hh => h (hh x rfl))

/-- **C09_reject.** Every text `DateTime.convert` accepts is in the OFX date-time notation — eight digits forming a
    calendar-valid date; optionally `HHMMSS` with H<24, M<60, S<60; then optionally `.XXX`; then optionally
    `[` sign? digits+ (`.MM` with MM<60)? (`:name` without line feed)? `]` with hours −12 … +14 — or in the Interactive
    Brokers form (`IsIBForm`, accepted by design).  Hence wrong length, letters, month 13, day 0/32, calendar-invalid
    dates, hour 24, minute 60, second 60, a trailing line feed, any other separator than `.` before the offset
    minutes, offset minutes ≥ 60, non-ASCII digits, and odd hour texts such as `5-3` or `+-5` (they pass the pattern
    `[0-9-+]+` but fail in `int()`: ValueError) are all rejected. -/
theorem C09_reject (tzs : List (Str × Int)) (required : Bool) (s : Str) (v : Val)
    (h : dtConvertWith tzs required (.str s) = .ok v) :
    InNotation false s ∨ IsIBForm tzs false s := by
  have h' : dtConvertStr tzs s = .ok v := h
  obtain ⟨g, y, mo, d, hh, mi, sec, ms, off, hre, hoff, hy, hmo, hd, hhh, hmi, hsec, hms, hvd, b1, b2, b3⟩ :=
    dtConvertStr_ok_inv tzs s v h'
  obtain ⟨y1, y2, y3, y4, m1, m2, d1, d2c, r, hs, gy, gm, gd, hr⟩ := dtRegex_struct s g hre
  rw [gy] at hy; rw [gm] at hmo; rw [gd] at hd
  obtain ⟨_, ey⟩ := natOfAscii4_inv _ _ _ _ y (intOfAscii_some_ok _ _ hy)
  obtain ⟨_, em⟩ := natOfAscii2_inv _ _ mo (intOfAscii_some_ok _ _ hmo)
  obtain ⟨_, ed⟩ := natOfAscii2_inv _ _ d (intOfAscii_some_ok _ _ hd)
  have hsv : Spec.Instant.validDate y mo d = true := by rw [spec_validDate_eq]; exact hvd
  have hdate : s = dateText y mo d ++ r := by rw [hs, dateText, ← ey, ← em, ← ed]; rfl
  rcases hr with ⟨hr, _⟩ | ⟨h1, h2, mi1, mi2, s1, s2, r', hr, gh, gmi, gs, hts⟩
  · left
    refine ⟨⟨some (y, mo, d), none, none, none⟩, ?_, ?_⟩
    · simp [Parts.wf, hsv]
    · rw [hdate, hr]; simp [Parts.render, dateText]
  · rw [gh] at hhh; rw [gmi] at hmi; rw [gs] at hsec
    obtain ⟨_, eh⟩ := natOfAscii2_inv _ _ hh (intOfAscii_some_ok _ _ hhh)
    obtain ⟨_, emi⟩ := natOfAscii2_inv _ _ mi (intOfAscii_some_ok _ _ hmi)
    obtain ⟨_, es⟩ := natOfAscii2_inv _ _ sec (intOfAscii_some_ok _ _ hsec)
    have htod : r = todText hh mi sec ++ r' := by rw [hr, todText, ← eh, ← emi, ← es]; rfl
    have hvt : validTod hh mi sec = true := by simp [validTod, b1, b2, b3]
    obtain ⟨msO, hmsO, hcl⟩ := tail_classify tzs g r' hts ms hms off hoff
    have hmswf := (ms_wf msO).resolve_right (fun hn => hn hmsO)
    rcases hcl with ⟨offO, howf, hr'⟩ | ⟨hh', n, mm, z, c1, c2, c3, c4, c5, c6, hr'⟩
    · left
      refine ⟨⟨some (y, mo, d), some (hh, mi, sec), msO, offO⟩, ?_, ?_⟩
      · simp only [Parts.wf, Bool.and_eq_true]
        refine ⟨⟨⟨by simp [hsv], hvt⟩, hmswf⟩, ?_⟩
        cases offO with
        | none => rfl
        | some o => exact howf o rfl
      · rw [render_full, hdate, htod, hr']
    · right
      refine ⟨⟨some (y, mo, d), some (hh, mi, sec), msO, none⟩, hh', n, mm, z, ?_, rfl, rfl, c1, c2, c3, c4, c5, c6, ?_⟩
      · simp only [Parts.wf, Bool.and_eq_true]
        exact ⟨⟨⟨by simp [hsv], hvt⟩, hmswf⟩, trivial⟩
      · rw [render_full, hdate, htod, hr']; simp [offText]

/-- **C09_time_reject.** The same for `Time.convert` and the time notation. -/
theorem C09_time_reject (tzs : List (Str × Int)) (required : Bool) (s : Str) (v : Val)
    (h : tmConvertWith tzs required (.str s) = .ok v) :
    InNotation true s ∨ IsIBForm tzs true s := by
  have h' : tmConvertStr tzs s = .ok v := h
  obtain ⟨g, hh, mi, sec, ms, off, hre, hoff, hhh, hmi, hsec, hms, b1, b2, b3⟩ := tmConvertStr_ok_inv tzs s v h'
  unfold tmRegex at hre
  obtain ⟨h1, h2, mi1, mi2, s1, s2, r', hr, _, _, _, gh, gmi, gs, hts⟩ :=
    timePart_struct _ _ _ ⟨rfl, rfl, rfl, rfl⟩ hre
  rw [gh] at hhh; rw [gmi] at hmi; rw [gs] at hsec
  obtain ⟨_, eh⟩ := natOfAscii2_inv _ _ hh (intOfAscii_some_ok _ _ hhh)
  obtain ⟨_, emi⟩ := natOfAscii2_inv _ _ mi (intOfAscii_some_ok _ _ hmi)
  obtain ⟨_, es⟩ := natOfAscii2_inv _ _ sec (intOfAscii_some_ok _ _ hsec)
  have htod : s = todText hh mi sec ++ r' := by rw [hr, todText, ← eh, ← emi, ← es]; rfl
  have hvt : validTod hh mi sec = true := by simp [validTod, b1, b2, b3]
  obtain ⟨msO, hmsO, hcl⟩ := tail_classify tzs g r' hts ms hms off hoff
  have hmswf := (ms_wf msO).resolve_right (fun hn => hn hmsO)
  rcases hcl with ⟨offO, howf, hr'⟩ | ⟨hh', n, mm, z, c1, c2, c3, c4, c5, c6, hr'⟩
  · left
    refine ⟨⟨none, some (hh, mi, sec), msO, offO⟩, ?_, ?_⟩
    · simp only [Parts.wf, Bool.and_eq_true]
      refine ⟨⟨⟨trivial, hvt⟩, hmswf⟩, ?_⟩
      cases offO with
      | none => rfl
      | some o => exact howf o rfl
    · rw [render_time, htod, hr']
  · right
    refine ⟨⟨none, some (hh, mi, sec), msO, none⟩, hh', n, mm, z, ?_, rfl, rfl, c1, c2, c3, c4, c5, c6, ?_⟩
    · simp only [Parts.wf, Bool.and_eq_true]
      exact ⟨⟨⟨trivial, hvt⟩, hmswf⟩, trivial⟩
    · rw [render_time, htod, hr']; simp [offText]


/-! ### what is still false, and why -/

/-- "accepted ⇒ in the notation", literally.  False only because of the deliberate Interactive Brokers workaround. -/
def C09_reject_full : Prop :=
  ∀ (tzs : List (Str × Int)) (s : Str) (v : Val), dtConvertWith tzs false (.str s) = .ok v → InNotation false s

/-- `20200101120000[-:EST]` is accepted (as 17:00 UTC) although `-` is not an hours value -/
theorem C09_reject_full_false : ¬ C09_reject_full := by
  intro h
  have hacc : dtConvertWith [("EST".toList, -5)] false (.str "20200101120000[-:EST]".toList)
      = .ok (.dt ⟨2020, 1, 1, 17, 0, 0, 0, some utcTz⟩) := eq_of_okIs (by decide +kernel)
  have hin := h _ _ _ hacc
  rw [inNotation_iff] at hin
  revert hin
  decide +kernel

/-- C09_read without the 4300-digit side condition -/
def C09_read_full : Prop :=
  ∀ (tzs : List (Str × Int)) (required : Bool) (p : Parts), p.wf false = true →
    minInstant ≤ p.instant ∧ p.instant < endInstant →
    ∃ v, dtConvertWith tzs required (.str p.render) = .ok v ∧ IsUtcOf v (1000 * p.instant)

/-- 4300 zeros followed by 5, as the hours of an offset -/
def longHoursWitness : Parts :=
  ⟨some (2020, 1, 1), some (12, 0, 0), none, some ⟨none, List.replicate 4300 0 ++ [5], none, none⟩⟩

set_option maxRecDepth 100000 in
theorem longHoursWitness_rejected :
    longHoursWitness.wf false = true
    ∧ (minInstant ≤ longHoursWitness.instant ∧ longHoursWitness.instant < endInstant)
    ∧ dtConvertWith [] false (.str longHoursWitness.render) = .error .value :=
  ⟨by decide +kernel, by decide +kernel, eq_of_isErr (by decide +kernel)⟩

theorem C09_read_full_false : ¬ C09_read_full := by
  intro h
  obtain ⟨v, hv, _⟩ := h [] false longHoursWitness longHoursWitness_rejected.1 longHoursWitness_rejected.2.1
  rw [longHoursWitness_rejected.2.2] at hv
  exact absurd hv (by simp)

/-! ## the Interactive Brokers form -/

/-- **C09_ib_read.** A date-time text of the notation without offset (with a time of day), followed by `[h:NAME]`
    where `h` is a non-empty text over `[0-9+-]` that is not an integer (Interactive Brokers send `-`) and `NAME` is
    in the zone table with an entry `z` in −12 … 14, converts to the UTC value of the instant read at `z` hours
    east of Greenwich. -/
theorem C09_ib_read (tzs : List (Str × Int)) (required : Bool) (p : Parts) (hh n : Str) (z : Int)
    (hwf : p.wf false = true) (hoff : p.off = none) (htod : p.tod.isSome = true)
    (hne : hh ≠ []) (hall : ∀ c ∈ hh, isHoursChar c = true) (hint : pyIntSigned hh = none)
    (hn : '\n' ∉ n) (hz : tzs.lookup n = some z) (hzr : -12 ≤ z ∧ z ≤ 14)
    (hrange : minInstant ≤ p.instant - z * 3600000 ∧ p.instant - z * 3600000 < endInstant) :
    ∃ v, dtConvertWith tzs required (.str (p.render ++ ibText hh n)) = .ok v
      ∧ IsUtcOf v (1000 * (p.instant - z * 3600000)) := by
  obtain ⟨date, tod, ms, off⟩ := p
  simp only at hoff htod
  subst hoff
  simp only [Parts.wf, Bool.and_eq_true] at hwf
  obtain ⟨⟨⟨hd, ht⟩, hms⟩, _⟩ := hwf
  cases date with
  | none => simp at hd
  | some ymd =>
    obtain ⟨y, m, d⟩ := ymd
    simp only [Bool.not_false, Bool.true_and] at hd
    cases tod with
    | none => simp at htod
    | some hms' =>
      obtain ⟨h, mi, s⟩ := hms'
      simp only at ht
      have hmsv : ∀ x, ms = some x → x < 1000 := by
        intro x hx; rw [hx] at hms; simpa using hms
      have hI : Parts.instant ⟨some (y, m, d), some (h, mi, s), ms, none⟩ - z * 3600000
          = instantOf y m d h mi s (ms.getD 0) (60 * z) := by
        show instantOf y m d h mi s (ms.getD 0) 0 - z * 3600000 = _
        unfold instantOf; omega
      rw [hI] at hrange ⊢
      obtain ⟨f, hf, v1, v2, v3⟩ := dtConvertStr_ib tzs y m d h mi s ms hh n z hd ht hmsv hne hall hn hint hz hzr hrange
      refine ⟨_, ?_, isUtcOf_fields f _ v1 v2 v3⟩
      have hr : Parts.render ⟨some (y, m, d), some (h, mi, s), ms, none⟩ ++ ibText hh n
          = dateText y m d ++ (todText h mi s ++ (msText ms ++ ibText hh n)) := by
        rw [render_full]; simp [offText]
      simpa [dtConvertWith, hr] using hf

/-- the hypotheses are satisfiable: `20200101120000.000[-:EST]` with the table entry EST ↦ −5 -/
example : ("-".toList ≠ []) ∧ (∀ c ∈ "-".toList, isHoursChar c = true) ∧ pyIntSigned "-".toList = none
    ∧ ([("EST".toList, (-5 : Int))] : List (Str × Int)).lookup "EST".toList = some (-5)
    ∧ (⟨some (2020, 1, 1), some (12, 0, 0), some 0, none⟩ : Parts).render ++ ibText "-".toList "EST".toList
        = "20200101120000.000[-:EST]".toList := by decide +kernel

end Ofx.DateTime
