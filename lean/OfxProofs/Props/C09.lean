/-
C09 — date-time and time values mean the instant the OFX notation denotes.

Model: `OfxModel/Ofx/DateTime.lean` (+ `Py/Cal.lean`); specification: `OfxModel/Spec/Instant.lean`.
All theorems are about `dtConvertWith tzs` / `tmConvertWith tzs` for *every* zone table `tzs`
(`dtConvert`/`tmConvert` are the instances at the generated `TZS`) and about `dtUnconvert`/`tmUnconvert`.
-/
import OfxProofs.Lemmas.DateTime

namespace Ofx.DateTime
open Ofx Ofx.Cal Ofx.Spec.Instant

/-! ## guards -/

/-- what `C09_read_partial` asks of an offset text beyond well-formedness:
    * at most 4300 hour digits (CPython's `int()` limit),
    * not the spelling `-0.MM` with MM ≠ 0 (known defect: read as `+0.MM`),
    * if there are no minutes, the zone name does not begin with two digits (known defect: `[5:30]`, i.e.
      offset +5 named "30", is read as +5:30 because the minutes separator is an unescaped `.`). -/
def readGuard (o : OffText) : Bool :=
  decide (o.hdigits.length ≤ intMaxStrDigits) && !o.negZeroHour
  && (match o.minutes, o.name with | none, some n => !nameLooksLikeMinutes n | _, _ => true)

def partsReadGuard (p : Parts) : Bool := match p.off with | some o => readGuard o | none => true

theorem readGuard_ok {o : OffText} (hwf : o.wf = true) (hg : readGuard o = true) : OffReadOk o := by
  simp only [readGuard, Bool.and_eq_true, decide_eq_true_eq, Bool.not_eq_true'] at hg
  obtain ⟨⟨h1, h2⟩, h3⟩ := hg
  refine ⟨hwf, h1, h2, ?_⟩
  intro hm n hn
  rw [hm, hn] at h3
  simpa using h3

theorem parts_off_ok {p : Parts} {t : Bool} (hwf : p.wf t = true) (hg : partsReadGuard p = true) :
    ∀ o, p.off = some o → OffReadOk o := by
  intro o ho
  have h1 : o.wf = true := by
    simp only [Parts.wf, Bool.and_eq_true] at hwf
    have := hwf.2; rw [ho] at this; exact this
  have h2 : readGuard o = true := by
    simp only [partsReadGuard, ho] at hg; exact hg
  exact readGuard_ok h1 h2

/-- the value is the UTC value denoting instant `us` (microseconds): valid fields, tz = UTC, that instant -/
def IsUtcOf (v : Val) (us : Int) : Prop :=
  ∃ r : DT, v = .dt r ∧ dtValid r = true ∧ r.tz = some utc ∧ dtInstantUs r = some us

def IsUtcTimeOf (v : Val) (us : Int) : Prop :=
  ∃ t : TM, v = .tm t ∧ tmValid t = true ∧ t.tz = some utc ∧ tmInstantUs t = some us

theorem utc_eq : utcTz = utc := rfl

theorem isUtcOf_fields (f : Fields) (I : Int)
    (v1 : Cal.validDate f.year f.month f.day = true) (v2 : validTime f.hour f.minute f.second f.us = true)
    (v3 : toUs f.year f.month f.day f.hour f.minute f.second f.us = I) :
    IsUtcOf (.dt (dtOfFields f (some utcTz))) I := by
  refine ⟨_, rfl, ?_, rfl, ?_⟩
  · simp only [validTime, Bool.and_eq_true, decide_eq_true_eq] at v2
    obtain ⟨⟨⟨a, b⟩, c⟩, e⟩ := v2
    simp [dtValid, dtOfFields, spec_validDate_eq, v1, validTod, a, b, c, e]
  · have hm : 1 ≤ f.month ∧ f.month ≤ 12 := by
      simp only [Cal.validDate, Bool.and_eq_true, decide_eq_true_eq] at v1; omega
    have h0 : dtInstantUs (dtOfFields f (some utcTz))
        = some ((((ordinal f.year f.month f.day : Nat) : Int) * 86400
            + (f.hour * 3600 + f.minute * 60 + f.second : Nat)) * 1000000 + (f.us : Nat) - utcTz.offUs) := by
      unfold dtInstantUs dtOfFields; rfl
    have h1 : utcTz.offUs = 0 := by unfold utcTz; rfl
    rw [h0, h1, spec_ordinal_eq _ _ _ hm]
    unfold toUs at v3
    exact congrArg some (by omega)

/-! ## reading -/

/-- **C09_read (partial: the two known defects are excluded by `readGuard`).**
    Every text of the four date-time notations — `YYYYMMDD`, `YYYYMMDDHHMMSS`, with `.XXX`, with `[offset]` after
    either — with valid fields, offset in [-12:00, +14:00] written as sign? digits+ (`.MM`)? (`:name`)?, any name
    without line feed, denoting an instant within years 1..9999, converts to the UTC value denoting `instantOf`. -/
theorem C09_read_partial (tzs : List (Str × Int)) (required : Bool) (p : Parts)
    (hwf : p.wf false = true) (hg : partsReadGuard p = true)
    (hrange : minInstant ≤ p.instant ∧ p.instant < endInstant) :
    ∃ v, dtConvertWith tzs required (.str p.render) = .ok v ∧ IsUtcOf v (1000 * p.instant) := by
  have hoff := parts_off_ok hwf hg
  obtain ⟨date, tod, ms, off⟩ := p
  simp only [Parts.wf, Bool.and_eq_true] at hwf
  obtain ⟨⟨⟨hd, ht⟩, hms⟩, _⟩ := hwf
  cases date with
  | none => simp at hd
  | some ymd =>
    obtain ⟨y, m, d⟩ := ymd
    simp only [Bool.not_false, Bool.true_and] at hd
    cases tod with
    | none =>
      simp only [Bool.not_false, Bool.true_and, Bool.and_eq_true, Option.isNone_iff_eq_none] at ht
      obtain ⟨rfl, rfl⟩ := ht
      obtain ⟨f, hf, v1, v2, v3⟩ := dtConvertStr_date tzs y m d hd
      refine ⟨_, ?_, isUtcOf_fields f _ v1 v2 v3⟩
      simpa [dtConvertWith, Parts.render, dateText] using hf
    | some hms' =>
      obtain ⟨h, mi, s⟩ := hms'
      simp only at ht
      have hmsv : ∀ x, ms = some x → x < 1000 := by
        intro x hx; rw [hx] at hms; simpa using hms
      have hI : Parts.instant ⟨some (y, m, d), some (h, mi, s), ms, off⟩
          = instantOf y m d h mi s (ms.getD 0) (offMinutes off) := by
        cases off <;> rfl
      rw [hI] at hrange ⊢
      obtain ⟨f, hf, v1, v2, v3⟩ := dtConvertStr_full tzs y m d h mi s ms off hd ht hmsv hoff hrange
      refine ⟨_, ?_, isUtcOf_fields f _ v1 v2 v3⟩
      have hr : Parts.render ⟨some (y, m, d), some (h, mi, s), ms, off⟩
          = dateText y m d ++ (todText h mi s ++ (msText ms ++ offText off)) := by
        cases ms <;> cases off <;> simp [Parts.render, dateText, todText, msText, offText]
      simpa [dtConvertWith, hr] using hf

/-- **C09_time_read (partial).** The same for the time notation `HHMMSS[.XXX][[offset]]`, instants modulo 24 h. -/
theorem C09_time_read_partial (tzs : List (Str × Int)) (required : Bool) (p : Parts)
    (hwf : p.wf true = true) (hg : partsReadGuard p = true) :
    ∃ v, tmConvertWith tzs required (.str p.render) = .ok v ∧ IsUtcTimeOf v (1000 * p.instant) := by
  have hoff := parts_off_ok hwf hg
  obtain ⟨date, tod, ms, off⟩ := p
  simp only [Parts.wf, Bool.and_eq_true] at hwf
  obtain ⟨⟨⟨hd, ht⟩, hms⟩, _⟩ := hwf
  cases date with
  | some ymd => obtain ⟨y, m, d⟩ := ymd; simp at hd
  | none =>
    cases tod with
    | none => simp at ht
    | some hms' =>
      obtain ⟨h, mi, s⟩ := hms'
      simp only at ht
      have hmsv : ∀ x, ms = some x → x < 1000 := by
        intro x hx; rw [hx] at hms; simpa using hms
      obtain ⟨t, hf, v1, v2, v3⟩ := tmConvertStr_render tzs h mi s ms off ht hmsv hoff
      have hI : Parts.instant ⟨none, some (h, mi, s), ms, off⟩
          = todInstantOf h mi s (ms.getD 0) (offMinutes off) := by
        cases off <;> rfl
      have hr : Parts.render ⟨none, some (h, mi, s), ms, off⟩
          = todText h mi s ++ (msText ms ++ offText off) := by
        cases ms <;> cases off <;> simp [Parts.render, todText, msText, offText]
      refine ⟨.tm t, ?_, t, rfl, v1, v2, ?_⟩
      · simpa [tmConvertWith, hr] using hf
      · rw [hI]; exact v3

/-- the guards are satisfiable by non-trivial values: `20240229235959.999[-3.30:NST]`, `235959.999[+05.45:a:b]` -/
example : (⟨some (2024, 2, 29), some (23, 59, 59), some 999, some ⟨some true, [3], some 30, some "NST".toList⟩⟩ : Parts).wf false = true
    ∧ partsReadGuard ⟨some (2024, 2, 29), some (23, 59, 59), some 999, some ⟨some true, [3], some 30, some "NST".toList⟩⟩ = true
    ∧ (⟨some (2024, 2, 29), some (23, 59, 59), some 999, some ⟨some true, [3], some 30, some "NST".toList⟩⟩ : Parts).render
        = "20240229235959.999[-3.30:NST]".toList := by decide +kernel
example : (⟨none, some (23, 59, 59), some 999, some ⟨some false, [0, 5], some 45, some "a:b".toList⟩⟩ : Parts).wf true = true
    ∧ partsReadGuard ⟨none, some (23, 59, 59), some 999, some ⟨some false, [0, 5], some 45, some "a:b".toList⟩⟩ = true := by
  decide +kernel

/-! ### the full-strength statement is false of the current code -/

def okIs (r : PyM Val) (v : Val) : Bool := match r with | .ok x => decide (x = v) | .error _ => false
theorem eq_of_okIs {r : PyM Val} {v : Val} (h : okIs r v = true) : r = .ok v := by
  unfold okIs at h
  cases r with
  | error e => simp at h
  | ok x => simp at h; rw [h]
def isErr (r : PyM Val) (e : Err) : Bool := match r with | .ok _ => false | .error x => decide (x = e)
theorem eq_of_isErr {r : PyM Val} {e : Err} (h : isErr r e = true) : r = .error e := by
  unfold isErr at h
  cases r with
  | ok x => simp at h
  | error x => simp at h; rw [h]

/-- C09_read without the guard -/
def C09_read_full : Prop :=
  ∀ (tzs : List (Str × Int)) (required : Bool) (p : Parts), p.wf false = true →
    (∀ o, p.off = some o → o.hdigits.length ≤ intMaxStrDigits) →
    minInstant ≤ p.instant ∧ p.instant < endInstant →
    ∃ v, dtConvertWith tzs required (.str p.render) = .ok v ∧ IsUtcOf v (1000 * p.instant)

def negZeroWitness : Parts := ⟨some (2020, 1, 1), some (12, 0, 0), some 0, some ⟨some true, [0], some 30, none⟩⟩
def nameDigitsWitness : Parts := ⟨some (2020, 1, 1), some (12, 0, 0), none, some ⟨none, [5], none, some "30".toList⟩⟩

/-- what the model (and the code) make of `20200101120000.000[-0.30]`: 11:30 UTC instead of 12:30 UTC -/
theorem negZeroWitness_reads :
    negZeroWitness.render = "20200101120000.000[-0.30]".toList ∧
    dtConvertWith [] false (.str negZeroWitness.render)
      = .ok (.dt ⟨2020, 1, 1, 11, 30, 0, 0, some utcTz⟩) :=
  ⟨by decide +kernel, eq_of_okIs (by decide +kernel)⟩

/-- `20200101120000[5:30]` (offset +5, zone name "30") is read as offset +5:30: 06:30 UTC instead of 07:00 UTC -/
theorem nameDigitsWitness_reads :
    nameDigitsWitness.render = "20200101120000[5:30]".toList ∧
    dtConvertWith [] false (.str nameDigitsWitness.render)
      = .ok (.dt ⟨2020, 1, 1, 6, 30, 0, 0, some utcTz⟩) :=
  ⟨by decide +kernel, eq_of_okIs (by decide +kernel)⟩

theorem C09_read_full_false : ¬ C09_read_full := by
  intro h
  obtain ⟨v, hv, r, hr, _, _, hi⟩ := h [] false negZeroWitness (by decide +kernel)
    (by intro o ho; simp only [negZeroWitness, Option.some.injEq] at ho; subst ho; decide) (by decide +kernel)
  rw [negZeroWitness_reads.2] at hv
  injection hv with hv
  subst hv
  injection hr with hr
  subst hr
  revert hi
  decide +kernel

/-! ## naive values, `None`, foreign types -/

/-- **C09_naive.** A naive `datetime` is refused (ValueError) by `convert` and by `unconvert`. -/
theorem C09_naive (tzs : List (Str × Int)) (required : Bool) (d : DT) (h : d.tz = none) :
    dtConvertWith tzs required (.dt d) = .error .value ∧ dtUnconvert required (.dt d) = .error .value := by
  simp [dtConvertWith, dtUnconvert, utcoffset, h, bind, Except.bind]

/-- **C09_time_naive.** A naive `time` is refused both ways. -/
theorem C09_time_naive (tzs : List (Str × Int)) (required : Bool) (t : TM) (h : t.tz = none) :
    tmConvertWith tzs required (.tm t) = .error .value ∧ tmUnconvert required (.tm t) = .error .value := by
  simp [tmConvertWith, tmUnconvert, utcoffset, h, bind, Except.bind]

/-- aware values with an admissible `utcoffset()` pass through `convert` unchanged -/
theorem C09_aware_passthrough (tzs : List (Str × Int)) (required : Bool) (d : DT) (tz : Tz)
    (h : d.tz = some tz) (hr : -usPerDay < tz.offUs ∧ tz.offUs < usPerDay) :
    dtConvertWith tzs required (.dt d) = .ok (.dt d) := by
  have : ¬ (tz.offUs ≤ -usPerDay ∨ tz.offUs ≥ usPerDay) := by omega
  simp [dtConvertWith, utcoffset, h, this, bind, Except.bind, pure, Except.pure]

theorem C09_time_aware_passthrough (tzs : List (Str × Int)) (required : Bool) (t : TM) (tz : Tz)
    (h : t.tz = some tz) (hr : -usPerDay < tz.offUs ∧ tz.offUs < usPerDay) :
    tmConvertWith tzs required (.tm t) = .ok (.tm t) := by
  have : ¬ (tz.offUs ≤ -usPerDay ∨ tz.offUs ≥ usPerDay) := by omega
  simp [tmConvertWith, utcoffset, h, this, bind, Except.bind, pure, Except.pure]

/-- `None` passes through unless the element is required (OFXSpecError) -/
theorem C09_none (tzs : List (Str × Int)) (required : Bool) :
    dtConvertWith tzs required .none = (if required then .error .spec else .ok .none)
    ∧ dtUnconvert required .none = (if required then .error .spec else .ok .none)
    ∧ tmConvertWith tzs required .none = (if required then .error .spec else .ok .none)
    ∧ tmUnconvert required .none = (if required then .error .spec else .ok .none) := by
  simp [dtConvertWith, dtUnconvert, tmConvertWith, tmUnconvert, enforceRequired]

/-- values of any other type are refused with TypeError: a `time` by `DateTime`, a `datetime` by `Time`,
    strings by `unconvert`, numbers, decimals, booleans and everything else by all four -/
theorem C09_foreign_types (tzs : List (Str × Int)) (required : Bool) (v : Val) :
    ((∀ s, v ≠ .str s) → (∀ d, v ≠ .dt d) → v ≠ .none → dtConvertWith tzs required v = .error .type)
    ∧ ((∀ d, v ≠ .dt d) → v ≠ .none → dtUnconvert required v = .error .type)
    ∧ ((∀ s, v ≠ .str s) → (∀ t, v ≠ .tm t) → v ≠ .none → tmConvertWith tzs required v = .error .type)
    ∧ ((∀ t, v ≠ .tm t) → v ≠ .none → tmUnconvert required v = .error .type) := by
  cases v <;> simp [dtConvertWith, dtUnconvert, tmConvertWith, tmUnconvert]

end Ofx.DateTime
