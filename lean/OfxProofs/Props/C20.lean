/-
C20 — security-identifier check digits.
Property theorems only; helper lemmas live in `OfxProofs/Lemmas/SecId.lean`.

Every statement is about the model `OfxModel/Ofx/SecId.lean` (tied to
`ofxtools/utils.py` by the correspondence check `harness/corr/C20.py`) and holds for
*all* strings: there is no bound on anything except the lengths the algorithms fix.
-/
import OfxProofs.Lemmas.SecId

namespace Ofx.SecId
open Ofx Ofx.Spec.SecId

/-! ### CUSIP -/

/-- For every 8-character base over the CUSIP alphabet (`0-9 A-Z a-z * @ #`) the code's check
    digit is the one the public mod-10 double-add-double algorithm defines. -/
theorem C20_cusip_eq (base : Str) (vals : List Nat) (hl : base.length = 8)
    (hv : valsOf cusipCharVal base = some vals) :
    cusipChecksum base = .ok (digitChar (cusipSpec vals)) := by
  obtain ⟨parts, hp, hs⟩ := cusipParts_sum base 0 vals hv
  simp [cusipChecksum, hl, hp, hs, bind, Except.bind, pure, Except.pure, cusipSpec, checkChar_eq]

/-- the completed identifier validates -/
theorem C20_cusip_validates (base : Str) (vals : List Nat) (hl : base.length = 8)
    (hv : valsOf cusipCharVal base = some vals) :
    validateCusip (base ++ [digitChar (cusipSpec vals)]) = .ok true := by
  simp [validateCusip, hl, take_append_len _ _ 8 hl, drop_append_len _ _ 8 hl, C20_cusip_eq base vals hl hv,
    bind, Except.bind, pure, Except.pure]

/-- any identifier whose check character is changed fails validation -/
theorem C20_cusip_detects (base : Str) (vals : List Nat) (c : Char) (hl : base.length = 8)
    (hv : valsOf cusipCharVal base = some vals) (hc : c ≠ digitChar (cusipSpec vals)) :
    validateCusip (base ++ [c]) = .ok false := by
  simp [validateCusip, hl, take_append_len _ _ 8 hl, drop_append_len _ _ 8 hl, C20_cusip_eq base vals hl hv,
    bind, Except.bind, pure, Except.pure]
  exact fun h => hc h.symm

/-- identifiers of the wrong length never validate -/
theorem C20_cusip_length (s : Str) (h : s.length ≠ 9) : validateCusip s = .ok false := by
  simp [validateCusip, h]

-- the hypotheses are satisfiable by a non-trivial value (Apple's CUSIP base, and one with `*@#`)
example : valsOf cusipCharVal "03783310".toList = some [0, 3, 7, 8, 3, 3, 1, 0] := by decide
example : cusipChecksum "03783310".toList = .ok '0' := by rfl
example : (valsOf cusipCharVal "A*@#z019".toList).isSome = true := by decide

/-! ### SEDOL -/

/-- For every 6-character alphanumeric base without the letters `A E I O` the code's check
    digit is the weighted-sum check digit (weights 1,3,1,7,3,9). -/
theorem C20_sedol_eq (base : Str) (vals : List Nat) (hl : base.length = 6)
    (hv : valsOf b36 base = some vals)
    (hbad : base.any (fun c => c = 'A' || c = 'E' || c = 'I' || c = 'O') = false) :
    sedolChecksum base = .ok (digitChar (sedolSpec vals)) := by
  have := sedolSum_eq base sedolWeights vals hv (by simp [hl, sedolWeights])
  simp only [sedolWeights] at this
  simp [sedolChecksum, hl, hbad, this, bind, Except.bind, pure, Except.pure, sedolSpec, checkChar_eq,
    sedolWeights]

/-- a base with one of the excluded vowels is refused, not given a digit -/
theorem C20_sedol_vowel (base : Str) (hl : base.length = 6)
    (hbad : base.any (fun c => c = 'A' || c = 'E' || c = 'I' || c = 'O') = true) :
    sedolChecksum base = .error .assert := by
  simp only [sedolChecksum, hl, hbad]; simp

example : sedolChecksum "026349".toList = .ok '4' := by rfl

/-! ### ISIN -/

/-- For every 11-character alphanumeric base with a known agency prefix the code's check digit is
    the Luhn digit of the base-36 digit expansion. -/
theorem C20_isin_eq (ag : List Str) (base : Str) (vals : List Nat) (hl : base.length = 11)
    (hp : base.take 2 ∈ ag) (hv : valsOf b36 base = some vals) :
    isinChecksum ag base = .ok (digitChar (isinSpec vals)) := by
  have hex := isinExpand_eq base vals hv
  have hlt := expand_lt10 vals (valsOf_b36_le base vals hv)
  obtain ⟨out, ho, hs⟩ := isinDouble_sum (expand vals).reverse 0 (fun d hd => hlt d (by simpa using hd))
  have hp' : ag.contains (base.take 2) = true := by simpa using hp
  simp only [isinChecksum, hl, hp', hex, bind, Except.bind, pure, Except.pure]
  rw [← List.map_reverse, ho]
  simp [hs, isinSpec, checkChar_eq]

/-- the completed identifier validates -/
theorem C20_isin_validates (ag : List Str) (base : Str) (vals : List Nat) (hl : base.length = 11)
    (hp : base.take 2 ∈ ag) (hv : valsOf b36 base = some vals) :
    validateIsin ag (base ++ [digitChar (isinSpec vals)]) = .ok true :=
  validateIsin_append (C20_isin_eq ag base vals hl hp hv)

/-- any identifier whose check character is changed fails validation -/
theorem C20_isin_detects (ag : List Str) (base : Str) (vals : List Nat) (c : Char) (hl : base.length = 11)
    (hp : base.take 2 ∈ ag) (hv : valsOf b36 base = some vals)
    (hc : c ≠ digitChar (isinSpec vals)) :
    validateIsin ag (base ++ [c]) = .ok false := by
  have h2 : (base ++ [c]).take 2 = base.take 2 := by
    rw [List.take_append_of_le_length (by omega)]
  simp [validateIsin, hl, h2, hp, take_append_len _ _ 11 hl, drop_append_len _ _ 11 hl,
    C20_isin_eq ag base vals hl hp hv, bind, Except.bind, pure, Except.pure]
  exact fun h => hc h.symm

/-- wrong length or unknown country prefix: never validates -/
theorem C20_isin_length (ag : List Str) (s : Str) (h : s.length ≠ 12) : validateIsin ag s = .ok false := by
  simp [validateIsin, h]

theorem C20_isin_prefix (ag : List Str) (s : Str) (h : s.take 2 ∉ ag) :
    validateIsin ag s = .ok false := by
  simp [validateIsin, h]

/-! ### conversions to ISIN -/

/-- Whatever `cusip2isin` returns validates as an ISIN and embeds the original CUSIP after the
    country prefix — for every input; it may refuse (raise), it never returns an invalid identifier. -/
theorem C20_cusip2isin_sound (ag : List Str) (cusip : Str) (nation : Option Str) (r : Str)
    (h : cusip2isin ag cusip nation = .ok r) :
    validateIsin ag r = .ok true ∧ ∃ n k, r = n ++ cusip ++ [k] := by
  unfold cusip2isin at h
  generalize nationOr "US".toList nation = nat at h
  cases hv : validateCusip cusip with
  | error e => simp [hv, bind, Except.bind] at h
  | ok v =>
    simp only [hv, bind, Except.bind] at h
    by_cases hv' : v = true
    · by_cases hag : nat ∈ ag
      · cases hk : isinChecksum ag (nat ++ cusip) with
        | error e => simp [hv', hag, hk] at h
        | ok k =>
          simp [hv', hag, hk, pure, Except.pure] at h
          subst h
          refine ⟨?_, nat, k, by simp⟩
          have := validateIsin_append hk
          simpa using this
      · simp [hv', hag] at h
    · simp [hv'] at h

/-- Whatever `sedol2isin` returns validates as an ISIN and embeds the zero-padded SEDOL. -/
theorem C20_sedol2isin_sound (ag : List Str) (sedol : Str) (nation : Option Str) (r : Str)
    (h : sedol2isin ag sedol nation = .ok r) :
    validateIsin ag r = .ok true ∧ ∃ n k, r = n ++ ('0' :: '0' :: sedol) ++ [k] := by
  unfold sedol2isin at h
  generalize nationOr "GB".toList nation = nat at h
  simp only at h
  by_cases h7 : sedol.length = 7
  · have hz : zfill 9 sedol = '0' :: '0' :: sedol := by simp [zfill, h7, List.replicate]
    cases hc : sedolChecksum (sedol.take 6) with
    | error e => simp [h7, hc, bind, Except.bind] at h
    | ok c =>
      by_cases hcc : ([c] != sedol.drop 6) = true
      · simp [h7, hc, hcc, bind, Except.bind] at h
      · cases hk : isinChecksum ag (nat ++ '0' :: '0' :: sedol) with
        | error e => simp [h7, hc, hcc, hz, hk, bind, Except.bind] at h
        | ok k =>
          simp [h7, hc, hcc, hz, hk, bind, Except.bind, pure, Except.pure] at h
          subst h
          refine ⟨?_, nat, k, by simp⟩
          have := validateIsin_append hk
          simpa using this
  · simp [h7] at h

/-- `cusip2isin` does return an ISIN for every valid all-alphanumeric CUSIP and two-letter agency. -/
theorem C20_cusip2isin_total (ag : List Str) (cusip nation : Str) (vals nvals : List Nat)
    (hvalid : validateCusip cusip = .ok true) (hv : valsOf b36 cusip = some vals)
    (hn2 : nation.length = 2) (hnv : valsOf b36 nation = some nvals) (hag : nation ∈ ag) :
    ∃ r, cusip2isin ag cusip (some nation) = .ok r := by
  have hl9 : cusip.length = 9 := by
    unfold validateCusip at hvalid
    split at hvalid
    · assumption
    · simp at hvalid
  have hne : nation.isEmpty = false := by
    cases nation with
    | nil => simp at hn2
    | cons a b => rfl
  have hlen : (nation ++ cusip).length = 11 := by simp [hn2, hl9]
  have htake : (nation ++ cusip).take 2 = nation := take_append_len _ _ 2 hn2
  have hvals : ∃ vs, valsOf b36 (nation ++ cusip) = some vs := by
    clear hvalid hl9 hlen htake hag hn2 hne
    induction nation generalizing nvals with
    | nil => exact ⟨vals, by simpa using hv⟩
    | cons c cs ih =>
      obtain ⟨v, vs, hc, hcs, rfl⟩ := valsOf_cons hnv
      obtain ⟨ws, hws⟩ := ih vs hcs
      exact ⟨v :: ws, by simp [valsOf, hc, hws]⟩
  obtain ⟨vs, hvs⟩ := hvals
  have hk := C20_isin_eq ag (nation ++ cusip) vs hlen (by rw [htake]; exact hag) hvs
  refine ⟨nation ++ cusip ++ [digitChar (isinSpec vs)], ?_⟩
  simp [cusip2isin, nationOr, hvalid, hne, hag, hk, bind, Except.bind, pure, Except.pure]

example : cusip2isin ["US".toList] "084670108".toList none = .ok "US0846701086".toList := by rfl

end Ofx.SecId
