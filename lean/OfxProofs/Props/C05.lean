/-
C05 — the header parser hands over exactly the body, decoded as the header declares.

`C05_exact_partial`: for every validator-parameter set, every cp1252 table, every file rendered by
`Spec.HeaderLayout.renderFile` from a tolerated layout, valid fields and a body that starts with `<`, ends with
`>` and is encodable in the declared character set, the model of `parse_header` returns exactly those fields and
exactly that body — provided the layout guard holds (the defects of the pinned tree, see `C05_exact_full_false`)
and, for v2, the XML declaration carries its three pseudo-attributes (the proved subset; the others are
exercised by the correspondence only).
-/
import OfxProofs.Lemmas.HeaderV2

namespace Ofx.Header
open Ofx Ofx.Codec Ofx.Spec.HeaderLayout

/-- the fields written into the file are inside their domains -/
def ValidFile (p1 : V1P) (p2 : V2P) : FileSpec → Prop
  | .v1 _ f => ValidV1 p1 f.h ∧ (f.withCompression = false → f.h.compression = "NONE".toList)
  | .v2 _ h => ValidV2 p2 h

/-- the codec the header declares -/
def declaredCodec (p1 : V1P) : FileSpec → PyM Name
  | .v1 _ f => codecV1 p1 f.h
  | .v2 _ _ => .ok .utf8

/-- v2: the XML declaration has all three pseudo-attributes (any quote style) -/
def xmlFull : FileSpec → Bool
  | .v1 _ _ => true
  | .v2 lay _ => lay.xmlVersion.isSome && lay.xmlEncoding.isSome && lay.xmlStandalone.isSome

theorem C05_exact_partial (p1 : V1P) (p2 : V2P) (tbl : List (Option Nat)) (fs : FileSpec) (body : Str)
    (bb : Bytes) (cs : Name)
    (hvalid : ValidFile p1 p2 fs) (hcodec : declaredCodec p1 fs = .ok cs) (henc : encode tbl cs body = .ok bb)
    (hb0 : body.head? = some '<') (hb1 : body.getLast? = some '>')
    (htol : tolerated fs = true) (hg : guard fs bb = true) (hx : xmlFull fs = true) :
    parseHeader p1 p2 tbl (renderFile fs bb) = .ok (hdrOf fs, body) := by
  cases fs with
  | v1 lay f =>
    simp only [Spec.HeaderLayout.guard, Bool.and_eq_true] at hg
    exact parse_v1 p1 p2 tbl lay f body bb cs hvalid.1 hvalid.2 hcodec henc hb0 hb1 htol hg.1 hg.2
  | v2 lay h =>
    simp only [Spec.HeaderLayout.guard, Bool.and_eq_true] at hg
    simp only [xmlFull, Bool.and_eq_true, Option.isSome_iff_exists] at hx
    obtain ⟨⟨⟨qv, h1⟩, ⟨qe, h2⟩⟩, ⟨qs, h3⟩⟩ := hx
    have : cs = .utf8 := by simp [declaredCodec] at hcodec; exact hcodec.symm
    subst this
    exact parse_v2 p1 p2 tbl lay h body bb hvalid henc hb0 hb1 htol hg.1 hg.2 qv qe qs h1 h2 h3

/-- `decode cs (encode cs body) = body` for each of the four codecs and every cp1252 table -/
theorem C05_decode_encode (tbl : List (Option Nat)) (cs : Name) (body : Str) (bb : Bytes)
    (h : encode tbl cs body = .ok bb) : decode tbl cs bb = .ok body := decode_encode tbl cs body bb h

/-- the v1 pattern captures exactly the field values for every choice of whitespace (including none) after each
    value — the scanner lemma behind the v1 half -/
theorem C05_v1_scanner (t : V1W) (R : Str) (ok : t.Ok) (hR : ∀ c ∈ R.head?, isWordDash c = false) :
    reMatch v1Regex (t.text R) = some (t.caps, R) := v1_match t R ok hR

/-! ### the pinned tree: parameters, the full statement, its refutation -/

def pinnedV1P : V1P :=
  { ofxheader := ["100".toList], data := ["OFXSGML".toList], versionLen := some 3,
    security := ["NONE".toList, "TYPE1".toList], encoding := ["USASCII".toList, "UNICODE".toList, "UTF-8".toList],
    charset := ["ISO-8859-1".toList, "1252".toList, "NONE".toList], compression := ["NONE".toList],
    oldLen := some 36, newLen := some 36,
    codecs := [("1252".toList, "cp1252".toList), ("ISO-8859-1".toList, "latin_1".toList), ("NONE".toList, "utf_8".toList)] }

def pinnedV2P : V2P :=
  { ofxheader := ["200".toList],
    version := ["200".toList, "201".toList, "202".toList, "203".toList, "210".toList, "211".toList, "220".toList],
    security := ["NONE".toList, "TYPE1".toList], oldLen := some 36, newLen := some 36 }

/-- the statement without the layout guard, for the pinned parameters -/
def C05_exact_full : Prop :=
  ∀ (tbl : List (Option Nat)) (fs : FileSpec) (body : Str) (bb : Bytes) (cs : Name),
    ValidFile pinnedV1P pinnedV2P fs → declaredCodec pinnedV1P fs = .ok cs → encode tbl cs body = .ok bb →
    body.head? = some '<' → body.getLast? = some '>' → tolerated fs = true →
    parseHeader pinnedV1P pinnedV2P tbl (renderFile fs bb) = .ok (hdrOf fs, body)

def wHdr : V1 :=
  { ofxheader := 100, data := "OFXSGML".toList, version := 102, security := "NONE".toList,
    encoding := "USASCII".toList, charset := "NONE".toList, compression := "NONE".toList,
    oldfileuid := "NONE".toList, newfileuid := "NONE".toList }

/-- multi-line header (CRLF after every field), body glued to `NEWFILEUID:NONE` -/
def wGlued : FileSpec :=
  .v1 { leading := [], indent := [], ofxheader := {}, data := {}, version := {}, security := {}, encoding := {},
        charset := {}, compression := {}, oldfileuid := {}, newBlank := [], gap := [] }
      { h := wHdr, withCompression := true }

def bodyOf (r : PyM (Hdr × Str)) : Option Str :=
  match r with
  | .ok (_, b) => some b
  | .error _ => none

theorem wGlued_loses_first_char :
    bodyOf (parseHeader pinnedV1P pinnedV2P [] (renderFile wGlued (asciiBytes "<OFX></OFX>".toList))) =
      some "OFX></OFX>".toList := by decide +kernel

theorem wHdr_valid : ValidV1 pinnedV1P wHdr := by
  refine ⟨by decide, by decide, ⟨by decide, by decide, by decide⟩, by decide, ?_, ⟨by decide, by decide, by decide⟩,
    ⟨by decide, by decide, by decide⟩, ⟨by decide, by decide, by decide⟩, ⟨by decide, by decide, by decide⟩,
    ⟨⟨by decide, by decide⟩, ?_⟩, ⟨⟨by decide, by decide⟩, ?_⟩⟩
  · intro n hn; cases hn; decide
  · intro n hn; cases hn; decide
  · intro n hn; cases hn; decide

theorem C05_exact_full_false : ¬ C05_exact_full := by
  intro h
  have := h [] wGlued "<OFX></OFX>".toList (asciiBytes "<OFX></OFX>".toList) .utf8
    ⟨wHdr_valid, by intro h; cases h⟩ rfl (by rfl) rfl rfl (by decide +kernel)
  have w := wGlued_loses_first_char
  rw [this] at w
  simp only [bodyOf, hdrOf] at w
  exact absurd (Option.some.inj w) (by decide)

/-- the guard of the partial theorem is satisfiable by a non-trivial layout: LF separators, a blank after one
    colon, a leading blank line, an LF gap, a cp1252 body with a byte in 0x80..0x9F -/
example : ∃ fs bb, tolerated fs = true ∧ Spec.HeaderLayout.guard fs bb = true ∧ xmlFull fs = true ∧
    bodyOf (parseHeader pinnedV1P pinnedV2P [some 8364] (renderFile fs bb)) = some "<A>€</A>".toList :=
  ⟨.v1 { leading := [" ".toList], indent := [], ofxheader := { sep := .lf }, data := { blank := [' '], sep := .lf },
         version := { sep := .cr }, security := { sep := .none }, encoding := { sep := .lf }, charset := { sep := .lf },
         compression := { sep := .lf }, oldfileuid := { sep := .lf }, newBlank := [], gap := ['\n', '\n', '\r', '\n'] }
       { h := { wHdr with charset := "1252".toList }, withCompression := true },
   [60, 65, 62, 0x80, 60, 47, 65, 62], by decide +kernel, by decide +kernel, rfl, by decide +kernel⟩

end Ofx.Header
