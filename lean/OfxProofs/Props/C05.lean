/-
C05 — the header parser hands over exactly the body, decoded as the header declares.

`C05_exact_full`: for every validator-parameter set, every cp1252 table, every file rendered by
`Spec.HeaderLayout.renderFile` from a tolerated layout, valid fields and a body that starts with `<`, ends with
`>` and is encodable in the declared character set, the model of `parse_header` (at /repo HEAD, i.e. with the
three `fix:` commits to header.py) returns exactly those fields and exactly that body.  No layout guard remains.

Side conditions that remain, and why:
* `ValidFile`: the field values lie in the class validators' domains and are spelt in the character class of
  their pattern group (implied by membership for the generated tables: `Gen.header_tokens_in_class`); numeric
  fields are rendered as `str(n)` with `0 ≤ n < 1000`; without the COMPRESSION field the header object reads
  `compression = "NONE"` (the constructor's default);
* `tolerated`: at most seven leading blank lines (the code gives up after eight lines), blanks after colons are
  spaces/tabs, all layout whitespace is ASCII whitespace, the XML declaration sits on one line (the code looks for
  it on the first non-blank line only);
* the body starts with `<`, ends with `>` (v1 bodies are `strip()`ped) and is encodable in the declared codec.
-/
import OfxProofs.Lemmas.HeaderV2

namespace Ofx.Header
open Ofx Ofx.Codec Ofx.Spec.HeaderLayout

/-- the fields written into the file are inside their domains -/
def ValidFile (p1 : V1P) (p2 : V2P) : FileSpec → Prop
  | .v1 _ f => ValidV1 p1 f.h ∧ (f.withCompression = false → f.h.compression = "NONE".toList)
  | .v2 _ h => ValidV2 p2 h

/-- the codec the header declares -/
def declaredCodec (p1 : V1P) : FileSpec → PyM Name
  | .v1 _ f => codecV1 p1 f.h
  | .v2 _ _ => .ok .utf8

theorem C05_exact_full (p1 : V1P) (p2 : V2P) (tbl : List (Option Nat)) (fs : FileSpec) (body : Str)
    (bb : Bytes) (cs : Name)
    (hvalid : ValidFile p1 p2 fs) (hcodec : declaredCodec p1 fs = .ok cs) (henc : encode tbl cs body = .ok bb)
    (hb0 : body.head? = some '<') (hb1 : body.getLast? = some '>') (htol : tolerated fs = true) :
    parseHeader p1 p2 tbl (renderFile fs bb) = .ok (hdrOf fs, body) := by
  cases fs with
  | v1 lay f => exact parse_v1 p1 p2 tbl lay f body bb cs hvalid.1 hvalid.2 hcodec henc hb0 hb1 htol
  | v2 lay h =>
    have : cs = .utf8 := by simp [declaredCodec] at hcodec; exact hcodec.symm
    subst this
    exact parse_v2 p1 p2 tbl lay h body bb hvalid henc hb0 hb1 htol

/-- `decode cs (encode cs body) = body` for each of the four codecs and every cp1252 table -/
theorem C05_decode_encode (tbl : List (Option Nat)) (cs : Name) (body : Str) (bb : Bytes)
    (h : encode tbl cs body = .ok bb) : decode tbl cs bb = .ok body := decode_encode tbl cs body bb h

/-- the v1 pattern captures exactly the field values for every choice of whitespace (including none) after each
    value — the scanner lemma behind the v1 half -/
theorem C05_v1_scanner (t : V1W) (R : Str) (ok : t.Ok) (hR : ∀ c ∈ R.head?, isWordDash c = false) :
    reMatch v1Regex (t.text R) = some (t.caps, R) := v1_match t R ok hR

/-! ### the pinned tree: parameters, the full statement, its refutation -/

def pinnedV1P : V1P :=
  { ofxheader := ["100".toList], data := ["OFXSGML".toList], versionLen := some 3,
    security := ["NONE".toList, "TYPE1".toList], encoding := ["USASCII".toList, "UNICODE".toList, "UTF-8".toList],
    charset := ["ISO-8859-1".toList, "1252".toList, "NONE".toList], compression := ["NONE".toList],
    oldLen := some 36, newLen := some 36,
    codecs := [("1252".toList, "cp1252".toList), ("ISO-8859-1".toList, "latin_1".toList), ("NONE".toList, "utf_8".toList)] }

def pinnedV2P : V2P :=
  { ofxheader := ["200".toList],
    version := ["200".toList, "201".toList, "202".toList, "203".toList, "210".toList, "211".toList, "220".toList],
    security := ["NONE".toList, "TYPE1".toList], oldLen := some 36, newLen := some 36 }

def wHdr : V1 :=
  { ofxheader := 100, data := "OFXSGML".toList, version := 102, security := "NONE".toList,
    encoding := "USASCII".toList, charset := "NONE".toList, compression := "NONE".toList,
    oldfileuid := "NONE".toList, newfileuid := "NONE".toList }

/-- multi-line header (CRLF after every field), body glued to `NEWFILEUID:NONE` — the layout that lost the
    first body character before `fix: parse_header does not shift the body offset of multi-line v1 headers` -/
def wGlued : FileSpec :=
  .v1 { leading := [], indent := [], ofxheader := {}, data := {}, version := {}, security := {}, encoding := {},
        charset := {}, compression := {}, oldfileuid := {}, newBlank := [], gap := [] }
      { h := wHdr, withCompression := true }

def bodyOf (r : PyM (Hdr × Str)) : Option Str :=
  match r with
  | .ok (_, b) => some b
  | .error _ => none

theorem wHdr_valid : ValidV1 pinnedV1P wHdr := by
  refine ⟨by decide, by decide, ⟨by decide, by decide, by decide⟩, by decide, ?_, ⟨by decide, by decide, by decide⟩,
    ⟨by decide, by decide, by decide⟩, ⟨by decide, by decide, by decide⟩, ⟨by decide, by decide, by decide⟩,
    ⟨⟨by decide, by decide⟩, ?_⟩, ⟨⟨by decide, by decide⟩, ?_⟩⟩
  · intro n hn; cases hn; decide
  · intro n hn; cases hn; decide
  · intro n hn; cases hn; decide

/-- the hypotheses of `C05_exact_full` are satisfiable by the formerly failing layouts: glued body … -/
example : bodyOf (parseHeader pinnedV1P pinnedV2P [] (renderFile wGlued (asciiBytes "<OFX></OFX>".toList))) =
    some "<OFX></OFX>".toList := by
  have := C05_exact_full pinnedV1P pinnedV2P [] wGlued "<OFX></OFX>".toList (asciiBytes "<OFX></OFX>".toList) .utf8
    ⟨wHdr_valid, by intro h; cases h⟩ rfl (by rfl) rfl rfl (by decide +kernel)
  rw [this]; rfl

/-- … one-line header followed directly by a non-ASCII (cp1252) body … -/
example : bodyOf (parseHeader pinnedV1P pinnedV2P [some 8364]
    (asciiBytes ("OFXHEADER:100DATA:OFXSGMLVERSION:102SECURITY:NONEENCODING:USASCIICHARSET:1252" ++
      "COMPRESSION:NONEOLDFILEUID:NONENEWFILEUID:NONE").toList ++ [60, 65, 62, 0x80, 0xE9, 60, 47, 65, 62])) =
    some "<A>€é</A>".toList := by decide +kernel

/-- … and a v2 file with single quotes, an omitted pseudo-attribute and no line feed before a non-ASCII body -/
example : bodyOf (parseHeader pinnedV1P pinnedV2P []
    (asciiBytes ("<?xml version='1.0' standalone=\"no\"?><?OFX OFXHEADER='200' VERSION=\"220\" SECURITY='NONE' " ++
      "OLDFILEUID='NONE' NEWFILEUID='NONE'?>").toList ++ [60, 65, 62, 0xC3, 0xA9, 60, 47, 65, 62])) =
    some "<A>é</A>".toList := by decide +kernel

end Ofx.Header
