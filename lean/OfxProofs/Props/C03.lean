/-
C03 — every data element of an accepted document reaches the model, under its attribute, with the value the
type rules assign; and the model holds nothing the document did not supply.

Generic in the schema and the converters, one level of nesting at a time (the statement for whole paths is the
iteration of these two theorems along the path: a sub-aggregate's value is the child's own `from_etree`).
`groom = none` excludes the three classes whose reader renames a tag (covered by correspondence only).
-/
import OfxProofs.Props.C04
namespace Ofx.Agg
open Ofx

theorem lookup_append_of_some {α} (k n : Str) (v w : α) (l : List (Str × α)) (h : lookup k l = some w) :
    lookup k (l ++ [(n, v)]) = some w := by
  rw [lookup_append_single, h]; rfl

/-- a successful step never changes what a key already maps to -/
theorem updateArgs_lookup (c : Cls) (hg : c.groom = none) (acc acc' : Accum) (ch : Tree) (sub : PyM Node)
    (h : updateArgs c acc ch sub = .ok acc') (k : Str) (w : Node) (hk : lookup k acc.kwargs = some w) :
    lookup k acc'.kwargs = some w := by
  rcases updateArgs_kwargs c hg acc acc' ch sub h with h1 | ⟨n, v, h1⟩
  · rw [h1]; exact hk
  · rw [h1]; exact lookup_append_of_some k n v w _ hk

theorem foldChildren_lookup (c : Cls) (hg : c.groom = none) : ∀ (ts : List Tree) (ss : List (PyM Node))
    (acc acc' : Accum), foldChildren c ts ss acc = .ok acc' → ∀ k w, lookup k acc.kwargs = some w →
    lookup k acc'.kwargs = some w
  | [], ss, acc, acc', h, k, w, hk => by
    cases ss <;> simp [foldChildren] at h <;> subst h <;> exact hk
  | t :: ts, [], acc, acc', h, k, w, hk => by simp [foldChildren] at h; subst h; exact hk
  | t :: ts, s :: ss, acc, acc', h, k, w, hk => by
    simp only [foldChildren] at h
    cases hu : updateArgs c acc t s with
    | error e => simp [hu, bind, Except.bind] at h
    | ok acc1 =>
      simp only [hu, bind, Except.bind] at h
      exact foldChildren_lookup c hg ts ss acc1 acc' h k w (updateArgs_lookup c hg acc acc1 t s hu k w hk)

/-- after a successful step on a known, supported, non-repeated data element its text is the kwarg -/
theorem updateArgs_leaf_lookup (c : Cls) (acc acc' : Accum) (ch : Tree) (sub : PyM Node) (idx : Nat)
    (t0 : Char) (ts : Str)
    (hg : c.groom = none) (hdot : '.' ∉ ch.tag) (hidx : specIndex c (lower ch.tag) = some idx)
    (hnl : isListMember c (lower ch.tag) = false) (hun : unsupportedAt c idx = false)
    (htext : ch.text = some (t0 :: ts)) (h : updateArgs c acc ch sub = .ok acc') :
    lookup (lower ch.tag) acc'.kwargs = some (.val (.str (t0 :: ts))) := by
  rw [updateArgs_eq c acc ch sub idx hg hdot hidx, hnl, hun] at h
  split at h
  · simp at h
  · have hv : childValue ch sub = .ok (.val (.str (t0 :: ts))) := by simp [childValue, htext]
    simp only [Bool.false_eq_true, if_false, hv, bind, Except.bind] at h
    split at h
    · simp at h
    · rename_i hk
      injection h with h; subst h
      have hnone : lookup (lower ch.tag) acc.kwargs = none := by
        simp only [hasKey, Option.isSome_iff_ne_none, ne_eq, Bool.not_eq_true] at hk
        cases hl : lookup (lower ch.tag) acc.kwargs with
        | none => rfl
        | some _ => simp [hasKey, hl] at hk
      simp [lookup_append_single, hnone]


theorem not_listMember_of_nonlist (c : Cls) (a : Attr) (ha : a ∈ c.spec) (hl : a.kind.isList = false)
    (hnd : (c.spec.map (·.name)).Nodup) : isListMember c a.name = false := by
  have key : ∀ (p : Attr → Bool), (∀ b, p b = true → b.kind.isList = true) →
      ((c.spec.filter p).map (·.name)).contains a.name = false := by
    intro p hp
    cases hcon : ((c.spec.filter p).map (·.name)).contains a.name with
    | false => rfl
    | true =>
      exfalso
      rw [List.contains_iff_mem, List.mem_map] at hcon
      obtain ⟨b, hb, hbn⟩ := hcon
      obtain ⟨hbs, hpb⟩ := List.mem_filter.mp hb
      have : b = a := by
        exact nodup_map_inj hnd hbs ha hbn
      subst this
      rw [hp b hpb] at hl; cases hl
  have h1 := key (fun a => a.kind.isListElem) (by intro b hb; cases hk : b.kind <;> simp_all [Kind.isListElem, Kind.isList])
  have h2 := key (fun a => a.kind.isListAgg) (by intro b hb; cases hk : b.kind <;> simp_all [Kind.isListAgg, Kind.isList])
  unfold isListMember listAggNames listElemNames
  split <;> simp_all [listElemNames]

theorem unsupportedAt_of (c : Cls) (pre rest : List Attr) (a : Attr) (hspec : c.spec = pre ++ a :: rest) :
    unsupportedAt c pre.length = a.kind.isUnsupported := by
  simp [unsupportedAt, hspec]


theorem foldChildren_mid (c : Cls) (ch : Tree) (s : PyM Node) :
    ∀ (pre post : List Tree) (sp sq : List (PyM Node)) (acc acc' : Accum), sp.length = pre.length →
    foldChildren c (pre ++ ch :: post) (sp ++ s :: sq) acc = .ok acc' →
    ∃ acc1 acc2, updateArgs c acc1 ch s = .ok acc2 ∧ foldChildren c post sq acc2 = .ok acc'
  | [], post, [], sq, acc, acc', _, h => by
    simp only [List.nil_append, foldChildren] at h
    cases hu : updateArgs c acc ch s with
    | error e => simp [hu, bind, Except.bind] at h
    | ok acc2 =>
      simp only [hu, bind, Except.bind] at h
      exact ⟨acc, acc2, hu, h⟩
  | [], _, _ :: _, _, _, _, h, _ => by simp at h
  | _ :: _, _, [], _, _, _, h, _ => by simp at h
  | p :: pre, post, s' :: sp, sq, acc, acc', hl, h => by
    simp only [List.cons_append, foldChildren] at h
    cases hu : updateArgs c acc p s' with
    | error e => simp [hu, bind, Except.bind] at h
    | ok acc1 =>
      simp only [hu, bind, Except.bind] at h
      exact foldChildren_mid c ch s pre post sp sq acc1 acc' (by simpa using hl) h

/-- the value a non-repeated data-element attribute gets is what its converter makes of the keyword -/
theorem setAttr_elem (S : Schema) (cv : Conv) (a : Attr) (w : Node)
    (hl : a.kind.isList = false) (hu : a.kind.isUnsupported = false) (hs : ∀ t, a.kind ≠ .sub t) :
    setAttr S cv a w = (cv.convert S.enums a.kind a.required (Node.toVal w)).map (fun v => some (.val v)) := by
  cases hk : a.kind <;> simp_all [setAttr, Kind.isList, Kind.isUnsupported]

/-- **C03 (nothing dropped, right value).** When `from_etree` accepts a document, every child of an
    aggregate node that is a non-repeated data element the class declares, carrying a non-empty text,
    is in the instance under its attribute name, with the value the attribute's converter assigns to
    that text — whatever else the document holds. -/
theorem C03_element_value (S : Schema) (cv : Conv) (tag : Str) (x tl : Option Str)
    (pre post : List Tree) (ch : Tree) (ci : Nat) (c : Cls) (a : Attr) (t0 : Char) (ts : Str)
    (fields : List (Str × Node)) (items : List Node) (cj : Nat)
    (hfind : S.findIdx? tag = some ci) (hcls : S.cls? ci = some c) (hg : c.groom = none)
    (hnd : (c.spec.map (·.name)).Nodup)
    (ha : a ∈ c.spec) (hname : a.name = lower ch.tag) (hdot : '.' ∉ ch.tag)
    (hl : a.kind.isList = false) (hu : a.kind.isUnsupported = false) (hs : ∀ t, a.kind ≠ .sub t)
    (htext : ch.text = some (t0 :: ts))
    (h : fromEtree S cv (.node tag x tl (pre ++ ch :: post)) = .ok (.agg cj fields items)) :
    ∃ v, lookup a.name fields = some (.val v) ∧
      cv.convert S.enums a.kind a.required (.str (t0 :: ts)) = .ok v := by
  simp only [fromEtree, convertNode, hfind, hcls] at h
  have hne : (pre ++ ch :: post).isEmpty = false := by cases pre <;> simp
  simp only [hne, Bool.false_eq_true, if_false] at h
  cases hf : foldChildren c (pre ++ ch :: post) (childInsts S cv (pre ++ ch :: post)) Accum.init with
  | error e => simp [hf, bind, Except.bind] at h
  | ok acc =>
    simp only [hf, bind, Except.bind] at h
    rw [childInsts_append] at hf
    simp only [childInsts] at hf
    obtain ⟨acc1, acc2, hstep, hrest⟩ := foldChildren_mid c ch _ pre post _ _ Accum.init acc
      (childInsts_length S cv pre) hf
    obtain ⟨pa, ra, hspec⟩ := List.append_of_mem ha
    have hidx : specIndex c (lower ch.tag) = some pa.length := by
      rw [← hname]; exact specIndex_at c pa ra a hspec hnd
    have hnl : isListMember c (lower ch.tag) = false := by
      rw [← hname]; exact not_listMember_of_nonlist c a ha hl hnd
    have hun : unsupportedAt c pa.length = false := by rw [unsupportedAt_of c pa ra a hspec]; exact hu
    have hk2 := updateArgs_leaf_lookup c acc1 acc2 ch _ pa.length t0 ts hg hdot hidx hnl hun htext hstep
    have hk : lookup a.name acc.kwargs = some (.val (.str (t0 :: ts))) := by
      rw [hname]; exact foldChildren_lookup c hg post _ acc2 acc hrest _ _ hk2
    obtain ⟨c', fields', items', hc', _, hset, _, _, hn⟩ := (construct_ok_iff S cv ci acc.args acc.kwargs _).mp h
    rw [hcls] at hc'; injection hc' with hc'; subst hc'
    injection hn with _ hf' _; subst hf'
    have hfm := setAttrs_fieldsMatch S cv acc.kwargs (specNoList c) fields
      (fun b hb => by simpa [specNoList] using (List.mem_filter.mp hb).2) hset
    have hnd' : ((specNoList c).map (·.name)).Nodup := by
      unfold specNoList
      exact (List.Sublist.map _ List.filter_sublist).nodup hnd
    have hmem : a ∈ specNoList c := by simp [specNoList, ha, hl]
    obtain ⟨v, hv, hpv⟩ := hfm.lookup hnd' a hmem hu
    rw [hk, setAttr_elem S cv a _ hl hu hs] at hpv
    simp only [Option.getD, Node.toVal] at hpv
    cases hcv : cv.convert S.enums a.kind a.required (.str (t0 :: ts)) with
    | error e => simp [hcv, Except.map] at hpv
    | ok w =>
      simp only [hcv, Except.map] at hpv
      injection hpv with hpv; injection hpv with hpv
      exact ⟨w, by rw [hv, ← hpv], rfl⟩


/-- where a keyword of the accumulator comes from: a known, non-repeated child -/
def FromChild (c : Cls) (ts : List Tree) (ss : List (PyM Node)) (n : Str) (raw : Node) : Prop :=
  ∃ ch sub idx, (ch, sub) ∈ ts.zip ss ∧ '.' ∉ ch.tag ∧ lower ch.tag = n ∧ specIndex c n = some idx ∧
    (if unsupportedAt c idx then raw = .val .none else childValue ch sub = .ok raw)

theorem updateArgs_origin (c : Cls) (hg : c.groom = none) (acc acc' : Accum) (ch : Tree) (sub : PyM Node)
    (h : updateArgs c acc ch sub = .ok acc') (n : Str) (raw : Node) (hm : (n, raw) ∈ acc'.kwargs) :
    (n, raw) ∈ acc.kwargs ∨ ('.' ∉ ch.tag ∧ lower ch.tag = n ∧ ∃ idx, specIndex c n = some idx ∧
      (if unsupportedAt c idx then raw = .val .none else childValue ch sub = .ok raw)) := by
  by_cases hdot : '.' ∈ ch.tag
  · rw [updateArgs_unknown_eq c acc ch sub hg (Or.inl hdot)] at h
    injection h with h; subst h; exact Or.inl hm
  · cases hidx : specIndex c (lower ch.tag) with
    | none =>
      rw [updateArgs_unknown_eq c acc ch sub hg (Or.inr hidx)] at h
      injection h with h; subst h; exact Or.inl hm
    | some idx =>
      rw [updateArgs_eq c acc ch sub idx hg hdot hidx] at h
      split at h
      · simp at h
      · by_cases hun : unsupportedAt c idx = true
        · simp only [hun, if_true, bind, Except.bind] at h
          split at h
          · injection h with h; subst h; exact Or.inl hm
          · split at h
            · simp at h
            · injection h with h; subst h
              simp only [List.mem_append, List.mem_singleton, Prod.mk.injEq] at hm
              rcases hm with hm | ⟨rfl, rfl⟩
              · exact Or.inl hm
              · exact Or.inr ⟨hdot, rfl, idx, hidx, by simp [hun]⟩
        · have hun' : unsupportedAt c idx = false := by simpa using hun
          rw [hun'] at h
          cases hv : childValue ch sub with
          | error e => simp [hv, bind, Except.bind] at h
          | ok value =>
            simp only [hv, bind, Except.bind, Bool.false_eq_true, if_false] at h
            split at h
            · injection h with h; subst h; exact Or.inl hm
            · split at h
              · simp at h
              · injection h with h; subst h
                simp only [List.mem_append, List.mem_singleton, Prod.mk.injEq] at hm
                rcases hm with hm | ⟨rfl, rfl⟩
                · exact Or.inl hm
                · exact Or.inr ⟨hdot, rfl, idx, hidx, by simp [hun']⟩

theorem foldChildren_origin (c : Cls) (hg : c.groom = none) : ∀ (ts : List Tree) (ss : List (PyM Node))
    (acc acc' : Accum), foldChildren c ts ss acc = .ok acc' → ∀ n raw, (n, raw) ∈ acc'.kwargs →
    (n, raw) ∈ acc.kwargs ∨ FromChild c ts ss n raw
  | [], ss, acc, acc', h, n, raw, hm => by
    cases ss <;> simp [foldChildren] at h <;> subst h <;> exact Or.inl hm
  | t :: ts, [], acc, acc', h, n, raw, hm => by simp [foldChildren] at h; subst h; exact Or.inl hm
  | t :: ts, s :: ss, acc, acc', h, n, raw, hm => by
    simp only [foldChildren] at h
    cases hu : updateArgs c acc t s with
    | error e => simp [hu, bind, Except.bind] at h
    | ok acc1 =>
      simp only [hu, bind, Except.bind] at h
      rcases foldChildren_origin c hg ts ss acc1 acc' h n raw hm with h1 | ⟨ch, sub, idx, hmem, h2⟩
      · rcases updateArgs_origin c hg acc acc1 t s hu n raw h1 with h0 | ⟨hd, hn, idx, hi, hv⟩
        · exact Or.inl h0
        · exact Or.inr ⟨t, s, idx, by simp, hd, hn, hi, hv⟩
      · exact Or.inr ⟨ch, sub, idx, by simp [hmem], h2⟩

theorem convertSub_none (S : Schema) (t : Nat) (r : Bool) (w : Node) (h : convertSub S t r (.val .none) = .ok w) :
    w = .val .none := by
  simp only [convertSub] at h
  split at h
  · cases h
  · injection h with h; exact h.symm

theorem mem_zip_childInsts (S : Schema) (cv : Conv) : ∀ (ts : List Tree) (ch : Tree) (sub : PyM Node),
    (ch, sub) ∈ ts.zip (childInsts S cv ts) → ch ∈ ts ∧ sub = fromEtree S cv ch
  | [], ch, sub, h => by simp [childInsts] at h
  | t :: ts, ch, sub, h => by
    simp only [childInsts, List.zip_cons_cons, List.mem_cons, Prod.mk.injEq] at h
    rcases h with ⟨rfl, rfl⟩ | h
    · exact ⟨by simp, rfl⟩
    · obtain ⟨h1, h2⟩ := mem_zip_childInsts S cv ts ch sub h
      exact ⟨by simp [h1], h2⟩

/-- **C03 (nothing invented).** Every value other than `None` that an accepted document's instance holds
    under a non-repeated attribute was supplied by a child element of the document carrying that
    attribute's tag: the value is what the attribute's converter makes of that child's text (a data
    element) or the child's own conversion (a sub-aggregate). -/
theorem C03_nothing_invented (S : Schema) (cv : Conv) (tag : Str) (x tl : Option Str)
    (children : List Tree) (ci : Nat) (c : Cls)
    (fields : List (Str × Node)) (items : List Node) (cj : Nat)
    (hfind : S.findIdx? tag = some ci) (hcls : S.cls? ci = some c) (hg : c.groom = none)
    (hnd : (c.spec.map (·.name)).Nodup)
    (hnone : ∀ k r v, cv.convert S.enums k r .none = .ok v → v = .none)
    (h : fromEtree S cv (.node tag x tl children) = .ok (.agg cj fields items))
    (n : Str) (w : Node) (hm : (n, w) ∈ fields) (hw : w ≠ .val .none) :
    ∃ a ∈ c.spec, a.name = n ∧ ∃ ch ∈ children, '.' ∉ ch.tag ∧ lower ch.tag = n ∧
      ∃ raw, childValue ch (fromEtree S cv ch) = .ok raw ∧ setAttr S cv a raw = .ok (some w) := by
  simp only [fromEtree, convertNode, hfind, hcls] at h
  have hinit : ∀ (fs : List (Str × Node)), setAttrs S cv (specNoList c) [] = .ok fs → (n, w) ∉ fs := by
    intro fs hset hmem
    have hfm := setAttrs_fieldsMatch S cv [] (specNoList c) fs
      (fun b hb => by simpa [specNoList] using (List.mem_filter.mp hb).2) hset
    obtain ⟨a, ha, _, hu, hp⟩ := hfm.mem n w hmem
    have hl : a.kind.isList = false := by simpa [specNoList] using (List.mem_filter.mp ha).2
    simp only [lookup, Option.getD] at hp
    cases hk : a.kind with
    | sub t =>
      simp only [setAttr, hk] at hp
      cases hcs : convertSub S t a.required (.val .none) with
      | error e => simp [hcs, Except.map] at hp
      | ok w' =>
        simp only [hcs, Except.map] at hp
        injection hp with hp; injection hp with hp
        exact hw (hp ▸ convertSub_none S t _ w' hcs)
    | unsupported => simp [hk, Kind.isUnsupported] at hu
    | listAgg _ => simp [hk, Kind.isList] at hl
    | listElem _ _ => simp [hk, Kind.isList] at hl
    | _ =>
      rw [setAttr_elem S cv a _ hl hu (by intro t; simp [hk])] at hp
      simp only [Node.toVal] at hp
      cases hcv : cv.convert S.enums a.kind a.required .none with
      | error e => simp [hcv, Except.map] at hp
      | ok v =>
        simp only [hcv, Except.map] at hp
        injection hp with hp; injection hp with hp
        exact hw (by rw [← hp, hnone _ _ v hcv])
  by_cases hemp : children.isEmpty = true
  · simp only [hemp, if_true] at h
    obtain ⟨c', fields', items', hc', _, hset, _, _, hn⟩ := (construct_ok_iff S cv ci [] [] _).mp h
    rw [hcls] at hc'; injection hc' with hc'; subst hc'
    injection hn with _ hf' _; subst hf'
    exact absurd hm (hinit fields hset)
  · simp only [hemp, Bool.false_eq_true, if_false] at h
    cases hf : foldChildren c children (childInsts S cv children) Accum.init with
    | error e => simp [hf, bind, Except.bind] at h
    | ok acc =>
      simp only [hf, bind, Except.bind] at h
      obtain ⟨c', fields', items', hc', _, hset, _, _, hn⟩ := (construct_ok_iff S cv ci acc.args acc.kwargs _).mp h
      rw [hcls] at hc'; injection hc' with hc'; subst hc'
      injection hn with _ hf' _; subst hf'
      have hfm := setAttrs_fieldsMatch S cv acc.kwargs (specNoList c) fields
        (fun b hb => by simpa [specNoList] using (List.mem_filter.mp hb).2) hset
      obtain ⟨a, ha, han, hu, hp⟩ := hfm.mem n w hm
      have has : a ∈ c.spec := (List.mem_filter.mp ha).1
      cases hlk : lookup a.name acc.kwargs with
      | none =>
        -- nothing given: the stored value would be None
        exfalso
        have hset0 : ∀ (fs : List (Str × Node)), True := fun _ => trivial
        have hl : a.kind.isList = false := by simpa [specNoList] using (List.mem_filter.mp ha).2
        rw [hlk] at hp
        simp only [Option.getD] at hp
        cases hk : a.kind with
        | sub t =>
          simp only [setAttr, hk] at hp
          cases hcs : convertSub S t a.required (.val .none) with
          | error e => simp [hcs, Except.map] at hp
          | ok w' =>
            simp only [hcs, Except.map] at hp
            injection hp with hp; injection hp with hp
            exact hw (hp ▸ convertSub_none S t _ w' hcs)
        | unsupported => simp [hk, Kind.isUnsupported] at hu
        | listAgg _ => simp [hk, Kind.isList] at hl
        | listElem _ _ => simp [hk, Kind.isList] at hl
        | _ =>
          rw [setAttr_elem S cv a _ hl hu (by intro t; simp [hk])] at hp
          simp only [Node.toVal] at hp
          cases hcv : cv.convert S.enums a.kind a.required .none with
          | error e => simp [hcv, Except.map] at hp
          | ok v =>
            simp only [hcv, Except.map] at hp
            injection hp with hp; injection hp with hp
            exact hw (by rw [← hp, hnone _ _ v hcv])
      | some raw =>
        rw [hlk] at hp
        simp only [Option.getD] at hp
        rcases foldChildren_origin c hg children _ Accum.init acc hf a.name raw (lookup_mem hlk) with h0 | ⟨ch, sub, idx, hmem, hd, hn, hi, hv⟩
        · simp [Accum.init] at h0
        · obtain ⟨hch, hsub⟩ := mem_zip_childInsts S cv children ch sub hmem
          subst hsub
          obtain ⟨pa, ra, hspec⟩ := List.append_of_mem has
          have hidx := specIndex_at c pa ra a hspec hnd
          rw [hidx] at hi; injection hi with hi; subst hi
          rw [unsupportedAt_of c pa ra a hspec, hu] at hv
          simp only [Bool.false_eq_true, if_false] at hv
          exact ⟨a, has, han, ch, hch, hd, by rw [hn, han], raw, hv, hp⟩

/-! ### repeated members -/

theorem updateArgs_args_origin (c : Cls) (hg : c.groom = none) (acc acc' : Accum) (ch : Tree) (sub : PyM Node)
    (h : updateArgs c acc ch sub = .ok acc') (m : Node) (hm : m ∈ acc'.args) :
    m ∈ acc.args ∨ ('.' ∉ ch.tag ∧ isListMember c (lower ch.tag) = true ∧ ∃ idx, specIndex c (lower ch.tag) = some idx ∧
      (if unsupportedAt c idx then m = .val .none else childValue ch sub = .ok m)) := by
  by_cases hdot : '.' ∈ ch.tag
  · rw [updateArgs_unknown_eq c acc ch sub hg (Or.inl hdot)] at h
    injection h with h; subst h; exact Or.inl hm
  · cases hidx : specIndex c (lower ch.tag) with
    | none =>
      rw [updateArgs_unknown_eq c acc ch sub hg (Or.inr hidx)] at h
      injection h with h; subst h; exact Or.inl hm
    | some idx =>
      rw [updateArgs_eq c acc ch sub idx hg hdot hidx] at h
      split at h
      · simp at h
      · cases hun : unsupportedAt c idx with
        | true =>
          simp only [hun, if_true, bind, Except.bind] at h
          split at h
          · rename_i hil
            injection h with h; subst h
            simp only [List.mem_append, List.mem_singleton] at hm
            rcases hm with hm | rfl
            · exact Or.inl hm
            · exact Or.inr ⟨hdot, hil, idx, rfl, by simp [hun]⟩
          · split at h
            · simp at h
            · injection h with h; subst h; exact Or.inl hm
        | false =>
          rw [hun] at h
          cases hv : childValue ch sub with
          | error e => simp [hv, bind, Except.bind] at h
          | ok value =>
            simp only [hv, bind, Except.bind, Bool.false_eq_true, if_false] at h
            split at h
            · rename_i hil
              injection h with h; subst h
              simp only [List.mem_append, List.mem_singleton] at hm
              rcases hm with hm | rfl
              · exact Or.inl hm
              · exact Or.inr ⟨hdot, hil, idx, rfl, by simp [hun, hv]⟩
            · split at h
              · simp at h
              · injection h with h; subst h; exact Or.inl hm

theorem foldChildren_args_origin (c : Cls) (hg : c.groom = none) : ∀ (ts : List Tree) (ss : List (PyM Node))
    (acc acc' : Accum), foldChildren c ts ss acc = .ok acc' → ∀ m, m ∈ acc'.args →
    m ∈ acc.args ∨ ∃ ch sub, (ch, sub) ∈ ts.zip ss ∧ '.' ∉ ch.tag ∧ isListMember c (lower ch.tag) = true ∧
      ∃ idx, specIndex c (lower ch.tag) = some idx ∧
        (if unsupportedAt c idx then m = .val .none else childValue ch sub = .ok m)
  | [], ss, acc, acc', h, m, hm => by
    cases ss <;> simp [foldChildren] at h <;> subst h <;> exact Or.inl hm
  | t :: ts, [], acc, acc', h, m, hm => by simp [foldChildren] at h; subst h; exact Or.inl hm
  | t :: ts, s :: ss, acc, acc', h, m, hm => by
    simp only [foldChildren] at h
    cases hu : updateArgs c acc t s with
    | error e => simp [hu, bind, Except.bind] at h
    | ok acc1 =>
      simp only [hu, bind, Except.bind] at h
      rcases foldChildren_args_origin c hg ts ss acc1 acc' h m hm with h1 | ⟨ch, sub, hmem, h2⟩
      · rcases updateArgs_args_origin c hg acc acc1 t s hu m h1 with h0 | h0
        · exact Or.inl h0
        · exact Or.inr ⟨t, s, by simp, h0⟩
      · exact Or.inr ⟨ch, sub, by simp [hmem], h2⟩

theorem mapM_applyArg_eq (S : Schema) (c : Cls) : ∀ (args items : List Node),
    args.mapM (m := PyM) (applyArg S c) = .ok items → items = args
  | [], items, h => by simp [List.mapM_nil, pure, Except.pure] at h; exact h
  | a :: args, items, h => by
    rw [List.mapM_cons] at h
    cases ha : applyArg S c a with
    | error e => simp [ha, bind, Except.bind] at h
    | ok a' =>
      cases hr : args.mapM (m := PyM) (applyArg S c) with
      | error e => simp [ha, hr, bind, Except.bind] at h
      | ok r =>
        simp only [ha, hr, bind, Except.bind, pure, Except.pure] at h
        injection h with h; subst h
        have : a' = a := by
          cases a with
          | val v => simp [applyArg] at ha
          | agg ci f i =>
            simp only [applyArg] at ha
            split at ha
            · injection ha with ha; exact ha.symm
            · cases ha
        rw [this, mapM_applyArg_eq S c args r hr]

/-- what `_apply_args` makes of one positional argument: the member itself if it is an instance of a list
    class (plain aggregate), the list element's conversion of it (`ElementList`) -/
def applyOne (S : Schema) (cv : Conv) (c : Cls) (raw : Node) : PyM Node :=
  if c.elementList then
    match c.spec.filter (fun a => a.kind.isListElem) with
    | [a] =>
      match a.kind with
      | .listElem inner ireq => (cv.convert S.enums inner ireq (Node.toVal raw)).map Node.val
      | _ => .error .assert
    | _ => .error .assert
  else applyArg S c raw

theorem applyArgs_mapM (S : Schema) (cv : Conv) (c : Cls) (args items : List Node)
    (h : applyArgs S cv c args = .ok items) : args.mapM (m := PyM) (applyOne S cv c) = .ok items := by
  unfold applyArgs at h
  cases hel : c.elementList with
  | false =>
    simp only [hel, Bool.false_eq_true, if_false] at h
    have : applyOne S cv c = applyArg S c := by funext r; simp [applyOne, hel]
    rw [this]; exact h
  | true =>
    simp only [hel, if_true] at h
    split at h
    · rename_i a hf
      split at h
      · rename_i inner ireq hk
        have : applyOne S cv c = fun m => (cv.convert S.enums inner ireq (Node.toVal m)).map Node.val := by
          funext r; simp [applyOne, hel, hf, hk]
        rw [this]; exact h
      · cases h
    · cases h

theorem mapM_mem {α β} (f : α → PyM β) : ∀ (l : List α) (r : List β), l.mapM (m := PyM) f = .ok r →
    ∀ y ∈ r, ∃ x ∈ l, f x = .ok y
  | [], r, h, y, hy => by
    simp [List.mapM_nil, pure, Except.pure] at h; subst h; simp at hy
  | x :: l, r, h, y, hy => by
    rw [List.mapM_cons] at h
    cases hx : f x with
    | error e => simp [hx, bind, Except.bind] at h
    | ok x' =>
      cases hl : l.mapM (m := PyM) f with
      | error e => simp [hx, hl, bind, Except.bind] at h
      | ok l' =>
        simp only [hx, hl, bind, Except.bind, pure, Except.pure] at h
        injection h with h; subst h
        simp only [List.mem_cons] at hy
        rcases hy with rfl | hy
        · exact ⟨x, by simp, hx⟩
        · obtain ⟨z, hz, hfz⟩ := mapM_mem f l l' hl y hy
          exact ⟨z, by simp [hz], hfz⟩

/-- **C03 (repeated members: nothing invented).** Every member of an accepted document's instance is what
    `_apply_args` makes (`applyOne`: the member itself for a plain aggregate, the list element's conversion of
    the text for an `ElementList`) of a child of the document carrying the tag of a repeated attribute. -/
theorem C03_members_from_children (S : Schema) (cv : Conv) (tag : Str) (x tl : Option Str)
    (children : List Tree) (ci : Nat) (c : Cls) (fields : List (Str × Node)) (items : List Node) (cj : Nat)
    (hfind : S.findIdx? tag = some ci) (hcls : S.cls? ci = some c) (hg : c.groom = none)
    (h : fromEtree S cv (.node tag x tl children) = .ok (.agg cj fields items)) (m : Node) (hm : m ∈ items) :
    ∃ ch ∈ children, '.' ∉ ch.tag ∧ isListMember c (lower ch.tag) = true ∧
      ∃ raw, (raw = .val .none ∨ childValue ch (fromEtree S cv ch) = .ok raw) ∧ applyOne S cv c raw = .ok m := by
  simp only [fromEtree, convertNode, hfind, hcls] at h
  by_cases hemp : children.isEmpty = true
  · simp only [hemp, if_true] at h
    obtain ⟨c', fields', items', hc', _, _, happ, _, hn⟩ := (construct_ok_iff S cv ci [] [] _).mp h
    rw [hcls] at hc'; injection hc' with hc'; subst hc'
    injection hn with _ _ hi'; subst hi'
    have := applyArgs_mapM S cv c [] items happ
    simp only [List.mapM_nil, pure, Except.pure] at this
    injection this with this; subst this; simp at hm
  · simp only [hemp, Bool.false_eq_true, if_false] at h
    cases hf : foldChildren c children (childInsts S cv children) Accum.init with
    | error e => simp [hf, bind, Except.bind] at h
    | ok acc =>
      simp only [hf, bind, Except.bind] at h
      obtain ⟨c', fields', items', hc', _, _, happ, _, hn⟩ := (construct_ok_iff S cv ci acc.args acc.kwargs _).mp h
      rw [hcls] at hc'; injection hc' with hc'; subst hc'
      injection hn with _ _ hi'; subst hi'
      obtain ⟨raw, hraw, hone⟩ := mapM_mem _ acc.args items (applyArgs_mapM S cv c acc.args items happ) m hm
      rcases foldChildren_args_origin c hg children _ Accum.init acc hf raw hraw with h0 | ⟨ch, sub, hmem, hd, hil, idx, _, hv⟩
      · simp [Accum.init] at h0
      · obtain ⟨hch, hsub⟩ := mem_zip_childInsts S cv children ch sub hmem
        subst hsub
        refine ⟨ch, hch, hd, hil, raw, ?_, hone⟩
        split at hv
        · exact Or.inl hv
        · exact Or.inr hv


/-! ### repeated members: exactly, and in document order -/

/-- the positional argument a child contributes (none: it is not a repeated child the class knows) -/
def argOf (c : Cls) (ch : Tree) (sub : PyM Node) : Option (PyM Node) :=
  if ch.tag.contains '.' then none
  else match specIndex c (lower ch.tag) with
    | none => none
    | some idx =>
      if isListMember c (lower ch.tag) then
        some (if unsupportedAt c idx then .ok (.val .none) else childValue ch sub)
      else none

/-- the positional arguments of a child list, in document order -/
def argsOf (c : Cls) : List Tree → List (PyM Node) → List (PyM Node)
  | t :: ts, s :: ss => (match argOf c t s with | some v => [v] | none => []) ++ argsOf c ts ss
  | _, _ => []

theorem updateArgs_args_exact (c : Cls) (hg : c.groom = none) (acc acc' : Accum) (ch : Tree) (sub : PyM Node)
    (h : updateArgs c acc ch sub = .ok acc') :
    match argOf c ch sub with
    | some v => ∃ m, v = .ok m ∧ acc'.args = acc.args ++ [m]
    | none => acc'.args = acc.args := by
  unfold argOf
  by_cases hdot : '.' ∈ ch.tag
  · rw [updateArgs_unknown_eq c acc ch sub hg (Or.inl hdot)] at h
    injection h with h; subst h
    have : ch.tag.contains '.' = true := by simpa using hdot
    simp only [this, if_true]
  · have hd : ch.tag.contains '.' = false := by simpa using hdot
    simp only [hd, Bool.false_eq_true, if_false]
    cases hidx : specIndex c (lower ch.tag) with
    | none =>
      rw [updateArgs_unknown_eq c acc ch sub hg (Or.inr hidx)] at h
      injection h with h; subst h; rfl
    | some idx =>
      rw [updateArgs_eq c acc ch sub idx hg hdot hidx] at h
      split at h
      · simp at h
      · generalize hrv : (if unsupportedAt c idx = true then (Except.ok (Node.val Val.none) : PyM Node)
          else childValue ch sub) = rv at h
        cases rv with
        | error e => simp [bind, Except.bind] at h
        | ok value =>
          simp only [bind, Except.bind] at h
          by_cases hl : isListMember c (lower ch.tag) = true
          · simp only [hl, if_true] at h ⊢
            injection h with h; subst h
            exact ⟨value, hrv, rfl⟩
          · simp only [hl, Bool.false_eq_true, if_false] at h ⊢
            split at h
            · simp at h
            · injection h with h; subst h; rfl

/-- **C03 (repeated members, exactly and in order).** The positional arguments the reader collects are the values
    of the children that carry a repeated attribute's tag, in document order. -/
theorem foldChildren_args_exact (c : Cls) (hg : c.groom = none) : ∀ (ts : List Tree) (ss : List (PyM Node))
    (acc acc' : Accum), foldChildren c ts ss acc = .ok acc' →
    ∃ vs, (argsOf c ts ss).mapM (m := PyM) id = .ok vs ∧ acc'.args = acc.args ++ vs
  | [], ss, acc, acc', h => by
    cases ss <;> simp [foldChildren] at h <;> subst h <;> exact ⟨[], rfl, by simp⟩
  | t :: ts, [], acc, acc', h => by
    simp [foldChildren] at h; subst h; exact ⟨[], rfl, by simp⟩
  | t :: ts, s :: ss, acc, acc', h => by
    simp only [foldChildren] at h
    cases hu : updateArgs c acc t s with
    | error e => simp [hu, bind, Except.bind] at h
    | ok acc1 =>
      simp only [hu, bind, Except.bind] at h
      obtain ⟨vs, hvs, hargs⟩ := foldChildren_args_exact c hg ts ss acc1 acc' h
      have hstep := updateArgs_args_exact c hg acc acc1 t s hu
      simp only [argsOf]
      cases ha : argOf c t s with
      | none =>
        rw [ha] at hstep
        exact ⟨vs, by simpa using hvs, by rw [hargs, hstep]⟩
      | some v =>
        rw [ha] at hstep
        obtain ⟨m, rfl, hm⟩ := hstep
        refine ⟨m :: vs, ?_, by rw [hargs, hm]; simp⟩
        simp only [List.singleton_append, List.mapM_cons, id, hvs, bind, Except.bind, pure, Except.pure]

/-- … hence the members of an accepted document's instance are what `_apply_args` makes of exactly those values, in
    order (for a plain aggregate: the children's own conversions, in document order). -/
theorem C03_members_exact (S : Schema) (cv : Conv) (tag : Str) (x tl : Option Str)
    (children : List Tree) (ci : Nat) (c : Cls) (fields : List (Str × Node)) (items : List Node) (cj : Nat)
    (hfind : S.findIdx? tag = some ci) (hcls : S.cls? ci = some c) (hg : c.groom = none)
    (hne : children.isEmpty = false)
    (h : fromEtree S cv (.node tag x tl children) = .ok (.agg cj fields items)) :
    ∃ vs, (argsOf c children (childInsts S cv children)).mapM (m := PyM) id = .ok vs ∧
      applyArgs S cv c vs = .ok items := by
  simp only [fromEtree, convertNode, hfind, hcls, hne, Bool.false_eq_true, if_false] at h
  cases hf : foldChildren c children (childInsts S cv children) Accum.init with
  | error e => simp [hf, bind, Except.bind] at h
  | ok acc =>
    simp only [hf, bind, Except.bind] at h
    obtain ⟨c', fields', items', hc', _, _, happ, _, hn⟩ := (construct_ok_iff S cv ci acc.args acc.kwargs _).mp h
    rw [hcls] at hc'; injection hc' with hc'; subst hc'
    injection hn with _ _ hi'; subst hi'
    obtain ⟨vs, hvs, hargs⟩ := foldChildren_args_exact c hg children _ Accum.init acc hf
    simp only [Accum.init, List.nil_append] at hargs
    exact ⟨vs, hvs, by rw [← hargs]; exact happ⟩

end Ofx.Agg
