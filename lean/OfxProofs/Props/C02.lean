/-
C02 — all wire renderings of one body parse to the same, faithful tree (DESIGN 6.2).

`Renders false` is the full grammar of DESIGN 6.2; `Renders true` adds the one local side condition
G3 (the last child of an aggregate is not a data element bearing the aggregate's tag).  Two former guards are gone:
G1 — one `]]>` per line — since /repo's `fix: CDATA element data ends at the first ]]>` (its witness is the positive
example `C02_G1_repaired`); G2 — no whitespace between `]]>` and the element's own end tag — since /repo's
`fix: white space may follow a CDATA section` (its witness is the positive example `C02_G2_repaired`; the general
case is the constructor `cdataClosed` of the strict grammar, lemma `cdataClosed_ok`).

* `C02_complete_full`  (∀ full-grammar renderings) is still FALSE: `C02_complete_full_false` = `C02_G3_needed` (G3
  witness, a `ParseError`: a valid rendering is rejected, not mis-read).
* `C02_complete_partial`: every strict rendering — arbitrary nesting, every end-tag / whitespace / CDATA choice —
  parses to exactly the rendered tree.  `C02_complete_doc`: also with whitespace around the root.
* `C02_complete_g3`: G3 is a condition on the *tree* alone (`g3Tree`): every full-grammar rendering of a tree that
  satisfies it parses to that tree (`renders_strict_of_g3`: for such trees the two grammars coincide).
* corollaries `C02_unique`, `C02_same`.
-/
import OfxProofs.Lemmas.Builder

namespace Ofx.C02
open Ofx Ofx.Lexer Ofx.Builder Ofx.Spec

/-- feed the tokens of `s` to a builder in state `st` -/
def run (s : Str) (st : St) : PyM St := feedToks (toks s) st

theorem run_nil (st : St) : run [] st = .ok st := rfl

theorem parse_eq (s : Str) : parse s =
    (match run s St.init with
     | .ok st => (match st.close with | .ok r => .ok (some r) | .error e => .error e)
     | .error e => .error e) := rfl

/-- one token: if the regex matches `tok` at the front and the loop body succeeds, continue after it -/
theorem run_tok (tok rest : Str) (m : Match) (st st' : St) (hne : tok ≠ [])
    (hm : matchHere (tok ++ rest) = some m) (hl : m.len = tok.length) (hs : step m st = .ok st') :
    run (tok ++ rest) st = run rest st' := by
  unfold run toks
  rw [toksGo_match tok rest m hne hm hl]
  simp only [feedToks, hs]

theorem run_tok' (full tok rest : Str) (m : Match) (st st' : St) (he : full = tok ++ rest) (hne : tok ≠ [])
    (hm : matchHere full = some m) (hl : m.len = tok.length) (hs : step m st = .ok st') :
    run full st = run rest st' := by
  subst he; exact run_tok tok rest m st st' hne hm hl hs

theorem run_skip (w rest : Str) (st : St) (hw : ws w = true) : run (w ++ rest) st = run rest st := by
  unfold run toks
  rw [toksGo_skip_notLt w rest (fun c hc => space_notLt ((ws_iff w).mp hw c hc))]

/-! ### what may follow an element -/

def StartsName (s : Str) : Prop := ∃ a r, s = '<' :: a :: r ∧ isNameChar a = true
def StartsEnd (s : Str) : Prop := ∃ a r, s = '<' :: '/' :: a :: r ∧ isNameChar a = true

/-- end of input, the start tag of a sibling, or the end tag of the parent -/
def After (rest : Str) : Prop := rest = [] ∨ StartsName rest ∨ StartsEnd rest

/-- `After`, and not the end tag that would be mistaken for the element's own -/
def Cont (avoid : Option Str) (rest : Str) : Prop :=
  After rest ∧ ∀ tg, avoid = some tg → dropPrefix (endTag tg) rest = none

theorem after_stops {rest : Str} (h : After rest) : Stops notLt rest := by
  rcases h with rfl | ⟨a, r, rfl, -⟩ | ⟨a, r, rfl, -⟩
  · exact stops_nil _
  · exact stops_cons _ notLt_lt
  · exact stops_cons _ notLt_lt

theorem after_nocdata {rest : Str} (h : After rest) : dropPrefix cdataOpen rest = none := by
  rcases h with rfl | ⟨a, r, rfl, ha⟩ | ⟨a, r, rfl, -⟩
  · rfl
  · simp [cdataOpen, dropPrefix, Ne.symm (name_ne_bang ha)]
  · simp [cdataOpen, dropPrefix]

theorem after_noEndEnd {rest : Str} (t : Str) (h : After rest) : dropPrefix (endTag ('/' :: t)) rest = none := by
  rcases h with rfl | ⟨a, r, rfl, ha⟩ | ⟨a, r, rfl, ha⟩
  · rfl
  · simp [endTag, dropPrefix, Ne.symm (name_ne_slash ha)]
  · simp [endTag, dropPrefix, Ne.symm (name_ne_slash ha)]

theorem startsName_noEnd {rest : Str} (tg : Str) (h : StartsName rest) : dropPrefix (endTag tg) rest = none := by
  obtain ⟨a, r, rfl, ha⟩ := h
  simp [endTag, dropPrefix, Ne.symm (name_ne_slash ha)]

theorem startsName_startTag (t x : Str) (ht : tagOk t = true) : StartsName (startTag t ++ x) := by
  obtain ⟨c, cs, rfl, -, hn⟩ := tagOk_cons ht
  exact ⟨c, cs ++ '>' :: x, by simp [startTag], hn c (by simp)⟩

theorem startsEnd_endTag (t x : Str) (ht : tagOk t = true) : StartsEnd (endTag t ++ x) := by
  obtain ⟨c, cs, rfl, -, hn⟩ := tagOk_cons ht
  exact ⟨c, cs ++ '>' :: x, by simp [endTag], hn c (by simp)⟩

theorem dropPrefix_notLt (x r : Str) (hne : x ≠ []) (hx : ∀ c ∈ x, notLt c = true) : dropPrefix cdataOpen (x ++ r) = none := by
  cases x with
  | nil => exact absurd rfl hne
  | cons c cs =>
    have : c ≠ '<' := by have := hx c (by simp); simpa [notLt] using this
    simp [cdataOpen, dropPrefix, Ne.symm this]

theorem dropPrefix_ws_or (p w rest : Str) (hp : ∃ ps, p = '<' :: ps) (hw : ws w = true)
    (h : dropPrefix p rest = none) : dropPrefix p (w ++ rest) = none := by
  cases w with
  | nil => simpa using h
  | cons c cs =>
    obtain ⟨ps, rfl⟩ := hp
    have hc : isSpace c = true := (ws_iff _).mp hw c (by simp)
    simp [dropPrefix, Ne.symm (space_ne_lt hc)]

/-- different names: the end tag of one is not a prefix of the end tag of the other -/
theorem dropPrefix_name_ne (tg t r : Str) (h1 : ∀ c ∈ tg, isNameChar c = true) (h2 : ∀ c ∈ t, isNameChar c = true)
    (hne : tg ≠ t) : dropPrefix (tg ++ ['>']) (t ++ '>' :: r) = none := by
  induction tg generalizing t with
  | nil =>
    cases t with
    | nil => exact absurd rfl hne
    | cons a as => simp [dropPrefix, Ne.symm (name_ne_gt (h2 a (by simp)))]
  | cons b bs ih =>
    cases t with
    | nil => simp [dropPrefix, name_ne_gt (h1 b (by simp))]
    | cons a as =>
      by_cases hba : b = a
      · subst hba
        simp only [List.cons_append, dropPrefix_cons_eq]
        exact ih as (fun c hc => h1 c (by simp [hc])) (fun c hc => h2 c (by simp [hc])) (fun e => hne (by rw [e]))
      · simp [dropPrefix, hba]

theorem dropPrefix_endTag_ne (tg t r : Str) (h1 : tagOk tg = true) (h2 : tagOk t = true) (hne : tg ≠ t) :
    dropPrefix (endTag tg) (endTag t ++ r) = none := by
  obtain ⟨_, _, rfl, -, hn1⟩ := tagOk_cons h1
  obtain ⟨_, _, rfl, -, hn2⟩ := tagOk_cons h2
  have := dropPrefix_name_ne _ _ r hn1 hn2 hne
  simpa [endTag, dropPrefix] using this

/-! ### structural facts about renderings -/

theorem renders_facts {strict : Bool} {t : Tree} {s : Str} (h : Renders strict t s) :
    StartsName s ∧ ∀ tg, leafTag t = some tg → tagOk tg = true := by
  cases h with
  | leafOpen t d w1 ht => exact ⟨startsName_startTag _ _ ht, by intro tg e; cases e; exact ht⟩
  | leafClosed t d w1 w2 ht => exact ⟨startsName_startTag _ _ ht, by intro tg e; cases e; exact ht⟩
  | cdataOpen t d ht => exact ⟨startsName_startTag _ _ ht, by intro tg e; cases e; exact ht⟩
  | cdataClosed t d w ht => exact ⟨startsName_startTag _ _ ht, by intro tg e; cases e; exact ht⟩
  | agg t w0 cs body ht => exact ⟨startsName_startTag _ _ ht, by intro tg e; simp [Tree.agg, leafTag] at e⟩

theorem rendersList_facts {strict : Bool} {cs : List Tree} {body : Str} (h : RendersList strict cs body) :
    ((cs = [] ∧ body = []) ∨ (cs ≠ [] ∧ StartsName body)) ∧
    ∀ c, cs.getLast? = some c → ∀ tg, leafTag c = some tg → tagOk tg = true := by
  refine RendersList.rec (strict := strict) (motive_1 := fun _ _ _ => True)
    (motive_2 := fun cs body _ => ((cs = [] ∧ body = []) ∨ (cs ≠ [] ∧ StartsName body)) ∧
      ∀ c, cs.getLast? = some c → ∀ tg, leafTag c = some tg → tagOk tg = true)
    ?_ ?_ ?_ ?_ ?_ ?_ ?_ h
  · intros; trivial
  · intros; trivial
  · intros; trivial
  · intros; trivial
  · intros; trivial
  · exact ⟨Or.inl ⟨rfl, rfl⟩, by intro c hc; cases hc⟩
  · intro c cs s w s' hr hw hl _ ih
    obtain ⟨hs, hk⟩ := renders_facts hr
    refine ⟨Or.inr ⟨by simp, ?_⟩, ?_⟩
    · obtain ⟨a, r, rfl, ha⟩ := hs
      exact ⟨a, r ++ (w ++ s'), by simp, ha⟩
    · intro c' hc'
      cases cs with
      | nil => simp at hc'; subst hc'; exact hk
      | cons d ds => rw [List.getLast?_cons_cons] at hc'; exact ih.2 c' hc'

/-! ### the builder state while children arrive -/

def addKids (cs : List Tree) (st : St) : St :=
  match st.stack with
  | [] => st
  | f :: fs => { st with stack := { f with children := f.children ++ cs } :: fs }

theorem canStart_of_stack {st : St} (h : st.stack ≠ []) : st.CanStart := Or.inl h

theorem addKids_nil (st : St) : addKids [] st = st := by
  obtain ⟨stack, root⟩ := st
  cases stack with
  | nil => rfl
  | cons f fs => simp [addKids]

theorem addKids_emit (c : Tree) (cs : List Tree) (st : St) (h : st.stack ≠ []) :
    addKids cs (st.emit c) = addKids (c :: cs) st := by
  obtain ⟨stack, root⟩ := st
  cases stack with
  | nil => exact absurd rfl h
  | cons f fs => simp [addKids, St.emit, Frame.add]

theorem emit_stack_ne (c : Tree) (st : St) (h : st.stack ≠ []) : (st.emit c).stack ≠ [] := by
  obtain ⟨stack, root⟩ := st
  cases stack with
  | nil => exact absurd rfl h
  | cons f fs => simp [St.emit]

/-! ### the main induction -/

/-- the statement proved of one element: its rendering, the whitespace after it and a continuation -/
def ElemOk (t : Tree) (s : Str) : Prop :=
  ∀ (w rest : Str) (st : St), ws w = true → Cont (leafTag t) rest → st.CanStart →
    run (s ++ (w ++ rest)) st = run rest (st.emit t)

def ListOk (cs : List Tree) (body : Str) : Prop :=
  ∀ (rest : Str) (st : St), st.stack ≠ [] → After rest →
    (∀ c, cs.getLast? = some c → ∀ tg, leafTag c = some tg → dropPrefix (endTag tg) rest = none) →
    run (body ++ rest) st = run rest (addKids cs st)

theorem ws_notLt {w : Str} (hw : ws w = true) : ∀ c ∈ w, notLt c = true :=
  fun c hc => space_notLt ((ws_iff w).mp hw c hc)

theorem dataOk_parts {d : Str} (h : dataOk d = true) :
    d ≠ [] ∧ (∀ c ∈ d, notLt c = true) ∧ trimmed d = true := by
  simp only [dataOk, Bool.and_eq_true, List.all_eq_true] at h
  refine ⟨?_, h.1.2, h.2⟩
  intro e; subst e; simp at h

theorem cdataOk_notNl {d : Str} (h : cdataOk d = true) : ∀ c ∈ d, notNl c = true := by
  simp only [cdataOk, Bool.and_eq_true, List.all_eq_true] at h
  exact h.1.2

theorem cdataOk_noClose {d : Str} (h : cdataOk d = true) : containsSub cdataClose d = false := by
  simp only [cdataOk, Bool.and_eq_true] at h
  simpa using h.2

theorem tagChars {t : Str} (ht : tagOk t = true) : t ≠ [] ∧ ∀ c ∈ t, isTagChar c = true := by
  obtain ⟨c, cs, rfl, -, hn⟩ := tagOk_cons ht
  exact ⟨by simp, fun x hx => isTagChar_of_name (hn x hx)⟩

theorem leafOpen_ok (t d w1 : Str) (ht : tagOk t = true) (hd : dataOk d = true) (h1 : ws w1 = true) :
    ElemOk (Tree.leaf t d) (startTag t ++ (w1 ++ d)) := by
  intro w rest st hw hc hst
  obtain ⟨hdne, hdlt, hdtr⟩ := dataOk_parts hd
  obtain ⟨htne, htc⟩ := tagChars ht
  have hx : ∀ c ∈ w1 ++ (d ++ w), notLt c = true := by
    intro c hc'
    simp only [List.mem_append] at hc'
    rcases hc' with h | h | h
    · exact ws_notLt h1 c h
    · exact hdlt c h
    · exact ws_notLt hw c h
  have hxne : w1 ++ (d ++ w) ≠ [] := by simp [hdne]
  have hm := matchHere_open t (w1 ++ (d ++ w)) rest htne htc hx (after_stops hc.1)
    (dropPrefix_notLt _ _ hxne hx) (hc.2 t rfl)
  have e : (startTag t ++ (w1 ++ d)) ++ (w ++ rest) = startTag t ++ ((w1 ++ (d ++ w)) ++ rest) := by simp
  rw [e]
  refine run_tok' _ (startTag t ++ (w1 ++ (d ++ w))) rest _ st _ (by simp) (by simp [startTag]) hm rfl ?_
  exact step_leaf t d none _ none none _ st ht hdne (Or.inl rfl) rfl
    (Or.inl ⟨rfl, groom_pad w1 d w h1 hw hdne hdtr⟩) hst

theorem leafClosed_ok (t d w1 w2 : Str) (ht : tagOk t = true) (hd : dataOk d = true) (h1 : ws w1 = true)
    (h2 : ws w2 = true) : ElemOk (Tree.leaf t d) (startTag t ++ (w1 ++ (d ++ (w2 ++ endTag t)))) := by
  intro w rest st hw hc hst
  obtain ⟨hdne, hdlt, hdtr⟩ := dataOk_parts hd
  obtain ⟨htne, htc⟩ := tagChars ht
  have hx : ∀ c ∈ w1 ++ (d ++ w2), notLt c = true := by
    intro c hc'
    simp only [List.mem_append] at hc'
    rcases hc' with h | h | h
    · exact ws_notLt h1 c h
    · exact hdlt c h
    · exact ws_notLt h2 c h
  have hm := matchHere_closed t (w1 ++ (d ++ w2)) w rest htne htc hx (ws_notLt hw) (after_stops hc.1)
  have e : (startTag t ++ (w1 ++ (d ++ (w2 ++ endTag t)))) ++ (w ++ rest)
      = startTag t ++ ((w1 ++ (d ++ w2)) ++ (endTag t ++ (w ++ rest))) := by simp
  rw [e]
  refine run_tok' _ (startTag t ++ ((w1 ++ (d ++ w2)) ++ (endTag t ++ w))) rest _ st _ (by simp) (by simp [startTag]) hm rfl ?_
  exact step_leaf t d none _ (some t) _ _ st ht hdne (Or.inr rfl) (groom_ws w hw)
    (Or.inl ⟨rfl, groom_pad w1 d w2 h1 h2 hdne hdtr⟩) hst

theorem cdataOpen_ok (t d : Str) (ht : tagOk t = true) (hd : dataOk d = true) (hcd : cdataOk d = true) :
    ElemOk (Tree.leaf t d) (startTag t ++ cdataOf d) := by
  intro w rest st hw hc hst
  obtain ⟨hdne, -, -⟩ := dataOk_parts hd
  obtain ⟨htne, htc⟩ := tagChars ht
  have hg : containsSub cdataClose d = false := cdataOk_noClose hcd
  have hm := matchHere_cdata_open t d w rest htne htc hdne (cdataOk_notNl hcd) ((ws_iff w).mp hw) (after_stops hc.1) hg
    (hc.2 t rfl)
  have e : (startTag t ++ cdataOf d) ++ (w ++ rest) = startTag t ++ (cdataOf d ++ (w ++ rest)) := by simp
  rw [e]
  refine run_tok' _ (startTag t ++ (cdataOf d ++ w)) rest _ st _ (by simp) (by simp [startTag]) hm rfl ?_
  exact step_leaf t d (some d) none none none _ st ht hdne (Or.inl rfl) rfl (Or.inr ⟨rfl, rfl⟩) hst

/-- `<t><![CDATA[d]]> w1 </t>`: any white space between the section and the element's own end tag (former guard G2) -/
theorem cdataClosed_ok (t d w1 : Str) (ht : tagOk t = true) (hd : dataOk d = true) (hcd : cdataOk d = true)
    (h1 : ws w1 = true) : ElemOk (Tree.leaf t d) (startTag t ++ (cdataOf d ++ (w1 ++ endTag t))) := by
  intro w rest st hw hc hst
  obtain ⟨hdne, -, -⟩ := dataOk_parts hd
  obtain ⟨htne, htc⟩ := tagChars ht
  have hg : containsSub cdataClose d = false := cdataOk_noClose hcd
  have hm := matchHere_cdata_closed t d w1 w rest htne htc hdne (cdataOk_notNl hcd) ((ws_iff w1).mp h1) (ws_notLt hw)
    (after_stops hc.1) hg
  have e : (startTag t ++ (cdataOf d ++ (w1 ++ endTag t))) ++ (w ++ rest)
      = startTag t ++ (cdataOf d ++ (w1 ++ (endTag t ++ (w ++ rest)))) := by simp
  rw [e]
  refine run_tok' _ (startTag t ++ (cdataOf d ++ (w1 ++ (endTag t ++ w)))) rest _ st _ (by simp) (by simp [startTag]) hm rfl ?_
  exact step_leaf t d (some d) none (some t) _ _ st ht hdne (Or.inr rfl) (groom_ws w hw) (Or.inr ⟨rfl, rfl⟩) hst


theorem startsName_append {b : Str} (x : Str) (h : StartsName b) : StartsName (b ++ x) := by
  obtain ⟨a, r, rfl, ha⟩ := h
  exact ⟨a, r ++ x, by simp, ha⟩

theorem addKids_push (t : Str) (cs : List Tree) (st : St) :
    addKids cs (st.push t) = { st with stack := ⟨t, none, cs⟩ :: st.stack } := by
  simp [addKids, St.push]

theorem agg_ok (t w0 : Str) (cs : List Tree) (body : Str) (ht : tagOk t = true) (h0 : ws w0 = true)
    (hl : RendersList true cs body) (hself : ∀ c, cs.getLast? = some c → leafTag c ≠ some t)
    (ih : ListOk cs body) : ElemOk (Tree.agg t cs) (startTag t ++ (w0 ++ (body ++ endTag t))) := by
  intro w rest st hw hc hst
  obtain ⟨htne, htc⟩ := tagChars ht
  obtain ⟨hshape, hlastOk⟩ := rendersList_facts hl
  rcases hshape with ⟨rfl, rfl⟩ | ⟨-, hbody⟩
  · -- empty aggregate: one match `<t> w0 </t> w`
    have hm := matchHere_closed t w0 w rest htne htc (ws_notLt h0) (ws_notLt hw) (after_stops hc.1)
    have e : (startTag t ++ (w0 ++ ([] ++ endTag t))) ++ (w ++ rest) = startTag t ++ (w0 ++ (endTag t ++ (w ++ rest))) := by
      simp
    rw [e]
    refine run_tok' _ (startTag t ++ (w0 ++ (endTag t ++ w))) rest _ st _ (by simp) (by simp [startTag]) hm rfl ?_
    exact step_empty t _ _ _ st ht (groom_ws w0 h0) (groom_ws w hw) hst
  · -- start tag, children, end tag
    have hR1 : StartsName (body ++ (endTag t ++ (w ++ rest))) := startsName_append _ hbody
    have hm1 := matchHere_open t w0 (body ++ (endTag t ++ (w ++ rest))) htne htc (ws_notLt h0)
      (after_stops (Or.inr (Or.inl hR1)))
      (dropPrefix_ws_or _ w0 _ ⟨_, rfl⟩ h0 (after_nocdata (Or.inr (Or.inl hR1))))
      (startsName_noEnd t hR1)
    have e : (startTag t ++ (w0 ++ (body ++ endTag t))) ++ (w ++ rest)
        = startTag t ++ (w0 ++ (body ++ (endTag t ++ (w ++ rest)))) := by simp
    rw [e]
    rw [run_tok' _ (startTag t ++ w0) (body ++ (endTag t ++ (w ++ rest))) _ st (st.push t) (by simp) (by simp [startTag])
      hm1 rfl (step_open t _ _ st ht (groom_ws w0 h0) hst)]
    -- the children
    have hlast : ∀ c, cs.getLast? = some c → ∀ tg, leafTag c = some tg →
        dropPrefix (endTag tg) (endTag t ++ (w ++ rest)) = none := by
      intro c hcl tg htg
      apply dropPrefix_endTag_ne tg t _ (hlastOk c hcl tg htg) ht
      intro e; subst e; exact hself c hcl htg
    rw [ih (endTag t ++ (w ++ rest)) (st.push t) (by simp [St.push])
      (Or.inr (Or.inr (startsEnd_endTag t _ ht))) hlast]
    -- the end tag
    have htc' : ∀ c ∈ '/' :: t, isTagChar c = true := by
      intro c hc'
      rcases List.mem_cons.mp hc' with rfl | h
      · exact tagChar_slash
      · exact htc c h
    have hm3 := matchHere_open ('/' :: t) w rest (by simp) htc' (ws_notLt hw) (after_stops hc.1)
      (dropPrefix_ws_or _ w rest ⟨_, rfl⟩ hw (after_nocdata hc.1)) (after_noEndEnd t hc.1)
    have e3 : endTag t ++ (w ++ rest) = startTag ('/' :: t) ++ (w ++ rest) := by simp [endTag, startTag]
    rw [e3]
    refine run_tok' _ (startTag ('/' :: t) ++ w) rest _ _ _ (by simp) (by simp [startTag]) hm3 rfl ?_
    rw [step_end t _ _ _ (groom_ws w hw), addKids_push]
    exact end_push t none cs st

theorem list_nil_ok : ListOk [] [] := by
  intro rest st _ _ _
  simp [addKids_nil]

theorem list_cons_ok (c : Tree) (cs : List Tree) (s w s' : Str) (_hr : Renders true c s) (hw : ws w = true)
    (hl : RendersList true cs s') (ih1 : ElemOk c s) (ih2 : ListOk cs s') : ListOk (c :: cs) (s ++ (w ++ s')) := by
  intro rest st hst haft hlast
  obtain ⟨hshape, -⟩ := rendersList_facts hl
  have e : (s ++ (w ++ s')) ++ rest = s ++ (w ++ (s' ++ rest)) := by simp
  rw [e]
  have hcont : Cont (leafTag c) (s' ++ rest) := by
    rcases hshape with ⟨rfl, rfl⟩ | ⟨-, hs'⟩
    · exact ⟨by simpa using haft, fun tg htg => by simpa using hlast c rfl tg htg⟩
    · have := startsName_append rest hs'
      exact ⟨Or.inr (Or.inl this), fun tg _ => startsName_noEnd tg this⟩
  rw [ih1 w (s' ++ rest) st hw hcont (canStart_of_stack hst)]
  have hlast2 : ∀ c', cs.getLast? = some c' → ∀ tg, leafTag c' = some tg → dropPrefix (endTag tg) rest = none := by
    intro c' hc' tg htg
    cases cs with
    | nil => cases hc'
    | cons d ds => exact hlast c' (by rw [List.getLast?_cons_cons]; exact hc') tg htg
  rw [ih2 rest (st.emit c) (emit_stack_ne c st hst) haft hlast2, addKids_emit c cs st hst]

/-- every strict rendering of an element, followed by whitespace and an admissible continuation, has exactly
    the effect of handing the rendered tree to the builder -/
theorem renders_ok {t : Tree} {s : Str} (h : Renders true t s) : ElemOk t s := by
  refine Renders.rec (strict := true) (motive_1 := fun t s _ => ElemOk t s) (motive_2 := fun cs body _ => ListOk cs body)
    ?_ ?_ ?_ ?_ ?_ ?_ ?_ h
  · intro t d w1 ht hd h1; exact leafOpen_ok t d w1 ht hd h1
  · intro t d w1 w2 ht hd h1 h2; exact leafClosed_ok t d w1 w2 ht hd h1 h2
  · intro t d ht hd hcd; exact cdataOpen_ok t d ht hd hcd
  · intro t d w ht hd hcd hw; exact cdataClosed_ok t d w ht hd hcd hw
  · intro t w0 cs body ht h0 hl hself ih; exact agg_ok t w0 cs body ht h0 hl (hself rfl) ih
  · exact list_nil_ok
  · intro c cs s w s' hr hw hl ih1 ih2; exact list_cons_ok c cs s w s' hr hw hl ih1 ih2

/-- the same for a sequence of sibling renderings -/
theorem rendersList_ok {cs : List Tree} {body : Str} (h : RendersList true cs body) : ListOk cs body := by
  refine RendersList.rec (strict := true) (motive_1 := fun t s _ => ElemOk t s) (motive_2 := fun cs body _ => ListOk cs body)
    ?_ ?_ ?_ ?_ ?_ ?_ ?_ h
  · intro t d w1 ht hd h1; exact leafOpen_ok t d w1 ht hd h1
  · intro t d w1 w2 ht hd h1 h2; exact leafClosed_ok t d w1 w2 ht hd h1 h2
  · intro t d ht hd hcd; exact cdataOpen_ok t d ht hd hcd
  · intro t d w ht hd hcd hw; exact cdataClosed_ok t d w ht hd hcd hw
  · intro t w0 cs body ht h0 hl hself ih; exact agg_ok t w0 cs body ht h0 hl (hself rfl) ih
  · exact list_nil_ok
  · intro c cs s w s' hr hw hl ih1 ih2; exact list_cons_ok c cs s w s' hr hw hl ih1 ih2

/-! ### the property theorems -/

/-- the full-strength statement: every rendering of the grammar of DESIGN 6.2 parses to the rendered tree -/
def C02_complete_full : Prop := ∀ t s, Renders false t s → parse s = .ok (some t)

/-- **C02_complete_partial**: every strict rendering parses to the rendered tree -/
theorem C02_complete_partial (t : Tree) (s : Str) (h : Renders true t s) : parse s = .ok (some t) := by
  have := renders_ok h [] [] St.init rfl ⟨Or.inl rfl, fun _ _ => rfl⟩ (Or.inr rfl)
  rw [parse_eq]
  simp only [List.append_nil] at this
  rw [this, run_nil]
  rfl

/-- … and so does the same body with whitespace around the root -/
theorem C02_complete_doc (t : Tree) (s : Str) (h : RendersDoc true t s) : parse s = .ok (some t) := by
  obtain ⟨w1, s0, w2, h1, h2, hr, rfl⟩ := h
  have := renders_ok hr w2 [] St.init h2 ⟨Or.inl rfl, fun _ _ => rfl⟩ (Or.inr rfl)
  rw [parse_eq, run_skip w1 _ _ h1]
  simp only [List.append_nil] at this
  rw [this, run_nil]
  rfl

/-- a body is a rendering of at most one tree -/
theorem C02_unique (t t' : Tree) (s : Str) (h : Renders true t s) (h' : Renders true t' s) : t = t' := by
  have a := C02_complete_partial t s h
  have b := C02_complete_partial t' s h'
  rw [a] at b
  injection b with b; injection b

/-- all renderings of one tree parse alike -/
theorem C02_same (t : Tree) (s₁ s₂ : Str) (h₁ : Renders true t s₁) (h₂ : Renders true t s₂) : parse s₁ = parse s₂ := by
  rw [C02_complete_partial t s₁ h₁, C02_complete_partial t s₂ h₂]

/-! ### the remaining guard is a condition on the tree alone -/

mutual
  /-- guard G3 as a predicate of the tree: at every aggregate, the last child is not a data element bearing the
      aggregate's own tag -/
  def g3Tree : Tree → Bool
    | .node t _ _ cs => (match cs.getLast? with | some c => leafTag c != some t | none => true) && g3List cs
  def g3List : List Tree → Bool
    | [] => true
    | c :: cs => g3Tree c && g3List cs
end

theorem g3Tree_leaf (t d : Str) : g3Tree (Tree.leaf t d) = true := by
  simp [Tree.leaf, g3Tree, g3List]

theorem g3Tree_agg (t : Str) (cs : List Tree) :
    g3Tree (Tree.agg t cs) = ((match cs.getLast? with | some c => leafTag c != some t | none => true) && g3List cs) := by
  simp [Tree.agg, g3Tree]

/-- for a tree that satisfies G3 every rendering of the full grammar is a rendering of the strict grammar -/
theorem renders_strict_of_g3 {t : Tree} {s : Str} (h : Renders false t s) : g3Tree t = true → Renders true t s := by
  refine Renders.rec (strict := false) (motive_1 := fun t s _ => g3Tree t = true → Renders true t s)
    (motive_2 := fun cs body _ => g3List cs = true → RendersList true cs body) ?_ ?_ ?_ ?_ ?_ ?_ ?_ h
  · intro t d w1 ht hd h1 _; exact Renders.leafOpen t d w1 ht hd h1
  · intro t d w1 w2 ht hd h1 h2 _; exact Renders.leafClosed t d w1 w2 ht hd h1 h2
  · intro t d ht hd hcd _; exact Renders.cdataOpen t d ht hd hcd
  · intro t d w ht hd hcd hw _; exact Renders.cdataClosed t d w ht hd hcd hw
  · intro t w0 cs body ht h0 _ _ ih hg
    rw [g3Tree_agg, Bool.and_eq_true] at hg
    refine Renders.agg t w0 cs body ht h0 (ih hg.2) ?_
    intro _ c hc
    have := hg.1
    rw [hc] at this
    simpa using this
  · intro _; exact RendersList.nil
  · intro c cs s w s' _ hw _ ih1 ih2 hg
    simp only [g3List, Bool.and_eq_true] at hg
    exact RendersList.cons c cs s w s' (ih1 hg.1) hw (ih2 hg.2)

/-- conversely a strict rendering is a rendering of the full grammar, of a tree that satisfies G3 -/
theorem renders_strict_g3 {t : Tree} {s : Str} (h : Renders true t s) : Renders false t s ∧ g3Tree t = true := by
  refine Renders.rec (strict := true) (motive_1 := fun t s _ => Renders false t s ∧ g3Tree t = true)
    (motive_2 := fun cs body _ => RendersList false cs body ∧ g3List cs = true) ?_ ?_ ?_ ?_ ?_ ?_ ?_ h
  · intro t d w1 ht hd h1; exact ⟨Renders.leafOpen t d w1 ht hd h1, g3Tree_leaf t d⟩
  · intro t d w1 w2 ht hd h1 h2; exact ⟨Renders.leafClosed t d w1 w2 ht hd h1 h2, g3Tree_leaf t d⟩
  · intro t d ht hd hcd; exact ⟨Renders.cdataOpen t d ht hd hcd, g3Tree_leaf t d⟩
  · intro t d w ht hd hcd hw; exact ⟨Renders.cdataClosed t d w ht hd hcd hw, g3Tree_leaf t d⟩
  · intro t w0 cs body ht h0 _ hself ih
    refine ⟨Renders.agg t w0 cs body ht h0 ih.1 (by intro h; cases h), ?_⟩
    rw [g3Tree_agg, Bool.and_eq_true]
    refine ⟨?_, ih.2⟩
    cases hl : cs.getLast? with
    | none => rfl
    | some c => simpa using hself rfl c hl
  · exact ⟨RendersList.nil, rfl⟩
  · intro c cs s w s' _ hw _ ih1 ih2
    exact ⟨RendersList.cons c cs s w s' ih1.1 hw ih2.1, by simp [g3List, ih1.2, ih2.2]⟩

/-- the strict grammar is exactly the full grammar on the trees that satisfy G3 -/
theorem renders_strict_iff (t : Tree) (s : Str) : Renders true t s ↔ (Renders false t s ∧ g3Tree t = true) :=
  ⟨renders_strict_g3, fun h => renders_strict_of_g3 h.1 h.2⟩

/-- **C02_complete_g3**: every rendering of the full grammar of DESIGN 6.2 — every end-tag / whitespace / CDATA choice,
    white space after `]]>` included — of a tree in which no aggregate ends with a data element bearing the
    aggregate's own tag parses to exactly that tree -/
theorem C02_complete_g3 (t : Tree) (s : Str) (h : Renders false t s) (hg : g3Tree t = true) : parse s = .ok (some t) :=
  C02_complete_partial t s (renders_strict_of_g3 h hg)

/-- the guard of `C02_complete_g3` holds of a non-trivial tree (nested aggregates of the same tag, a data element
    bearing its parent's tag that is not the last child) -/
example : g3Tree (Tree.agg ['A'] [Tree.leaf ['A'] ['1'], Tree.agg ['A'] [Tree.leaf ['B'] ['x'], Tree.agg ['B'] []]]) = true := by
  decide

/-! ### the full-strength statement fails on the pinned parser; each guard is needed -/

private def tA : Str := ['A']
private def tB : Str := ['B']
private def tC : Str := ['C']
private def dx : Str := ['x']
private def dy : Str := ['y']

/-- `<A><B><![CDATA[x]]><C><![CDATA[y]]></A>` -/
def witnessG1 : Str := "<A><B><![CDATA[x]]><C><![CDATA[y]]></A>".toList
def witnessG1Tree : Tree := Tree.agg tA [Tree.leaf tB dx, Tree.leaf tC dy]

theorem witnessG1_renders (strict : Bool) : Renders strict witnessG1Tree witnessG1 := by
  have e : witnessG1 = startTag tA ++ ([] ++ ((((startTag tB ++ cdataOf dx) ++ ([] ++
      ((startTag tC ++ cdataOf dy) ++ ([] ++ []))))) ++ endTag tA)) := by decide
  rw [e]
  refine Renders.agg tA [] _ _ (by decide) (by decide) ?_ (by intro _ c hc; cases hc; decide)
  refine RendersList.cons _ _ _ [] _ (Renders.cdataOpen tB dx (by decide) (by decide) (by decide)) (by decide) ?_
  exact RendersList.cons _ _ _ [] _ (Renders.cdataOpen tC dy (by decide) (by decide) (by decide)) (by decide) RendersList.nil

/-- the witness of the former guard G1 (greedy CDATA) now parses to the rendered tree -/
theorem C02_G1_repaired : parse witnessG1 = .ok (some witnessG1Tree) :=
  C02_complete_partial _ _ (witnessG1_renders true)

/-- `<A><B><![CDATA[x]]> </B></A>`: whitespace between `]]>` and the element's own end tag -/
def witnessG2 : Str := "<A><B><![CDATA[x]]> </B></A>".toList
def witnessG2Tree : Tree := Tree.agg tA [Tree.leaf tB dx]

theorem witnessG2_renders (strict : Bool) : Renders strict witnessG2Tree witnessG2 := by
  have e : witnessG2 = startTag tA ++ ([] ++ (((startTag tB ++ (cdataOf dx ++ ([' '] ++ endTag tB))) ++ ([] ++ [])) ++ endTag tA)) := by
    decide
  rw [e]
  refine Renders.agg tA [] _ _ (by decide) (by decide) ?_ (by intro _ c hc; cases hc; decide)
  exact RendersList.cons _ _ _ [] _
    (Renders.cdataClosed tB dx [' '] (by decide) (by decide) (by decide) (by decide)) (by decide)
    RendersList.nil

/-- the witness of the former guard G2 (the blank after `]]>` was taken as tail and `</B>` read as a stray end tag of
    the enclosing aggregate: `ParseError`) now parses to the rendered tree -/
theorem C02_G2_repaired : parse witnessG2 = .ok (some witnessG2Tree) :=
  C02_complete_partial _ _ (witnessG2_renders true)

/-- a larger instance of the former guard G2: line breaks and other white space after `]]>`, with and without the
    element's own end tag, followed by a sibling or by the parent's end tag -/
def exampleG2 : Str := "<A>\n<B><![CDATA[x]]>\r\n </B>\n<C><![CDATA[a b]]>\t\n<D><![CDATA[>]]>\u00a0</D></A>".toList

theorem C02_G2_example : parse exampleG2 =
    .ok (some (Tree.agg tA [Tree.leaf tB dx, Tree.leaf tC "a b".toList, Tree.leaf ['D'] ['>']])) := by
  have e : exampleG2 = startTag tA ++ (['\n'] ++ (
      ((startTag tB ++ (cdataOf dx ++ ("\r\n ".toList ++ endTag tB))) ++ (['\n'] ++
      ((startTag tC ++ cdataOf "a b".toList) ++ ("\t\n".toList ++
      ((startTag ['D'] ++ (cdataOf ['>'] ++ (['\u00a0'] ++ endTag ['D']))) ++ ([] ++ []))))))
      ++ endTag tA)) := by decide
  rw [e]
  refine C02_complete_partial _ _ ?_
  refine Renders.agg tA _ _ _ (by decide) (by decide) ?_ (by intro _ c hc; cases hc; decide)
  refine RendersList.cons _ _ _ _ _ (Renders.cdataClosed tB dx _ (by decide) (by decide) (by decide) (by decide)) (by decide) ?_
  refine RendersList.cons _ _ _ _ _ (Renders.cdataOpen tC _ (by decide) (by decide) (by decide)) (by decide) ?_
  exact RendersList.cons _ _ _ _ _ (Renders.cdataClosed ['D'] ['>'] _ (by decide) (by decide) (by decide) (by decide)) (by decide)
    RendersList.nil

/-- `<A><B><B>1</B><C>2</A>`: the last child of aggregate B is an unclosed data element B -/
def witnessG3 : Str := "<A><B><B>1</B><C>2</A>".toList
def witnessG3Tree : Tree := Tree.agg tA [Tree.agg tB [Tree.leaf tB ['1']], Tree.leaf tC ['2']]

theorem witnessG3_renders : Renders false witnessG3Tree witnessG3 := by
  have e : witnessG3 = startTag tA ++ ([] ++ (((startTag tB ++ ([] ++ (((startTag tB ++ ([] ++ ['1'])) ++ ([] ++ [])) ++ endTag tB)))
      ++ ([] ++ ((startTag tC ++ ([] ++ ['2'])) ++ ([] ++ [])))) ++ endTag tA)) := by decide
  rw [e]
  refine Renders.agg tA [] _ _ (by decide) (by decide) ?_ (by intro h; cases h)
  refine RendersList.cons _ _ _ [] _ ?_ (by decide) ?_
  · refine Renders.agg tB [] _ _ (by decide) (by decide) ?_ (by intro h; cases h)
    exact RendersList.cons _ _ _ [] _ (Renders.leafOpen tB ['1'] [] (by decide) (by decide) (by decide)) (by decide)
      RendersList.nil
  · exact RendersList.cons _ _ _ [] _ (Renders.leafOpen tC ['2'] [] (by decide) (by decide) (by decide)) (by decide)
      RendersList.nil

/-- G3 cannot be dropped: `</B>` is taken as the data element's own end tag, aggregate `B` stays open and
    `</A>` does not match it (`ParseError`) -/
theorem C02_G3_needed : ¬ ∀ t s, Renders false t s → parse s = .ok (some t) := by
  intro h
  have := h _ _ witnessG3_renders
  have e : parse witnessG3 = .error .parse := by rfl
  rw [e] at this
  cases this

/-- **C02_complete_full_false**: a full-grammar rendering that is rejected (the G3 witness; the former G2 witness is
    accepted since the repair, `C02_G2_repaired`) -/
theorem C02_complete_full_false : ¬ C02_complete_full := C02_G3_needed

/-- the guards of `C02_complete_partial` are satisfiable by a non-trivial body: nested aggregates, an SGML leaf, an XML
    leaf with padding, a CDATA leaf with end tag, an empty aggregate, line breaks -/
def exampleBody : Str := "<A>\n <B>1 2\n <C.1> a&amp;b </C.1>\r\n <B><D><![CDATA[x>y]]></D>\n<E></E></B>\n</A>".toList

example : ∃ t, Renders true t exampleBody := by
  refine ⟨Tree.agg tA [Tree.leaf tB "1 2".toList, Tree.leaf "C.1".toList "a&amp;b".toList,
    Tree.agg tB [Tree.leaf ['D'] "x>y".toList, Tree.agg ['E'] []]], ?_⟩
  have e : exampleBody = startTag tA ++ ("\n ".toList ++ (
      ((startTag tB ++ ([] ++ "1 2".toList)) ++ ("\n ".toList ++
      ((startTag "C.1".toList ++ ([' '] ++ ("a&amp;b".toList ++ ([' '] ++ endTag "C.1".toList)))) ++ ("\r\n ".toList ++
      ((startTag tB ++ ([] ++ (
          ((startTag ['D'] ++ (cdataOf "x>y".toList ++ ([] ++ endTag ['D']))) ++ (['\n'] ++
          ((startTag ['E'] ++ ([] ++ ([] ++ endTag ['E']))) ++ ([] ++ []))))
        ++ endTag tB))) ++ (['\n'] ++ [])))))) ++ endTag tA)) := by decide
  rw [e]
  refine Renders.agg tA _ _ _ (by decide) (by decide) ?_ (by intro _ c hc; cases hc; decide)
  refine RendersList.cons _ _ _ _ _ (Renders.leafOpen tB _ [] (by decide) (by decide) (by decide)) (by decide) ?_
  refine RendersList.cons _ _ _ _ _ (Renders.leafClosed _ _ _ _ (by decide) (by decide) (by decide) (by decide)) (by decide) ?_
  refine RendersList.cons _ _ _ _ _ ?_ (by decide) RendersList.nil
  refine Renders.agg tB [] _ _ (by decide) (by decide) ?_ (by intro _ c hc; cases hc; decide)
  refine RendersList.cons _ _ _ _ _ (Renders.cdataClosed _ _ [] (by decide) (by decide) (by decide) (by decide))
    (by decide) ?_
  exact RendersList.cons _ _ _ _ _ (Renders.agg ['E'] [] [] [] (by decide) (by decide) RendersList.nil (by intro _ c hc; cases hc))
    (by decide) RendersList.nil

/-! ### the executable renderer stays inside the grammar -/

theorem ok_after (strict : Bool) (r : RTree) (h : r.ok strict = true) : ws r.after = true := by
  cases r with
  | leaf t d w1 w2 close a => simp only [RTree.ok, Bool.and_eq_true] at h; exact h.2
  | cdata t d w close a => simp only [RTree.ok, Bool.and_eq_true] at h; exact h.2
  | agg t w0 kids a => simp only [RTree.ok, Bool.and_eq_true] at h; exact h.1.1.2

mutual
  /-- the executable renderer only produces renderings of the grammar -/
  theorem render_renders (strict : Bool) : (r : RTree) → r.ok strict = true → Renders strict r.tree r.str
    | .leaf t d w1 w2 close a, h => by
      simp only [RTree.ok, Bool.and_eq_true] at h
      obtain ⟨⟨⟨⟨ht, hd⟩, h1⟩, h2⟩, _⟩ := h
      cases close with
      | true => exact Renders.leafClosed t d w1 w2 ht hd h1 h2
      | false => exact Renders.leafOpen t d w1 ht hd h1
    | .cdata t d w close a, h => by
      simp only [RTree.ok, Bool.and_eq_true] at h
      obtain ⟨⟨⟨⟨ht, hd⟩, hcd⟩, hw⟩, _⟩ := h
      cases close with
      | true => exact Renders.cdataClosed t d w ht hd hcd hw
      | false => exact Renders.cdataOpen t d ht hd hcd
    | .agg t w0 kids a, h => by
      simp only [RTree.ok, Bool.and_eq_true] at h
      obtain ⟨⟨⟨⟨ht, h0⟩, _⟩, hk⟩, hs⟩ := h
      refine Renders.agg t w0 _ _ ht h0 (renders_list strict kids hk) ?_
      intro hst c hc
      subst hst
      simp only [hc, Bool.not_true, Bool.false_or] at hs
      simpa using hs
  theorem renders_list (strict : Bool) : (ks : List RTree) → RTree.oks strict ks = true →
      RendersList strict (RTree.trees ks) (RTree.strs ks)
    | [], _ => RendersList.nil
    | k :: ks, h => by
      simp only [RTree.oks, Bool.and_eq_true] at h
      exact RendersList.cons _ _ _ _ _ (render_renders strict k h.1) (ok_after strict k h.1) (renders_list strict ks h.2)
end

/-- every strict output of the renderer parses back to the tree it was rendered from -/
theorem C02_render_roundtrip (r : RTree) (h : r.ok true = true) : parse r.str = .ok (some r.tree) :=
  C02_complete_partial _ _ (render_renders true r h)

end Ofx.C02
