/-
C19, end to end: from the `ofxget stmt` / `ofxget stmtend` command line to the text of the request.

`Props/C19.lean` ends at the request tuples handed to `OFXClient.request_statements`; `Props/C06.lean` starts at typed
request records.  Here the two are composed through `OfxModel/Ofx/OfxgetWire.lean` (`stmtBytes`, `stmtendBytes`: the
conversion the Python run time performs between the layers, with `DateTime().convert` the model of `Types.DateTime`).

Generic in the schema `S`, the converters `cv` and the serializer environment, and — like `C06_wire` — relative to the
round trip of the wire layers (`RoundTrip readback text version inst`); `Gen/C19Wire.lean` instantiates schema,
converters and tables with the generated ones and discharges the round trip from `C01_generated_closed`
(`Pipeline.readFile`).

Hypotheses, all explicit:
  * of C19: `--all` not set / set; the six account-type options hold lists (`HasAccounts`), the include flags are
    present (`HasFlags`) — both always true of a mapping produced by `merge_config` (last map = DEFAULTS);
    the flags are `bool` or `None` (`optBoolArg … = .ok _`);
  * of C06: `ReqWF S`, `ConvOK cv Ptext`; `Ptext` (for the real converters: no entity spelling) of every text of the
    client (`cfg.texts`, where `cfg` is what `init_client(args)` builds: `clientCfg args = .ok cfg`), of the password
    `get_passwd` delivers, of every account number, and of the four account-type tokens; the uuid stream injective,
    never empty, `Ptext`.
-/
import OfxProofs.Lemmas.C19Wire
import OfxProofs.Props.C06

namespace Ofx.OfxgetWire
open Ofx Ofx.Ofxget Ofx.Compose Ofx.Spec.Ofxget Ofx.Spec.Request Ofx.C06

/-! ### which request list reaches the composition -/

/-- **C19_wire_requests** (`ofxget stmt`, configured accounts).  When `request_stmt` produces a request text, that
    text is what `request_statements` + `serialize` make of: the client `init_client(args)` builds, the password
    `get_passwd(args)` delivers, and exactly `wireStmt` — one typed request per configured account number, bank
    accounts by type in the order checking, savings, money market, credit line with `accttype` the upper-cased option
    name, then credit cards, then investment accounts, each with the dates `DateTime().convert` made of the three
    configured texts and the include flags — and NEWFILEUID generated unless `nonewfileuid` is set. -/
theorem C19_wire_requests {S : Schema} {cv : Conv} (env : Compose.Env) (args : Chain) (x : Ext) (a : Accounts)
    (t oo pos bal v : CfgVal) (tb oob posb balb : Option Bool)
    (hall : args.get? "all".toList = some v) (hnot : truthy v = false)
    (ha : HasAccounts args a) (hf : HasFlags args t oo pos bal)
    (ht : optBoolArg t = .ok tb) (hoo : optBoolArg oo = .ok oob) (hpos : optBoolArg pos = .ok posb)
    (hbal : optBoolArg bal = .ok balb)
    {text : Str} (h : stmtBytes S cv env args x = .ok text) :
    ∃ cfg pw dt nonew, clientCfg args = .ok cfg ∧ getPasswd args x.typed = .ok pw ∧
      convertDatetime dateConvert args = .ok dt ∧ args.getItem "nonewfileuid".toList = .ok nonew ∧
      requestBytes S cv env cfg pw (wireStmt a dt.start dt.end dt.asof tb oob posb balb) (!truthy nonew) x.uuid
        x.dtclient = .ok text :=
  stmtBytes_configured args x a t oo pos bal v tb oob posb balb hall hnot ha hf ht hoo hpos hbal h

/-- **C19_wire_requests** (`ofxget stmtend`): bank and credit-card accounts only, start and end date. -/
theorem C19_wire_requests_stmtend {S : Schema} {cv : Conv} (env : Compose.Env) (args : Chain) (x : Ext)
    (a : Accounts) (v : CfgVal) (hall : args.get? "all".toList = some v) (hnot : truthy v = false)
    (ha : HasAccounts args a) {text : Str} (h : stmtendBytes S cv env args x = .ok text) :
    ∃ cfg pw dt nonew, clientCfg args = .ok cfg ∧ getPasswd args x.typed = .ok pw ∧
      convertDatetime dateConvert args = .ok dt ∧ args.getItem "nonewfileuid".toList = .ok nonew ∧
      requestBytes S cv env cfg pw (wireStmtend a dt.start dt.end) (!truthy nonew) x.uuid x.dtclient = .ok text :=
  stmtendBytes_configured args x a v hall hnot ha h

/-- the composition step shared by all theorems below: a request text made by `requestBytes`, read back through a
    reader that satisfies the round trip, satisfies `RequestSpec` for the request list it was made of -/
theorem requestBytes_spec {S : Schema} {cv : Conv} {Ptext : Str → Prop} (hS : ReqWF S = true) (hcv : ConvOK cv Ptext)
    (env : Compose.Env) (cfg : Cfg) (pw : Str) (reqs : List Req) (gen : Bool) (uuid : Nat → Str) (dtclient : DT)
    (htexts : ∀ s ∈ cfg.texts, Ptext s) (hpw : Ptext pw) (hreqs : ∀ r ∈ reqs, ∀ s ∈ r.texts, Ptext s)
    (huuid : ∀ i j, uuid i = uuid j → i = j) (hne : ∀ i, uuid i ≠ []) (huP : ∀ i, Ptext (uuid i))
    (readback : Str → PyM (Int × Node)) {text : Str}
    (h : requestBytes S cv env cfg pw reqs gen uuid dtclient = .ok text)
    (hrt : ∀ inst, requestStatements S cv cfg pw reqs uuid dtclient = .ok inst →
      RoundTrip readback text cfg.version inst) :
    ∃ hv inst, readback text = .ok (hv, inst) ∧ RequestSpec S cfg pw dtclient reqs hv inst := by
  unfold requestBytes at h
  obtain ⟨inst, hinst, _⟩ := bindOk h
  exact ⟨_, inst, hrt inst hinst, C06_compose hS hcv cfg pw reqs uuid dtclient htexts hpw hreqs huuid hne huP hinst⟩

/-! ### configured accounts -/

/-- **C19_wire_configured** (`ofxget stmt`).  For every mapping without `--all`: the text `ofxget stmt` prints on a dry
    run (or posts), read back, is a request that satisfies `RequestSpec` for the client built from the mapping, the
    password `get_passwd` delivers, and the request list `wireStmt a …` — so (clauses of `RequestSpec`): a message set
    is present iff an account of one of its kinds is configured and holds wrappers of its own kinds only; the
    `STMTTRNRQ`s, in order, are exactly the configured bank accounts (account number, account type = the option's
    name, the configured bank id), the `CCSTMTTRNRQ`s exactly the configured credit cards, the `INVSTMTTRNRQ`s exactly
    the configured investment accounts (with the configured broker id), each with the converted start / end / as-of
    dates and the include flags, one wrapper per account, none other; transaction ids pairwise distinct. -/
theorem C19_wire_configured {S : Schema} {cv : Conv} {Ptext : Str → Prop} (hS : ReqWF S = true)
    (hcv : ConvOK cv Ptext) (env : Compose.Env) (args : Chain) (x : Ext) (a : Accounts)
    (t oo pos bal v : CfgVal) (tb oob posb balb : Option Bool)
    (hall : args.get? "all".toList = some v) (hnot : truthy v = false)
    (ha : HasAccounts args a) (hf : HasFlags args t oo pos bal)
    (ht : optBoolArg t = .ok tb) (hoo : optBoolArg oo = .ok oob) (hpos : optBoolArg pos = .ok posb)
    (hbal : optBoolArg bal = .ok balb)
    (cfg : Cfg) (hcfg : clientCfg args = .ok cfg) (pw : Str) (hpw : getPasswd args x.typed = .ok pw)
    (dt : Dates DT) (hdt : convertDatetime dateConvert args = .ok dt)
    (htexts : ∀ s ∈ cfg.texts, Ptext s) (hpwP : Ptext pw) (hids : ∀ id ∈ a.ids, Ptext id)
    (hty : ∀ ty ∈ requestableBankTypes, Ptext ty)
    (huuid : ∀ i j, x.uuid i = x.uuid j → i = j) (hne : ∀ i, x.uuid i ≠ []) (huP : ∀ i, Ptext (x.uuid i))
    (readback : Str → PyM (Int × Node)) {text : Str} (h : stmtBytes S cv env args x = .ok text)
    (hrt : ∀ inst, requestStatements S cv cfg pw (wireStmt a dt.start dt.end dt.asof tb oob posb balb) x.uuid
      x.dtclient = .ok inst → RoundTrip readback text cfg.version inst) :
    ∃ hv inst, readback text = .ok (hv, inst) ∧
      RequestSpec S cfg pw x.dtclient (wireStmt a dt.start dt.end dt.asof tb oob posb balb) hv inst := by
  obtain ⟨cfg', pw', dt', nonew, hcfg', hpw', hdt', _, hb⟩ :=
    C19_wire_requests env args x a t oo pos bal v tb oob posb balb hall hnot ha hf ht hoo hpos hbal h
  rw [hcfg] at hcfg'; injection hcfg' with hcfg'; subst hcfg'
  rw [hpw] at hpw'; injection hpw' with hpw'; subst hpw'
  rw [hdt] at hdt'; injection hdt' with hdt'; subst hdt'
  exact requestBytes_spec hS hcv env cfg pw _ _ x.uuid x.dtclient htexts hpwP
    (wireStmt_texts a _ _ _ _ _ _ _ Ptext hids hty) huuid hne huP readback hb hrt

/-- **C19_wire_configured** (`ofxget stmtend`): the `STMTENDTRNRQ`s are exactly the configured bank accounts, the
    `CCSTMTENDTRNRQ`s exactly the configured credit cards, with the converted start and end dates; nothing else. -/
theorem C19_wire_configured_stmtend {S : Schema} {cv : Conv} {Ptext : Str → Prop} (hS : ReqWF S = true)
    (hcv : ConvOK cv Ptext) (env : Compose.Env) (args : Chain) (x : Ext) (a : Accounts) (v : CfgVal)
    (hall : args.get? "all".toList = some v) (hnot : truthy v = false) (ha : HasAccounts args a)
    (cfg : Cfg) (hcfg : clientCfg args = .ok cfg) (pw : Str) (hpw : getPasswd args x.typed = .ok pw)
    (dt : Dates DT) (hdt : convertDatetime dateConvert args = .ok dt)
    (htexts : ∀ s ∈ cfg.texts, Ptext s) (hpwP : Ptext pw) (hids : ∀ id ∈ a.ids, Ptext id)
    (hty : ∀ ty ∈ requestableBankTypes, Ptext ty)
    (huuid : ∀ i j, x.uuid i = x.uuid j → i = j) (hne : ∀ i, x.uuid i ≠ []) (huP : ∀ i, Ptext (x.uuid i))
    (readback : Str → PyM (Int × Node)) {text : Str} (h : stmtendBytes S cv env args x = .ok text)
    (hrt : ∀ inst, requestStatements S cv cfg pw (wireStmtend a dt.start dt.end) x.uuid x.dtclient = .ok inst →
      RoundTrip readback text cfg.version inst) :
    ∃ hv inst, readback text = .ok (hv, inst) ∧
      RequestSpec S cfg pw x.dtclient (wireStmtend a dt.start dt.end) hv inst := by
  obtain ⟨cfg', pw', dt', nonew, hcfg', hpw', hdt', _, hb⟩ := C19_wire_requests_stmtend env args x a v hall hnot ha h
  rw [hcfg] at hcfg'; injection hcfg' with hcfg'; subst hcfg'
  rw [hpw] at hpw'; injection hpw' with hpw'; subst hpw'
  rw [hdt] at hdt'; injection hdt' with hdt'; subst hdt'
  exact requestBytes_spec hS hcv env cfg pw _ _ x.uuid x.dtclient htexts hpwP
    (wireStmtend_texts a _ _ Ptext hids hty) huuid hne huP readback hb hrt

/-! ### `--all` -/

/-- the texts that designate the ACTIVE accounts of a response -/
def activeTexts (closing : Bool) (infos : List AcctInfo) : List Str := (specActive closing infos).flatMap AcctKey.texts

/-- the texts of the typed requests of a plan whose accounts are (a permutation of) the ACTIVE ones -/
theorem reqs_texts_of_perm (closing : Bool) (infos : List AcctInfo) (rqs : List (Rq DT)) (reqs : List Req)
    (hperm : (rqs.map rqAcct).Perm (specActive closing infos)) (hreqs : toReqs rqs = .ok reqs) (P : Str → Prop)
    (hP : ∀ s ∈ activeTexts closing infos, P s) : ∀ r ∈ reqs, ∀ s ∈ r.texts, P s := by
  intro q hq s hs
  obtain ⟨r, hr, hrq⟩ := toReqs_mem rqs reqs hreqs q hq
  rw [(toReq_same r q hrq).2.1] at hs
  apply hP
  simp only [activeTexts, List.mem_flatMap]
  exact ⟨rqAcct r, hperm.mem_iff.mp (List.mem_map_of_mem hr), hs⟩

/-- **C19_wire_all** (`ofxget stmt --all`).  For every command line that sets `--all` and names no account, every
    configuration underneath and every account-information response (account types in ACCTTYPES, `NoFallback`: the
    guard of `C19_all_active`): the request text, read back, satisfies `RequestSpec` for a request list `reqs` whose
    accounts are, as a multiset, exactly the accounts the response lists as ACTIVE of the requestable types — one
    wrapper each, of the kind of the account (bank: with its account type; credit card; investment), none for an
    account the response lists with another status, none other. -/
theorem C19_wire_all {S : Schema} {cv : Conv} {Ptext : Str → Prop} (hS : ReqWF S = true)
    (hcv : ConvOK cv Ptext) (env : Compose.Env) (cli : Map) (rest : Chain) (infos : List AcctInfo) (x : Ext)
    (v : CfgVal) (hacct : x.acct = .ok infos)
    (hall : Chain.get? (cli :: rest) "all".toList = some v) (ht : truthy v = true)
    (hcli : ∀ t ∈ acctKeys, cli.lookup t = none) (hv : ValidInfos infos) (hg : NoFallback rest infos)
    {text : Str} (h : stmtBytes S cv env (cli :: rest) x = .ok text) :
    ∃ plan cfg pw reqs, requestStmt dateConvert (cli :: rest) x.acct = .ok plan ∧ clientCfg plan.args = .ok cfg ∧
      getPasswd (cli :: rest) x.typed = .ok pw ∧ toReqs plan.requests = .ok reqs ∧
      (reqs.map reqKey).Perm ((specActive false infos).map some) ∧
      ((∀ s ∈ cfg.texts, Ptext s) → Ptext pw → (∀ s ∈ activeTexts false infos, Ptext s) →
        (∀ i j, x.uuid i = x.uuid j → i = j) → (∀ i, x.uuid i ≠ []) → (∀ i, Ptext (x.uuid i)) →
        ∀ readback : Str → PyM (Int × Node),
          (∀ inst, requestStatements S cv cfg pw reqs x.uuid x.dtclient = .ok inst →
            RoundTrip readback text cfg.version inst) →
          ∃ hv inst, readback text = .ok (hv, inst) ∧ RequestSpec S cfg pw x.dtclient reqs hv inst) := by
  obtain ⟨pw, plan, cfg, nonew, reqs, hpw, hplan, hcfg, _, hreqs, hb⟩ := stmtBytes_ok (cli :: rest) x h
  have hplan' := hplan
  rw [hacct] at hplan'
  have hperm := C19_all_active dateConvert cli rest infos plan v hall ht hcli hv hg hplan'
  refine ⟨plan, cfg, pw, reqs, hplan, hcfg, hpw, hreqs, ?_, ?_⟩
  · rw [toReqs_keys plan.requests reqs hreqs]
    have := hperm.map some
    rw [List.map_map] at this
    exact this
  · intro htexts hpwP hact huuid hne huP readback hrt
    exact requestBytes_spec hS hcv env cfg pw reqs _ x.uuid x.dtclient htexts hpwP
      (reqs_texts_of_perm false infos plan.requests reqs hperm hreqs Ptext hact) huuid hne huP readback hb hrt

/-- **C19_wire_all** for `ofxget stmtend --all` (bank and credit-card accounts) -/
theorem C19_wire_all_stmtend {S : Schema} {cv : Conv} {Ptext : Str → Prop} (hS : ReqWF S = true)
    (hcv : ConvOK cv Ptext) (env : Compose.Env) (cli : Map) (rest : Chain) (infos : List AcctInfo) (x : Ext)
    (v : CfgVal) (hacct : x.acct = .ok infos)
    (hall : Chain.get? (cli :: rest) "all".toList = some v) (ht : truthy v = true)
    (hcli : ∀ t ∈ closingKeys, cli.lookup t = none) (hv : ValidInfos infos) (hg : NoFallbackClosing rest infos)
    {text : Str} (h : stmtendBytes S cv env (cli :: rest) x = .ok text) :
    ∃ plan cfg pw reqs, requestStmtend dateConvert (cli :: rest) x.acct = .ok plan ∧ clientCfg plan.args = .ok cfg ∧
      getPasswd (cli :: rest) x.typed = .ok pw ∧ toReqs plan.requests = .ok reqs ∧
      (reqs.map reqKey).Perm ((specActive true infos).map some) ∧
      ((∀ s ∈ cfg.texts, Ptext s) → Ptext pw → (∀ s ∈ activeTexts true infos, Ptext s) →
        (∀ i j, x.uuid i = x.uuid j → i = j) → (∀ i, x.uuid i ≠ []) → (∀ i, Ptext (x.uuid i)) →
        ∀ readback : Str → PyM (Int × Node),
          (∀ inst, requestStatements S cv cfg pw reqs x.uuid x.dtclient = .ok inst →
            RoundTrip readback text cfg.version inst) →
          ∃ hv inst, readback text = .ok (hv, inst) ∧ RequestSpec S cfg pw x.dtclient reqs hv inst) := by
  obtain ⟨pw, plan, cfg, nonew, reqs, hpw, hplan, hcfg, _, hreqs, hb⟩ := stmtendBytes_ok (cli :: rest) x h
  have hplan' := hplan
  rw [hacct] at hplan'
  have hperm := C19_all_active_stmtend dateConvert cli rest infos plan v hall ht hcli hv hg hplan'
  refine ⟨plan, cfg, pw, reqs, hplan, hcfg, hpw, hreqs, ?_, ?_⟩
  · rw [toReqs_keys plan.requests reqs hreqs]
    have := hperm.map some
    rw [List.map_map] at this
    exact this
  · intro htexts hpwP hact huuid hne huP readback hrt
    exact requestBytes_spec hS hcv env cfg pw reqs _ x.uuid x.dtclient htexts hpwP
      (reqs_texts_of_perm true infos plan.requests reqs hperm hreqs Ptext hact) huuid hne huP readback hb hrt

/-! ### exactly one statement request per configured account, counted -/

/-- **C19_wire_count** (`ofxget stmt`).  In any instance that satisfies `RequestSpec` for the request list of the
    configured accounts — by `C19_wire_configured`, what the printed text reads back to — the bank message set holds
    as many `STMTTRNRQ`s as bank accounts are configured (over the four types), the credit-card message set as many
    `CCSTMTTRNRQ`s as credit cards, the investment message set as many `INVSTMTTRNRQ`s as investment accounts, no
    closing-statement request, and no member of a message set is anything but a wrapper of its kinds. -/
theorem C19_wire_count (S : Schema) (cfg : Cfg) (pw : Str) (dtc : DT) (a : Accounts) (ds de da : Option DT)
    (t oo pos bal : Option Bool) (hv : Int) (root : Node)
    (h : RequestSpec S cfg pw dtc (wireStmt a ds de da t oo pos bal) hv root) :
    ((fieldVal root "bankmsgsrqv1").items.filter (isWrapper S .stmt)).length =
        a.checking.length + a.savings.length + a.moneymrkt.length + a.creditline.length ∧
    ((fieldVal root "creditcardmsgsrqv1").items.filter (isWrapper S .ccStmt)).length = a.creditcard.length ∧
    ((fieldVal root "invstmtmsgsrqv1").items.filter (isWrapper S .invStmt)).length = a.investment.length ∧
    ((fieldVal root "bankmsgsrqv1").items.filter (isWrapper S .stmtEnd)).length = 0 ∧
    ((fieldVal root "creditcardmsgsrqv1").items.filter (isWrapper S .ccStmtEnd)).length = 0 ∧
    (∀ m : MsgSet, ∀ w ∈ (fieldVal root m.attrName).items, ∃ k ∈ kindsUnder m, isWrapper S k w = true) := by
  have c := fun k => (spec_count S cfg pw dtc _ hv root h k).trans (wireStmt_kinds a ds de da t oo pos bal k)
  exact ⟨c .stmt, c .ccStmt, c .invStmt, c .stmtEnd, c .ccStmtEnd, spec_only_wrappers S cfg pw dtc _ hv root h⟩

/-- **C19_wire_count** (`ofxget stmtend`) -/
theorem C19_wire_count_stmtend (S : Schema) (cfg : Cfg) (pw : Str) (dtc : DT) (a : Accounts) (ds de : Option DT)
    (hv : Int) (root : Node) (h : RequestSpec S cfg pw dtc (wireStmtend a ds de) hv root) :
    ((fieldVal root "bankmsgsrqv1").items.filter (isWrapper S .stmtEnd)).length =
        a.checking.length + a.savings.length + a.moneymrkt.length + a.creditline.length ∧
    ((fieldVal root "creditcardmsgsrqv1").items.filter (isWrapper S .ccStmtEnd)).length = a.creditcard.length ∧
    ((fieldVal root "bankmsgsrqv1").items.filter (isWrapper S .stmt)).length = 0 ∧
    ((fieldVal root "creditcardmsgsrqv1").items.filter (isWrapper S .ccStmt)).length = 0 ∧
    (fieldVal root "invstmtmsgsrqv1").items = [] ∧
    (∀ m : MsgSet, ∀ w ∈ (fieldVal root m.attrName).items, ∃ k ∈ kindsUnder m, isWrapper S k w = true) := by
  have c := fun k => (spec_count S cfg pw dtc _ hv root h k).trans (wireStmtend_kinds a ds de k)
  have only := spec_only_wrappers S cfg pw dtc _ hv root h
  refine ⟨c .stmtEnd, c .ccStmtEnd, c .stmt, c .ccStmt, ?_, only⟩
  -- every member of the investment message set would be an INVSTMTTRNRQ, and there are none
  have hinv : ((fieldVal root "invstmtmsgsrqv1").items.filter (isWrapper S .invStmt)).length = 0 := c .invStmt
  apply List.eq_nil_iff_forall_not_mem.mpr
  intro w hw
  obtain ⟨k, hk, hkw⟩ := only .invstmt w hw
  simp only [kindsUnder, List.mem_singleton] at hk
  subst hk
  have : w ∈ (fieldVal root "invstmtmsgsrqv1").items.filter (isWrapper S .invStmt) :=
    List.mem_filter.mpr ⟨hw, hkw⟩
  rw [List.length_eq_zero_iff.mp hinv] at this
  cases this

/-! ### the client, the password, the dates -/

/-- **C19_wire_client.**  The client `init_client(args)` builds carries the configured bank id and broker id (`None`
    when empty) — which `C06` shows are the BANKID / BROKERID of every bank / investment request —, writes end tags
    unless `unclosedelements` is set, and uses the configured version and pretty-printing flag. -/
theorem C19_wire_client (args : Chain) (cfg : Cfg) (h : clientCfg args = .ok cfg) :
    ∃ b k u ver pp verN ppB, args.getItem "bankid".toList = .ok b ∧ args.getItem "brokerid".toList = .ok k ∧
      args.getItem "unclosedelements".toList = .ok u ∧ args.getItem "version".toList = .ok ver ∧
      args.getItem "pretty".toList = .ok pp ∧
      optStrArg (Ofxget.orNone b) = .ok cfg.bankid ∧ optStrArg (Ofxget.orNone k) = .ok cfg.brokerid ∧
      cfg.closeElements = !truthy u ∧
      optVersionArg ver = .ok verN ∧ cfg.version = orDefault verN 203 ∧
      optBoolArg pp = .ok ppB ∧ cfg.prettyprint = orDefault ppB false :=
  clientCfg_fields args cfg h

/-- **C19_wire_password.**  A dry run signs on with the dummy password of the OFX specification, whatever is
    configured; otherwise with the configured password when there is one. -/
theorem C19_wire_password (args : Chain) (typed : Str) (d : CfgVal) (hd : args.get? "dryrun".toList = some d) :
    (truthy d = true → getPasswd args typed = .ok authPlaceholder) ∧
    (truthy d = false → ∀ s, s ≠ [] → args.get? "password".toList = some (.str s) → getPasswd args typed = .ok s) := by
  constructor
  · intro h
    unfold getPasswd
    rw [getItem_of_get? _ _ _ hd]
    simp [h, bind, Except.bind, pure, Except.pure]
  · intro h s hs hp
    have : truthy (.str s) = true := by cases s with
      | nil => exact absurd rfl hs
      | cons c cs => rfl
    unfold getPasswd
    rw [getItem_of_get? _ _ _ hd, getItem_of_get? _ _ _ hp]
    simp [h, this, bind, Except.bind, pure, Except.pure]

section
open Ofx.DateTime Ofx.Spec.Instant

/-- the converted value of one date option is the value denoting the instant of its text (none for an empty text) -/
def Denotes (o : Option Parts) (r : Option DT) : Prop :=
  match o with
  | none => r = none
  | some p => ∃ d, r = some d ∧ dtInstantUs d = some (1000 * p.instant)

/-- **C19_wire_dates.**  The dates on the wire are the instants the command line denotes: when the three configured
    texts are empty or texts of the OFX date-time notation (`Parts.render` of well-formed parts) denoting instants in
    the years 1000..9999, `convert_datetime` succeeds, an empty text gives no date, and every other gives the UTC
    value at millisecond resolution (`dtUtcMs`: what the wire can carry, the guard of the read-back theorems) that
    denotes exactly the instant of the text (`Spec.Instant`). -/
theorem C19_wire_dates (args : Chain) (ps pe pa : Option Parts)
    (hs : args.get? "dtstart".toList = some (.str (match ps with | some p => p.render | none => [])))
    (he : args.get? "dtend".toList = some (.str (match pe with | some p => p.render | none => [])))
    (ha : args.get? "dtasof".toList = some (.str (match pa with | some p => p.render | none => [])))
    (hok : ∀ p, ps = some p ∨ pe = some p ∨ pa = some p →
      p.wf false = true ∧ lenOk p = true ∧ us1000 ≤ 1000 * p.instant ∧ 1000 * p.instant < usEnd) :
    ∃ dt, convertDatetime dateConvert args = .ok dt ∧ (∀ d ∈ dt.all, dtUtcMs d) ∧
      Denotes ps dt.start ∧ Denotes pe dt.end ∧ Denotes pa dt.asof := by
  -- one text
  have one : ∀ (o : Option Parts), (∀ p, o = some p → p.wf false = true ∧ lenOk p = true ∧
      us1000 ≤ 1000 * p.instant ∧ 1000 * p.instant < usEnd) →
      ∃ r, (do let a ← dateArg (.str (match o with | some p => p.render | none => [])); dateConvert a) = .ok r ∧
        (∀ d ∈ r.toList, dtUtcMs d) ∧ Denotes o r := by
    intro o ho
    cases o with
    | none => exact ⟨none, rfl, by simp, rfl⟩
    | some p =>
      obtain ⟨hwf, hg, hr⟩ := ho p rfl
      obtain ⟨d, hd, hu, hi⟩ := dateConvert_notation p hwf hg hr
      have hne : p.render ≠ [] := by
        intro hnil
        rw [hnil] at hd
        cases hd
      refine ⟨some d, ?_, ?_, d, rfl, hi⟩
      · have hemp : p.render.isEmpty = false := by
          cases hp : p.render with
          | nil => exact absurd hp hne
          | cons c cs => rfl
        simp only [dateArg, hemp, ok_bind]
        exact hd
      · intro d' hd'
        simp only [Option.toList, List.mem_singleton] at hd'
        subst hd'
        exact hu
  obtain ⟨rs, h1, u1, i1⟩ := one ps (fun p hp => hok p (Or.inl hp))
  obtain ⟨re, h2, u2, i2⟩ := one pe (fun p hp => hok p (Or.inr (Or.inl hp)))
  obtain ⟨ra, h3, u3, i3⟩ := one pa (fun p hp => hok p (Or.inr (Or.inr hp)))
  refine ⟨⟨rs, re, ra⟩, ?_, ?_, i1, i2, i3⟩
  · unfold convertDatetime
    obtain ⟨a1, ha1, h1⟩ := bindOk h1
    obtain ⟨a2, ha2, h2⟩ := bindOk h2
    obtain ⟨a3, ha3, h3⟩ := bindOk h3
    simp only [getItem_of_get? _ _ _ hs, getItem_of_get? _ _ _ he, getItem_of_get? _ _ _ ha, ha1, ha2, ha3, h1, h2, h3,
      ok_bind]
    rfl
  · intro d hd
    simp only [Dates.all, List.mem_append] at hd
    rcases hd with (hd | hd) | hd
    · exact u1 d hd
    · exact u2 d hd
    · exact u3 d hd

end

/-! ### the hypotheses are satisfiable -/

/-- a command line: two checking accounts, a credit card, an investment account, start and end date, no balances -/
def exCli : Map :=
  [("url".toList, .str "https://bank.example/ofx".toList), ("user".toList, .str "bob".toList),
   ("dryrun".toList, .bool true), ("checking".toList, .list ["111".toList, "222".toList]),
   ("creditcard".toList, .list ["4444".toList]), ("investment".toList, .list ["I-9".toList]),
   ("bankid".toList, .str "111000614".toList), ("brokerid".toList, .str "broker.example".toList),
   ("dtstart".toList, .str "20200101".toList), ("dtend".toList, .str "20200229120000.123[-5:EST]".toList),
   ("incbal".toList, .bool false)]

def exArgs : Chain := [exCli, [], Ofx.Generated.ofxgetTables.defaults]

def exAccounts : Accounts := ⟨["111".toList, "222".toList], [], [], [], ["4444".toList], ["I-9".toList]⟩

example : exArgs.get? "all".toList = some (.bool false) ∧ HasAccounts exArgs exAccounts ∧
    HasFlags exArgs (.bool true) (.bool false) (.bool true) (.bool false) := by
  refine ⟨by decide +kernel, ⟨?_, ?_, ?_, ?_, ?_, ?_⟩, ⟨?_, ?_, ?_, ?_⟩⟩ <;> decide +kernel

/-- the dates of that command line, as `Parts` -/
example : (⟨some (2020, 1, 1), none, none, none⟩ : Spec.Instant.Parts).render = "20200101".toList := by decide +kernel

end Ofx.OfxgetWire
