/-
C18 — persistence through the file: what `ConfigParser.write()` puts on disk as text, read again by
`ConfigParser.read()` on the next run, is the configuration that was saved.

Model: `OfxModel/Ofx/IniText.lean` (`iniWrite`, `iniReadInto`, `iniRead`, `iniReadFile`, `iniLoadUser`, the guards
`iniClean`, `valuesStripped`, `noCR`); lemmas: `Lemmas/IniText.lean`, `Lemmas/IniRead.lean`, `Lemmas/IniLoad.lean`.
-/
import OfxProofs.Lemmas.IniLoad
import OfxProofs.Lemmas.IniSaved
import OfxProofs.Lemmas.IniTotal
import OfxProofs.Gen.Ofxget
import OfxProofs.Props.C18

set_option linter.unusedSimpArgs false

namespace Ofx.IniText
open Ofx Ofx.Ofxget

/-! ### the round trip -/

/-- what `write` writes is the text of `fileOf`, line by line -/
theorem iniWrite_eq (c : Ini) : iniWrite c = ((fileOf c).flatMap sectLines).flatten := iniWrite_lines c

theorem fileOf_clean (c : Ini) (h : iniClean c = true) :
    (∀ sec ∈ fileOf c, cleanName sec.1 = true ∧ cleanSect sec.2 = true) ∧ ((fileOf c).map (·.1)).Nodup := by
  obtain ⟨hd, hs, hnd⟩ := iniClean_spec c h
  unfold fileOf
  constructor
  · intro sec hsec
    rcases List.mem_append.mp hsec with hsec | hsec
    · split at hsec
      · cases hsec
      · simp only [List.mem_singleton] at hsec
        subst hsec
        exact ⟨(by decide : cleanName defaultSect = true), hd⟩
    · exact ⟨(hs sec hsec).1, (hs sec hsec).2.2⟩
  · split
    · simpa using hnd
    · simp only [List.map_append, List.map_cons, List.map_nil, List.singleton_append, List.nodup_cons]
      refine ⟨?_, hnd⟩
      intro hm
      obtain ⟨sec, hsec, he⟩ := List.mem_map.mp hm
      exact (hs sec hsec).2.1 he

/-- **C18_ini_roundtrip.**  For every configuration inside the guard `iniClean` — section names non-empty, on one
    line, distinct, none of them `DEFAULT`; option names non-empty, lower-case, distinct per section, without `=`,
    `:`, line break, blank at either end, leading `#`, `;` or `[`; values whose lines carry no blank at either end,
    whose continuation lines do not start with `#` or `;`, and which do not end in white space (so: any number of
    lines, empty lines in the middle, an empty first line) — the text `ConfigParser.write` produces is read by
    `read_string` on a fresh parser as exactly that configuration: same sections in the same order, same options in
    the same order, same values. -/
theorem C18_ini_roundtrip (c : Ini) (h : iniClean c = true) : iniRead (iniWrite c) = .ok c := by
  obtain ⟨hclean, hnd⟩ := fileOf_clean c h
  unfold iniRead
  rw [iniWrite_eq, iniReadInto_fileOf Ini.empty (fileOf c) rfl hclean hnd, fileOf_load_empty c h]

/-- the guard is satisfiable by a configuration with a DEFAULT section, two sections, a URL with `%`, `=`, `:`, a
    list, a three-line value with an empty line in the middle, a value starting with an empty line -/
def sampleIni : Ini :=
  ⟨[("clientuid".toList, "9e5c3b1e-2b3f-4c47-9d0a-5f3d1c2b7a10".toList)],
   [("acme bank".toList, [("url".toList, "https://ofx.example.com/cgi?x=%41&y=2:3".toList),
                          ("checking".toList, "123, 456".toList), ("version".toList, "102".toList)]),
    ("b]".toList, [("note".toList, "first\n\nthird = x".toList), ("k2".toList, "\nsecond line; no comment".toList)])]⟩

example : iniClean sampleIni = true := by decide +kernel

/-- **C18_ini_roundtrip_into.**  The same on a parser that already holds content `c0` (as `USERCFG` does after
    `fi.cfg`, or after `clear()`, which keeps DEFAULT): reading the written text is, section by section,
    "`[name]` creates the section unless it exists, each option is assigned" — `loadRaw1`.  `c0` must not hold a section called
    `DEFAULT` (no parser does). -/
theorem C18_ini_roundtrip_into (c0 c : Ini) (hc0 : (c0.sections.lookup defaultSect).isSome = false)
    (h : iniClean c = true) : iniReadInto c0 (iniWrite c) = .ok ((fileOf c).foldl loadRaw1 c0) := by
  obtain ⟨hclean, hnd⟩ := fileOf_clean c h
  rw [iniWrite_eq, iniReadInto_fileOf c0 (fileOf c) hc0 hclean hnd]

/-- **C18_ini_read_is_loadFile.**  With values that are also stripped at their own two ends, reading the written
    text into any parser is exactly the API-level `loadFile` of the API-level file content `toFile` — the two things
    the existing persistence theorems (`fileLookup_toFile`, `C18_persist_partial`) are stated with. -/
theorem C18_ini_read_is_loadFile (c0 c : Ini) (hc0 : (c0.sections.lookup defaultSect).isSome = false)
    (h : iniClean c = true) (hv : valuesStripped c = true) :
    iniReadInto c0 (iniWrite c) = .ok (c0.loadFile c.toFile) := by
  rw [C18_ini_roundtrip_into c0 c hc0 h, fileOf_load c0 c h hv]

example : valuesStripped ⟨sampleIni.defaults, sampleIni.sections.take 1⟩ = true := by decide +kernel

/-! ### through the file: text mode, universal newlines -/

theorem unlGo_noCR (s : Str) (h : '\r' ∉ s) : unlGo false s = s := by
  induction s with
  | nil => rfl
  | cons c cs ih =>
    have hc : c ≠ '\r' := fun e => h (by simp [e])
    simp only [unlGo, hc, if_false, Bool.and_false, Bool.false_eq_true]
    rw [ih (fun hm => h (by simp [hm]))]

theorem noCR_sect (s : Sect) (h : (s.all fun kv => !kv.1.contains '\r' && !kv.2.contains '\r') = true) :
    '\r' ∉ s.flatMap writeOption := by
  intro hm
  obtain ⟨kv, hkv, hm⟩ := List.mem_flatMap.mp hm
  have hk := List.all_eq_true.mp h kv hkv
  simp only [Bool.and_eq_true, Bool.not_eq_true', List.contains_eq_mem, decide_eq_false_iff_not] at hk
  unfold writeOption at hm
  rw [replace_single] at hm
  simp only [List.mem_append, List.mem_flatMap, delim] at hm
  rcases hm with (hm | hm | ⟨ch, hch, hm⟩) | hm
  · exact hk.1 hm
  · simp at hm
  · split at hm
    · simp at hm
    · simp only [List.mem_singleton] at hm
      exact hk.2 (by rw [hm]; exact hch)
  · simp at hm

theorem noCR_writeSection (name : Str) (s : Sect) (hn : '\r' ∉ name)
    (h : (s.all fun kv => !kv.1.contains '\r' && !kv.2.contains '\r') = true) : '\r' ∉ writeSection name s := by
  intro hm
  unfold writeSection at hm
  rcases List.mem_append.mp hm with hm | hm
  · rcases List.mem_append.mp hm with hm | hm
    · rcases List.mem_append.mp hm with hm | hm
      · rcases List.mem_cons.mp hm with hm | hm
        · cases hm
        · exact hn hm
      · simp at hm
    · exact noCR_sect s h hm
  · simp at hm

theorem noCR_iniWrite (c : Ini) (h : noCR c = true) : '\r' ∉ iniWrite c := by
  simp only [noCR, Bool.and_eq_true] at h
  obtain ⟨hd, hs⟩ := h
  intro hm
  unfold iniWrite at hm
  rcases List.mem_append.mp hm with hm | hm
  · split at hm
    · cases hm
    · exact noCR_writeSection _ _ (by decide) hd hm
  · obtain ⟨sec, hsec, hm⟩ := List.mem_flatMap.mp hm
    have := List.all_eq_true.mp hs sec hsec
    simp only [Bool.and_eq_true, Bool.not_eq_true', List.contains_eq_mem, decide_eq_false_iff_not] at this
    exact noCR_writeSection _ _ this.1 (by simpa using this.2) hm

/-- **C18_ini_roundtrip_file.**  `write_config` writes with `open(path, "w")`, the next run reads with `read(path)`,
    i.e. in text mode with universal newlines: with no carriage return in any name, option or value, the file
    round trip is the text round trip. -/
theorem C18_ini_roundtrip_file (c0 c : Ini) (hc0 : (c0.sections.lookup defaultSect).isSome = false)
    (h : iniClean c = true) (hcr : noCR c = true) :
    iniReadFile c0 (iniWrite c) = .ok ((fileOf c).foldl loadRaw1 c0) := by
  unfold iniReadFile universalNewlines
  rw [unlGo_noCR _ (noCR_iniWrite c hcr), C18_ini_roundtrip_into c0 c hc0 h]

example : noCR sampleIni = true := by decide +kernel

/-! ### every clause of the guard is needed -/

/-- does the written text read back as the configuration? (`Bool` twin of `iniRead (iniWrite c) = .ok c`) -/
def roundTrips (c : Ini) : Bool :=
  match iniRead (iniWrite c) with
  | .ok c' => c' == c
  | .error _ => false

theorem roundTrips_iff (c : Ini) : roundTrips c = true ↔ iniRead (iniWrite c) = .ok c := by
  unfold roundTrips
  cases iniRead (iniWrite c) with
  | error e => simp
  | ok c' => simp

/-- full strength: every configuration a parser can hold survives `write` + `read` -/
def C18_ini_roundtrip_full : Prop := ∀ c : Ini, iniRead (iniWrite c) = .ok c

def one (name key value : String) : Ini := ⟨[], [(name.toList, [(key.toList, value.toList)])]⟩

/-- a section name may not be empty (`[]` is no header), span lines, or be `DEFAULT`; names must differ -/
theorem C18_ini_guard_name :
    (iniClean ⟨[], [([], [])]⟩ = false ∧ roundTrips ⟨[], [([], [])]⟩ = false) ∧
    (iniClean (one "a\nb" "k" "v") = false ∧ roundTrips (one "a\nb" "k" "v") = false) ∧
    (iniClean (one "DEFAULT" "k" "v") = false ∧ roundTrips (one "DEFAULT" "k" "v") = false) ∧
    (iniClean ⟨[], [("s".toList, [("k".toList, "v".toList)]), ("s".toList, [("j".toList, "w".toList)])]⟩ = false ∧
      roundTrips ⟨[], [("s".toList, [("k".toList, "v".toList)]), ("s".toList, [("j".toList, "w".toList)])]⟩ = false) := by
  decide +kernel

/-- an option name may not be empty, carry a blank at either end, contain `=`, `:` or a line break, start with
    `#`, `;` or `[`, contain upper-case letters, or occur twice in a section -/
theorem C18_ini_guard_key :
    (iniClean (one "s" "" "v") = false ∧ roundTrips (one "s" "" "v") = false) ∧
    (iniClean (one "s" " k" "v") = false ∧ roundTrips (one "s" " k" "v") = false) ∧
    (iniClean (one "s" "k " "v") = false ∧ roundTrips (one "s" "k " "v") = false) ∧
    (iniClean (one "s" "a=b" "v") = false ∧ roundTrips (one "s" "a=b" "v") = false) ∧
    (iniClean (one "s" "a:b" "v") = false ∧ roundTrips (one "s" "a:b" "v") = false) ∧
    (iniClean (one "s" "a\nb" "v") = false ∧ roundTrips (one "s" "a\nb" "v") = false) ∧
    (iniClean (one "s" "#k" "v") = false ∧ roundTrips (one "s" "#k" "v") = false) ∧
    (iniClean (one "s" ";k" "v") = false ∧ roundTrips (one "s" ";k" "v") = false) ∧
    (iniClean (one "s" "[k]" "v") = false ∧ roundTrips (one "s" "[k]" "v") = false) ∧
    (iniClean (one "s" "K" "v") = false ∧ roundTrips (one "s" "K" "v") = false) ∧
    (iniClean ⟨[], [("s".toList, [("k".toList, "v".toList), ("k".toList, "w".toList)])]⟩ = false ∧
      roundTrips ⟨[], [("s".toList, [("k".toList, "v".toList), ("k".toList, "w".toList)])]⟩ = false) := by
  decide +kernel

/-- a value may not carry a blank at either end of any of its lines, have a continuation line that starts like a
    comment, or end in a line break -/
theorem C18_ini_guard_value :
    (iniClean (one "s" "k" " v") = false ∧ roundTrips (one "s" "k" " v") = false) ∧
    (iniClean (one "s" "k" "v ") = false ∧ roundTrips (one "s" "k" "v ") = false) ∧
    (iniClean (one "s" "k" "a\n b") = false ∧ roundTrips (one "s" "k" "a\n b") = false) ∧
    (iniClean (one "s" "k" "a \nb") = false ∧ roundTrips (one "s" "k" "a \nb") = false) ∧
    (iniClean (one "s" "k" "a\n#b") = false ∧ roundTrips (one "s" "k" "a\n#b") = false) ∧
    (iniClean (one "s" "k" "a\n;b") = false ∧ roundTrips (one "s" "k" "a\n;b") = false) ∧
    (iniClean (one "s" "k" "a\n") = false ∧ roundTrips (one "s" "k" "a\n") = false) := by
  decide +kernel

/-- a carriage return survives `read_string` but not the file (text mode turns it into a line break) -/
theorem C18_ini_guard_cr :
    iniClean (one "s" "k" "a\rb") = true ∧ roundTrips (one "s" "k" "a\rb") = true ∧ noCR (one "s" "k" "a\rb") = false ∧
    (match iniReadFile Ini.empty (iniWrite (one "s" "k" "a\rb")) with
     | .ok c' => c' == one "s" "k" "a\rb"
     | .error _ => false) = false := by
  decide +kernel

/-- a value that `loadFile` (which strips) and the text reader (which does not strip across lines) see differently:
    inside `iniClean`, outside `valuesStripped` -/
theorem C18_ini_guard_stripped :
    iniClean (one "s" "k" "\nb") = true ∧ roundTrips (one "s" "k" "\nb") = true ∧
    valuesStripped (one "s" "k" "\nb") = false ∧
    (Ini.empty.loadFile (one "s" "k" "\nb").toFile == one "s" "k" "\nb") = false := by
  decide +kernel

theorem C18_ini_roundtrip_full_false : ¬ C18_ini_roundtrip_full := by
  intro h
  have := (roundTrips_iff (one "s" "k" " v")).mpr (h _)
  rw [C18_ini_guard_value.1.2] at this
  cases this

/-! ### reading fails only the way `configparser` fails -/

/-- **C18_ini_errors.**  Whatever the parser holds and whatever the text is, the reader returns a configuration or
    one of `DuplicateSectionError`, `DuplicateOptionError`, `MissingSectionHeaderError`, `ParsingError`: the
    defensive branches of the model (`KeyError` / `AttributeError` inside `_read`) are dead. -/
theorem C18_ini_errors (c0 : Ini) (text : Str) : iniReadInto c0 text ≠ .error .internal :=
  iniReadInto_no_internal c0 text

/-! ### the next run reads the text -/

theorem canon_no_default (c : Ini) (h : Canon c) : (c.sections.lookup defaultSect).isSome = false := by
  cases hl : c.sections.lookup defaultSect with
  | none => rfl
  | some x => exact absurd rfl (h.nodef _ (mem_of_lookup _ _ _ hl))

/-- **C18_ini_reload.**  The parser of the next run — `USERCFG.read([fi.cfg, ofxget.cfg])` on the *texts* of the two
    files — holds exactly the content the API-level model assigns to it (`loadUser fidb cfg'.toFile`) when
    ofxget.cfg is the text `write` produced for a configuration `cfg'` inside the three guards.  `fidb` is the
    API-level view of fi.cfg (hypothesis `hfi`: that is what reading fi.cfg's text gives). -/
theorem C18_ini_reload (fidb : FileC) (fidbText : Str)
    (hfi : iniReadFile Ini.empty fidbText = .ok (loadLib fidb))
    (cfg' : Ini) (h : iniClean cfg' = true) (hv : valuesStripped cfg' = true) (hcr : noCR cfg' = true) :
    iniLoadUser fidbText (iniWrite cfg') = .ok (loadUser fidb cfg'.toFile) := by
  have hc0 : ((loadLib fidb).sections.lookup defaultSect).isSome = false :=
    canon_no_default _ (canon_loadFile _ canon_empty fidb)
  unfold iniLoadUser
  simp only [hfi, bind, Except.bind]
  rw [C18_ini_roundtrip_file _ cfg' hc0 h hcr, fileOf_load _ cfg' h hv]
  rfl

/-- the DEFAULT-section lookup of the persistence theorems, through the text: what the next run finds under
    `(s, k)` in the file `write` produced is the stored text (`fileLookup_toFile`, now with the file as text) -/
theorem C18_ini_fileLookup (cfg' : Ini) (h : iniClean cfg' = true) (s : Str) (k : Name) :
    ∃ c2, iniRead (iniWrite cfg') = .ok c2 ∧ fileLookup c2.toFile s k = (cfg'.look s k).map strip := by
  refine ⟨cfg', C18_ini_roundtrip cfg' h, ?_⟩
  exact fileLookup_toFile cfg' ((iniClean_iff cfg').mp h).1 s k

/-- **C18_persist_text_partial.**  `C18_persist_partial` with the configuration file as *text*: the saving run
    leaves `cfg'` in `USERCFG` (`mk_server_cfg`), `write_config` writes `iniWrite cfg'` to ofxget.cfg, and the next
    process builds its `USERCFG` by reading the texts of fi.cfg and of that file.  If `cfg'` is inside the guards of
    the text round trip (see `C18_saved_is_clean` for when it is), every option that `C18_persist_partial` covers
    (`WillWrite`, `readsBack`) has the same value in effect in the next run. -/
theorem C18_persist_text_partial (T : Tables) (hwf : T.WF = true) (hnd : (T.configurable.map (·.1)).Nodup)
    (lookup : Str → Option OhRec) (fidb user : FileC) (c1 : Chain) (uuid : Str) (cfg' : Ini) (s : Str)
    (hs : s ≠ defaultSect) (hnick : serverNick c1 = .ok s)
    (hmk : mkServerCfg T c1 (loadUser fidb user) (loadLib fidb) user uuid = .ok cfg')
    (k : Name) (ty : CfgTy) (hkt : (k, ty) ∈ T.configurable) (v : CfgVal) (hv : effective c1 k = some v)
    (libCfg : Map) (hlib : readConfig T (loadLib fidb) s = .ok libCfg)
    (hw : WillWrite T (reloadCfg (loadUser fidb user) user uuid).defaults libCfg k v)
    (hrb : readsBack T ty v = true)
    (fidbText : Str) (hfi : iniReadFile Ini.empty fidbText = .ok (loadLib fidb))
    (hclean : iniClean cfg' = true) (hvs : valuesStripped cfg' = true) (hcr : noCR cfg' = true)
    (ns2 : Map) (c2 : Chain) (d : CfgVal)
    (hsrv2 : (extractns ns2).lookup "server".toList = some (.str s))
    (hdry2 : (extractns ns2).lookup "dryrun".toList = some d) (htd : truthy d = true)
    (hk2 : (extractns ns2).lookup k = none)
    (U2 : Ini) (hU2 : iniLoadUser fidbText (iniWrite cfg') = .ok U2)
    (h2 : mergeConfig T lookup ns2 U2 = .ok c2) :
    effective c2 k = effective c1 k := by
  rw [C18_ini_reload fidb fidbText hfi cfg' hclean hvs hcr] at hU2
  cases hU2
  exact C18_persist_partial T hwf hnd lookup fidb user c1 uuid cfg' s hs hnick hmk k ty hkt v hv libCfg hlib hw hrb
    ns2 c2 d hsrv2 hdry2 htd hk2 h2

/-! ### what `mk_server_cfg` leaves behind is inside the guards -/

/-- **C18_saved_is_clean.**  If the configuration `mk_server_cfg` starts from (DEFAULT kept by `clear()`, ofxget.cfg
    re-read, global CLIENTUID) is inside the three guards, the server nickname is a clean section name, the
    CONFIGURABLE option names are clean, and every text `arg2config` returns for a value in effect is a stripped
    single line without carriage return (`SavedOk`; see `savedOk_str/_int/_bool/_list`), then what is written is
    inside the three guards. -/
theorem C18_saved_is_clean (T : Tables) (c1 : Chain) (mem lib : Ini) (hmem : Canon mem) (disk : FileC) (uuid : Str)
    (cfg' : Ini) (s : Str) (hs : s ≠ defaultSect) (hnick : serverNick c1 = .ok s)
    (hmk : mkServerCfg T c1 mem lib disk uuid = .ok cfg')
    (hbase : iniClean (reloadCfg mem disk uuid) = true ∧ valuesStripped (reloadCfg mem disk uuid) = true ∧
      noCR (reloadCfg mem disk uuid) = true)
    (hname : cleanName s = true) (hnamecr : '\r' ∉ s)
    (hkeys : ∀ ot ∈ T.configurable, cleanKey (lower ot.1) = true ∧ '\r' ∉ lower ot.1)
    (hvals : ∀ ot ∈ T.configurable, ∀ v txt, c1.get? ot.1 = some v → arg2config ot.2 v = .ok txt → SavedOk txt) :
    iniClean cfg' = true ∧ valuesStripped cfg' = true ∧ noCR cfg' = true := by
  obtain ⟨h1, h2, h3⟩ := hbase
  obtain ⟨_, hcanon, _⟩ := mkServerCfg_defaults T c1 mem lib hmem disk uuid cfg' s hs hnick hmk
  refine ⟨?_, ?_, ?_⟩
  · rw [iniClean_iff]
    refine ⟨hcanon, mkServerCfg_allKV _ _ T c1 mem lib disk uuid cfg' s hs hnick hmk ((iniClean_iff _).mp h1).2 hname ?_⟩
    intro ot hot v txt hv htxt
    exact ⟨(hkeys ot hot).1, cleanValue_of_savedOk txt (hvals ot hot v txt hv htxt)⟩
  · rw [valuesStripped_iff]
    refine mkServerCfg_allKV _ _ T c1 mem lib disk uuid cfg' s hs hnick hmk ((valuesStripped_iff _).mp h2) trivial ?_
    intro ot hot v txt hv htxt
    exact edgeClean_of_strip txt (hvals ot hot v txt hv htxt).stripped
  · rw [noCR_iff]
    refine mkServerCfg_allKV _ _ T c1 mem lib disk uuid cfg' s hs hnick hmk ((noCR_iff _).mp h3) hnamecr ?_
    intro ot hot v txt hv htxt
    exact ⟨(hkeys ot hot).2, (hvals ot hot v txt hv htxt).noCr⟩

/-- the guards are satisfiable: a starting configuration as `mk_server_cfg` reloads it (a user file with one server
    section, a fresh global CLIENTUID), a nickname with a blank in it -/
example : iniClean (reloadCfg Ini.empty [("srv1".toList, [("User".toList, " bob ".toList)])] "9e5c3b1e".toList) = true ∧
    valuesStripped (reloadCfg Ini.empty [("srv1".toList, [("User".toList, " bob ".toList)])] "9e5c3b1e".toList) = true ∧
    noCR (reloadCfg Ini.empty [("srv1".toList, [("User".toList, " bob ".toList)])] "9e5c3b1e".toList) = true ∧
    cleanName "acme bank".toList = true := by decide +kernel

/-- … and the hypothesis `hfi` of `C18_ini_reload`: a fi.cfg text and its API-level view -/
example : (match iniReadFile Ini.empty "[NAMES]\nacme = 1\n\n[acme]\nURL: https://ofx.acme.example/\n  ?x=1\n".toList with
    | .ok c => c == loadLib [("NAMES".toList, [("acme".toList, "1".toList)]),
                             ("acme".toList, [("url".toList, "https://ofx.acme.example/\n?x=1".toList)])]
    | .error _ => false) = true := by decide +kernel

/-- the CONFIGURABLE option names of the generated tables are clean option names -/
theorem C18_configurable_keys_clean :
    ∀ ot ∈ Generated.ofxgetTables.configurable, cleanKey (lower ot.1) = true ∧ '\r' ∉ lower ot.1 := by
  decide +kernel

/-- the value-level hypothesis of `C18_saved_is_clean` holds for well-typed values inside the existing guards:
    any integer, any boolean, a string without blanks at its ends and without line breaks, a non-empty list of
    clean account numbers -/
theorem C18_saved_values_ok :
    (∀ (i : Int) txt, arg2config .int (.int i) = .ok txt → SavedOk txt) ∧
    (∀ (b : Bool) txt, arg2config .bool (.bool b) = .ok txt → SavedOk txt) ∧
    (∀ (s : Str) txt, strip s = s → '\n' ∉ s → '\r' ∉ s → arg2config .str (.str s) = .ok txt → SavedOk txt) ∧
    (∀ (l : List Str) txt, l ≠ [] → (∀ m ∈ l, CleanMember m) → arg2config .list (.list l) = .ok txt → SavedOk txt) :=
  ⟨savedOk_int, savedOk_bool, fun s txt h1 h2 h3 h => savedOk_str s h1 h2 h3 txt h,
   fun l txt hne hl h => savedOk_list l hne hl txt h⟩

example : SavedOk "https://ofx.example.com/cgi?x=%41&y=2".toList := ⟨by decide +kernel, by decide, by decide⟩

/-- **C18_persist_text.**  The two together: saving from a clean starting configuration, under a clean nickname, with
    saved texts that are stripped single lines — then the text written, read by the next process, puts every option
    covered by `C18_persist_partial` in effect with the value it had. -/
theorem C18_persist_text (T : Tables) (hwf : T.WF = true) (hnd : (T.configurable.map (·.1)).Nodup)
    (lookup : Str → Option OhRec) (fidb user : FileC) (c1 : Chain) (uuid : Str) (cfg' : Ini) (s : Str)
    (hs : s ≠ defaultSect) (hnick : serverNick c1 = .ok s)
    (hmk : mkServerCfg T c1 (loadUser fidb user) (loadLib fidb) user uuid = .ok cfg')
    (k : Name) (ty : CfgTy) (hkt : (k, ty) ∈ T.configurable) (v : CfgVal) (hv : effective c1 k = some v)
    (libCfg : Map) (hlib : readConfig T (loadLib fidb) s = .ok libCfg)
    (hw : WillWrite T (reloadCfg (loadUser fidb user) user uuid).defaults libCfg k v)
    (hrb : readsBack T ty v = true)
    (fidbText : Str) (hfi : iniReadFile Ini.empty fidbText = .ok (loadLib fidb))
    (hbase : iniClean (reloadCfg (loadUser fidb user) user uuid) = true ∧
      valuesStripped (reloadCfg (loadUser fidb user) user uuid) = true ∧
      noCR (reloadCfg (loadUser fidb user) user uuid) = true)
    (hname : cleanName s = true) (hnamecr : '\r' ∉ s)
    (hkeys : ∀ ot ∈ T.configurable, cleanKey (lower ot.1) = true ∧ '\r' ∉ lower ot.1)
    (hvals : ∀ ot ∈ T.configurable, ∀ v txt, c1.get? ot.1 = some v → arg2config ot.2 v = .ok txt → SavedOk txt)
    (ns2 : Map) (c2 : Chain) (d : CfgVal)
    (hsrv2 : (extractns ns2).lookup "server".toList = some (.str s))
    (hdry2 : (extractns ns2).lookup "dryrun".toList = some d) (htd : truthy d = true)
    (hk2 : (extractns ns2).lookup k = none)
    (U2 : Ini) (hU2 : iniLoadUser fidbText (iniWrite cfg') = .ok U2)
    (h2 : mergeConfig T lookup ns2 U2 = .ok c2) :
    effective c2 k = effective c1 k := by
  obtain ⟨h1, h2', h3⟩ := C18_saved_is_clean T c1 _ _ (canon_loadUser fidb user) user uuid cfg' s hs hnick hmk hbase
    hname hnamecr hkeys hvals
  exact C18_persist_text_partial T hwf hnd lookup fidb user c1 uuid cfg' s hs hnick hmk k ty hkt v hv libCfg hlib hw hrb
    fidbText hfi h1 h2' h3 ns2 c2 d hsrv2 hdry2 htd hk2 U2 hU2 h2

end Ofx.IniText
