/-
C04 — the remaining constraint kinds as theorems, on both construction routes (extends Props/C04.lean and
Props/C04Order.lean; nothing there is changed).

1. Order (tree route), generalised: two known children that are adjacent in the known-children subsequence of a
   document and whose spec positions do not increase are rejected unless BOTH are repeated (list-member) children
   (`C04_reject_adjacent_out_of_order`, no premise on the class's list block); and the non-adjacent form for a
   repeated child out of place among non-repeated ones (`C04_reject_out_of_order_gen`).
2. Per-type limits composed with both routes for the real converter family `Types.conv`
   (`C04_reject_overlong_string_*`, `C04_reject_overlimit_integer_*`, `C04_reject_foreign_token_*`,
   `C04_accept_at_limit_*`).
3. `ValidFull`: all constraint kinds, recursively; `C04_sound_full_tree`, `C04_sound_full_kw` (no guard);
   `C04_reject_reqmutex_empty_text_kw`.
4. The hand-coded `validate_args` rules: `C04_reject_extra_kw/_tree`, one declarative violation per rule kind.
-/
import OfxProofs.Lemmas.C04Ext

namespace Ofx.Agg
open Ofx

/-! ## 1. order -/

/-- **C04 (order, tree route, adjacent children).** In a document node, let `a` and `b` be two children the class
    knows with only children it does not know between them (so they are adjacent among the known children).  If
    `b`'s spec position is not greater than `a`'s, the document is rejected — unless both are repeated (list-member)
    children, the one case `update_args` exempts.  No premise on the shape of the class's list block: this covers a
    repeated child out of place among non-repeated ones, in either direction. -/
theorem C04_reject_adjacent_out_of_order (S : Schema) (cv : Conv) (tag : Str) (x tl : Option Str)
    (pre mid post : List Tree) (a b : Tree) (ci : Nat) (c : Cls) (ia ib : Nat)
    (hf : S.findIdx? tag = some ci) (hc : S.cls? ci = some c) (hg : c.groom = none)
    (hmid : ∀ t ∈ mid, Unknown c t.tag)
    (hdota : '.' ∉ a.tag) (hia : specIndex c (lower a.tag) = some ia)
    (hdotb : '.' ∉ b.tag) (hib : specIndex c (lower b.tag) = some ib) (hle : ib ≤ ia)
    (hnb : ¬ (isListMember c (lower a.tag) = true ∧ isListMember c (lower b.tag) = true)) :
    ∃ e, fromEtree S cv (.node tag x tl (pre ++ a :: (mid ++ b :: post))) = .error e := by
  simp only [fromEtree, convertNode, hf, hc]
  have hne : (pre ++ a :: (mid ++ b :: post)).isEmpty = false := by cases pre <;> rfl
  simp only [hne, Bool.false_eq_true, if_false]
  have key : ∃ e, foldChildren c (pre ++ a :: (mid ++ b :: post))
      (childInsts S cv (pre ++ a :: (mid ++ b :: post))) Accum.init = .error e := by
    have hsplit : pre ++ a :: (mid ++ b :: post) = (pre ++ a :: mid) ++ b :: post := by simp
    rw [hsplit, childInsts_append]
    simp only [childInsts]
    apply foldChildren_error_of_step c (pre ++ a :: mid) _ b _ post _ Accum.init (childInsts_length S cv _)
    intro acc1 hacc1
    rw [childInsts_append] at hacc1
    simp only [childInsts] at hacc1
    rw [foldChildren_append c pre (a :: mid) _ _ Accum.init (childInsts_length S cv pre)] at hacc1
    cases hp : foldChildren c pre (childInsts S cv pre) Accum.init with
    | error e => simp [hp, bind, Except.bind] at hacc1
    | ok acc0 =>
      simp only [hp, bind, Except.bind, foldChildren] at hacc1
      cases hu : updateArgs c acc0 a (fromEtree S cv a) with
      | error e => simp [hu] at hacc1
      | ok acc2 =>
        simp only [hu] at hacc1
        rw [foldChildren_unknown c mid _ acc2 hmid] at hacc1
        injection hacc1 with hacc1; subst hacc1
        obtain ⟨hp2, hl2⟩ := updateArgs_known_prev' c acc0 acc2 a _ ia hg hdota hia hu
        exact updateArgs_order_error c acc2 b _ ib ia hg hdotb hib hp2 hle
          (fun ⟨h1, h2⟩ => hnb ⟨by rw [← hl2]; exact h2, h1⟩)
  obtain ⟨e, he⟩ := key
  exact ⟨e, by simp [he, bind, Except.bind]⟩

/-- **C04 (order, tree route, any distance).** A known child `b` anywhere after a known child `a` whose spec
    position is not smaller is rejected — whatever stands before, between and after them — when some position `lo`
    between the two (`ib ≤ lo ≤ ia`) is one around which the class's list block is not interleaved, and `b`, if it
    is a repeated child, lies strictly before `lo`.  Instances: `lo = ia` for a non-repeated `a` (any `b`; for two
    non-repeated children this is `C04_reject_out_of_order`), `lo = ib` for a repeated `a` and a non-repeated `b`. -/
theorem C04_reject_out_of_order_gen (S : Schema) (cv : Conv) (tag : Str) (x tl : Option Str)
    (pre mid post : List Tree) (a b : Tree) (ci : Nat) (c : Cls) (ia ib lo : Nat)
    (hf : S.findIdx? tag = some ci) (hc : S.cls? ci = some c) (hg : c.groom = none)
    (hnd : (c.spec.map (·.name)).Nodup) (hblock : BlockAt c lo) (hlo1 : ib ≤ lo) (hlo2 : lo ≤ ia)
    (hdota : '.' ∉ a.tag) (hia : specIndex c (lower a.tag) = some ia)
    (hdotb : '.' ∉ b.tag) (hib : specIndex c (lower b.tag) = some ib)
    (hbl : isListMember c (lower b.tag) = true → ib < lo) :
    ∃ e, fromEtree S cv (.node tag x tl (pre ++ a :: (mid ++ b :: post))) = .error e := by
  simp only [fromEtree, convertNode, hf, hc]
  have hne : (pre ++ a :: (mid ++ b :: post)).isEmpty = false := by cases pre <;> rfl
  simp only [hne, Bool.false_eq_true, if_false]
  have key : ∃ e, foldChildren c (pre ++ a :: (mid ++ b :: post))
      (childInsts S cv (pre ++ a :: (mid ++ b :: post))) Accum.init = .error e := by
    have hsplit : pre ++ a :: (mid ++ b :: post) = (pre ++ a :: mid) ++ b :: post := by simp
    rw [hsplit, childInsts_append]
    simp only [childInsts]
    apply foldChildren_error_of_step c (pre ++ a :: mid) _ b _ post _ Accum.init (childInsts_length S cv _)
    intro acc1 hacc1
    rw [childInsts_append] at hacc1
    simp only [childInsts] at hacc1
    rw [foldChildren_append c pre (a :: mid) _ _ Accum.init (childInsts_length S cv pre)] at hacc1
    cases hp : foldChildren c pre (childInsts S cv pre) Accum.init with
    | error e => simp [hp, bind, Except.bind] at hacc1
    | ok acc0 =>
      simp only [hp, bind, Except.bind, foldChildren] at hacc1
      cases hu : updateArgs c acc0 a (fromEtree S cv a) with
      | error e => simp [hu] at hacc1
      | ok acc2 =>
        simp only [hu] at hacc1
        obtain ⟨hp2, hl2⟩ := updateArgs_known_prev' c acc0 acc2 a _ ia hg hdota hia hu
        obtain ⟨aa, haa, han, ham⟩ := specIndex_get c _ ia hia
        have hinv2 : PrevGe c lo acc2 :=
          ⟨ia, hp2, hlo2, fun hf => ⟨aa, haa, listMember_isList c aa ham hnd (by rw [han, ← hl2]; exact hf)⟩⟩
        obtain ⟨p, hp1, hlo, hpl⟩ := foldChildren_prevGe c hg hnd lo hblock mid _ acc2 acc1 hacc1 hinv2
        refine updateArgs_order_error c acc1 b _ ib p hg hdotb hib hp1 (by omega) ?_
        rintro ⟨hbm, hpil⟩
        obtain ⟨ap, hap, hapl⟩ := hpl hpil
        obtain ⟨ab, hab, habn, habm⟩ := specIndex_get c _ ib hib
        have habl : ab.kind.isList = true := listMember_isList c ab habm hnd (by rw [habn]; exact hbm)
        have := hblock ib p ab ap hab habl (hbl hbm) hap hapl
        omega
  obtain ⟨e, he⟩ := key
  exact ⟨e, by simp [he, bind, Except.bind]⟩


/-- **C04 (order, consequence).** In every document node `from_etree` accepts, any two known children that are adjacent
    among the known children stand in increasing spec order, or are both repeated children; and no known non-repeated
    child occurs twice. -/
theorem C04_accepted_ordered (S : Schema) (cv : Conv) (tag : Str) (x tl : Option Str)
    (pre mid post : List Tree) (a b : Tree) (ci : Nat) (c : Cls) (ia ib : Nat) (n : Node)
    (hf : S.findIdx? tag = some ci) (hc : S.cls? ci = some c) (hg : c.groom = none)
    (hdota : '.' ∉ a.tag) (hia : specIndex c (lower a.tag) = some ia)
    (hdotb : '.' ∉ b.tag) (hib : specIndex c (lower b.tag) = some ib)
    (h : fromEtree S cv (.node tag x tl (pre ++ a :: (mid ++ b :: post))) = .ok n) :
    ((∀ t ∈ mid, Unknown c t.tag) →
      ia < ib ∨ (isListMember c (lower a.tag) = true ∧ isListMember c (lower b.tag) = true)) ∧
    (isListMember c (lower a.tag) = false → b.tag ≠ a.tag) := by
  constructor
  · intro hmid
    apply Classical.byContradiction
    intro hcon
    have hle : ib ≤ ia := by
      rcases Nat.lt_or_ge ia ib with h1 | h1
      · exact absurd (Or.inl h1) hcon
      · exact h1
    obtain ⟨e, he⟩ := C04_reject_adjacent_out_of_order S cv tag x tl pre mid post a b ci c ia ib hf hc hg hmid
      hdota hia hdotb hib hle (fun hb => hcon (Or.inr hb))
    rw [h] at he; cases he
  · intro hnl hsame
    obtain ⟨e, he⟩ := C04_reject_duplicate_child S cv tag x tl pre mid post a b ci c ia hf hc hg hdota hia hnl hsame
    rw [h] at he; cases he

/-! ## 2. per-type limits, composed with both routes, for the real converters `Types.conv`

Rejections hold whatever else the description contains.  Acceptances are stated as "the value at the limit is never
the reason for a refusal": if nothing else stands in the way (`OthersOk`: `validate_args` accepts, members are
permitted, no foreign keyword, every *other* attribute accepts its value), an instance is produced and holds the
converted value. -/

open Ofx.Types

/-- **C04 (maximum string length, keyword route).** A keyword whose value — after the entity decoding `String.convert`
    performs — is longer than the `n` of its strict `String(n)` attribute is rejected. -/
theorem C04_reject_overlong_string_kw (S : Schema) (ci : Nat) (c : Cls) (args : List Node) (kw : List (Str × Node))
    (a : Attr) (n : Nat) (s : Str) (hc : S.cls? ci = some c) (ha : a ∈ c.spec)
    (hk : a.kind = .string (some n) true) (hlook : lookup a.name kw = some (.val (.str s)))
    (hlong : n < (unescape s).length) : ∃ e, construct S Types.conv ci args kw = .error e := by
  have hs : s ≠ [] := by rintro rfl; simp [unescape_nil] at hlong
  apply construct_error_of_setAttr S Types.conv ci c args kw a hc (by simp [specNoList, ha, hk, Kind.isList])
  rw [hlook, Option.getD_some, setAttr_string_text S a _ _ s hk hs]
  exact ⟨.spec, by simp [fits]; omega⟩

/-- **C04 (maximum string length, tree route).** -/
theorem C04_reject_overlong_string_tree (S : Schema) (tag : Str) (x tl : Option Str) (pre post : List Tree)
    (ch : Tree) (ci : Nat) (c : Cls) (a : Attr) (n : Nat) (s : Str)
    (hf : S.findIdx? tag = some ci) (hc : S.cls? ci = some c) (hg : c.groom = none)
    (hnd : (c.spec.map (·.name)).Nodup) (ha : a ∈ c.spec) (hname : a.name = lower ch.tag) (hdot : '.' ∉ ch.tag)
    (hk : a.kind = .string (some n) true) (htext : ch.text = some s) (hlong : n < (unescape s).length) :
    ∃ e, fromEtree S Types.conv (.node tag x tl (pre ++ ch :: post)) = .error e := by
  cases s with
  | nil => simp [unescape_nil] at hlong
  | cons t0 ts =>
    apply fromEtree_error_of_setAttr S Types.conv tag x tl pre post ch ci c a t0 ts hf hc hg hnd ha hname hdot
      (by simp [hk, Kind.isList]) (by simp [hk, Kind.isUnsupported]) htext
    rw [setAttr_string_text S a _ _ _ hk (by simp)]
    exact ⟨.spec, by simp [fits]; omega⟩

/-- **C04 (string exactly at the limit, keyword route).** A value of at most `n` characters (in particular exactly
    `n`) is accepted by a strict `String(n)` attribute, and the instance holds it (decoded). -/
theorem C04_accept_at_limit_string_kw (S : Schema) (ci : Nat) (c : Cls) (args : List Node) (kw : List (Str × Node))
    (a : Attr) (n : Nat) (s : Str) (hc : S.cls? ci = some c) (hnd : (c.spec.map (·.name)).Nodup) (ha : a ∈ c.spec)
    (hk : a.kind = .string (some n) true) (hlook : lookup a.name kw = some (.val (.str s))) (hs : s ≠ [])
    (hfit : (unescape s).length ≤ n) (ho : OthersOk S Types.conv c args kw a) :
    ∃ fields items, construct S Types.conv ci args kw = .ok (.agg ci fields items) ∧
      lookup a.name fields = some (.val (.str (unescape s))) := by
  apply construct_ok_of_others S Types.conv ci c args kw a _ hc hnd (by simp [specNoList, ha, hk, Kind.isList]) _ ho
  rw [hlook, Option.getD_some, setAttr_string_text S a _ _ s hk hs]
  simp [fits, hfit]

/-- **C04 (string exactly at the limit, tree route).** -/
theorem C04_accept_at_limit_string_tree (S : Schema) (tag : Str) (x tl : Option Str) (pre post : List Tree)
    (ch : Tree) (ci : Nat) (c : Cls) (a : Attr) (n : Nat) (t0 : Char) (ts : Str) (acc : Accum)
    (hf : S.findIdx? tag = some ci) (hc : S.cls? ci = some c) (hg : c.groom = none)
    (hnd : (c.spec.map (·.name)).Nodup) (ha : a ∈ c.spec) (hname : a.name = lower ch.tag) (hdot : '.' ∉ ch.tag)
    (hk : a.kind = .string (some n) true) (htext : ch.text = some (t0 :: ts))
    (hfit : (unescape (t0 :: ts)).length ≤ n)
    (hfold : foldChildren c (pre ++ ch :: post) (childInsts S Types.conv (pre ++ ch :: post)) Accum.init = .ok acc)
    (ho : OthersOk S Types.conv c acc.args acc.kwargs a) :
    ∃ fields items, fromEtree S Types.conv (.node tag x tl (pre ++ ch :: post)) = .ok (.agg ci fields items) ∧
      lookup a.name fields = some (.val (.str (unescape (t0 :: ts)))) := by
  apply fromEtree_ok_of_others S Types.conv tag x tl pre post ch ci c a t0 ts _ acc hf hc hg hnd ha hname hdot
    (by simp [hk, Kind.isList]) (by simp [hk, Kind.isUnsupported]) htext _ hfold ho
  rw [setAttr_string_text S a _ _ _ hk (by simp)]
  simp [fits, hfit]

/-- **C04 (maximum integer digits, keyword route).** An `int` keyword (or a text that reads as one) of more than `n`
    digits — `|i| ≥ 10^n`, either sign — is rejected by an `Integer(n)` attribute. -/
theorem C04_reject_overlimit_integer_kw (S : Schema) (ci : Nat) (c : Cls) (args : List Node)
    (kw : List (Str × Node)) (a : Attr) (n : Nat) (i : Int) (w : Node) (hc : S.cls? ci = some c) (ha : a ∈ c.spec)
    (hk : a.kind = .integer (some n)) (hlook : lookup a.name kw = some w)
    (hw : w = .val (.int i) ∨ ∃ s, w = .val (.str s) ∧ s ≠ [] ∧ pyIntParse s = some i)
    (hover : 10 ^ n ≤ i.natAbs) : ∃ e, construct S Types.conv ci args kw = .error e := by
  apply construct_error_of_setAttr S Types.conv ci c args kw a hc (by simp [specNoList, ha, hk, Kind.isList])
  rw [hlook, Option.getD_some]
  have : setAttr S Types.conv a w = setAttr S Types.conv a (.val (.int i)) := by
    rcases hw with rfl | ⟨s, rfl, hs, hp⟩
    · rfl
    · exact setAttr_integer_text S a _ s i hk hs hp
  rw [this, setAttr_integer_int S a _ i hk]
  exact ⟨.spec, by simp [hover]⟩

/-- **C04 (maximum integer digits, tree route).** -/
theorem C04_reject_overlimit_integer_tree (S : Schema) (tag : Str) (x tl : Option Str) (pre post : List Tree)
    (ch : Tree) (ci : Nat) (c : Cls) (a : Attr) (n : Nat) (s : Str) (i : Int)
    (hf : S.findIdx? tag = some ci) (hc : S.cls? ci = some c) (hg : c.groom = none)
    (hnd : (c.spec.map (·.name)).Nodup) (ha : a ∈ c.spec) (hname : a.name = lower ch.tag) (hdot : '.' ∉ ch.tag)
    (hk : a.kind = .integer (some n)) (htext : ch.text = some s) (hp : pyIntParse s = some i)
    (hover : 10 ^ n ≤ i.natAbs) :
    ∃ e, fromEtree S Types.conv (.node tag x tl (pre ++ ch :: post)) = .error e := by
  cases s with
  | nil => rw [show pyIntParse ([] : Str) = none from by decide] at hp; cases hp
  | cons t0 ts =>
    apply fromEtree_error_of_setAttr S Types.conv tag x tl pre post ch ci c a t0 ts hf hc hg hnd ha hname hdot
      (by simp [hk, Kind.isList]) (by simp [hk, Kind.isUnsupported]) htext
    rw [setAttr_integer_text S a _ _ i hk (by simp) hp, setAttr_integer_int S a _ i hk]
    exact ⟨.spec, by simp [hover]⟩

/-- **C04 (integer exactly at the limit, keyword route).** Every `|i| < 10^n` — in particular `10^n − 1` and
    `−(10^n − 1)` — is accepted by an `Integer(n)` attribute and the instance holds `i`. -/
theorem C04_accept_at_limit_integer_kw (S : Schema) (ci : Nat) (c : Cls) (args : List Node) (kw : List (Str × Node))
    (a : Attr) (n : Nat) (i : Int) (w : Node) (hc : S.cls? ci = some c) (hnd : (c.spec.map (·.name)).Nodup)
    (ha : a ∈ c.spec) (hk : a.kind = .integer (some n)) (hlook : lookup a.name kw = some w)
    (hw : w = .val (.int i) ∨ ∃ s, w = .val (.str s) ∧ s ≠ [] ∧ pyIntParse s = some i)
    (hfit : i.natAbs < 10 ^ n) (ho : OthersOk S Types.conv c args kw a) :
    ∃ fields items, construct S Types.conv ci args kw = .ok (.agg ci fields items) ∧
      lookup a.name fields = some (.val (.int i)) := by
  apply construct_ok_of_others S Types.conv ci c args kw a _ hc hnd (by simp [specNoList, ha, hk, Kind.isList]) _ ho
  rw [hlook, Option.getD_some]
  have : setAttr S Types.conv a w = setAttr S Types.conv a (.val (.int i)) := by
    rcases hw with rfl | ⟨s, rfl, hs, hp⟩
    · rfl
    · exact setAttr_integer_text S a _ s i hk hs hp
  rw [this, setAttr_integer_int S a _ i hk]
  have : ¬ 10 ^ n ≤ i.natAbs := by omega
  simp [this]

/-- **C04 (integer exactly at the limit, tree route).** -/
theorem C04_accept_at_limit_integer_tree (S : Schema) (tag : Str) (x tl : Option Str) (pre post : List Tree)
    (ch : Tree) (ci : Nat) (c : Cls) (a : Attr) (n : Nat) (t0 : Char) (ts : Str) (i : Int) (acc : Accum)
    (hf : S.findIdx? tag = some ci) (hc : S.cls? ci = some c) (hg : c.groom = none)
    (hnd : (c.spec.map (·.name)).Nodup) (ha : a ∈ c.spec) (hname : a.name = lower ch.tag) (hdot : '.' ∉ ch.tag)
    (hk : a.kind = .integer (some n)) (htext : ch.text = some (t0 :: ts)) (hp : pyIntParse (t0 :: ts) = some i)
    (hfit : i.natAbs < 10 ^ n)
    (hfold : foldChildren c (pre ++ ch :: post) (childInsts S Types.conv (pre ++ ch :: post)) Accum.init = .ok acc)
    (ho : OthersOk S Types.conv c acc.args acc.kwargs a) :
    ∃ fields items, fromEtree S Types.conv (.node tag x tl (pre ++ ch :: post)) = .ok (.agg ci fields items) ∧
      lookup a.name fields = some (.val (.int i)) := by
  apply fromEtree_ok_of_others S Types.conv tag x tl pre post ch ci c a t0 ts _ acc hf hc hg hnd ha hname hdot
    (by simp [hk, Kind.isList]) (by simp [hk, Kind.isUnsupported]) htext _ hfold ho
  rw [setAttr_integer_text S a _ _ i hk (by simp) hp, setAttr_integer_int S a _ i hk]
  have : ¬ 10 ^ n ≤ i.natAbs := by omega
  simp [this]

/-- the two boundary values named by the property -/
theorem C04_integer_boundary (n : Nat) :
    ((10 ^ n - 1 : Nat) : Int).natAbs < 10 ^ n ∧ (-((10 ^ n - 1 : Nat) : Int)).natAbs < 10 ^ n ∧
    10 ^ n ≤ ((10 ^ n : Nat) : Int).natAbs ∧ 10 ^ n ≤ (-((10 ^ n : Nat) : Int)).natAbs := by
  have : 0 < 10 ^ n := Nat.pow_pos (by decide)
  refine ⟨?_, ?_, ?_, ?_⟩ <;> simp <;> omega

/-- **C04 (enumerated value sets, keyword route).** A token outside the attribute's enumeration is rejected. -/
theorem C04_reject_foreign_token_kw (S : Schema) (ci : Nat) (c : Cls) (args : List Node) (kw : List (Str × Node))
    (a : Attr) (e : Nat) (valid : List Str) (s : Str) (hc : S.cls? ci = some c) (ha : a ∈ c.spec)
    (hk : a.kind = .oneOf e) (he : S.enums[e]? = some valid)
    (hlook : lookup a.name kw = some (.val (.str s))) (hs : s ≠ []) (hforeign : s ∉ valid) :
    ∃ e, construct S Types.conv ci args kw = .error e := by
  apply construct_error_of_setAttr S Types.conv ci c args kw a hc (by simp [specNoList, ha, hk, Kind.isList])
  rw [hlook, Option.getD_some, setAttr_oneOf_text S a e valid s hk he hs]
  exact ⟨.spec, by simp [hforeign]⟩

/-- **C04 (enumerated value sets, tree route).** -/
theorem C04_reject_foreign_token_tree (S : Schema) (tag : Str) (x tl : Option Str) (pre post : List Tree)
    (ch : Tree) (ci : Nat) (c : Cls) (a : Attr) (e : Nat) (valid : List Str) (t0 : Char) (ts : Str)
    (hf : S.findIdx? tag = some ci) (hc : S.cls? ci = some c) (hg : c.groom = none)
    (hnd : (c.spec.map (·.name)).Nodup) (ha : a ∈ c.spec) (hname : a.name = lower ch.tag) (hdot : '.' ∉ ch.tag)
    (hk : a.kind = .oneOf e) (he : S.enums[e]? = some valid) (htext : ch.text = some (t0 :: ts))
    (hforeign : (t0 :: ts) ∉ valid) :
    ∃ e, fromEtree S Types.conv (.node tag x tl (pre ++ ch :: post)) = .error e := by
  apply fromEtree_error_of_setAttr S Types.conv tag x tl pre post ch ci c a t0 ts hf hc hg hnd ha hname hdot
    (by simp [hk, Kind.isList]) (by simp [hk, Kind.isUnsupported]) htext
  rw [setAttr_oneOf_text S a e valid _ hk he (by simp)]
  exact ⟨.spec, by simp [hforeign]⟩

/-- **C04 (a token of the enumeration, keyword route)** is accepted and the instance holds it. -/
theorem C04_accept_member_token_kw (S : Schema) (ci : Nat) (c : Cls) (args : List Node) (kw : List (Str × Node))
    (a : Attr) (e : Nat) (valid : List Str) (s : Str) (hc : S.cls? ci = some c)
    (hnd : (c.spec.map (·.name)).Nodup) (ha : a ∈ c.spec) (hk : a.kind = .oneOf e) (he : S.enums[e]? = some valid)
    (hlook : lookup a.name kw = some (.val (.str s))) (hs : s ≠ []) (hmem : s ∈ valid)
    (ho : OthersOk S Types.conv c args kw a) :
    ∃ fields items, construct S Types.conv ci args kw = .ok (.agg ci fields items) ∧
      lookup a.name fields = some (.val (.str s)) := by
  apply construct_ok_of_others S Types.conv ci c args kw a _ hc hnd (by simp [specNoList, ha, hk, Kind.isList]) _ ho
  rw [hlook, Option.getD_some, setAttr_oneOf_text S a e valid s hk he hs]
  simp [hmem]

/-- **C04 (a token of the enumeration, tree route).** -/
theorem C04_accept_member_token_tree (S : Schema) (tag : Str) (x tl : Option Str) (pre post : List Tree)
    (ch : Tree) (ci : Nat) (c : Cls) (a : Attr) (e : Nat) (valid : List Str) (t0 : Char) (ts : Str) (acc : Accum)
    (hf : S.findIdx? tag = some ci) (hc : S.cls? ci = some c) (hg : c.groom = none)
    (hnd : (c.spec.map (·.name)).Nodup) (ha : a ∈ c.spec) (hname : a.name = lower ch.tag) (hdot : '.' ∉ ch.tag)
    (hk : a.kind = .oneOf e) (he : S.enums[e]? = some valid) (htext : ch.text = some (t0 :: ts))
    (hmem : (t0 :: ts) ∈ valid)
    (hfold : foldChildren c (pre ++ ch :: post) (childInsts S Types.conv (pre ++ ch :: post)) Accum.init = .ok acc)
    (ho : OthersOk S Types.conv c acc.args acc.kwargs a) :
    ∃ fields items, fromEtree S Types.conv (.node tag x tl (pre ++ ch :: post)) = .ok (.agg ci fields items) ∧
      lookup a.name fields = some (.val (.str (t0 :: ts))) := by
  apply fromEtree_ok_of_others S Types.conv tag x tl pre post ch ci c a t0 ts _ acc hf hc hg hnd ha hname hdot
    (by simp [hk, Kind.isList]) (by simp [hk, Kind.isUnsupported]) htext _ hfold ho
  rw [setAttr_oneOf_text S a e valid _ hk he (by simp)]
  simp [hmem]

/-- every element converter of `ofxtools.Types` refuses `None` when the element is required -/
theorem conv_required_none (enums : List (List Str)) (k : Kind) (hl : k.isList = false)
    (hu : k.isUnsupported = false) (hst : Kind.subTarget k = none) :
    ∃ e, Types.conv.convert enums k true .none = .error e := by
  cases k with
  | oneOf e =>
    simp only [Types.conv, Types.convert]
    cases enums[e]? with
    | none => exact ⟨_, rfl⟩
    | some valid => exact ⟨_, rfl⟩
  | listElem _ _ => simp [Kind.isList] at hl
  | listAgg _ => simp [Kind.isList] at hl
  | sub _ => simp [Kind.subTarget] at hst
  | unsupported => simp [Kind.isUnsupported] at hu
  | _ => exact ⟨_, rfl⟩

/-- **C04 (required element or sub-aggregate omitted, keyword route, real converters).** -/
theorem C04_reject_required_omitted_conv_kw (S : Schema) (ci : Nat) (c : Cls) (args : List Node)
    (kw : List (Str × Node)) (a : Attr) (hc : S.cls? ci = some c) (ha : a ∈ c.spec)
    (hl : a.kind.isList = false) (hu : a.kind.isUnsupported = false) (hreq : a.required = true)
    (hng : ¬ Present kw a.name) : ∃ e, construct S Types.conv ci args kw = .error e := by
  cases hst : Kind.subTarget a.kind with
  | some t =>
    have hk : a.kind = .sub t := by cases hk : a.kind <;> simp_all [Kind.subTarget]
    exact C04_reject_required_sub S Types.conv ci c args kw a t hc ha hk hreq hng
  | none =>
    exact C04_reject_required_elem S Types.conv ci c args kw a hc ha hl hu hst hreq hng
      (conv_required_none S.enums a.kind hl hu hst)

/-- **C04 (required element or sub-aggregate omitted, tree route, real converters).** -/
theorem C04_reject_required_omitted_conv_tree (S : Schema) (tag : Str) (x tl : Option Str) (children : List Tree)
    (ci : Nat) (c : Cls) (a : Attr) (hf : S.findIdx? tag = some ci) (hc : S.cls? ci = some c)
    (hg : c.groom = none) (ha : a ∈ c.spec) (hl : a.kind.isList = false) (hu : a.kind.isUnsupported = false)
    (hreq : a.required = true) (hno : ∀ ch ∈ children, lower ch.tag ≠ a.name) :
    ∃ e, fromEtree S Types.conv (.node tag x tl children) = .error e :=
  C04_reject_required_omitted_tree S Types.conv tag x tl children ci c a hf hc hg ha hl hu hreq
    (fun hst => conv_required_none S.enums a.kind hl hu hst) hno

theorem mapM_error_of_mem {α β} (f : α → PyM β) (m : α) (hm : ∃ e, f m = .error e) :
    ∀ (l : List α) (out : List β), m ∈ l → List.mapM (m := PyM) f l ≠ .ok out := by
  intro l
  induction l with
  | nil => intro _ hmem; simp at hmem
  | cons x xs ih =>
    intro out hmem
    rw [List.mapM_cons]
    simp only [List.mem_cons] at hmem
    obtain ⟨e, he⟩ := hm
    rcases hmem with rfl | hmem
    · rw [he]; simp [bind, Except.bind]
    · cases hx : f x with
      | error e' => simp [bind, Except.bind]
      | ok y =>
        cases hxs : List.mapM (m := PyM) f xs with
        | error e' => simp [bind, Except.bind]
        | ok ys => exact absurd hxs (ih ys hmem)

/-- **C04 (permitted list member types, `ElementList`).** A member the list element's converter refuses makes the
    construction of an `ElementList` fail (any converter family). -/
theorem C04_reject_list_element_kw (S : Schema) (cv : Conv) (ci : Nat) (c : Cls) (args : List Node)
    (kw : List (Str × Node)) (a : Attr) (inner : Kind) (ireq : Bool) (m : Node) (hc : S.cls? ci = some c)
    (hel : c.elementList = true) (hfilt : c.spec.filter (fun a => a.kind.isListElem) = [a])
    (hk : a.kind = .listElem inner ireq) (hm : m ∈ args)
    (hbad : ∃ e, cv.convert S.enums inner ireq (Node.toVal m) = .error e) :
    ∃ e, construct S cv ci args kw = .error e := by
  apply not_ok_error
  intro n hn
  obtain ⟨c', _, items, hc', _, _, ha, _, _⟩ := (construct_ok_iff S cv ci args kw n).mp hn
  rw [hc] at hc'; injection hc' with hc'; subst hc'
  simp only [applyArgs, hel, if_true, hfilt, hk] at ha
  refine mapM_error_of_mem _ m ?_ args items hm ha
  obtain ⟨e, he⟩ := hbad
  exact ⟨e, by simp [he, Except.map]⟩

/-- … with the real converters: a member of an `ElementList` of `Integer(n)` with more than `n` digits is rejected
    (TAX1099MSGSETV1's `TAXYEARSUPPORTED`) -/
theorem C04_reject_overlimit_list_element_kw (S : Schema) (ci : Nat) (c : Cls) (args : List Node)
    (kw : List (Str × Node)) (a : Attr) (n : Nat) (ireq : Bool) (i : Int) (hc : S.cls? ci = some c)
    (hel : c.elementList = true) (hfilt : c.spec.filter (fun a => a.kind.isListElem) = [a])
    (hk : a.kind = .listElem (.integer (some n)) ireq) (hm : Node.val (.int i) ∈ args)
    (hover : 10 ^ n ≤ i.natAbs) : ∃ e, construct S Types.conv ci args kw = .error e := by
  apply C04_reject_list_element_kw S Types.conv ci c args kw a _ ireq _ hc hel hfilt hk hm
  refine ⟨.spec, ?_⟩
  simp only [Types.conv, Types.convert, Node.toVal, integerConvert, intEnforceLength]
  simp [hover, bind, Except.bind]

/-! ## 3. every instance that exists satisfies all constraints of its class (`ValidFull`) -/

/-- what the theorems below need of the schema: attribute names of a class are pairwise distinct, members of
    exactly-one groups are supported attributes (both are clauses of the generated obligation
    `Gen.schema_wf_except_known`; `Gen/C04Ext.lean` discharges them for every generated class) -/
def SchemaOk (S : Schema) : Prop :=
  ∀ ci c, S.cls? ci = some c → (c.spec.map (·.name)).Nodup ∧ ReqGroupsSupported c

/-- **C04 (consequence, keyword route, all constraint kinds, any depth).**  If `Cls(*args, **kwargs)` returns, with
    the real converters, and every instance handed in as a keyword or positional argument satisfies all constraints of
    its class all the way down, then so does the instance returned: required elements and sub-aggregates present,
    at most one member of every at-most-one group, exactly one of every exactly-one group, enumerated values in
    their sets, strict strings within their length, integers within their digits, sub-aggregates and list members
    of the declared classes, list-content rules of the hand-coded `validate_args`.  No guard on the arguments. -/
theorem C04_sound_full_kw (S : Schema) (hS : SchemaOk S) (ci : Nat) (args : List Node)
    (kw : List (Str × Node)) (n : Node) (h : construct S Types.conv ci args kw = .ok n)
    (hargs : ∀ m ∈ args, m.isAgg = true → ValidFull S m)
    (hkw : ∀ k v, (k, v) ∈ kw → v.isAgg = true → ValidFull S v) : ValidFull S n := by
  obtain ⟨c, _, _, hc, _⟩ := (construct_ok_iff S Types.conv ci args kw n).mp h
  obtain ⟨hnd, hsup⟩ := hS ci c hc
  exact validFull_of_construct S ci c args kw n h hc hnd hsup hargs hkw

/-- one level, no premise on the group members: no group, at-most-one or exactly-one, ever has two members set, and
    the instance is valid at its level as soon as its exactly-one groups have a member -/
theorem C04_sound_kw_groups_atmost (S : Schema) (ci : Nat) (c : Cls) (args : List Node)
    (kw : List (Str × Node)) (fields : List (Str × Node)) (items : List Node)
    (h : construct S Types.conv ci args kw = .ok (.agg ci fields items)) (hc : S.cls? ci = some c)
    (hnd : (c.spec.map (·.name)).Nodup) :
    (∀ g ∈ c.optMutex ++ c.reqMutex, mutexCount fields g ≤ 1) ∧
    ((∀ g ∈ c.reqMutex, mutexCount fields g = 1) → NodeFull S c ci fields items) :=
  let ⟨⟨h1, h2⟩, _⟩ := nodeFull_of_construct S ci c args kw fields items h hc hnd
  ⟨h2, h1⟩

/-- **C04 (exactly-one groups, the empty text, keyword route).** A description in which the only member of an
    exactly-one group that is passed at all is the empty text `""` (every other member absent or `None`) is rejected:
    an empty text does not count as a member given.  (Before the repair of `enforce_count` it was counted, and the
    instance built held no member of the group.) -/
theorem C04_reject_reqmutex_empty_text_kw (S : Schema) (cv : Conv) (ci : Nat) (c : Cls) (args : List Node)
    (kw : List (Str × Node)) (g : List Str) (m0 : Str) (hc : S.cls? ci = some c) (hg : g ∈ c.reqMutex)
    (hm0 : lookup m0 kw = some (.val (.str [])))
    (hothers : ∀ m ∈ g, m ≠ m0 → ¬ Present kw m) : ∃ e, construct S cv ci args kw = .error e := by
  apply C04_reject_reqmutex_none S cv ci c args kw g hc hg
  intro m hm hgiven
  by_cases hmm : m = m0
  · subst hmm
    obtain ⟨v, hl, hv⟩ := hgiven
    rw [hm0] at hl; injection hl with hl; subst hl
    simp [given] at hv
  · exact hothers m hm hmm (Present_of_Given hgiven)

/-- … and in an at-most-one group an empty text next to a given member is no conflict as far as the group is
    concerned: the count of the group is that of the other members -/
theorem C04_empty_text_not_counted (kw : List (Str × Node)) (g : List Str)
    (h : ∀ m ∈ g, Given kw m → False) : mutexCount kw g = 0 :=
  mutexCount_zero kw g (fun m hm hg => h m hm hg)

mutual
  /-- **C04 (consequence, tree route, all constraint kinds, any depth).**  Every instance `from_etree` returns, with
      the real converters, satisfies all constraints of its class, and so does every instance nested in it, at
      any depth. -/
  theorem C04_sound_full_tree (S : Schema) (hS : SchemaOk S) : ∀ (t : Tree) (n : Node),
      fromEtree S Types.conv t = .ok n → ValidFull S n
    | .node tag x tl children, n, h => by
      have ih := C04_sound_full_children S hS children
      simp only [fromEtree, convertNode] at h
      split at h
      · cases h
      · rename_i ci _
        split at h
        · cases h
        · rename_i c hc
          obtain ⟨hnd, hsup⟩ := hS ci c hc
          split at h
          · exact validFull_of_construct S ci c [] [] n h hc hnd hsup
              (fun _ hm => by cases hm) (fun _ _ hm => by cases hm)
          · obtain ⟨acc, hfold, h⟩ := bind_ok h
            -- every argument collected is `None`, a text, or a valid instance
            have hP := foldChildren_vals c (fun v => v.isAgg = true → ValidFull S v)
              (fun hh => (by cases hh))
              children (childInsts S Types.conv children) Accum.init acc hfold
              (by
                intro ch sub hm v hv
                obtain ⟨hch, hsub⟩ := mem_zip_childInsts S Types.conv children ch sub hm
                rcases childValue_cases ch sub v hv with ⟨t0, ts, rfl⟩ | hok
                · exact fun hh => (by cases hh)
                · rw [hsub] at hok
                  exact fun _ => ih ch hch v hok)
              (by intro k v hm; cases hm) (by intro m hm; cases hm)
            exact validFull_of_construct S ci c acc.args acc.kwargs n h hc hnd hsup
              (fun m hm => hP.2 m hm) (fun k v hm => hP.1 k v hm)
  theorem C04_sound_full_children (S : Schema) (hS : SchemaOk S) : ∀ (ts : List Tree), ∀ ch ∈ ts, ∀ n,
      fromEtree S Types.conv ch = .ok n → ValidFull S n
    | [], ch, hm, _, _ => by cases hm
    | t :: ts, ch, hm, n, h => by
      rcases List.mem_cons.mp hm with heq | hm'
      · rw [heq] at h; exact C04_sound_full_tree S hS t n h
      · exact C04_sound_full_children S hS ts ch hm' n h
end

/-- what `ValidFull` says about one instance, spelled out: the declared groups hold on the values the instance
    stores (not only on the keywords it was given) -/
theorem C04_validFull_groups (S : Schema) (ci : Nat) (fields : List (Str × Node)) (items : List Node)
    (h : ValidFull S (.agg ci fields items)) :
    ∃ c, S.cls? ci = some c ∧ (∀ g ∈ c.optMutex, mutexCount fields g ≤ 1) ∧
      (∀ g ∈ c.reqMutex, mutexCount fields g = 1) ∧ FieldsMatch (FieldFull S) (specNoList c) fields ∧
      ItemsFull S c items := by
  obtain ⟨⟨c, hn⟩, _, _⟩ := h
  exact ⟨c, hn.hc, hn.opt, hn.req, hn.fm, hn.members⟩

/-- … and every nested instance is valid as well (arbitrary depth, by iteration) -/
theorem C04_validFull_nested (S : Schema) (ci : Nat) (fields : List (Str × Node)) (items : List Node)
    (h : ValidFull S (.agg ci fields items)) :
    (∀ k v, (k, v) ∈ fields → v.isAgg = true → ValidFull S v) ∧ (∀ m ∈ items, m.isAgg = true → ValidFull S m) := by
  obtain ⟨_, hf, hi⟩ := h
  exact ⟨fullFields_mem S fields hf, fullItems_mem S items hi⟩

/-- groups declared anywhere in the class's bases hold too, for every class in which the declared groups are in
    force (the generated obligation `WF.mutexOk`; it fails for the recorded classes whose `Origcurrency` group is
    shadowed) -/
theorem C04_validFull_declared_groups (S : Schema) (ci : Nat) (c : Cls) (fields : List (Str × Node))
    (items : List Node) (h : ValidFull S (.agg ci fields items)) (hc : S.cls? ci = some c)
    (hdo : ∀ g ∈ c.declOptMutex, g ∈ c.optMutex) (hdr : ∀ g ∈ c.declReqMutex, g ∈ c.reqMutex) :
    (∀ g ∈ c.declOptMutex, mutexCount fields g ≤ 1) ∧ (∀ g ∈ c.declReqMutex, mutexCount fields g = 1) := by
  obtain ⟨⟨c', hn⟩, _, _⟩ := h
  have : c' = c := by have := hn.hc; rw [hc] at this; injection this with this; exact this.symm
  subst this
  exact ⟨fun g hg => hn.opt g (hdo g hg), fun g hg => hn.req g (hdr g hg)⟩


/-! ## 4. the hand-coded `validate_args` rules, both routes -/

/-- **C04 (hand-coded rules, keyword route).** A description that violates the class's hand-coded rule — in any of
    the ways `ExtraViolates` lists, one per rule kind — is rejected. -/
theorem C04_reject_extra_kw (S : Schema) (cv : Conv) (ci : Nat) (c : Cls) (args : List Node)
    (kw : List (Str × Node)) (hc : S.cls? ci = some c) (hv : ExtraViolates S c.extra args kw) :
    ∃ e, construct S cv ci args kw = .error e := by
  obtain ⟨e, he⟩ := extraRule_error_of_violates S c.extra args kw hv
  exact ⟨e, construct_error_of_validate S cv ci c args kw hc e (by simp [validateArgs, he, bind, Except.bind])⟩

/-- **C04 (hand-coded rules, tree route).** A document whose children, as the reader collects them, violate the
    class's hand-coded rule is rejected. -/
theorem C04_reject_extra_tree (S : Schema) (cv : Conv) (tag : Str) (x tl : Option Str) (children : List Tree)
    (ci : Nat) (c : Cls) (hf : S.findIdx? tag = some ci) (hc : S.cls? ci = some c)
    (hempty : children = [] → ExtraViolates S c.extra [] [])
    (hv : ∀ acc, foldChildren c children (childInsts S cv children) Accum.init = .ok acc →
      ExtraViolates S c.extra acc.args acc.kwargs) :
    ∃ e, fromEtree S cv (.node tag x tl children) = .error e := by
  apply not_ok_error
  intro n hn
  simp only [fromEtree, convertNode, hf, hc] at hn
  split at hn
  · rename_i hemp
    obtain ⟨e, he⟩ := C04_reject_extra_kw S cv ci c [] [] hc (hempty (by simpa using hemp))
    rw [hn] at he; cases he
  · obtain ⟨acc, hfold, hn⟩ := bind_ok hn
    obtain ⟨e, he⟩ := C04_reject_extra_kw S cv ci c acc.args acc.kwargs hc (hv acc hfold)
    rw [hn] at he; cases he

/-- the keywords the reader collects are exactly the (lower-cased) tags of the known non-repeated children -/
theorem fold_keys (S : Schema) (cv : Conv) (c : Cls) (hg : c.groom = none) (children : List Tree) (acc : Accum)
    (hfold : foldChildren c children (childInsts S cv children) Accum.init = .ok acc) :
    (∀ k ∈ acc.kwargs.map (·.1), ∃ ch ∈ children, lower ch.tag = k) ∧
    (∀ ch ∈ children, '.' ∉ ch.tag → (∃ idx, specIndex c (lower ch.tag) = some idx) →
      isListMember c (lower ch.tag) = false → lower ch.tag ∈ acc.kwargs.map (·.1)) := by
  constructor
  · intro k hk
    obtain ⟨⟨k', v⟩, hm, rfl⟩ := List.mem_map.mp hk
    rcases foldChildren_origin c hg children _ Accum.init acc hfold k' v hm with h0 | ⟨ch, sub, _, hmem, _, hn, _⟩
    · simp [Accum.init] at h0
    · exact ⟨ch, (mem_zip_childInsts S cv children ch sub hmem).1, hn⟩
  · intro ch hch hdot ⟨idx, hidx⟩ hnl
    obtain ⟨pre, post, rfl⟩ := List.append_of_mem hch
    rw [childInsts_append] at hfold
    simp only [childInsts] at hfold
    obtain ⟨acc1, acc2, hstep, hrest⟩ := foldChildren_mid c ch _ pre post _ _ Accum.init acc
      (childInsts_length S cv pre) hfold
    have hk2 := updateArgs_known_key c acc1 acc2 ch _ idx hg hdot hidx hnl hstep
    exact (hasKey_iff_mem _ _).mp (foldChildren_hasKey c hg post _ acc2 acc hrest _ hk2)

/-- **C04 ("at least one member", tree route).** A document of a class whose rule demands a list member (MSGSETLIST,
    MFACHALLENGERS, CONTRIBINFO, ACCTINFO, the TAX1099 message sets, …) none of whose children is a repeated child
    is rejected. -/
theorem C04_reject_no_member_tree (S : Schema) (cv : Conv) (tag : Str) (x tl : Option Str) (children : List Tree)
    (ci : Nat) (c : Cls) (hf : S.findIdx? tag = some ci) (hc : S.cls? ci = some c) (hg : c.groom = none)
    (hneeds : needsMember c.extra = true)
    (hno : ∀ ch ∈ children, isListMember c (lower ch.tag) = false) :
    ∃ e, fromEtree S cv (.node tag x tl children) = .error e := by
  apply C04_reject_extra_tree S cv tag x tl children ci c hf hc (fun _ => .noMember _ _ hneeds)
  intro acc hfold
  have hargs : acc.args = [] := by
    cases hacc : acc.args with
    | nil => rfl
    | cons m r =>
      rcases foldChildren_args_origin c hg children _ Accum.init acc hfold m (by rw [hacc]; simp) with
        h0 | ⟨ch, sub, hmem, _, hl, _⟩
      · simp [Accum.init] at h0
      · rw [hno ch (mem_zip_childInsts S cv children ch sub hmem).1] at hl; cases hl
  rw [hargs]
  exact .noMember _ _ hneeds

/-- **C04 (TAX1099R_V100's rule, tree route)**, as an instance of the key-based rules: a document with one of the
    children GROSSDIST, TAXAMT, FEDTAXWH, STTAXWH, LCLTAXWH (known, non-repeated) and no IRASEPSIMP child is
    rejected. -/
theorem C04_reject_tax1099r_tree (S : Schema) (cv : Conv) (tag : Str) (x tl : Option Str) (children : List Tree)
    (ci : Nat) (c : Cls) (hf : S.findIdx? tag = some ci) (hc : S.cls? ci = some c) (hg : c.groom = none)
    (hx : c.extra = .tax1099r) (ch : Tree) (t : String) (hch : ch ∈ children)
    (ht : t ∈ ["grossdist", "taxamt", "fedtaxwh", "sttaxwh", "lcltaxwh"]) (htag : lower ch.tag = t.toList)
    (hdot : '.' ∉ ch.tag) (hidx : ∃ idx, specIndex c (lower ch.tag) = some idx)
    (hnl : isListMember c (lower ch.tag) = false)
    (hno : ∀ ch' ∈ children, lower ch'.tag ≠ "irasepsimp".toList) :
    ∃ e, fromEtree S cv (.node tag x tl children) = .error e := by
  apply C04_reject_extra_tree S cv tag x tl children ci c hf hc
  · intro he; subst he; cases hch
  · intro acc hfold
    obtain ⟨hk1, hk2⟩ := fold_keys S cv c hg children acc hfold
    rw [hx]
    refine .tax1099r _ _ t ht (by rw [← htag]; exact hk2 ch hch hdot hidx hnl) ?_
    intro hmem
    obtain ⟨ch', hch', hn⟩ := hk1 _ hmem
    exact hno ch' hch' hn

end Ofx.Agg

/-! ## non-vacuity: every guard above is satisfiable (a three-class schema; the generated schema's own instances
    are in `Gen/C04Ext.lean` and `Gen/C04ExtW.lean`) -/

namespace Ofx.Agg.C04ExtEx
open Ofx Ofx.Agg Ofx.Types

def mkCls (name : String) (spec : List Attr) (req : List (List Str)) (extra : ExtraRule) : Cls :=
  { name := name.toList, exported := true, abstract := false, ancestors := [], spec := spec, optMutex := [],
    reqMutex := req, declOptMutex := [], declReqMutex := req, elementList := false, extra := extra,
    groom := none, ungroom := none }

/-- `P`: a required `String(3)`, an `Integer(2)` and a `OneOf` in an exactly-one group, repeated `Q` children, a
    trailing optional string -/
def clsP : Cls := mkCls "P"
  [⟨"a".toList, .string (some 3) true, true⟩, ⟨"n".toList, .integer (some 2), false⟩,
   ⟨"k".toList, .oneOf 0, false⟩, ⟨"q".toList, .listAgg 1, false⟩, ⟨"z".toList, .string none true, false⟩]
  [["n".toList, "k".toList]] .none
def clsQ : Cls := mkCls "Q" [⟨"b".toList, .bool, true⟩] [] .none
/-- `R`: repeated `Q` children, at least one (the MSGSETLIST rule) -/
def clsR : Cls := mkCls "R" [⟨"q".toList, .listAgg 1, false⟩] [] .msgsetlist
/-- `T`: an `ElementList` of `Integer(4)` (TAX1099MSGSETV1's shape) -/
def clsT : Cls := { mkCls "T" [⟨"y".toList, .listElem (.integer (some 4)) false, false⟩] [] .none with elementList := true }
def exS : Schema := { classes := [clsP, clsQ, clsR, clsT], enums := [["X".toList, "Y".toList]] }

def leaf (t v : String) : Tree := .node t.toList (some v.toList) none []
def qDoc : Tree := .node "Q".toList none none [leaf "B" "Y"]
def qInst : Node := .agg 1 [("b".toList, .val (.bool true))] []

theorem exS_ok : SchemaOk exS := by
  intro ci c hc
  match ci, hc with
  | 0, hc => injection hc with hc; subst hc; exact ⟨by decide, by
      intro g _ m _ a ha _
      simp [clsP, mkCls] at ha
      rcases ha with rfl | rfl | rfl | rfl | rfl <;> rfl⟩
  | 1, hc => injection hc with hc; subst hc; exact ⟨by decide, by intro g hg; cases hg⟩
  | 2, hc => injection hc with hc; subst hc; exact ⟨by decide, by intro g hg; cases hg⟩
  | 3, hc => injection hc with hc; subst hc; exact ⟨by decide, by intro g hg; cases hg⟩
  | _ + 4, hc => simp [Schema.cls?, exS] at hc

/-- order, adjacent: a repeated `Q` followed by the non-repeated `A` (position 3, then 0) -/
example : ∃ e, fromEtree exS Types.conv (.node "P".toList none none ([] ++ qDoc :: ([] ++ leaf "A" "abc" :: []))) = .error e :=
  C04_reject_adjacent_out_of_order exS Types.conv _ none none [] [] [] qDoc (leaf "A" "abc") 0 clsP 3 0
    rfl rfl rfl (by simp) (by decide) (by decide) (by decide) (by decide) (by decide) (by decide)

/-- order, any distance: `Q` (repeated, 3) … `Z` (4) … `N` (1); `lo = 1` -/
example : ∃ e, fromEtree exS Types.conv
    (.node "P".toList none none ([] ++ qDoc :: ([leaf "Z" "z"] ++ leaf "N" "5" :: []))) = .error e :=
  C04_reject_out_of_order_gen exS Types.conv _ none none [] [leaf "Z" "z"] [] qDoc (leaf "N" "5") 0 clsP 3 1 1
    rfl rfl rfl (by decide)
    (by
      intro i q ai aq hi hil hij _ _
      have : i = 0 := by omega
      subst this
      simp [clsP, mkCls] at hi; subst hi; simp [Kind.isList] at hil)
    (by decide) (by decide) (by decide) (by decide) (by decide) (by decide) (by decide)

def kwAt : List (Str × Node) := [("a".toList, .val (.str "abc".toList)), ("n".toList, .val (.int 99))]

theorem othersOk (a : Attr) (kw : List (Str × Node))
    (hv : validateArgs exS clsP [qInst] kw = .ok ()) (hr : applyResidual clsP kw = .ok ())
    (ho : ∀ b ∈ specNoList clsP, b ≠ a → ∃ o, setAttr exS Types.conv b ((lookup b.name kw).getD (.val .none)) = .ok o) :
    OthersOk exS Types.conv clsP [qInst] kw a := ⟨hv, ⟨[qInst], rfl⟩, hr, ho⟩

/-- string: four characters refused, three accepted and held -/
example : ∃ e, construct exS Types.conv 0 [] [("a".toList, .val (.str "abcd".toList))] = .error e :=
  C04_reject_overlong_string_kw exS 0 clsP [] _ ⟨"a".toList, .string (some 3) true, true⟩ 3 "abcd".toList
    rfl (by simp [clsP, mkCls]) rfl rfl (by decide)

example : ∃ fields items, construct exS Types.conv 0 [qInst] kwAt = .ok (.agg 0 fields items) ∧
    lookup "a".toList fields = some (.val (.str "abc".toList)) :=
  C04_accept_at_limit_string_kw exS 0 clsP [qInst] kwAt ⟨"a".toList, .string (some 3) true, true⟩ 3 "abc".toList
    rfl (by decide) (by simp [clsP, mkCls]) rfl rfl (by decide) (by decide)
    (othersOk _ _ rfl rfl (by
      intro b hb hne
      simp only [specNoList, clsP, mkCls, List.filter, Kind.isList, Bool.not_false, Bool.not_true,
        List.mem_cons, List.not_mem_nil, or_false] at hb
      rcases hb with rfl | rfl | rfl | rfl
      · exact absurd rfl hne
      · exact ⟨_, rfl⟩
      · exact ⟨_, rfl⟩
      · exact ⟨_, rfl⟩))

example : ∃ e, fromEtree exS Types.conv (.node "P".toList none none ([] ++ leaf "A" "ab&amp;cd" :: [])) = .error e :=
  C04_reject_overlong_string_tree exS _ none none [] [] (leaf "A" "ab&amp;cd") 0 clsP
    ⟨"a".toList, .string (some 3) true, true⟩ 3 "ab&amp;cd".toList rfl rfl rfl (by decide) (by simp [clsP, mkCls]) (by decide)
    (by decide) rfl rfl (by decide)

/-- integer: `100` and `-100` refused by `Integer(2)`, `99` accepted (above) -/
example : ∃ e, construct exS Types.conv 0 [] [("n".toList, .val (.int (-100)))] = .error e :=
  C04_reject_overlimit_integer_kw exS 0 clsP [] _ ⟨"n".toList, .integer (some 2), false⟩ 2 (-100) _
    rfl (by simp [clsP, mkCls]) rfl rfl (Or.inl rfl) (by decide)

example : ∃ e, fromEtree exS Types.conv (.node "P".toList none none ([leaf "A" "abc"] ++ leaf "N" "100" :: [])) = .error e :=
  C04_reject_overlimit_integer_tree exS _ none none [leaf "A" "abc"] [] (leaf "N" "100") 0 clsP
    ⟨"n".toList, .integer (some 2), false⟩ 2 "100".toList 100 rfl rfl rfl (by decide) (by simp [clsP, mkCls]) (by decide)
    (by decide) rfl rfl (by decide) (by decide)

example : ∃ fields items, construct exS Types.conv 0 [qInst] kwAt = .ok (.agg 0 fields items) ∧
    lookup "n".toList fields = some (.val (.int 99)) :=
  C04_accept_at_limit_integer_kw exS 0 clsP [qInst] kwAt ⟨"n".toList, .integer (some 2), false⟩ 2 99 _
    rfl (by decide) (by simp [clsP, mkCls]) rfl rfl (Or.inl rfl) (by decide)
    (othersOk _ _ rfl rfl (by
      intro b hb hne
      simp only [specNoList, clsP, mkCls, List.filter, Kind.isList, Bool.not_false, Bool.not_true,
        List.mem_cons, List.not_mem_nil, or_false] at hb
      rcases hb with rfl | rfl | rfl | rfl
      · exact ⟨_, rfl⟩
      · exact absurd rfl hne
      · exact ⟨_, rfl⟩
      · exact ⟨_, rfl⟩))

/-- enumeration: `W` is foreign to `{X, Y}` -/
example : ∃ e, construct exS Types.conv 0 [] [("k".toList, .val (.str "W".toList))] = .error e :=
  C04_reject_foreign_token_kw exS 0 clsP [] _ ⟨"k".toList, .oneOf 0, false⟩ 0 _ "W".toList
    rfl (by simp [clsP, mkCls]) rfl rfl rfl (by decide) (by decide)

example : ∃ e, fromEtree exS Types.conv (.node "P".toList none none ([leaf "A" "abc"] ++ leaf "K" "W" :: [])) = .error e :=
  C04_reject_foreign_token_tree exS _ none none [leaf "A" "abc"] [] (leaf "K" "W") 0 clsP
    ⟨"k".toList, .oneOf 0, false⟩ 0 _ 'W' [] rfl rfl rfl (by decide) (by simp [clsP, mkCls]) (by decide)
    (by decide) rfl rfl rfl (by decide)

/-- a document the reader accepts, and the instance it yields: valid all the way down -/
def pDoc : Tree := .node "P".toList none none [leaf "A" "abc", leaf "K" "X", qDoc, qDoc]
def pInst : Node :=
  .agg 0 [("a".toList, .val (.str "abc".toList)), ("n".toList, .val .none), ("k".toList, .val (.str "X".toList)),
          ("z".toList, .val .none)] [qInst, qInst]

theorem pDoc_read : fromEtree exS Types.conv pDoc = .ok pInst := by rfl

example : ValidFull exS pInst := C04_sound_full_tree exS exS_ok pDoc pInst pDoc_read

example : ValidFull exS pInst :=
  C04_sound_full_kw exS exS_ok 0 [qInst, qInst]
    [("a".toList, .val (.str "abc".toList)), ("k".toList, .val (.str "X".toList))] pInst (by rfl)
    (by
      intro m hm _
      have : m = qInst := by simp at hm; exact hm
      subst this
      exact C04_sound_full_tree exS exS_ok qDoc qInst (by rfl))
    (by intro k v hm hagg; simp at hm; rcases hm with ⟨_, rfl⟩ | ⟨_, rfl⟩ <;> cases hagg)

/-- the former counter-example: `P(a="abc", n="")` — the empty text is the only member of the exactly-one group
    `{n, k}` passed — is now rejected -/
example : ∃ e, construct exS Types.conv 0 []
    [("a".toList, .val (.str "abc".toList)), ("n".toList, .val (.str []))] = .error e :=
  C04_reject_reqmutex_empty_text_kw exS Types.conv 0 clsP [] _ ["n".toList, "k".toList] "n".toList rfl (by decide) rfl
    (by
      intro m hm hne
      simp only [List.mem_cons, List.not_mem_nil, or_false] at hm
      rcases hm with rfl | rfl
      · exact absurd rfl hne
      · rintro ⟨v, h, _⟩; simp [lookup] at h)

/-- the required `A` omitted, on both routes -/
example : ∃ e, construct exS Types.conv 0 [] [("n".toList, .val (.int 1))] = .error e :=
  C04_reject_required_omitted_conv_kw exS 0 clsP [] _ ⟨"a".toList, .string (some 3) true, true⟩ rfl
    (by simp [clsP, mkCls]) rfl rfl rfl (by rintro ⟨v, h, _⟩; simp [lookup] at h)

example : ∃ e, fromEtree exS Types.conv (.node "P".toList none none [leaf "N" "1"]) = .error e :=
  C04_reject_required_omitted_conv_tree exS _ none none _ 0 clsP ⟨"a".toList, .string (some 3) true, true⟩ rfl rfl rfl
    (by simp [clsP, mkCls]) rfl rfl rfl (by decide)

/-- a five-digit member of an `ElementList` of `Integer(4)` -/
example : ∃ e, construct exS Types.conv 3 [.val (.int 2020), .val (.int 12345)] [] = .error e :=
  C04_reject_overlimit_list_element_kw exS 3 clsT _ [] ⟨"y".toList, .listElem (.integer (some 4)) false, false⟩ 4 false
    12345 rfl rfl rfl rfl (by simp) (by decide)

/-- an accepted document is ordered -/
example : 0 < 2 ∨ (isListMember clsP (lower (leaf "A" "abc").tag) = true ∧
    isListMember clsP (lower (leaf "K" "X").tag) = true) :=
  (C04_accepted_ordered exS Types.conv "P".toList none none [] [] [qDoc, qDoc] (leaf "A" "abc") (leaf "K" "X") 0 clsP
    0 2 pInst rfl rfl rfl (by decide) (by decide) (by decide) (by decide) pDoc_read).1 (by simp)

/-- hand-coded rules: `R()` without a member, on both routes -/
example : ∃ e, construct exS Types.conv 2 [] [] = .error e :=
  C04_reject_extra_kw exS Types.conv 2 clsR [] [] rfl (.noMember _ _ rfl)

example : ∃ e, fromEtree exS Types.conv (.node "R".toList none none [leaf "VENDOR.X" "1"]) = .error e :=
  C04_reject_no_member_tree exS Types.conv _ none none _ 2 clsR rfl rfl rfl rfl (by decide)

end Ofx.Agg.C04ExtEx

