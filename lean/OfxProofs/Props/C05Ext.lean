/-
C05 (extension) — the exact boundary of the tolerated layouts.

* leading blank lines: seven are accepted (`C05_exact_full`), eight or more are refused with the header error
  (`C05_eight_blank_lines_refused`);
* after a colon every ASCII whitespace character except the line feed is tolerated — not only blank and tab
  (`C05_exact_v1_any_blank`: space, tab, VT, FF, CR, FS, GS, RS, US); the body is handed over exactly;
* a line feed after one of the first eight colons of a nine-line header pushes `NEWFILEUID` out of the nine lines
  that are read: refused (`C05_lf_after_colon_refused`, from `C05_beyond_nine_lines_refused`);
* an XML declaration split over two lines (a line feed anywhere between `<?xml` and `?>`) is refused
  (`C05_xml_split_refused`, from `C05_no_header_start_refused`); a carriage return alone there is tolerated.
-/
import OfxProofs.Props.C12Ext

namespace Ofx.Header
open Ofx Ofx.Codec Ofx.Spec.HeaderLayout

/-! ### leading blank lines -/

/-- one blank line is consumed by one turn of the `for _ in range(8)` loop -/
theorem findHeader_blank_step (file : Bytes) (l : Str) (hl : wsNoLF l = true) (fuel pos : Nat) (X : Bytes)
    (hX : file.drop pos = asciiBytes (l ++ ['\n']) ++ X) :
    findHeader file (fuel + 1) pos = findHeader file fuel (pos + (l.length + 1)) := by
  obtain ⟨hs, ha, hn⟩ := wsNoLF_spec l hl
  have e1 : file.drop pos = asciiBytes l ++ (10 :: X) := by
    rw [hX, asciiBytes_append]
    simp [asciiBytes, byteOf_10]
  have hline : splitLine (file.drop pos) = asciiBytes (l ++ ['\n']) := by
    rw [e1, splitLine_noLF l _ ha hn, splitLine_cons, if_pos rfl, asciiBytes_append]
    simp [asciiBytes, byteOf_10]
  have hasc : isAscii (l ++ ['\n']) := isAscii_append.2 ⟨ha, by intro c hc; simp at hc; subst hc; decide⟩
  have hstrip : strip (l ++ ['\n']) = [] := strip_allSpace _ (by
    intro c hc
    simp only [List.mem_append, List.mem_singleton] at hc
    rcases hc with hc | hc
    · exact hs c hc
    · subst hc; decide)
  rw [findHeader]
  simp only [readline, hline, show decodeAsciiReplace (asciiBytes (l ++ ['\n'])) = l ++ ['\n'] from chars_asciiBytes _ hasc,
    hstrip, List.isEmpty_nil, if_true]
  congr 1
  simp [asciiBytes_length]

/-- when the blank lines outnumber the turns of the loop, the loop runs out -/
theorem findHeader_exhaust (file : Bytes) (leading : List Str) (hl : ∀ l ∈ leading, wsNoLF l = true) :
    ∀ fuel pos X, file.drop pos = asciiBytes (leadingText leading) ++ X → fuel ≤ leading.length →
      findHeader file fuel pos = .error .header := by
  induction leading with
  | nil => intro fuel pos X _ hf; simp at hf; subst hf; rfl
  | cons l ls ih =>
    intro fuel pos X hX hf
    cases fuel with
    | zero => rfl
    | succ f =>
      have hX' : file.drop pos = asciiBytes (l ++ ['\n']) ++ (asciiBytes (leadingText ls) ++ X) := by
        rw [hX, leadingText]; simp [asciiBytes]
      rw [findHeader_blank_step file l (hl l (by simp)) f pos _ hX']
      apply ih (fun x hx => hl x (by simp [hx])) f _ X
      · rw [← List.drop_drop, hX']
        have : (asciiBytes (l ++ ['\n'])).length = l.length + 1 := by simp [asciiBytes_length]
        rw [← this]
        exact List.drop_left' rfl
      · simpa using hf

/-- **C05_eight_blank_lines_refused**: a file that starts with eight or more blank lines (each any ASCII
    whitespace without line feed, then LF) is refused with the header error, whatever follows — a complete valid
    header included.  With seven the header is read (`C05_exact_full`): the bound of the layout guard is exact. -/
theorem C05_eight_blank_lines_refused (p1 : V1P) (p2 : V2P) (tbl : List (Option Nat)) (leading : List Str)
    (rest : Bytes) (hlen : 8 ≤ leading.length) (hl : ∀ l ∈ leading, wsNoLF l = true) :
    parseHeader p1 p2 tbl (asciiBytes (leadingText leading) ++ rest) = .error .header := by
  unfold parseHeader
  rw [findHeader_exhaust _ leading hl 8 0 rest (by simp) hlen]
  rfl

/-- the guard is satisfiable: eight empty lines (or lines of blanks and carriage returns) before a valid header -/
example : (8 ≤ (List.replicate 8 ([] : Str)).length ∧ ∀ l ∈ List.replicate 8 ([] : Str), wsNoLF l = true) ∧
    (8 ≤ (List.replicate 9 " \r".toList).length ∧ ∀ l ∈ List.replicate 9 " \r".toList, wsNoLF l = true) := by
  decide +kernel

/-- … in particular for every file `renderFile` writes from a layout with eight or more leading blank lines -/
theorem C05_eight_blank_lines_refused_v1 (p1 : V1P) (p2 : V2P) (tbl : List (Option Nat)) (lay : V1Lay) (f : V1File)
    (bb : Bytes) (hlen : 8 ≤ lay.leading.length) (hl : lay.leading.all wsNoLF = true) :
    parseHeader p1 p2 tbl (renderFile (.v1 lay f) bb) = .error .header := by
  have e : renderFile (.v1 lay f) bb =
      asciiBytes (leadingText lay.leading) ++ (asciiBytes (lay.indent ++ v1Fields lay f) ++ bb) := by
    simp [renderFile, renderV1, v1Text, asciiBytes_append]
  rw [e]
  exact C05_eight_blank_lines_refused p1 p2 tbl _ _ hlen (by simpa [List.all_eq_true] using hl)

theorem C05_eight_blank_lines_refused_v2 (p1 : V1P) (p2 : V2P) (tbl : List (Option Nat)) (lay : V2Lay) (h : V2)
    (bb : Bytes) (hlen : 8 ≤ lay.leading.length) (hl : lay.leading.all wsNoLF = true) :
    parseHeader p1 p2 tbl (renderFile (.v2 lay h) bb) = .error .header := by
  have e : renderFile (.v2 lay h) bb =
      asciiBytes (leadingText lay.leading) ++ (asciiBytes (v2Xml lay ++ (lay.afterXml ++ v2Ofx lay h)) ++ bb) := by
    simp [renderFile, renderV2, v2Text, asciiBytes_append]
  rw [e]
  exact C05_eight_blank_lines_refused p1 p2 tbl _ _ hlen (by simpa [List.all_eq_true] using hl)

/-! ### whitespace after a colon: every ASCII whitespace character but the line feed -/

/-- like `LayOk`, with the blanks after the colons any ASCII whitespace without line feed -/
structure LayOkW (lay : V1Lay) : Prop where
  leadingLen : lay.leading.length ≤ 7
  leading : ∀ l ∈ lay.leading, wsNoLF l = true
  indent : wsNoLF lay.indent = true
  b1 : wsNoLF lay.ofxheader.blank = true
  b2 : wsNoLF lay.data.blank = true
  b3 : wsNoLF lay.version.blank = true
  b4 : wsNoLF lay.security.blank = true
  b5 : wsNoLF lay.encoding.blank = true
  b6 : wsNoLF lay.charset.blank = true
  b7 : wsNoLF lay.compression.blank = true
  b8 : wsNoLF lay.oldfileuid.blank = true
  b9 : wsNoLF lay.newBlank = true
  gap : lay.gap.all isAsciiSpace = true

theorem ofLay_ok_W (p : V1P) (lay : V1Lay) (f : V1File) (lo : LayOkW lay) (hv : ValidV1 p f.h) :
    (V1W.ofLay lay f).Ok ∧ (V1W.ofLay lay f).NoLF := by
  have d1 := (pyStrInt_small _ hv.oh0.1 hv.oh0.2).1
  have d3 := (pyStrInt_small _ hv.ver0.1 hv.ver0.2).1
  constructor
  · refine { indent := (wsNoLF_spec _ lo.indent).1, b1 := (wsNoLF_spec _ lo.b1).1, b2 := (wsNoLF_spec _ lo.b2).1,
             b3 := (wsNoLF_spec _ lo.b3).1, b4 := (wsNoLF_spec _ lo.b4).1, b5 := (wsNoLF_spec _ lo.b5).1,
             b6 := (wsNoLF_spec _ lo.b6).1, b8 := (wsNoLF_spec _ lo.b8).1, b9 := (wsNoLF_spec _ lo.b9).1,
             w1 := (sep_spec _).1, w2 := (sep_spec _).1, w3 := (sep_spec _).1, w4 := (sep_spec _).1,
             w5 := (sep_spec _).1, w6 := (sep_spec _).1, w8 := (sep_spec _).1,
             v1 := d1, v2 := hv.data.2, v3 := d3, v4 := hv.sec.2, v5 := hv.enc.2, v6 := hv.cs.2,
             v8 := hv.old.1, v9 := hv.new.1, comp := ?_ }
    intro b v w h
    simp only [V1W.ofLay] at h
    split at h
    · simp at h
      rw [← h.1, ← h.2.1, ← h.2.2]
      exact ⟨(wsNoLF_spec _ lo.b7).1, hv.comp.2, (sep_spec _).1⟩
    · cases h
  · refine { b1 := (wsNoLF_spec _ lo.b1).2.2, b2 := (wsNoLF_spec _ lo.b2).2.2, b3 := (wsNoLF_spec _ lo.b3).2.2,
             b4 := (wsNoLF_spec _ lo.b4).2.2, b5 := (wsNoLF_spec _ lo.b5).2.2, b6 := (wsNoLF_spec _ lo.b6).2.2,
             b8 := (wsNoLF_spec _ lo.b8).2.2, b9 := (wsNoLF_spec _ lo.b9).2.2, bc := ?_ }
    intro b v w h
    simp only [V1W.ofLay] at h
    split at h
    · simp at h
      rw [← h.1]
      exact (wsNoLF_spec _ lo.b7).2.2
    · cases h

theorem ofLay_ascii_W (p : V1P) (lay : V1Lay) (f : V1File) (lo : LayOkW lay) (hv : ValidV1 p f.h) :
    isAscii ((V1W.ofLay lay f).text []) := by
  have a1 := isAscii_class _ digit_wordDash _ (pyStrInt_small _ hv.oh0.1 hv.oh0.2).1.2
  have a3 := isAscii_class _ digit_wordDash _ (pyStrInt_small _ hv.ver0.1 hv.ver0.2).1.2
  have a2 := isAscii_class _ upper_wordDash _ hv.data.2.2
  have a4 := isAscii_class _ word_wordDash _ hv.sec.2.2
  have a5 := isAscii_class _ upDigDash_wordDash _ hv.enc.2.2
  have a6 := isAscii_class _ (fun _ h => h) _ hv.cs.2.2
  have a7 := isAscii_class _ upper_wordDash _ hv.comp.2.2
  have a8 := isAscii_class _ (fun _ h => h) _ hv.old.1.2
  have a9 := isAscii_class _ (fun _ h => h) _ hv.new.1.2
  have tail : isAscii (fld "OLDFILEUID" lay.oldfileuid.blank f.h.oldfileuid lay.oldfileuid.sep.str
      ("NEWFILEUID".toList ++ ':' :: (lay.newBlank ++ (f.h.newfileuid ++ [])))) := by
    apply isAscii_fld _ _ _ _ _ (by unfold isAscii; decide) (wsNoLF_spec _ lo.b8).2.1 a8 (sep_spec _).2.1
    refine isAscii_append.2 ⟨by unfold isAscii; decide, isAscii_cons.2 ⟨by decide, ?_⟩⟩
    exact isAscii_append.2 ⟨(wsNoLF_spec _ lo.b9).2.1, isAscii_append.2 ⟨a9, isAscii_nil⟩⟩
  unfold V1W.text
  refine isAscii_append.2 ⟨(wsNoLF_spec _ lo.indent).2.1, ?_⟩
  apply isAscii_fld _ _ _ _ _ (by unfold isAscii; decide) (wsNoLF_spec _ lo.b1).2.1 a1 (sep_spec _).2.1
  apply isAscii_fld _ _ _ _ _ (by unfold isAscii; decide) (wsNoLF_spec _ lo.b2).2.1 a2 (sep_spec _).2.1
  apply isAscii_fld _ _ _ _ _ (by unfold isAscii; decide) (wsNoLF_spec _ lo.b3).2.1 a3 (sep_spec _).2.1
  apply isAscii_fld _ _ _ _ _ (by unfold isAscii; decide) (wsNoLF_spec _ lo.b4).2.1 a4 (sep_spec _).2.1
  apply isAscii_fld _ _ _ _ _ (by unfold isAscii; decide) (wsNoLF_spec _ lo.b5).2.1 a5 (sep_spec _).2.1
  apply isAscii_fld _ _ _ _ _ (by unfold isAscii; decide) (wsNoLF_spec _ lo.b6).2.1 a6 (sep_spec _).2.1
  simp only [V1W.compText, V1W.ofLay]
  cases f.withCompression
  · exact tail
  · exact isAscii_fld _ _ _ _ _ (by unfold isAscii; decide) (wsNoLF_spec _ lo.b7).2.1 a7 (sep_spec _).2.1 tail

theorem ofLay_lfc_W (p : V1P) (lay : V1Lay) (f : V1File) (lo : LayOkW lay) (hv : ValidV1 p f.h) :
    lfc ((V1W.ofLay lay f).text []) ≤ 8 := by
  obtain ⟨ok, nl⟩ := ofLay_ok_W p lay f lo hv
  have h1 := hasLF_of_class _ digit_not_space _ ok.v1.2
  have h2 := hasLF_of_class _ upper_not_space _ ok.v2.2
  have h3 := hasLF_of_class _ digit_not_space _ ok.v3.2
  have h4 := hasLF_of_class _ word_not_space _ ok.v4.2
  have h5 := hasLF_of_class _ upDigDash_not_space _ ok.v5.2
  have h6 := hasLF_of_class _ wordDash_not_space _ ok.v6.2
  have h8 := hasLF_of_class _ wordDash_not_space _ ok.v8.2
  have h9 := hasLF_of_class _ wordDash_not_space _ ok.v9.2
  have h7 := hasLF_of_class _ upper_not_space _ hv.comp.2.2
  have s1 : lfc (V1W.ofLay lay f).w1 ≤ 1 := (sep_spec lay.ofxheader.sep).2.2.2
  have s2 : lfc (V1W.ofLay lay f).w2 ≤ 1 := (sep_spec lay.data.sep).2.2.2
  have s3 : lfc (V1W.ofLay lay f).w3 ≤ 1 := (sep_spec lay.version.sep).2.2.2
  have s4 : lfc (V1W.ofLay lay f).w4 ≤ 1 := (sep_spec lay.security.sep).2.2.2
  have s5 : lfc (V1W.ofLay lay f).w5 ≤ 1 := (sep_spec lay.encoding.sep).2.2.2
  have s6 : lfc (V1W.ofLay lay f).w6 ≤ 1 := (sep_spec lay.charset.sep).2.2.2
  have s7 : lfc lay.compression.sep.str ≤ 1 := (sep_spec lay.compression.sep).2.2.2
  have s8 : lfc lay.oldfileuid.sep.str ≤ 1 := (sep_spec lay.oldfileuid.sep).2.2.2
  have hi : hasLF (V1W.ofLay lay f).indent = false := (wsNoLF_spec _ lo.indent).2.2
  have tail : lfc ("NEWFILEUID".toList ++ ':' :: ((V1W.ofLay lay f).b9 ++ ((V1W.ofLay lay f).v9 ++ []))) = 0 := by
    have e : "NEWFILEUID".toList ++ ':' :: ((V1W.ofLay lay f).b9 ++ ((V1W.ofLay lay f).v9 ++ [])) =
      ("NEWFILEUID".toList ++ [':']) ++ ((V1W.ofLay lay f).b9 ++ ((V1W.ofLay lay f).v9 ++ [])) := by simp
    rw [e]
    simp only [lfc_append, lfc_noLF _ nl.b9, lfc_noLF _ h9]
    decide
  unfold V1W.text
  rw [lfc_append, lfc_noLF _ hi,
    lfc_fld _ _ _ _ _ (by decide) nl.b1 h1, lfc_fld _ _ _ _ _ (by decide) nl.b2 h2,
    lfc_fld _ _ _ _ _ (by decide) nl.b3 h3, lfc_fld _ _ _ _ _ (by decide) nl.b4 h4,
    lfc_fld _ _ _ _ _ (by decide) nl.b5 h5, lfc_fld _ _ _ _ _ (by decide) nl.b6 h6]
  have hcomp : lfc ((V1W.ofLay lay f).compText (fld "OLDFILEUID" (V1W.ofLay lay f).b8 (V1W.ofLay lay f).v8
      (V1W.ofLay lay f).w8 ("NEWFILEUID".toList ++ ':' :: ((V1W.ofLay lay f).b9 ++ ((V1W.ofLay lay f).v9 ++ []))))) ≤ 2 := by
    simp only [V1W.compText]
    cases hw : f.withCompression
    · simp only [V1W.ofLay, hw]
      have := lfc_fld "OLDFILEUID" lay.oldfileuid.blank f.h.oldfileuid lay.oldfileuid.sep.str
        ("NEWFILEUID".toList ++ ':' :: (lay.newBlank ++ (f.h.newfileuid ++ []))) (by decide) nl.b8 h8
      simp only [V1W.ofLay] at tail
      simp only [Bool.false_eq_true, if_false]
      rw [this, tail]
      omega
    · simp only [V1W.ofLay, hw, if_true]
      have := lfc_fld "OLDFILEUID" lay.oldfileuid.blank f.h.oldfileuid lay.oldfileuid.sep.str
        ("NEWFILEUID".toList ++ ':' :: (lay.newBlank ++ (f.h.newfileuid ++ []))) (by decide) nl.b8 h8
      rw [lfc_fld _ _ _ _ _ (by decide) (wsNoLF_spec _ lo.b7).2.2 h7, this]
      simp only [V1W.ofLay] at tail
      rw [tail]
      omega
  omega

/-- v1 files, any payload that starts with `<`: the header fields, and the payload with the gap in front,
    stripped -/
theorem parse_v1_gen_W (p1 : V1P) (p2 : V2P) (tbl : List (Option Nat)) (lay : V1Lay) (f : V1File) (body : Str)
    (bb : Bytes) (cs : Name) (hv : ValidV1 p1 f.h)
    (hcomp : f.withCompression = false → f.h.compression = "NONE".toList)
    (hcodec : codecV1 p1 f.h = .ok cs) (henc : encode tbl cs body = .ok bb)
    (hb0 : body.head? = some '<') (lo : LayOkW lay) :
    parseHeader p1 p2 tbl (renderV1 lay f bb) = .ok (.v1 f.h, strip (lay.gap ++ body)) := by
  obtain ⟨ok, nl⟩ := ofLay_ok_W p1 lay f lo hv
  have hA := ofLay_ascii_W p1 lay f lo hv
  have hlf := ofLay_lfc_W p1 lay f lo hv
  obtain ⟨gs, gas⟩ := asciiSpace_spec _ lo.gap
  obtain ⟨brest, hbody⟩ : ∃ r, body = '<' :: r := by
    cases body with
    | nil => simp at hb0
    | cons c r => simp at hb0; exact ⟨r, by rw [hb0]⟩
  obtain ⟨bb', hbb⟩ := encode_cons_ascii tbl cs '<' brest bb (by decide) (hbody ▸ henc)
  generalize hT : V1W.ofLay lay f = t at ok nl hA hlf
  generalize hAdef : t.text [] = A at hA hlf
  have hF : lay.indent ++ v1Fields lay f = A ++ lay.gap := by
    rw [v1Text_eq, hT, ← hAdef, ← text_append]; rfl
  let G : Bytes := asciiBytes lay.gap ++ bb
  let F : Bytes := asciiBytes A ++ G
  have hfile : renderV1 lay f bb = asciiBytes (leadingText lay.leading) ++ F := by
    simp only [renderV1, v1Text, asciiBytes_append, hF, List.append_assoc, F, G]
  -- shape of the first line
  obtain ⟨rest1, hline1⟩ : ∃ r, chars (splitLine F) = lay.indent ++ 'O' :: r := by
    have hi := wsNoLF_spec _ lo.indent
    obtain ⟨Y, eA⟩ : ∃ Y, A = lay.indent ++ 'O' :: Y := by
      obtain ⟨Y, hY⟩ := text_head t []
      exact ⟨Y, by rw [← hAdef, hY, ← hT]; rfl⟩
    have e2 : F = asciiBytes lay.indent ++ (byteOf ('O').toNat :: (asciiBytes Y ++ G)) := by
      simp only [F, eA, asciiBytes_append]
      simp [asciiBytes]
    refine ⟨chars (splitLine (asciiBytes Y ++ G)), ?_⟩
    rw [e2, splitLine_noLF _ _ hi.2.1 hi.2.2, splitLine_cons, if_neg (by decide), chars_append,
      chars_asciiBytes _ hi.2.1, chars_head _ _ (by decide)]
    rfl
  obtain ⟨hs, hsdef⟩ : ∃ hs, (leadingText lay.leading).length = hs := ⟨_, rfl⟩
  have hdropF : (renderV1 lay f bb).drop hs = F := by
    rw [hfile, ← hsdef]
    exact List.drop_left' (asciiBytes_length _)
  have hfind : findHeader (renderV1 lay f bb) 8 0 =
      .ok (hs, chars (splitLine F), hs + (splitLine F).length) := by
    rw [findHeader_leading _ lay.leading lo.leading 8 0 F (by rw [List.drop_zero, hfile])
      (by have := lo.leadingLen; omega)]
    obtain ⟨k, hk⟩ : ∃ k, 8 - lay.leading.length = k + 1 := ⟨7 - lay.leading.length, by have := lo.leadingLen; omega⟩
    rw [hk, findHeader]
    simp only [readline, Nat.zero_add, hsdef, hdropF]
    have : strip (chars (splitLine F)) ≠ [] :=
      strip_ne_nil_of_mem _ 'O' (by rw [hline1]; simp) (by decide)
    cases hst : strip (chars (splitLine F)) with
    | nil => exact absurd hst this
    | cons c cs => simp [chars] at hst ⊢; simp [hst]; rfl
  have hxml : reMatch xmlRegex (chars (splitLine F)) = none := by
    apply xml_nomatch
    rw [hline1]
    intro c hc
    cases hi : lay.indent with
    | nil => rw [hi] at hc; simp at hc; subst hc; decide
    | cons d ds =>
      rw [hi] at hc; simp at hc; subst hc
      intro e
      have := (wsNoLF_spec _ lo.indent).1 d (by rw [hi]; simp)
      rw [e] at this
      exact absurd this (by decide)
  -- rawheader: the first nine lines
  have hlfA : lfCount (asciiBytes A) < 9 := by rw [lfCount_ascii A hA]; omega
  obtain ⟨k, hk⟩ : ∃ k, 9 - lfCount (asciiBytes A) = k + 1 := ⟨8 - lfCount (asciiBytes A), by omega⟩
  let R0 : Str := chars (firstLines (k + 1) G)
  have hraw : chars (splitLine F) ++ moreLines (renderV1 lay f bb) 8 (hs + (splitLine F).length) = t.text R0 := by
    have e : (renderV1 lay f bb).drop (hs + (splitLine F).length) = F.drop (splitLine F).length := by
      rw [← List.drop_drop, hdropF]
    rw [moreLines_eq, e, ← chars_append, ← firstLines_succ]
    have : firstLines 9 F = asciiBytes A ++ firstLines (k + 1) G := by
      rw [← hk]; exact firstLines_append _ _ 9 hlfA
    rw [this, chars_append, chars_asciiBytes A hA, ← hAdef, ← text_append, List.nil_append]
  -- what follows the NEWFILEUID value is not a word character
  have hR0 : ∀ c ∈ R0.head?, isWordDash c = false := by
    intro c hc
    cases hg : lay.gap with
    | nil =>
      have eG : G = byteOf ('<').toNat :: bb' := by simp only [G, hg, hbb]; rfl
      obtain ⟨r, hr⟩ := firstLines_head k (byteOf ('<').toNat) bb'
      simp only [R0, eG, hr, chars_head _ _ (show (byteOf ('<').toNat).toNat < 128 by decide)] at hc
      simp at hc; subst hc; decide
    | cons g gr =>
      have hga : g.toNat < 128 := gas g (by rw [hg]; simp)
      have eG : G = byteOf g.toNat :: (asciiBytes gr ++ bb) := by simp only [G, hg]; rfl
      obtain ⟨r, hr⟩ := firstLines_head k (byteOf g.toNat) (asciiBytes gr ++ bb)
      simp only [R0, eG, hr, chars_head _ _ (show (byteOf g.toNat).toNat < 128 by rw [byteOf_toNat _ (by omega)]; exact hga)] at hc
      simp at hc; subst hc
      rw [byteChar_byteOf g (by omega)]
      cases hw : isWordDash g with
      | false => rfl
      | true =>
        have := wordDash_not_space g hw
        rw [gs g (by rw [hg]; simp)] at this
        cases this
  have hmatch := reSearch_of_match _ _ _ (v1_match t R0 ok hR0)
  have hcaps : t.caps = [some (pyStrInt f.h.ofxheader), some f.h.data, some (pyStrInt f.h.version), some f.h.security,
      some f.h.encoding, some f.h.charset, (if f.withCompression then some f.h.compression else none),
      some f.h.oldfileuid, some f.h.newfileuid] := by
    rw [← hT]
    simp only [V1W.caps, V1W.ofLay]
    cases f.withCompression <;> rfl
  have hctor := ctorV1_valid p1 f.h hv (if f.withCompression then some f.h.compression else none) (by
    cases hw : f.withCompression
    · exact Or.inr ⟨rfl, hcomp hw⟩
    · exact Or.inl rfl)
  have hlen : (t.text R0).length - R0.length = A.length := by
    have : t.text R0 = A ++ R0 := by rw [← hAdef, ← text_append]; rfl
    rw [this, List.length_append]; omega
  have hparse : parseV1 p1 (t.text R0) = .ok (f.h, A.length) := by
    unfold parseV1
    rw [hmatch, hcaps]
    simp only [hctor, bind, Except.bind, pure, Except.pure, hlen]
  -- the body: byte-exact offset, declared codec, strip
  have hmsg : (strip <$> decode tbl cs ((renderV1 lay f bb).drop (hs + A.length))) =
      .ok (strip (lay.gap ++ body)) := by
    have e : (renderV1 lay f bb).drop (hs + A.length) = G := by
      rw [← List.drop_drop, hdropF]
      exact List.drop_left' (asciiBytes_length _)
    rw [e]
    simp only [G]
    rw [decode_ascii_prefix tbl cs lay.gap gas bb, decode_encode tbl cs body bb henc]
    simp only [Except.map, Functor.map]
  unfold parseHeader
  simp only [hfind, bind, Except.bind, hxml, hraw, hparse, hcodec]
  have := hmsg
  simp only [Functor.map, Except.map] at this
  cases hdd : decode tbl cs ((renderV1 lay f bb).drop (hs + A.length)) with
  | error e => rw [hdd] at this; cases this
  | ok m =>
    rw [hdd] at this
    simp only [pure, Except.pure]
    have e : strip m = strip (lay.gap ++ body) := by injection this
    rw [e]


/-- the wider guard, as an executable predicate -/
def _root_.Ofx.Spec.HeaderLayout.V1Lay.toleratedW (lay : V1Lay) : Bool :=
  decide (lay.leading.length ≤ 7) && lay.leading.all wsNoLF && wsNoLF lay.indent &&
  wsNoLF lay.ofxheader.blank && wsNoLF lay.data.blank && wsNoLF lay.version.blank && wsNoLF lay.security.blank &&
  wsNoLF lay.encoding.blank && wsNoLF lay.charset.blank && wsNoLF lay.compression.blank &&
  wsNoLF lay.oldfileuid.blank && wsNoLF lay.newBlank && lay.gap.all isAsciiSpace

theorem layOkW_of_toleratedW (lay : V1Lay) (h : lay.toleratedW = true) : LayOkW lay := by
  simp only [V1Lay.toleratedW, Bool.and_eq_true, decide_eq_true_eq] at h
  obtain ⟨⟨⟨⟨⟨⟨⟨⟨⟨⟨⟨⟨h1, h2⟩, h3⟩, h4⟩, h5⟩, h6⟩, h7⟩, h8⟩, h9⟩, h10⟩, h11⟩, h12⟩, h13⟩ := h
  exact ⟨h1, by simpa [List.all_eq_true] using h2, h3, h4, h5, h6, h7, h8, h9, h10, h11, h12, h13⟩

/-- blank and tab are ASCII whitespace without line feed: the old guard implies the new one -/
theorem toleratedW_of_tolerated (lay : V1Lay) (h : lay.tolerated = true) : lay.toleratedW = true := by
  have hb : ∀ b : Str, b.all isBlank = true → wsNoLF b = true := by
    intro b hb
    simp only [wsNoLF, List.all_eq_true] at hb ⊢
    intro c hc
    have := hb c hc
    simp only [isBlank, Bool.or_eq_true, decide_eq_true_eq] at this
    rcases this with e | e <;> subst e <;> decide
  simp only [V1Lay.tolerated, FieldLay.ok, Bool.and_eq_true, decide_eq_true_eq] at h
  obtain ⟨⟨⟨⟨⟨⟨⟨⟨⟨⟨⟨⟨h1, h2⟩, h3⟩, h4⟩, h5⟩, h6⟩, h7⟩, h8⟩, h9⟩, h10⟩, h11⟩, h12⟩, h13⟩ := h
  simp only [V1Lay.toleratedW, Bool.and_eq_true, decide_eq_true_eq]
  exact ⟨⟨⟨⟨⟨⟨⟨⟨⟨⟨⟨⟨h1, h2⟩, h3⟩, hb _ h4⟩, hb _ h5⟩, hb _ h6⟩, hb _ h7⟩, hb _ h8⟩, hb _ h9⟩, hb _ h10⟩, hb _ h11⟩,
    hb _ h12⟩, h13⟩

/-- **C05_exact_v1_any_blank**: `C05_exact_full` for v1 files under the wider guard — after each colon any run of
    ASCII whitespace characters other than the line feed (space, tab, VT, FF, CR, FS, GS, RS, US) -/
theorem C05_exact_v1_any_blank (p1 : V1P) (p2 : V2P) (tbl : List (Option Nat)) (lay : V1Lay) (f : V1File)
    (body : Str) (bb : Bytes) (cs : Name) (hv : ValidV1 p1 f.h)
    (hcomp : f.withCompression = false → f.h.compression = "NONE".toList)
    (hcodec : codecV1 p1 f.h = .ok cs) (henc : encode tbl cs body = .ok bb)
    (hb0 : body.head? = some '<') (hb1 : body.getLast? = some '>') (htol : lay.toleratedW = true) :
    parseHeader p1 p2 tbl (renderFile (.v1 lay f) bb) = .ok (.v1 f.h, body) := by
  have lo := layOkW_of_toleratedW lay htol
  show parseHeader p1 p2 tbl (renderV1 lay f bb) = _
  rw [parse_v1_gen_W p1 p2 tbl lay f body bb cs hv hcomp hcodec henc hb0 lo]
  obtain ⟨brest, hbody⟩ : ∃ r, body = '<' :: r := by
    cases body with
    | nil => simp at hb0
    | cons c r => simp at hb0; exact ⟨r, by rw [hb0]⟩
  rw [strip_ws_body lay.gap body (asciiSpace_spec _ lo.gap).1 '<' brest hbody (by decide) '>' hb1 (by decide)]

/-- the wider guard holds of a layout the old one rejects: a form feed after `DATA:`, a carriage return after
    `VERSION:` -/
example : ({ leading := [], indent := [], ofxheader := {}, data := { blank := ['\x0c'] },
             version := { blank := ['\r', '\x1f'] }, security := {}, encoding := {}, charset := {},
             compression := {}, oldfileuid := {}, newBlank := ['\x0b'], gap := [] } : V1Lay).toleratedW = true ∧
    ({ leading := [], indent := [], ofxheader := {}, data := { blank := ['\x0c'] },
             version := { blank := ['\r', '\x1f'] }, security := {}, encoding := {}, charset := {},
             compression := {}, oldfileuid := {}, newBlank := ['\x0b'], gap := [] } : V1Lay).tolerated = false := by
  decide +kernel

/-- the exact set: a character is tolerated after a colon iff it is ASCII whitespace and not the line feed — nine
    characters -/
theorem C05_blank_chars : ∀ c : Char, wsNoLF [c] = true ↔
    c ∈ [' ', '\t', '\x0b', '\x0c', '\r', '\x1c', '\x1d', '\x1e', '\x1f'] := by
  intro c
  constructor
  · intro h
    simp only [wsNoLF, List.all_cons, List.all_nil, Bool.and_true, Bool.and_eq_true, isAsciiSpace,
      decide_eq_true_eq, bne_iff_ne, ne_eq] at h
    have hm := mem_spaceChars h.1.1
    have key : ∀ d ∈ spaceChars, d.toNat < 128 → d ≠ '\n' →
        d ∈ [' ', '\t', '\x0b', '\x0c', '\r', '\x1c', '\x1d', '\x1e', '\x1f'] := by decide +kernel
    exact key c hm h.1.2 h.2
  · intro h
    have key : ∀ d ∈ [' ', '\t', '\x0b', '\x0c', '\r', '\x1c', '\x1d', '\x1e', '\x1f'], wsNoLF [d] = true := by
      decide +kernel
    exact key c h

/-! ### a line feed after a colon: the header no longer fits into the nine lines that are read -/

/-- `parse_header` on a file whose first byte is a visible ASCII character other than `<`: refused whenever
    `OFXHeaderV1.parse` refuses the first nine lines -/
theorem parseHeader_of_raw_gen (p1 : V1P) (p2 : V2P) (tbl : List (Option Nat)) (F Y : Bytes) (d : Char)
    (hY : F = byteOf d.toNat :: Y) (hda : d.toNat < 128) (hds : isSpace d = false) (hdlt : d ≠ '<')
    (hparse : parseV1 p1 (chars (firstLines 9 F)) = .error .header) :
    parseHeader p1 p2 tbl F = .error .header := by
  have hb10 : byteOf d.toNat ≠ 10 := by
    intro e
    have := (byteOf_eq_lf d hda).1 e
    rw [this] at hds; revert hds; decide
  have hline1 : chars (splitLine F) = d :: chars (splitLine Y) := by
    rw [hY, splitLine_cons, if_neg hb10, chars_head _ _ (by rw [byteOf_toNat _ (by omega)]; exact hda),
      byteChar_byteOf d (by omega)]
  have hfind : findHeader F 8 0 = .ok (0, chars (splitLine F), 0 + (splitLine F).length) := by
    rw [findHeader]
    simp only [readline, List.drop_zero]
    have : strip (chars (splitLine F)) ≠ [] := strip_ne_nil_of_mem _ d (by rw [hline1]; simp) hds
    cases hst : strip (chars (splitLine F)) with
    | nil => exact absurd hst this
    | cons c cs => simp [chars] at hst ⊢; simp [hst]; rfl
  have hxml : reMatch xmlRegex (chars (splitLine F)) = none := by
    apply xml_nomatch
    rw [hline1]
    intro c hc
    simp at hc; subst hc
    exact hdlt
  have hrawe : chars (splitLine F) ++ moreLines F 8 (0 + (splitLine F).length) = chars (firstLines 9 F) := by
    rw [moreLines_eq, Nat.zero_add, ← chars_append, ← firstLines_succ]
  unfold parseHeader
  simp only [hfind, bind, Except.bind, hxml, hrawe, hparse]

/-- once `A` holds `n` line feeds, the first `n` lines of `A ++ G` lie inside `A` -/
theorem firstLines_inside (A G : Bytes) : ∀ n, n ≤ lfCount A → firstLines n (A ++ G) = firstLines n A := by
  induction A with
  | nil => intro n hn; simp [lfCount] at hn; subst hn; rfl
  | cons b bs ih =>
    intro n hn
    cases n with
    | zero => rfl
    | succ m =>
      rw [List.cons_append, firstLines_cons, firstLines_cons]
      by_cases hb : b = 10
      · simp only [hb, if_true]
        rw [ih m (by simp [lfCount, hb] at hn ⊢; omega)]
      · simp only [hb, if_false]
        rw [ih (m + 1) (by simp [lfCount, hb] at hn ⊢; exact hn)]

def newMarker : Str := "NEWFILEUID".toList ++ [':']

/-- **the header must fit into nine lines**: a file that starts with an ASCII text `A` (first character visible,
    not `<`) holding nine or more line feeds and no `NEWFILEUID:` is refused with the header error, whatever
    follows `A` — the rest of a valid header included -/
theorem C05_beyond_nine_lines_refused (p1 : V1P) (p2 : V2P) (tbl : List (Option Nat)) (A : Str) (R : Bytes)
    (d : Char) (A' : Str) (hA : A = d :: A') (hasc : isAscii A) (hds : isSpace d = false) (hdlt : d ≠ '<')
    (hlf : 9 ≤ lfc A) (hnew : ¬ newMarker <:+: A) :
    parseHeader p1 p2 tbl (asciiBytes A ++ R) = .error .header := by
  have hda : d.toNat < 128 := hasc d (by rw [hA]; simp)
  apply parseHeader_of_raw_gen p1 p2 tbl _ (asciiBytes A' ++ R) d (by rw [hA]; rfl) hda hds hdlt
  rw [firstLines_inside _ _ 9 (by rw [lfCount_ascii A hasc]; exact hlf)]
  apply C12_refuse_text_omit_v1 p1 _ newMarker (by decide)
  rintro ⟨a, b, hab⟩
  apply hnew
  obtain ⟨t, ht⟩ := chars_prefix (firstLines_prefix 9 (asciiBytes A))
  rw [chars_asciiBytes A hasc] at ht
  exact ⟨a, b ++ t, by rw [← ht, hab]; simp⟩


theorem NF_ascii (fs : List Fld) (h : ∀ f ∈ fs, isAscii f.name ∧ isAscii f.val ∧ isAscii f.sep) :
    isAscii (NF fs []) := by
  induction fs with
  | nil => exact isAscii_nil
  | cons f fs ih =>
    obtain ⟨h1, h2, h3⟩ := h f (by simp)
    simp only [NF]
    exact isAscii_append.2 ⟨h1, isAscii_cons.2 ⟨by decide, isAscii_append.2 ⟨h2,
      isAscii_append.2 ⟨h3, ih (fun x hx => h x (by simp [hx]))⟩⟩⟩⟩

theorem NF_lfc (fs : List Fld) (h : ∀ f ∈ fs, hasLF f.name = false) :
    lfc (NF fs []) = (fs.map fun f => lfc f.val + lfc f.sep).sum := by
  induction fs with
  | nil => rfl
  | cons f fs ih =>
    have e : NF (f :: fs) [] = f.name ++ ([':'] ++ (f.val ++ (f.sep ++ NF fs []))) := by simp [NF]
    rw [e]
    simp only [lfc_append, lfc_noLF _ (h f (by simp)), ih (fun x hx => h x (by simp [hx])), List.map_cons,
      List.sum_cons]
    have : lfc [':'] = 0 := by decide
    omega

/-- the eight lines before `NEWFILEUID` of a v1 file without leading blank lines or indentation -/
def lines8 (lay : V1Lay) (h : V1) : List Fld :=
  [⟨"OFXHEADER".toList, lay.ofxheader.blank ++ pyStrInt h.ofxheader, lay.ofxheader.sep.str⟩,
   ⟨"DATA".toList, lay.data.blank ++ h.data, lay.data.sep.str⟩,
   ⟨"VERSION".toList, lay.version.blank ++ pyStrInt h.version, lay.version.sep.str⟩,
   ⟨"SECURITY".toList, lay.security.blank ++ h.security, lay.security.sep.str⟩,
   ⟨"ENCODING".toList, lay.encoding.blank ++ h.encoding, lay.encoding.sep.str⟩,
   ⟨"CHARSET".toList, lay.charset.blank ++ h.charset, lay.charset.sep.str⟩,
   ⟨"COMPRESSION".toList, lay.compression.blank ++ h.compression, lay.compression.sep.str⟩,
   ⟨"OLDFILEUID".toList, lay.oldfileuid.blank ++ h.oldfileuid, lay.oldfileuid.sep.str⟩]

theorem v1Fields_lines8 (lay : V1Lay) (f : V1File) (hc : f.withCompression = true) :
    v1Fields lay f = NF (lines8 lay f.h) [] ++
      ("NEWFILEUID:".toList ++ (lay.newBlank ++ (f.h.newfileuid ++ lay.gap))) := by
  simp [v1Fields, fieldText, lines8, NF, hc]

/-- the blanks after the first eight colons are ASCII whitespace, the first eight separators end their line -/
structure LFLay (lay : V1Lay) : Prop where
  leading : lay.leading = []
  indent : lay.indent = []
  b1 : lay.ofxheader.blank.all isAsciiSpace = true
  b2 : lay.data.blank.all isAsciiSpace = true
  b3 : lay.version.blank.all isAsciiSpace = true
  b4 : lay.security.blank.all isAsciiSpace = true
  b5 : lay.encoding.blank.all isAsciiSpace = true
  b6 : lay.charset.blank.all isAsciiSpace = true
  b7 : lay.compression.blank.all isAsciiSpace = true
  b8 : lay.oldfileuid.blank.all isAsciiSpace = true
  s1 : lay.ofxheader.sep.hasLF = true
  s2 : lay.data.sep.hasLF = true
  s3 : lay.version.sep.hasLF = true
  s4 : lay.security.sep.hasLF = true
  s5 : lay.encoding.sep.hasLF = true
  s6 : lay.charset.sep.hasLF = true
  s7 : lay.compression.sep.hasLF = true
  s8 : lay.oldfileuid.sep.hasLF = true

theorem sep_lf (s : Sep) (h : s.hasLF = true) : lfc s.str = 1 ∧ s.str ≠ [] := by
  cases s <;> simp [Sep.hasLF] at h <;> exact ⟨by decide, by decide⟩

theorem blank_val_colon (b v : Str) (hb : allSpace b) (hv : inClass isWordDash v) : ':' ∉ b ++ v := by
  intro hm
  rcases List.mem_append.1 hm with h | h
  · exact absurd (hb _ h) (by decide)
  · exact absurd (hv.2 _ h) (by decide)

/-- **C05_lf_after_colon_refused**: a v1 file with all nine fields, one per line, in which the whitespace after
    one of the first eight colons contains a line feed: `parse_header` reads nine lines, they end before
    `NEWFILEUID`, and the file is refused with the header error — although every field is present and valid.  (With
    the other eight ASCII whitespace characters after the colon the file is accepted: `C05_exact_v1_any_blank`.) -/
theorem C05_lf_after_colon_refused (p1 : V1P) (p2 : V2P) (tbl : List (Option Nat)) (lay : V1Lay) (f : V1File)
    (bb : Bytes) (hv : ValidV1 p1 f.h) (hc : f.withCompression = true) (hl : LFLay lay)
    (hlf : '\n' ∈ lay.ofxheader.blank ++ (lay.data.blank ++ (lay.version.blank ++ (lay.security.blank ++
      (lay.encoding.blank ++ (lay.charset.blank ++ (lay.compression.blank ++ lay.oldfileuid.blank))))))) :
    parseHeader p1 p2 tbl (renderFile (.v1 lay f) bb) = .error .header := by
  obtain ⟨d1, d3⟩ := valid_classes p1 f.h hv
  have w1 := inClass_mono digit_wordDash d1
  have w2 := inClass_mono upper_wordDash hv.data.2
  have w3 := inClass_mono digit_wordDash d3
  have w4 := inClass_mono word_wordDash hv.sec.2
  have w5 := inClass_mono upDigDash_wordDash hv.enc.2
  have w6 := hv.cs.2
  have w7 := inClass_mono upper_wordDash hv.comp.2
  have w8 := hv.old.1
  obtain ⟨a1, i1⟩ := asciiSpace_spec _ hl.b1
  obtain ⟨a2, i2⟩ := asciiSpace_spec _ hl.b2
  obtain ⟨a3, i3⟩ := asciiSpace_spec _ hl.b3
  obtain ⟨a4, i4⟩ := asciiSpace_spec _ hl.b4
  obtain ⟨a5, i5⟩ := asciiSpace_spec _ hl.b5
  obtain ⟨a6, i6⟩ := asciiSpace_spec _ hl.b6
  obtain ⟨a7, i7⟩ := asciiSpace_spec _ hl.b7
  obtain ⟨a8, i8⟩ := asciiSpace_spec _ hl.b8
  have va : ∀ v, inClass isWordDash v → isAscii v := fun v hv => isAscii_class _ (fun _ h => h) _ hv.2
  have vl : ∀ v, inClass isWordDash v → lfc v = 0 := fun v hv =>
    lfc_noLF _ (hasLF_of_class _ wordDash_not_space _ hv.2)
  have e : renderFile (.v1 lay f) bb = asciiBytes (NF (lines8 lay f.h) []) ++
      (asciiBytes ("NEWFILEUID:".toList ++ (lay.newBlank ++ (f.h.newfileuid ++ lay.gap))) ++ bb) := by
    simp only [renderFile, renderV1, v1Text, hl.leading, hl.indent, leadingText, List.nil_append,
      v1Fields_lines8 lay f hc, asciiBytes_append, List.append_assoc]
  rw [e]
  refine C05_beyond_nine_lines_refused p1 p2 tbl _ _ 'O' _ (by simp [lines8, NF]; rfl) ?_ (by decide) (by decide) ?_ ?_
  · apply NF_ascii
    intro x hx
    simp only [lines8, List.mem_cons, List.not_mem_nil, or_false] at hx
    rcases hx with h | h | h | h | h | h | h | h <;> subst h <;>
      refine ⟨by dsimp only; unfold isAscii; decide, isAscii_append.2 ⟨by assumption, va _ (by assumption)⟩, (sep_spec _).2.1⟩
  · rw [NF_lfc _ (by
      intro x hx
      simp only [lines8, List.mem_cons, List.not_mem_nil, or_false] at hx
      rcases hx with h | h | h | h | h | h | h | h <;> subst h <;> dsimp only <;> decide)]
    have hpos : 0 < lfc (lay.ofxheader.blank ++ (lay.data.blank ++ (lay.version.blank ++ (lay.security.blank ++
      (lay.encoding.blank ++ (lay.charset.blank ++ (lay.compression.blank ++ lay.oldfileuid.blank))))))) :=
      List.count_pos_iff.2 hlf
    simp only [lfc_append] at hpos
    simp only [lines8, List.map_cons, List.map_nil, List.sum_cons, List.sum_nil, lfc_append, vl _ w1, vl _ w2,
      vl _ w3, vl _ w4, vl _ w5, vl _ w6, vl _ w7, vl _ w8, (sep_lf _ hl.s1).1, (sep_lf _ hl.s2).1,
      (sep_lf _ hl.s3).1, (sep_lf _ hl.s4).1, (sep_lf _ hl.s5).1, (sep_lf _ hl.s6).1, (sep_lf _ hl.s7).1,
      (sep_lf _ hl.s8).1]
    omega
  · intro hi
    have hweak : ∀ x ∈ lines8 lay f.h, x.Weak := by
      intro x hx
      simp only [lines8, List.mem_cons, List.not_mem_nil, or_false] at hx
      rcases hx with h | h | h | h | h | h | h | h <;> subst h
      · exact ⟨by dsimp only; decide, blank_val_colon _ _ a1 w1, (sep_lf _ hl.s1).2, (sep_spec _).1⟩
      · exact ⟨by dsimp only; decide, blank_val_colon _ _ a2 w2, (sep_lf _ hl.s2).2, (sep_spec _).1⟩
      · exact ⟨by dsimp only; decide, blank_val_colon _ _ a3 w3, (sep_lf _ hl.s3).2, (sep_spec _).1⟩
      · exact ⟨by dsimp only; decide, blank_val_colon _ _ a4 w4, (sep_lf _ hl.s4).2, (sep_spec _).1⟩
      · exact ⟨by dsimp only; decide, blank_val_colon _ _ a5 w5, (sep_lf _ hl.s5).2, (sep_spec _).1⟩
      · exact ⟨by dsimp only; decide, blank_val_colon _ _ a6 w6, (sep_lf _ hl.s6).2, (sep_spec _).1⟩
      · exact ⟨by dsimp only; decide, blank_val_colon _ _ a7 w7, (sep_lf _ hl.s7).2, (sep_spec _).1⟩
      · exact ⟨by dsimp only; decide, blank_val_colon _ _ a8 w8, (sep_lf _ hl.s8).2, (sep_spec _).1⟩
    rcases marker_infix_NF "NEWFILEUID".toList (by decide) _ _ hweak hi with ⟨x, hx, hs⟩ | hr
    · simp only [lines8, List.mem_cons, List.not_mem_nil, or_false] at hx
      rcases hx with h | h | h | h | h | h | h | h <;> subst h <;> dsimp only at hs <;> revert hs <;> decide
    · exact absurd (infix_nil_iff.1 hr) (by decide)


/-- the guard is satisfiable: `__str__`'s layout with a line feed after `DATA:` -/
example : LFLay { strLayV1 with data := { blank := ['\n'] } } ∧
    '\n' ∈ ({ strLayV1 with data := { blank := ['\n'] } } : V1Lay).ofxheader.blank ++
      (({ strLayV1 with data := { blank := ['\n'] } } : V1Lay).data.blank ++ []) := by
  refine ⟨⟨rfl, rfl, rfl, by decide, rfl, rfl, rfl, rfl, rfl, rfl, rfl, rfl, rfl, rfl, rfl, rfl, rfl, rfl⟩, by decide⟩

/-! ### the XML declaration split over two lines -/

theorem parseHeader_no_xml (p1 : V1P) (p2 : V2P) (tbl : List (Option Nat)) (F Y : Bytes) (d : Char)
    (hY : F = byteOf d.toNat :: Y) (hda : d.toNat < 128) (hds : isSpace d = false)
    (hxml : reMatch xmlRegex (chars (splitLine F)) = none)
    (hparse : parseV1 p1 (chars (firstLines 9 F)) = .error .header) :
    parseHeader p1 p2 tbl F = .error .header := by
  have hb10 : byteOf d.toNat ≠ 10 := by
    intro e
    have := (byteOf_eq_lf d hda).1 e
    rw [this] at hds; revert hds; decide
  have hline1 : chars (splitLine F) = d :: chars (splitLine Y) := by
    rw [hY, splitLine_cons, if_neg hb10, chars_head _ _ (by rw [byteOf_toNat _ (by omega)]; exact hda),
      byteChar_byteOf d (by omega)]
  have hfind : findHeader F 8 0 = .ok (0, chars (splitLine F), 0 + (splitLine F).length) := by
    rw [findHeader]
    simp only [readline, List.drop_zero]
    have : strip (chars (splitLine F)) ≠ [] := strip_ne_nil_of_mem _ d (by rw [hline1]; simp) hds
    cases hst : strip (chars (splitLine F)) with
    | nil => exact absurd hst this
    | cons c cs => simp [chars] at hst ⊢; simp [hst]; rfl
  have hrawe : chars (splitLine F) ++ moreLines F 8 (0 + (splitLine F).length) = chars (firstLines 9 F) := by
    rw [moreLines_eq, Nat.zero_add, ← chars_append, ← firstLines_succ]
  unfold parseHeader
  simp only [hfind, bind, Except.bind, hxml, hrawe, hparse]

/-- `XML_REGEX` needs the closing `?>` on the line it is applied to -/
theorem xml_nomatch_noclose (s : Str) (h : ¬ "?>".toList <:+: s) : reMatch xmlRegex s = none := by
  cases hm : reMatch xmlRegex s with
  | none => rfl
  | some r =>
    exfalso
    have ho := matchSegs_sound xmlRegex {} s r hm
    have hl : litsOf xmlRegex = ["<?xml".toList, "?>".toList] := rfl
    rw [hl] at ho
    obtain ⟨a, b, hab⟩ := occ_mem_infix _ _ ho "?>".toList (by simp)
    exact h ⟨a, b, by rw [hab]; simp⟩

/-- a file with no XML declaration on its first line and no `OFXHEADER:` in its first nine lines is refused -/
theorem C05_no_header_start_refused (p1 : V1P) (p2 : V2P) (tbl : List (Option Nat)) (F Y : Bytes) (d : Char)
    (hY : F = byteOf d.toNat :: Y) (hda : d.toNat < 128) (hds : isSpace d = false)
    (hxml : ¬ "?>".toList <:+: chars (splitLine F)) (hmark : ¬ ofxMarker <:+: chars (firstLines 9 F)) :
    parseHeader p1 p2 tbl F = .error .header := by
  apply parseHeader_no_xml p1 p2 tbl F Y d hY hda hds (xml_nomatch_noclose _ hxml)
  apply C12_refuse_text_omit_v1 p1 _ ofxMarker (by decide)
  rintro ⟨a, b, hab⟩
  exact hmark ⟨a, b, by rw [hab]; simp⟩

/-- all layout whitespace of a v2 file is ASCII whitespace; no leading blank lines -/
structure SplitLay (lay : V2Lay) : Prop where
  leading : lay.leading = []
  xs1 : lay.xs1.all isAsciiSpace = true
  xs2 : lay.xs2.all isAsciiSpace = true
  xs3 : lay.xs3.all isAsciiSpace = true
  xs4 : lay.xs4.all isAsciiSpace = true
  afterXml : lay.afterXml.all isAsciiSpace = true
  s0 : lay.s0.all isAsciiSpace = true
  s1 : lay.s1.all isAsciiSpace = true
  s2 : lay.s2.all isAsciiSpace = true
  s3 : lay.s3.all isAsciiSpace = true
  s4 : lay.s4.all isAsciiSpace = true
  bc : lay.beforeClose.all isAsciiSpace = true
  gap : lay.gap.all isAsciiSpace = true

/-- the part of the XML declaration between `<?xml` and `?>` -/
def xmlMid (lay : V2Lay) : Str :=
  lay.xs1 ++ (pseudo "version" "1.0" lay.xmlVersion ++ (lay.xs2 ++
    (pseudo "encoding" "UTF-8" lay.xmlEncoding ++ (lay.xs3 ++ (pseudo "standalone" "no" lay.xmlStandalone ++ lay.xs4)))))

theorem v2Xml_mid (lay : V2Lay) : v2Xml lay = "<?xml".toList ++ (xmlMid lay ++ "?>".toList) := by
  simp [v2Xml, xmlMid]

theorem pseudo_plain (oq : Option Quote) :
    (∀ c ∈ pseudo "version" "1.0" oq, c.toNat < 128 ∧ c ≠ '>' ∧ c ≠ ':' ∧ c ≠ '\n') ∧
    (∀ c ∈ pseudo "encoding" "UTF-8" oq, c.toNat < 128 ∧ c ≠ '>' ∧ c ≠ ':' ∧ c ≠ '\n') ∧
    (∀ c ∈ pseudo "standalone" "no" oq, c.toNat < 128 ∧ c ≠ '>' ∧ c ≠ ':' ∧ c ≠ '\n') := by
  cases oq with
  | none => simp [pseudo]
  | some q => cases q <;> decide +kernel

theorem ws_plain (w : Str) (h : w.all isAsciiSpace = true) : ∀ c ∈ w, c.toNat < 128 ∧ c ≠ '>' ∧ c ≠ ':' := by
  obtain ⟨hs, ha⟩ := asciiSpace_spec w h
  intro c hc
  refine ⟨ha c hc, ?_, ?_⟩ <;> intro e <;> have := hs c hc <;> rw [e] at this <;> revert this <;> decide

theorem xmlMid_plain (lay : V2Lay) (hl : SplitLay lay) : ∀ c ∈ xmlMid lay, c.toNat < 128 ∧ c ≠ '>' ∧ c ≠ ':' := by
  obtain ⟨p1, _, _⟩ := pseudo_plain lay.xmlVersion
  obtain ⟨_, p2, _⟩ := pseudo_plain lay.xmlEncoding
  obtain ⟨_, _, p3⟩ := pseudo_plain lay.xmlStandalone
  intro c hc
  simp only [xmlMid, List.mem_append] at hc
  rcases hc with h | h | h | h | h | h | h
  · exact ws_plain _ hl.xs1 c h
  · exact ⟨(p1 c h).1, (p1 c h).2.1, (p1 c h).2.2.1⟩
  · exact ws_plain _ hl.xs2 c h
  · exact ⟨(p2 c h).1, (p2 c h).2.1, (p2 c h).2.2.1⟩
  · exact ws_plain _ hl.xs3 c h
  · exact ⟨(p3 c h).1, (p3 c h).2.1, (p3 c h).2.2.1⟩
  · exact ws_plain _ hl.xs4 c h


theorem cls_plain (v : Str) (hv : inClass isWordDash v) : ∀ c ∈ v, c.toNat < 128 ∧ c ≠ '>' ∧ c ≠ ':' := by
  intro c hc
  have := hv.2 c hc
  refine ⟨wordDash_ascii c this, ?_, ?_⟩ <;> intro e <;> rw [e] at this <;> revert this <;> decide

theorem quote_plain (q : Quote) : q.ch.toNat < 128 ∧ q.ch ≠ '>' ∧ q.ch ≠ ':' := by cases q <;> decide

/-- the OFX declaration up to (not including) the `>` of its `?>` -/
def ofxHead (lay : V2Lay) (h : V2) : Str :=
  "<?OFX".toList ++ (lay.s0 ++ (qattr "OFXHEADER" lay.q0 (pyStrInt h.ofxheader) ++ (lay.s1 ++
    (qattr "VERSION" lay.q1 (pyStrInt h.version) ++ (lay.s2 ++ (qattr "SECURITY" lay.q2 h.security ++ (lay.s3 ++
    (qattr "OLDFILEUID" lay.q3 h.oldfileuid ++ (lay.s4 ++ (qattr "NEWFILEUID" lay.q4 h.newfileuid ++
    (lay.beforeClose ++ ['?'])))))))))))

theorem v2Ofx_head (lay : V2Lay) (h : V2) : v2Ofx lay h = ofxHead lay h ++ '>' :: lay.gap := by
  simp [v2Ofx, ofxHead]

theorem qattr_plain (name : String) (q : Quote) (v : Str) (hn : ∀ c ∈ name.toList, c.toNat < 128 ∧ c ≠ '>' ∧ c ≠ ':')
    (hv : inClass isWordDash v) : ∀ c ∈ qattr name q v, c.toNat < 128 ∧ c ≠ '>' ∧ c ≠ ':' := by
  intro c hc
  simp only [qattr, List.mem_append, List.mem_cons, List.not_mem_nil, or_false] at hc
  rcases hc with h | h | h | h | h
  · exact hn c h
  · subst h; decide
  · subst h; exact quote_plain q
  · exact cls_plain v hv c h
  · subst h; exact quote_plain q

theorem ofxHead_plain (p : V2P) (lay : V2Lay) (h : V2) (hl : SplitLay lay) (hv : ValidV2 p h) :
    ∀ c ∈ ofxHead lay h, c.toNat < 128 ∧ c ≠ ':' := by
  have d1 := inClass_mono digit_wordDash (pyStrInt_small _ hv.oh0.1 hv.oh0.2).1
  have d2 := inClass_mono digit_wordDash (pyStrInt_small _ hv.ver0.1 hv.ver0.2).1
  have d3 := inClass_mono word_wordDash hv.sec.2
  intro c hc
  simp only [ofxHead, List.mem_append, List.mem_singleton] at hc
  have w : ∀ x : Str, x.all isAsciiSpace = true → c ∈ x → c.toNat < 128 ∧ c ≠ ':' :=
    fun x hx hm => ⟨(ws_plain x hx c hm).1, (ws_plain x hx c hm).2.2⟩
  have qa : ∀ (name : String) (q : Quote) (v : Str), (∀ c ∈ name.toList, c.toNat < 128 ∧ c ≠ '>' ∧ c ≠ ':') →
      inClass isWordDash v → c ∈ qattr name q v → c.toNat < 128 ∧ c ≠ ':' :=
    fun name q v hn hv hm => ⟨(qattr_plain name q v hn hv c hm).1, (qattr_plain name q v hn hv c hm).2.2⟩
  rcases hc with h | h | h | h | h | h | h | h | h | h | h | h | h
  · have key : ∀ d ∈ "<?OFX".toList, d.toNat < 128 ∧ d ≠ ':' := by decide
    exact key c h
  · exact w _ hl.s0 h
  · exact qa _ _ _ (by decide) d1 h
  · exact w _ hl.s1 h
  · exact qa _ _ _ (by decide) d2 h
  · exact w _ hl.s2 h
  · exact qa _ _ _ (by decide) d3 h
  · exact w _ hl.s3 h
  · exact qa _ _ _ (by decide) hv.old.1 h
  · exact w _ hl.s4 h
  · exact qa _ _ _ (by decide) hv.new.1 h
  · exact w _ hl.bc h
  · subst h; decide

/-- **C05_xml_split_refused**: a v2 file (no leading blank lines, valid fields, ASCII whitespace layout) whose XML
    declaration contains a line feed — i.e. is split over two lines — is refused with the header error: the first
    line alone is not an XML declaration, and the nine lines then read as a v1 header hold no `OFXHEADER:` (the body,
    as the header scanner reads it, is assumed not to contain `OFXHEADER:` either).  With a carriage return alone in
    that place the file is accepted (`C05_exact_full`). -/
theorem C05_xml_split_refused (p1 : V1P) (p2 : V2P) (tbl : List (Option Nat)) (lay : V2Lay) (h : V2) (bb : Bytes)
    (hv : ValidV2 p2 h) (hl : SplitLay lay) (hlf : '\n' ∈ xmlMid lay) (hmark : ¬ ofxMarker <:+: chars bb) :
    parseHeader p1 p2 tbl (renderFile (.v2 lay h) bb) = .error .header := by
  obtain ⟨M1, M2, hM, hM1⟩ := List.eq_append_cons_of_mem hlf
  have hmid := xmlMid_plain lay hl
  have hohp := ofxHead_plain p2 lay h hl hv
  obtain ⟨gs, ga⟩ := asciiSpace_spec _ hl.gap
  obtain ⟨as', aa⟩ := asciiSpace_spec _ hl.afterXml
  -- the text: first line, the rest of the declarations up to the last `>`, the gap
  let P : Str := "<?xml".toList ++ M1
  let Z : Str := M2 ++ ("?>".toList ++ (lay.afterXml ++ ofxHead lay h))
  have hT : v2Text lay h = P ++ '\n' :: (Z ++ '>' :: lay.gap) := by
    simp only [v2Text, hl.leading, leadingText, List.nil_append, v2Xml_mid, hM, v2Ofx_head, P, Z]
    simp
  have hPa : isAscii P := by
    refine isAscii_append.2 ⟨by unfold isAscii; decide, fun c hc => (hmid c (by rw [hM]; simp [hc])).1⟩
  have hPl : hasLF P = false := by
    simp only [hasLF, List.any_eq_false, beq_iff_eq, P, List.mem_append]
    rintro c (hc | hc) rfl
    · revert hc; decide
    · exact hM1 hc
  have hZc : ':' ∉ Z := by
    intro hm
    simp only [Z, List.mem_append] at hm
    rcases hm with h1 | h1 | h1 | h1
    · exact (hmid _ (by rw [hM]; simp [h1])).2.2 rfl
    · revert h1; decide
    · exact absurd (as' _ h1) (by decide)
    · exact (hohp _ h1).2 rfl
  have hZa : isAscii Z := by
    intro c hm
    simp only [Z, List.mem_append] at hm
    rcases hm with h1 | h1 | h1 | h1
    · exact (hmid _ (by rw [hM]; simp [h1])).1
    · have key : ∀ d ∈ "?>".toList, d.toNat < 128 := by decide
      exact key c h1
    · exact aa c h1
    · exact (hohp _ h1).1
  have hTa : isAscii (v2Text lay h) := by
    rw [hT]
    exact isAscii_append.2 ⟨hPa, isAscii_cons.2 ⟨by decide, isAscii_append.2 ⟨hZa, isAscii_cons.2 ⟨by decide, ga⟩⟩⟩⟩
  have hF : renderFile (.v2 lay h) bb = asciiBytes P ++ (10 :: (asciiBytes (Z ++ '>' :: lay.gap) ++ bb)) := by
    simp only [renderFile, renderV2, hT, asciiBytes_append]
    simp [asciiBytes, byteOf_10]
  have hline : chars (splitLine (renderFile (.v2 lay h) bb)) = P ++ ['\n'] := by
    rw [hF, splitLine_noLF _ _ hPa hPl, splitLine_cons, if_pos rfl, chars_append, chars_asciiBytes _ hPa]
    rfl
  refine C05_no_header_start_refused p1 p2 tbl _ (asciiBytes ("?xml".toList ++ M1) ++
      (10 :: (asciiBytes (Z ++ '>' :: lay.gap) ++ bb))) '<' ?_ (by decide) (by decide) ?_ ?_
  · rw [hF]; simp [P, asciiBytes]
  · rw [hline]
    apply not_infix_of_not_mem (c := '>') (by decide)
    simp only [P, List.mem_append, List.mem_singleton, not_or]
    refine ⟨⟨by decide, fun hm => (hmid _ (by rw [hM]; simp [hm])).2.1 rfl⟩, by decide⟩
  · intro hi
    have hpre := chars_prefix (firstLines_prefix 9 (renderFile (.v2 lay h) bb))
    have hch : chars (renderFile (.v2 lay h) bb) = (P ++ '\n' :: Z) ++ '>' :: (lay.gap ++ chars bb) := by
      simp only [renderFile, renderV2, chars_append, chars_asciiBytes _ hTa]
      rw [hT]
      simp
    rw [hch] at hpre
    obtain ⟨t, ht⟩ := hpre
    obtain ⟨x, y, hxy⟩ := hi
    have hin : ofxMarker <:+: (P ++ '\n' :: Z) ++ '>' :: (lay.gap ++ chars bb) := ⟨x, y ++ t, by rw [← ht, ← hxy]; simp⟩
    rcases infix_sep (by decide) hin with h1 | h1
    · -- no colon before the last `>`
      refine not_infix_of_not_mem (c := ':') (by decide) ?_ h1
      simp only [P, List.mem_append, List.mem_cons, not_or]
      refine ⟨⟨by decide, fun hm => (hmid _ (by rw [hM]; simp [hm])).2.2 rfl⟩, by decide, hZc⟩
    · refine hmark (infix_skip (by decide) ?_ h1)
      intro c hc hm
      have key : ∀ d ∈ ofxMarker, isSpace d = false := by decide
      have := gs c hc
      rw [key c hm] at this; cases this

/-- the guard is satisfiable: `__str__`'s layout with the XML declaration broken after `version="1.0"` -/
example : SplitLay { strLayV2 with xs2 := ['\n'] } ∧ '\n' ∈ xmlMid { strLayV2 with xs2 := ['\n'] } := by
  refine ⟨⟨rfl, ?_, ?_, ?_, ?_, ?_, ?_, ?_, ?_, ?_, ?_, ?_, ?_⟩, ?_⟩ <;> decide +kernel

end Ofx.Header
