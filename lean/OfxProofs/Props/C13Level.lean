/-
C13 — constructibility from a ONE-LEVEL obligation, by a generic induction.

`Props/C13Exist.lean: C13_constructible` lifts the whole statement (built, held, written, read back) from a table in
which every (class, child) description is run through the constructors, the writer and the reader.  Here the part
"the description exists, the constructors accept it, the instance holds the child and satisfies every constraint of its
class all the way down" is proved *generically*, for every schema, from a much weaker decidable obligation
(`ConstructibleLevels`): for every class that occurs as the class of a child, and for every (class, child) pair, only the
TOP-LEVEL call of the description is evaluated, on stubs of its arguments (`stubDesc`: the class of a sub-aggregate
and whether it will have members — all the constructor can see of it, `construct_sim`).  The induction
(`build_good`, over the description, using that every argument of a description `mk` returns is a value or the minimal
description of its class, `mk_children`, and that more fuel does not change a description, `mk_mono`) does the rest.
-/
import OfxProofs.Lemmas.C13Level
import OfxProofs.Props.C13Exist

namespace Ofx.Agg
open Ofx Ofx.Spec.Witness

section
variable (S : Schema) (cv : Conv)

/-- the top-level call of a description is accepted on stubs of its arguments (and the result holds `want`) -/
def callOkB (want : Option Attr) : Node → Bool
  | .val _ => false
  | .agg t kw args =>
    match construct S cv t (args.map stubDesc) (stubKw kw) with
    | .ok n =>
      (match want with
       | some a => holds a n
       | none => true)
    | .error _ => false

/-- `t` is the class of a sub-aggregate or of a repeated member of some class -/
def isTargetB (t : Nat) : Bool :=
  S.classes.any fun c => c.spec.any fun a => decide (a.kind = .sub t) || decide (a.kind = .listAgg t)

/-- the one-level obligation for class `ci`: its minimal description, when the class occurs as a child's class, and
    the description for each of its supported children, when the class is concrete and exported -/
def levelCls (F ci : Nat) : Bool :=
  match S.cls? ci with
  | none => true
  | some c =>
    (!isTargetB S ci ||
      (match mk S F ci none with
       | none => true
       | some d => callOkB S cv none d)) &&
    (c.abstract || !c.exported || (c.spec.filter supported).all fun a =>
      match mkWith S F ci a with
      | none => false
      | some d => callOkB S cv (some a) d)

def levelRange (F lo n : Nat) : Bool := (List.range' lo n).all (levelCls S cv F)

/-- **the one-level decidable obligation** -/
def ConstructibleLevels (F : Nat) (cover : List (Nat × Nat)) : Prop :=
  coversB S cover = true ∧ ∀ p ∈ cover, levelRange S cv F p.1 p.2 = true

theorem callOkB_sound (want : Option Attr) (d : Node) (h : callOkB S cv want d = true) :
    ∃ t kw args n, d = .agg t kw args ∧ construct S cv t (args.map stubDesc) (stubKw kw) = .ok n ∧
      ∀ a, want = some a → holds a n = true := by
  cases d with
  | val v => simp [callOkB] at h
  | agg t kw args =>
    simp only [callOkB] at h
    cases hc : construct S cv t (args.map stubDesc) (stubKw kw) with
    | error e => simp [hc] at h
    | ok n =>
      simp only [hc] at h
      refine ⟨t, kw, args, n, rfl, hc, ?_⟩
      intro a ha
      subst ha
      exact h

theorem isTargetB_of_target (t : Nat) (h : Target S t) : isTargetB S t = true := by
  obtain ⟨c, hc, a, ha, hk⟩ := h
  simp only [isTargetB, List.any_eq_true, Bool.or_eq_true, decide_eq_true_eq]
  exact ⟨c, hc, a, ha, hk⟩

theorem levelCls_of_cover (F : Nat) (cover : List (Nat × Nat)) (h : ConstructibleLevels S cv F cover) (ci : Nat) (c : Cls)
    (hc : S.cls? ci = some c) : levelCls S cv F ci = true := by
  obtain ⟨hcov, hall⟩ := h
  have hlt : ci < S.classes.length := by
    unfold Schema.cls? at hc
    exact (List.getElem?_eq_some_iff.mp hc).1
  have hci := (List.all_eq_true.mp hcov) ci (List.mem_range.mpr hlt)
  obtain ⟨p, hp, hin⟩ := List.any_eq_true.mp hci
  simp only [Bool.and_eq_true, decide_eq_true_eq] at hin
  have hmem : ci ∈ List.range' p.1 p.2 := by
    rw [List.mem_range'_1]; exact hin
  exact (List.all_eq_true.mp (hall p hp)) ci hmem

end

/-- **C13 (constructibility, generic route).**  For every schema whose one-level obligation holds
    (`ConstructibleLevels`: decidable, evaluates one constructor call per description, never the recursion): every
    supported child `a` declared by a concrete exported class `ci` has the description `mkWith S F ci a`, the
    constructors accept it bottom-up (real converters), and the instance — of class `ci` — holds the child and
    satisfies every constraint of its class all the way down. -/
theorem C13_constructible_levels (S : Schema) (hS : SchemaOk S) (F : Nat) (cover : List (Nat × Nat))
    (h : ConstructibleLevels S Types.conv F cover)
    (ci : Nat) (c : Cls) (a : Attr) (hc : S.cls? ci = some c) (hab : c.abstract = false) (hex : c.exported = true)
    (ha : a ∈ c.spec) (hs : a.kind.isUnsupported = false) :
    ∃ d fields items,
      mkWith S F ci a = some d ∧
      build S Types.conv d = .ok (.agg ci fields items) ∧
      holds a (.agg ci fields items) = true ∧
      ValidFull S (.agg ci fields items) := by
  -- the table, as a fact about the minimal descriptions of the classes of children
  have htab : ∀ t d, Target S t → mk S F t none = some d → CallOk S Types.conv d := by
    intro t d htgt hmk
    have hct : ∃ c', S.cls? t = some c' := by
      cases F with
      | zero => simp [mk] at hmk
      | succ f =>
        rw [mk_succ] at hmk
        cases hct : S.cls? t with
        | none => simp [hct] at hmk
        | some c' => exact ⟨c', rfl⟩
    obtain ⟨c', hct⟩ := hct
    have hl := levelCls_of_cover S Types.conv F cover h t c' hct
    simp only [levelCls, hct, Bool.and_eq_true, isTargetB_of_target S t htgt, Bool.not_true, Bool.false_or, hmk] at hl
    obtain ⟨t', kw, args, n, hd, hcon, _⟩ := callOkB_sound S Types.conv none d hl.1
    subst hd
    obtain ⟨_, _, hd', _, _⟩ := mk_children S F t none _ hmk
    injection hd' with ht
    subst ht
    exact ⟨n, hcon⟩
  -- the pair's own entry
  have hl := levelCls_of_cover S Types.conv F cover h ci c hc
  simp only [levelCls, hc, Bool.and_eq_true, hab, hex, Bool.not_true, Bool.false_or, List.all_eq_true] at hl
  have hpair := hl.2 a (List.mem_filter.mpr ⟨ha, by simp [supported, hs]⟩)
  cases hd : mkWith S F ci a with
  | none => simp [hd] at hpair
  | some d =>
    simp only [hd] at hpair
    obtain ⟨t', kw, args, n0, hdd, hcon0, hh0⟩ := callOkB_sound S Types.conv (some a) d hpair
    subst hdd
    obtain ⟨_, _, hd', hkwG, hargsG⟩ := mk_children S F ci (some a.name) _ hd
    injection hd' with ht hkw hargs
    subst ht hkw hargs
    obtain ⟨kw', hkw', hks⟩ := buildKw_good S Types.conv F htab kw (fun k v hm => hkwG k v hm)
    obtain ⟨args', hargs', has⟩ := buildArgs_good S Types.conv F htab args (fun m hm => hargsG m hm)
    obtain ⟨f0, i0, f', i', hn0, hcon, hfs, his⟩ := construct_sim S Types.conv t' has hks n0 hcon0
    have hb : build S Types.conv (.agg t' kw args) = .ok (.agg t' f' i') := by
      simp only [build, hkw', hargs']; exact hcon
    refine ⟨_, f', i', rfl, hb, ?_, build_full S hS _ _ hb rfl⟩
    rw [← holds_sim a t' hfs his, ← hn0]
    exact hh0 a rfl

end Ofx.Agg
