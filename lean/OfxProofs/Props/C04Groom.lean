/-
C04 — the tree-route rejections for EVERY class, the three whose reader renames a child included
(`groom`: STOCKINFO / MFINFO `YIELD→YLD`, MAIL `FROM→FRM`).  Extends `Props/C04Ext.lean`, `Props/C04Order.lean`
and `Props/C04.lean`, whose tree-route theorems assume `c.groom = none`; nothing there is changed.

No theorem here has a premise on `c.groom`.  A child `ch` standing after the children `pre` is read under its
*effective tag* `(effTag c (renamedAfter c false pre) ch.tag).1` (`Spec/DocValues.lean`): the class's rename target
for the first child carrying the source tag, its own tag otherwise.  The statements name that tag `etag`:

* `C04_reject_overlong_string_groom_tree`, `C04_reject_overlimit_integer_groom_tree`,
  `C04_reject_foreign_token_groom_tree` — per-type limits;
* `C04_reject_required_omitted_groom_tree`, `C04_reject_required_omitted_conv_groom_tree` — a required child no
  child's effective tag names;
* `C04_reject_duplicate_child_groom` — two children read under the same non-repeated tag (`YIELD` and `YLD` both);
* `C04_reject_adjacent_out_of_order_groom` — order of two adjacent known children, by effective tags.

With `c.groom = none` the effective tag is the child's own (`C04_effTag_noGroom`), so the `groom = none` versions are
the special case; `C04_effTag_renamed` / `C04_effTag_not_source` compute it for a class with a rename.
-/
import OfxProofs.Lemmas.C04Groom

namespace Ofx.Agg
open Ofx Ofx.Spec Ofx.Types

/-! ## the effective tag -/

/-- no rename hook: every child is read under its own tag (the `groom = none` theorems are the special case) -/
theorem C04_effTag_noGroom (c : Cls) (hg : c.groom = none) (pre : List Tree) (ch : Tree) :
    (effTag c (renamedAfter c false pre) ch.tag).1 = ch.tag := by
  rw [effTag_noGroom c hg]

/-- the first child carrying the source tag of the class's rename is read under the target tag -/
theorem C04_effTag_renamed (c : Cls) (r : Rename) (hg : c.groom = some r) (pre : List Tree) (ch : Tree)
    (hpre : ∀ t ∈ pre, t.tag ≠ r.fromTag) (hch : ch.tag = r.fromTag) :
    (effTag c (renamedAfter c false pre) ch.tag).1 = r.toTag :=
  effTag_hit c r hg pre ch hpre hch

/-- a child not carrying the source tag is read under its own tag -/
theorem C04_effTag_not_source (c : Cls) (r : Rename) (hg : c.groom = some r) (pre : List Tree) (ch : Tree)
    (hch : ch.tag ≠ r.fromTag) : (effTag c (renamedAfter c false pre) ch.tag).1 = ch.tag :=
  effTag_other c r hg _ _ hch

/-! ## per-type limits -/

/-- **rejection, tree route, any class**: a document holding a child read under the tag of a supported, non-repeated
    attribute whose `setattr` refuses the child's text is rejected -/
theorem fromEtree_error_of_setAttr_eff (S : Schema) (cv : Conv) (tag : Str) (x tl : Option Str)
    (pre post : List Tree) (ch : Tree) (ci : Nat) (c : Cls) (a : Attr) (t0 : Char) (ts : Str)
    (hf : S.findIdx? tag = some ci) (hc : S.cls? ci = some c) (hnd : (c.spec.map (·.name)).Nodup)
    (ha : a ∈ c.spec) (hname : a.name = lower (effTag c (renamedAfter c false pre) ch.tag).1)
    (hdot : '.' ∉ (effTag c (renamedAfter c false pre) ch.tag).1)
    (hl : a.kind.isList = false) (hu : a.kind.isUnsupported = false) (htext : ch.text = some (t0 :: ts))
    (hset : ∃ e, setAttr S cv a (.val (.str (t0 :: ts))) = .error e) :
    ∃ e, fromEtree S cv (.node tag x tl (pre ++ ch :: post)) = .error e := by
  apply not_ok_error
  intro n hn
  simp only [fromEtree, convertNode, hf, hc] at hn
  have hne : (pre ++ ch :: post).isEmpty = false := by cases pre <;> rfl
  simp only [hne, Bool.false_eq_true, if_false] at hn
  obtain ⟨acc, hfold, hn⟩ := bind_ok hn
  have ff := fold_slots S cv c hnd _ Accum.init acc hfold
  have hslot : (Step.attr a.name, a, ch) ∈ slots c false 0 (pre ++ ch :: post) :=
    slots_mid c ch post a _ pre false 0 (slotOf_field_of c hnd _ ch.tag a ha hname hdot hl hu)
  obtain ⟨raw, hraw, hmem⟩ := ff.fwd_attr a.name a ch hslot
  simp only [childValue, htext] at hraw
  injection hraw with hraw; subst hraw
  have hlk := lookup_of_mem_nodup a.name _ acc.kwargs (ff.nodup (by simp [Accum.init])) hmem
  obtain ⟨e, he⟩ := construct_error_of_setAttr S cv ci c acc.args acc.kwargs a hc
    (by simp [specNoList, ha, hl]) (by rw [hlk]; exact hset)
  rw [hn] at he; cases he

/-- **C04 (maximum string length, tree route, any class).**  A child read under the tag `etag` of a strict
    `String(n)` attribute whose text — after entity decoding — is longer than `n` makes the document rejected. -/
theorem C04_reject_overlong_string_groom_tree (S : Schema) (tag : Str) (x tl : Option Str) (pre post : List Tree)
    (ch : Tree) (ci : Nat) (c : Cls) (a : Attr) (n : Nat) (s etag : Str)
    (hf : S.findIdx? tag = some ci) (hc : S.cls? ci = some c) (hnd : (c.spec.map (·.name)).Nodup)
    (het : (effTag c (renamedAfter c false pre) ch.tag).1 = etag)
    (ha : a ∈ c.spec) (hname : a.name = lower etag) (hdot : '.' ∉ etag)
    (hk : a.kind = .string (some n) true) (htext : ch.text = some s) (hlong : n < (unescape s).length) :
    ∃ e, fromEtree S Types.conv (.node tag x tl (pre ++ ch :: post)) = .error e := by
  subst het
  cases s with
  | nil => simp [unescape_nil] at hlong
  | cons t0 ts =>
    apply fromEtree_error_of_setAttr_eff S Types.conv tag x tl pre post ch ci c a t0 ts hf hc hnd ha hname hdot
      (by simp [hk, Kind.isList]) (by simp [hk, Kind.isUnsupported]) htext
    rw [setAttr_string_text S a _ _ _ hk (by simp)]
    exact ⟨.spec, by simp [fits]; omega⟩

/-- **C04 (maximum integer digits, tree route, any class).** -/
theorem C04_reject_overlimit_integer_groom_tree (S : Schema) (tag : Str) (x tl : Option Str)
    (pre post : List Tree) (ch : Tree) (ci : Nat) (c : Cls) (a : Attr) (n : Nat) (s etag : Str) (i : Int)
    (hf : S.findIdx? tag = some ci) (hc : S.cls? ci = some c) (hnd : (c.spec.map (·.name)).Nodup)
    (het : (effTag c (renamedAfter c false pre) ch.tag).1 = etag)
    (ha : a ∈ c.spec) (hname : a.name = lower etag) (hdot : '.' ∉ etag)
    (hk : a.kind = .integer (some n)) (htext : ch.text = some s) (hp : pyIntParse s = some i)
    (hover : 10 ^ n ≤ i.natAbs) :
    ∃ e, fromEtree S Types.conv (.node tag x tl (pre ++ ch :: post)) = .error e := by
  subst het
  cases s with
  | nil => rw [show pyIntParse ([] : Str) = none from by decide] at hp; cases hp
  | cons t0 ts =>
    apply fromEtree_error_of_setAttr_eff S Types.conv tag x tl pre post ch ci c a t0 ts hf hc hnd ha hname hdot
      (by simp [hk, Kind.isList]) (by simp [hk, Kind.isUnsupported]) htext
    rw [setAttr_integer_text S a _ _ i hk (by simp) hp, setAttr_integer_int S a _ i hk]
    exact ⟨.spec, by simp [hover]⟩

/-- **C04 (enumerated value sets, tree route, any class).** -/
theorem C04_reject_foreign_token_groom_tree (S : Schema) (tag : Str) (x tl : Option Str) (pre post : List Tree)
    (ch : Tree) (ci : Nat) (c : Cls) (a : Attr) (e : Nat) (valid : List Str) (t0 : Char) (ts etag : Str)
    (hf : S.findIdx? tag = some ci) (hc : S.cls? ci = some c) (hnd : (c.spec.map (·.name)).Nodup)
    (het : (effTag c (renamedAfter c false pre) ch.tag).1 = etag)
    (ha : a ∈ c.spec) (hname : a.name = lower etag) (hdot : '.' ∉ etag)
    (hk : a.kind = .oneOf e) (he : S.enums[e]? = some valid) (htext : ch.text = some (t0 :: ts))
    (hforeign : (t0 :: ts) ∉ valid) :
    ∃ e, fromEtree S Types.conv (.node tag x tl (pre ++ ch :: post)) = .error e := by
  subst het
  apply fromEtree_error_of_setAttr_eff S Types.conv tag x tl pre post ch ci c a t0 ts hf hc hnd ha hname hdot
    (by simp [hk, Kind.isList]) (by simp [hk, Kind.isUnsupported]) htext
  rw [setAttr_oneOf_text S a e valid _ hk he (by simp)]
  exact ⟨.spec, by simp [hforeign]⟩

/-! ## required child omitted -/

/-- no child is read under the attribute's tag ⇒ the keyword collected for it is absent (any class) -/
theorem not_present_of_no_effTag (S : Schema) (cv : Conv) (c : Cls) (hnd : (c.spec.map (·.name)).Nodup)
    (children : List Tree) (acc : Accum) (n : Str)
    (hno : ∀ pre ch post, children = pre ++ ch :: post →
      lower (effTag c (renamedAfter c false pre) ch.tag).1 ≠ n)
    (hf : foldChildren c children (childInsts S cv children) Accum.init = .ok acc) : ¬ Present acc.kwargs n := by
  rintro ⟨v, hlk, hnn⟩
  have ff := fold_slots S cv c hnd _ Accum.init acc hf
  rcases ff.bwd_kw n v (lookup_mem hlk) with h0 | h0 | ⟨a', ch, hs, _⟩
  · simp [Accum.init] at h0
  · subst h0; simp [notNone] at hnn
  · obtain ⟨pre, post, h1, h2⟩ := slots_split c n a' ch children false 0 hs
    exact hno pre ch post h1 h2.symm

/-- **C04 (required child omitted, tree route, any class).**  A document none of whose children is *read under* the
    tag of a required sub-aggregate, or of a required data element whose converter refuses `None`, is rejected. -/
theorem C04_reject_required_omitted_groom_tree (S : Schema) (cv : Conv) (tag : Str) (x tl : Option Str)
    (children : List Tree) (ci : Nat) (c : Cls) (a : Attr)
    (hf : S.findIdx? tag = some ci) (hc : S.cls? ci = some c) (hnd : (c.spec.map (·.name)).Nodup)
    (ha : a ∈ c.spec) (hl : a.kind.isList = false) (hu : a.kind.isUnsupported = false) (hreq : a.required = true)
    (hcv : Kind.subTarget a.kind = none → ∃ e, cv.convert S.enums a.kind true .none = .error e)
    (hno : ∀ pre ch post, children = pre ++ ch :: post →
      lower (effTag c (renamedAfter c false pre) ch.tag).1 ≠ a.name) :
    ∃ e, fromEtree S cv (.node tag x tl children) = .error e := by
  apply not_ok_error
  intro n hn
  have key : ∀ args kw, ¬ Present kw a.name → ∃ e, construct S cv ci args kw = .error e := by
    intro args kw hng
    cases hst : Kind.subTarget a.kind with
    | some t =>
      have hk : a.kind = .sub t := by cases hk : a.kind <;> simp_all [Kind.subTarget]
      exact C04_reject_required_sub S cv ci c args kw a t hc ha hk hreq hng
    | none => exact C04_reject_required_elem S cv ci c args kw a hc ha hl hu hst hreq hng (hcv hst)
  simp only [fromEtree, convertNode, hf, hc] at hn
  by_cases hemp : children.isEmpty = true
  · simp only [hemp, if_true] at hn
    obtain ⟨e, he⟩ := key [] [] (by rintro ⟨v, h, _⟩; simp [lookup] at h)
    rw [hn] at he; cases he
  · simp only [hemp, Bool.false_eq_true, if_false] at hn
    cases hfold : foldChildren c children (childInsts S cv children) Accum.init with
    | error e => simp [hfold, bind, Except.bind] at hn
    | ok acc =>
      simp only [hfold, bind, Except.bind] at hn
      obtain ⟨e, he⟩ := key acc.args acc.kwargs (not_present_of_no_effTag S cv c hnd children acc a.name hno hfold)
      rw [hn] at he; cases he

/-- **C04 (required element or sub-aggregate omitted, tree route, any class, real converters).** -/
theorem C04_reject_required_omitted_conv_groom_tree (S : Schema) (tag : Str) (x tl : Option Str)
    (children : List Tree) (ci : Nat) (c : Cls) (a : Attr) (hf : S.findIdx? tag = some ci)
    (hc : S.cls? ci = some c) (hnd : (c.spec.map (·.name)).Nodup) (ha : a ∈ c.spec) (hl : a.kind.isList = false)
    (hu : a.kind.isUnsupported = false) (hreq : a.required = true)
    (hno : ∀ pre ch post, children = pre ++ ch :: post →
      lower (effTag c (renamedAfter c false pre) ch.tag).1 ≠ a.name) :
    ∃ e, fromEtree S Types.conv (.node tag x tl children) = .error e :=
  C04_reject_required_omitted_groom_tree S Types.conv tag x tl children ci c a hf hc hnd ha hl hu hreq
    (fun hst => conv_required_none S.enums a.kind hl hu hst) hno

/-! ## duplicate child, order -/

/-- **C04 (at most one occurrence of a non-repeatable child, tree route, any class).**  A document in which two
    children are read under the same known, non-repeated tag is rejected — e.g. a `YIELD` and a `YLD` child of
    STOCKINFO, in either order. -/
theorem C04_reject_duplicate_child_groom (S : Schema) (cv : Conv) (tag : Str) (x tl : Option Str)
    (pre mid post : List Tree) (a b : Tree) (ci : Nat) (c : Cls) (idx : Nat) (etag : Str)
    (hf : S.findIdx? tag = some ci) (hc : S.cls? ci = some c)
    (heta : (effTag c (renamedAfter c false pre) a.tag).1 = etag)
    (hetb : (effTag c (renamedAfter c false (pre ++ a :: mid)) b.tag).1 = etag)
    (hdot : '.' ∉ etag) (hidx : specIndex c (lower etag) = some idx)
    (hnl : isListMember c (lower etag) = false) :
    ∃ e, fromEtree S cv (.node tag x tl (pre ++ a :: (mid ++ b :: post))) = .error e := by
  simp only [fromEtree, convertNode, hf, hc]
  have hne : (pre ++ a :: (mid ++ b :: post)).isEmpty = false := by cases pre <;> rfl
  simp only [hne, Bool.false_eq_true, if_false]
  have key : ∃ e, foldChildren c (pre ++ a :: (mid ++ b :: post))
      (childInsts S cv (pre ++ a :: (mid ++ b :: post))) Accum.init = .error e := by
    have hsplit : pre ++ a :: (mid ++ b :: post) = (pre ++ a :: mid) ++ b :: post := by simp
    rw [hsplit, childInsts_append]
    simp only [childInsts]
    apply foldChildren_error_of_step c (pre ++ a :: mid) _ b _ post _ Accum.init (childInsts_length S cv _)
    intro acc1 hacc1
    have hr1 : acc1.renamed = renamedAfter c false (pre ++ a :: mid) :=
      foldChildren_renamed c _ _ Accum.init acc1 (childInsts_length S cv _) hacc1
    rw [childInsts_append] at hacc1
    simp only [childInsts] at hacc1
    rw [foldChildren_append c pre (a :: mid) _ _ Accum.init (childInsts_length S cv pre)] at hacc1
    cases hp : foldChildren c pre (childInsts S cv pre) Accum.init with
    | error e => simp [hp, bind, Except.bind] at hacc1
    | ok acc0 =>
      have hr0 : acc0.renamed = renamedAfter c false pre :=
        foldChildren_renamed c pre _ Accum.init acc0 (childInsts_length S cv pre) hp
      simp only [hp, bind, Except.bind, foldChildren] at hacc1
      cases hu : updateArgs c acc0 a (fromEtree S cv a) with
      | error e => simp [hu] at hacc1
      | ok acc2 =>
        simp only [hu] at hacc1
        have e0 : (effTag c acc0.renamed a.tag).1 = etag := by rw [hr0]; exact heta
        have e1 : (effTag c acc1.renamed b.tag).1 = etag := by rw [hr1]; exact hetb
        rw [updateArgs_eff c acc0 a _ (by rw [e0]; exact hdot), e0] at hu
        have hk2 := stepCore_known_key c _ acc2 etag _ idx hidx hnl hu
        have hk1 := foldChildren_hasKey' c mid _ acc2 acc1 hacc1 _ hk2
        rw [updateArgs_eff c acc1 b _ (by rw [e1]; exact hdot), e1]
        exact stepCore_dup_error c _ etag _ idx hidx hnl hk1
  obtain ⟨e, he⟩ := key
  exact ⟨e, by simp [he, bind, Except.bind]⟩

/-- **C04 (order, tree route, adjacent children, any class).**  Let `a` and `b` be two children read under known
    tags `eta`, `etb`, with only children the class does not know between them.  If `etb`'s spec position is not
    greater than `eta`'s, the document is rejected — unless both are repeated (list-member) children. -/
theorem C04_reject_adjacent_out_of_order_groom (S : Schema) (cv : Conv) (tag : Str) (x tl : Option Str)
    (pre mid post : List Tree) (a b : Tree) (ci : Nat) (c : Cls) (ia ib : Nat) (eta etb : Str)
    (hf : S.findIdx? tag = some ci) (hc : S.cls? ci = some c)
    (hmid : ∀ t ∈ mid, Unknown c t.tag)
    (heta : (effTag c (renamedAfter c false pre) a.tag).1 = eta)
    (hetb : (effTag c (renamedAfter c false (pre ++ a :: mid)) b.tag).1 = etb)
    (hdota : '.' ∉ eta) (hia : specIndex c (lower eta) = some ia)
    (hdotb : '.' ∉ etb) (hib : specIndex c (lower etb) = some ib) (hle : ib ≤ ia)
    (hnb : ¬ (isListMember c (lower eta) = true ∧ isListMember c (lower etb) = true)) :
    ∃ e, fromEtree S cv (.node tag x tl (pre ++ a :: (mid ++ b :: post))) = .error e := by
  simp only [fromEtree, convertNode, hf, hc]
  have hne : (pre ++ a :: (mid ++ b :: post)).isEmpty = false := by cases pre <;> rfl
  simp only [hne, Bool.false_eq_true, if_false]
  have key : ∃ e, foldChildren c (pre ++ a :: (mid ++ b :: post))
      (childInsts S cv (pre ++ a :: (mid ++ b :: post))) Accum.init = .error e := by
    have hsplit : pre ++ a :: (mid ++ b :: post) = (pre ++ a :: mid) ++ b :: post := by simp
    rw [hsplit, childInsts_append]
    simp only [childInsts]
    apply foldChildren_error_of_step c (pre ++ a :: mid) _ b _ post _ Accum.init (childInsts_length S cv _)
    intro acc1 hacc1
    have hr1 : acc1.renamed = renamedAfter c false (pre ++ a :: mid) :=
      foldChildren_renamed c _ _ Accum.init acc1 (childInsts_length S cv _) hacc1
    rw [childInsts_append] at hacc1
    simp only [childInsts] at hacc1
    rw [foldChildren_append c pre (a :: mid) _ _ Accum.init (childInsts_length S cv pre)] at hacc1
    cases hp : foldChildren c pre (childInsts S cv pre) Accum.init with
    | error e => simp [hp, bind, Except.bind] at hacc1
    | ok acc0 =>
      have hr0 : acc0.renamed = renamedAfter c false pre :=
        foldChildren_renamed c pre _ Accum.init acc0 (childInsts_length S cv pre) hp
      simp only [hp, bind, Except.bind, foldChildren] at hacc1
      cases hu : updateArgs c acc0 a (fromEtree S cv a) with
      | error e => simp [hu] at hacc1
      | ok acc2 =>
        simp only [hu] at hacc1
        rw [foldChildren_unknown c mid _ acc2 hmid] at hacc1
        injection hacc1 with hacc1; subst hacc1
        have e0 : (effTag c acc0.renamed a.tag).1 = eta := by rw [hr0]; exact heta
        have e1 : (effTag c acc2.renamed b.tag).1 = etb := by rw [hr1]; exact hetb
        rw [updateArgs_eff c acc0 a _ (by rw [e0]; exact hdota), e0] at hu
        obtain ⟨hp2, hl2⟩ := stepCore_prev c _ acc2 eta _ ia hia hu
        rw [updateArgs_eff c acc2 b _ (by rw [e1]; exact hdotb), e1]
        exact ⟨.spec, stepCore_order_error c _ etb _ ib ia hib hp2 hle
          (fun ⟨h1, h2⟩ => hnb ⟨by rw [← hl2]; exact h2, h1⟩)⟩
  obtain ⟨e, he⟩ := key
  exact ⟨e, by simp [he, bind, Except.bind]⟩

end Ofx.Agg

/-! ## non-vacuity: every guard above is satisfiable by a class WITH a rename (`YIELD→YLD`) -/

namespace Ofx.Agg.C04GroomEx
open Ofx Ofx.Agg Ofx.Spec Ofx.Types Ofx.Agg.C04ExtEx

/-- `G k`: a required `String(3)` `a`, then `yld` of kind `k`, read from a `YIELD` child (as STOCKINFO does) -/
def clsG (k : Kind) : Cls :=
  { mkCls "G" [⟨"a".toList, .string (some 3) true, true⟩, ⟨"yld".toList, k, true⟩] [] .none with
    groom := some ⟨"YIELD".toList, "YLD".toList⟩, ungroom := some ⟨"YLD".toList, "YIELD".toList⟩ }

def exG (k : Kind) : Schema := { classes := [clsG k], enums := [["X".toList, "Y".toList]] }

/-- the class has a rename hook -/
example (k : Kind) : (clsG k).groom ≠ none := by simp [clsG]

/-- the `YIELD` child is read under `YLD` -/
example (k : Kind) : (effTag (clsG k) (renamedAfter (clsG k) false [leaf "A" "abc"]) "YIELD".toList).1 = "YLD".toList :=
  C04_effTag_renamed (clsG k) _ rfl [leaf "A" "abc"] (leaf "YIELD" "1") (by decide) rfl

/-- string: `<YIELD>abc` refused by `yld : String(2)` -/
example : ∃ e, fromEtree (exG (.string (some 2) true)) Types.conv
    (.node "G".toList none none ([leaf "A" "abc"] ++ leaf "YIELD" "abc" :: [])) = .error e :=
  C04_reject_overlong_string_groom_tree (exG (.string (some 2) true)) _ none none [leaf "A" "abc"] []
    (leaf "YIELD" "abc") 0 (clsG (.string (some 2) true)) ⟨"yld".toList, .string (some 2) true, true⟩ 2
    "abc".toList "YLD".toList rfl rfl (by decide) (by decide) (by simp [clsG, mkCls]) (by decide) (by decide)
    rfl rfl (by decide)

/-- integer: `<YIELD>100` refused by `yld : Integer(2)` -/
example : ∃ e, fromEtree (exG (.integer (some 2))) Types.conv
    (.node "G".toList none none ([leaf "A" "abc"] ++ leaf "YIELD" "100" :: [])) = .error e :=
  C04_reject_overlimit_integer_groom_tree (exG (.integer (some 2))) _ none none [leaf "A" "abc"] []
    (leaf "YIELD" "100") 0 (clsG (.integer (some 2))) ⟨"yld".toList, .integer (some 2), true⟩ 2
    "100".toList "YLD".toList 100 rfl rfl (by decide) (by decide) (by simp [clsG, mkCls]) (by decide) (by decide)
    rfl rfl (by decide) (by decide)

/-- token: `<YIELD>W` refused by `yld : OneOf(X, Y)` -/
example : ∃ e, fromEtree (exG (.oneOf 0)) Types.conv
    (.node "G".toList none none ([leaf "A" "abc"] ++ leaf "YIELD" "W" :: [])) = .error e :=
  C04_reject_foreign_token_groom_tree (exG (.oneOf 0)) _ none none [leaf "A" "abc"] []
    (leaf "YIELD" "W") 0 (clsG (.oneOf 0)) ⟨"yld".toList, .oneOf 0, true⟩ 0 _ 'W' [] "YLD".toList
    rfl rfl (by decide) (by decide) (by simp [clsG, mkCls]) (by decide) (by decide) rfl rfl rfl (by decide)

/-- the guard of the required-child theorem: no child of `<G><A>abc</A></G>` is read under `YLD` -/
theorem noYld : ∀ pre ch post, [leaf "A" "abc"] = pre ++ ch :: post →
    lower (effTag (clsG (.integer (some 2))) (renamedAfter (clsG (.integer (some 2))) false pre) ch.tag).1 ≠
      "yld".toList := by
  intro pre ch post h
  cases pre with
  | nil =>
    simp only [List.nil_append, List.cons.injEq] at h
    obtain ⟨rfl, _⟩ := h
    decide
  | cons p pre => simp at h

/-- required child omitted: `<G><A>abc</A></G>` lacks the required `yld` (neither a `YIELD` nor a `YLD` child) -/
example : ∃ e, fromEtree (exG (.integer (some 2))) Types.conv
    (.node "G".toList none none [leaf "A" "abc"]) = .error e :=
  C04_reject_required_omitted_conv_groom_tree (exG (.integer (some 2))) _ none none _ 0 (clsG (.integer (some 2)))
    ⟨"yld".toList, .integer (some 2), true⟩ rfl rfl (by decide) (by simp [clsG, mkCls]) rfl rfl rfl
    noYld

/-- duplicate: a `YIELD` child (read as `YLD`) and a `YLD` child -/
example : ∃ e, fromEtree (exG (.integer (some 2))) Types.conv
    (.node "G".toList none none ([leaf "A" "abc"] ++ leaf "YIELD" "1" :: ([] ++ leaf "YLD" "2" :: []))) = .error e :=
  C04_reject_duplicate_child_groom (exG (.integer (some 2))) Types.conv _ none none [leaf "A" "abc"] [] []
    (leaf "YIELD" "1") (leaf "YLD" "2") 0 (clsG (.integer (some 2))) 1 "YLD".toList rfl rfl (by decide) (by decide)
    (by decide) (by decide) (by decide)

/-- order: the `YIELD` child (read as `YLD`, position 1) before `A` (position 0) -/
example : ∃ e, fromEtree (exG (.integer (some 2))) Types.conv
    (.node "G".toList none none ([] ++ leaf "YIELD" "1" :: ([leaf "ZZ" "u"] ++ leaf "A" "abc" :: []))) = .error e :=
  C04_reject_adjacent_out_of_order_groom (exG (.integer (some 2))) Types.conv _ none none [] [leaf "ZZ" "u"] []
    (leaf "YIELD" "1") (leaf "A" "abc") 0 (clsG (.integer (some 2))) 1 0 "YLD".toList "A".toList rfl rfl
    (by
      intro t ht
      simp only [List.mem_singleton] at ht; subst ht
      exact ⟨fun r hr => by simp [clsG] at hr; subst hr; decide, Or.inr (by decide)⟩)
    (by decide) (by decide) (by decide) (by decide) (by decide) (by decide) (by decide) (by decide)

end Ofx.Agg.C04GroomEx
