import OfxProofs.Lemmas.SecId
import OfxProofs.Props.C20
import OfxProofs.Gen.Tables
