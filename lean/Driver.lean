/-
Line-protocol driver: reads one request per line on stdin, writes one reply per line.
Imports only `OfxModel` (no Mathlib), so it links as a `lean_exe`.
-/
import OfxModel.Drv.All

open Ofx Ofx.Drv

def dispatch (line : String) : String :=
  match SExp.parseLine line with
  | some (.atom op :: args) =>
    match Ofx.Drv.handlers.findSome? (fun h => h op args) with
    | some r => r
    | none => replyBad
  | _ => replyBad

partial def loop (hin : IO.FS.Stream) (hout : IO.FS.Stream) : IO Unit := do
  let line ← hin.getLine
  if line.isEmpty then return ()
  let l := line.trimAscii.toString
  if l == "flush" then
    hout.putStrLn "(flushed)"
    hout.flush
  else
    hout.putStrLn (dispatch l)
  loop hin hout

def main : IO Unit := do
  let hin ← IO.getStdin
  let hout ← IO.getStdout
  loop hin hout
  hout.flush
