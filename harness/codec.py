"""
Canonical protocol forms of Python values, element trees and model instances.
`canon_*` return nested lists of atom strings (exactly what proto.parse returns for the
corresponding text), `text()` turns them into protocol text.
Mirrors lean/OfxModel/Ofx/{Tree,Value}.lean.
"""
import datetime
import decimal
import xml.etree.ElementTree as ET

from proto import S


def text(n) -> str:
    if isinstance(n, str):
        return n
    return "(" + " ".join(text(x) for x in n) + ")"


def opt(v, f=lambda x: x):
    return "none" if v is None else ["some", f(v)]


def b(v: bool) -> str:
    return "T" if v else "F"


# ---------------------------------------------------------------- values
def canon_dec(d: decimal.Decimal):
    sign, digits, exp = d.as_tuple()
    if exp == "F":
        return ["dinf", b(bool(sign))]
    if exp in ("n", "N"):
        payload = int("".join(map(str, digits)) or "0")
        return ["dnan", b(bool(sign)), b(exp == "N"), str(payload)]
    coeff = int("".join(map(str, digits)) or "0")
    return ["d", b(bool(sign)), str(coeff), str(int(exp))]


def canon_tz(obj, dt_for_offset):
    """tzinfo of a datetime/time -> none | (some (tz offUs name))"""
    off = obj.utcoffset() if dt_for_offset is None else obj.utcoffset()
    if off is None:
        return "none"
    us = (off.days * 86400 + off.seconds) * 10 ** 6 + off.microseconds
    try:
        name = obj.tzname()
    except Exception:
        name = None
    return ["some", ["tz", str(us), opt(name, S)]]


def canon_val(v, cls_index=None):
    if v is None:
        return "none"
    if isinstance(v, bool):
        return ["b", b(v)]
    if isinstance(v, int):
        return ["i", str(v)]
    if isinstance(v, str):
        return ["s", S(v)]
    if isinstance(v, decimal.Decimal):
        return canon_dec(v)
    if isinstance(v, datetime.datetime):
        return ["dt", str(v.year), str(v.month), str(v.day), str(v.hour), str(v.minute), str(v.second),
                str(v.microsecond), canon_tz(v, None)]
    if isinstance(v, datetime.time):
        return ["tm", str(v.hour), str(v.minute), str(v.second), str(v.microsecond), canon_tz(v, None)]
    from ofxtools.models.base import Aggregate
    if isinstance(v, Aggregate):
        return canon_inst(v, cls_index)
    return ["o", type(v).__name__]


# ---------------------------------------------------------------- instances
_CLS_INDEX = None


def class_index(schema=None):
    """class object name -> index used by the generated schema (sorted by namespace name)"""
    global _CLS_INDEX
    if _CLS_INDEX is None:
        import inspect
        import ofxtools.models as M
        from ofxtools.models.base import Aggregate
        names = sorted(n for n, c in vars(M).items() if inspect.isclass(c) and issubclass(c, Aggregate))
        _CLS_INDEX = {getattr(M, n): i for i, n in enumerate(names)}
    return _CLS_INDEX


def canon_inst(inst, cls_index=None):
    """Aggregate instance -> (inst idx ((name field)...) (items...)); reads __dict__ directly"""
    idx = (cls_index or class_index()).get(type(inst), -1)
    fields = []
    for name, val in inst.__dict__.items():
        fields.append([S(name), canon_val(val, cls_index)])
    items = [canon_val(m, cls_index) for m in list.__iter__(inst)]
    return ["inst", str(idx), fields, items]


# ---------------------------------------------------------------- trees
def canon_tree(e: ET.Element):
    return ["t", S(e.tag), opt(e.text, S), opt(e.tail, S), [canon_tree(c) for c in e]]


def tree(tag, text_=None, children=(), tail=None):
    """nested-list tree literal"""
    return ["t", S(tag), opt(text_, S), opt(tail, S), list(children)]


def to_element(n) -> ET.Element:
    """nested-list tree -> ET.Element"""
    from proto import dstr
    _, tag, tx, tl, cs = n
    e = ET.Element(dstr(tag))
    e.text = None if tx == "none" else dstr(tx[1])
    e.tail = None if tl == "none" else dstr(tl[1])
    for c in cs:
        e.append(to_element(c))
    return e
