"""
Type-directed generator of model instances from the live schema (the JSON twin written by the
translator): mostly-valid keyword descriptions for every class, built into real instances.

A *description* is (class_name, args, kwargs) with native Python values (Decimal, aware datetime, bool,
int, str) for elements, nested descriptions for sub-aggregates / list members.  `build(desc)` makes the
real instance with the real classes; `text_kwargs(desc)` gives the raw texts the tree route would see.
"""
import datetime
import decimal
import string

D = decimal.Decimal

# characters for string values: markup, quotes, non-ASCII, entity spellings are all in the pool
ALPHA = string.ascii_letters + string.digits
# (a text given to a String element is unescaped once by convert: "&amp;lt;" makes the *instance* hold the four
#  characters "&lt;", which is the interesting case for anything that escapes / unescapes on the way out and in)
SPICE = ["&", "<", ">", '"', "'", "\u00e9", "\u00df", "\u20ac", "\u4e2d", "&amp;", "&lt;", "&#38;", ";", "]]>", "/", "=", "%", " x"]
SPICE_DEEP = ["&amp;amp;", "&amp;lt;", "&amp;gt;", "&amp;nbsp;", "&amp;apos;", "&amp;amp;amp;"]


class Gen:
    def __init__(self, schema, rng, max_depth=3, spicy=True, p_opt=0.5, max_list=3):
        self.s = schema
        self.rng = rng
        self.max_depth = max_depth
        self.spicy = spicy
        self.p_opt = p_opt
        self.max_list = max_list
        self.p_posexp = 0.0      # probability of a Decimal with positive exponent (unscaled decimals)
        self.by_name = {c["name"]: c for c in schema["classes"]}
        self.by_idx = {c["idx"]: c for c in schema["classes"]}
        import ofxtools.models as M
        from ofxtools import utils
        self.M = M
        self.UTC = utils.UTC

    # ------------------------------------------------------------------ element values
    def string(self, length, plain=False):
        rng = self.rng
        maxlen = length if length is not None else 40
        if maxlen <= 0:
            maxlen = 1
        r = rng.random()
        if r < 0.15:
            n = maxlen                      # exactly at the limit
        elif r < 0.3:
            n = 1
        else:
            n = rng.randint(1, min(maxlen, 24))
        out = []
        while len("".join(out)) < n:
            if self.spicy and not plain and rng.random() < 0.15:
                out.append(rng.choice(SPICE + SPICE_DEEP if self.deep_entities else SPICE))
            elif rng.random() < 0.08 and out:
                out.append(" ")
            else:
                out.append(rng.choice(ALPHA))
        s = "".join(out)[:n].strip()
        if not s:
            s = rng.choice(ALPHA)
        return s

    def integer(self, length):
        rng = self.rng
        if length is None:
            return rng.choice([0, 1, 7, 42, 10 ** 9, -3, rng.randint(-10 ** 6, 10 ** 12)])
        r = rng.random()
        if r < 0.25:
            return 10 ** length - 1
        if r < 0.35:
            return 0
        if r < 0.45:
            return -(10 ** length - 1)          # the limit is on the digits, not on the sign
        if r < 0.55:
            return -rng.randint(0, 10 ** length - 1)
        return rng.randint(0, 10 ** length - 1)

    def dec(self, qexp):
        rng = self.rng
        if qexp is None:
            e = rng.choice([0, -1, -2, -2, -4, -6]) if rng.random() > self.p_posexp else rng.choice([1, 2, 5])
            c = rng.choice([0, 1, 5, 99, 12345, rng.randint(0, 10 ** 9)])
        else:
            e = qexp
            c = rng.choice([0, 1, 10, 12345, rng.randint(0, 10 ** 10)])
        sign = 1 if rng.random() < 0.3 else 0
        digits = tuple(int(ch) for ch in str(c))
        return D((sign, digits, e))

    #: also draw doubly-escaped entity spellings, so that instances hold literal "&amp;", "&lt;" … texts; only for
    #: checks that go through the serializer (the bare converter pair is not an inverse pair on such texts: recorded
    #: finding C10 string-unconvert-no-escape)
    deep_entities = False

    #: probability that a date-time / time value carries a non-UTC fixed offset (whole and fractional hours,
    #: both signs, named or not); 0 keeps every value in UTC
    p_tz = 0.0
    OFFSETS = [-720, -570, -210, -300, -30, -60, 60, 330, 345, 525, 765, 840, 30, -690, 0]

    def tz(self):
        if not self.p_tz or self.rng.random() >= self.p_tz:
            return self.UTC
        rng = self.rng
        off = rng.choice(self.OFFSETS) if rng.random() < 0.7 else rng.randrange(-720, 841, 15)
        td = datetime.timedelta(minutes=off)
        name = rng.choice([None, "EST", "NST", "X"])
        return datetime.timezone(td) if name is None else datetime.timezone(td, name)

    def dt(self):
        rng = self.rng
        y = rng.choice([1900, 1999, 2000, 2004, 2020, 2024, 2100, 2199, rng.randint(1900, 2200)])
        m = rng.randint(1, 12)
        d = rng.randint(1, 28)
        if rng.random() < 0.15:
            m, d = rng.choice([(2, 29), (12, 31), (1, 1), (2, 28)])
            if (m, d) == (2, 29) and not (y % 4 == 0 and (y % 100 != 0 or y % 400 == 0)):
                d = 28
        ms = rng.choice([0, 0, 1, 999, rng.randint(0, 999)])
        return datetime.datetime(y, m, d, rng.randint(0, 23), rng.randint(0, 59), rng.randint(0, 59), ms * 1000,
                                 tzinfo=self.tz())

    def tm(self):
        rng = self.rng
        return datetime.time(rng.randint(0, 23), rng.randint(0, 59), rng.randint(0, 59),
                             rng.choice([0, 1, 999, rng.randint(0, 999)]) * 1000, tzinfo=self.tz())

    def value(self, k):
        kind = k["k"]
        if kind == "bool":
            return self.rng.random() < 0.5
        if kind == "string":
            return self.string(k["length"])
        if kind == "oneof":
            return self.rng.choice(self.s["enums"][k["enum"]])
        if kind == "integer":
            return self.integer(k["length"])
        if kind == "decimal":
            return self.dec(k["qexp"])
        if kind == "datetime":
            return self.dt()
        if kind == "time":
            return self.tm()
        raise ValueError(kind)

    # ------------------------------------------------------------------ descriptions
    def desc(self, name, depth=0, force=None):
        """-> (name, args, kwargs): a mostly-valid description of class `name`.
        force: attribute names that must be present."""
        rng = self.rng
        c = self.by_name[name]
        force = set(force or ())
        spec = c["spec"]
        extra = c["extra"]
        kwargs = {}
        # choose which optional attributes are present
        deep = depth >= self.max_depth
        present = {}
        for a in spec:
            if a["k"] in ("listagg", "listelem", "unsupported"):
                continue
            if a["required"] or a["name"] in force:
                present[a["name"]] = True
            else:
                present[a["name"]] = (not deep or a["k"] not in ("sub",)) and rng.random() < (self.p_opt if not deep else 0.25)
        # mutex groups
        for g in c["opt_mutex"] + c["decl_opt_mutex"]:
            on = [m for m in g if present.get(m)]
            keep = [m for m in on if m in force]
            if len(on) > 1:
                k = keep[0] if keep else rng.choice(on)
                for m in on:
                    present[m] = (m == k)
        for g in c["req_mutex"] + c["decl_req_mutex"]:
            members = [m for m in g if m in present]
            if not members:
                continue
            on = [m for m in members if present.get(m)]
            keep = [m for m in on if m in force]
            k = keep[0] if keep else (rng.choice(on) if on else rng.choice(members))
            for m in members:
                present[m] = (m == k)
        # hand-coded rules
        if extra == "ofx":
            fam = rng.choice(["rq", "rs"])
            forced_fam = [n for n in force if n.endswith("v1")]
            if forced_fam:
                fam = "rq" if forced_fam[0].endswith("rqv1") else "rs"
            for n in list(present):
                if n.endswith("v1"):
                    if not n.endswith("ms" + "g" + "s" + fam + "v1") and not n.endswith(fam + "v1"):
                        present[n] = False
            sign = "signonmsgs" + fam + "v1"
            if sign in present:
                present[sign] = True
        if extra == "sonrq":
            if "userkey" in force or (not ({"userid", "userpass"} & force) and rng.random() < 0.2):
                present.update(userid=False, userpass=False, userkey=True)
            else:
                present.update(userid=True, userpass=True, userkey=False)
        if extra == "contribsecurity":
            fam = rng.choice(["pct", "amt"])
            for n in force:
                if n != "secid":
                    fam = n[-3:]
            names = [n for n in present if n != "secid"]
            for n in names:
                if not n.endswith(fam):
                    present[n] = False
            if not any(present[n] for n in names if n.endswith(fam)):
                present[rng.choice([n for n in names if n.endswith(fam)])] = True
        if extra == "extdpmt":
            present["extdpmtdsc"] = True
        if extra == "extdpayee" and present.get("payeeid"):
            present["idscope"] = True
            present["name"] = True
        if extra == "tax1099r":
            if any(present.get(t) for t in ("grossdist", "taxamt", "fedtaxwh", "sttaxwh", "lcltaxwh")):
                present["irasepsimp"] = True
        for a in spec:
            if a["k"] in ("listagg", "listelem", "unsupported"):
                continue
            if not present.get(a["name"]):
                continue
            if a["k"] == "sub":
                kwargs[a["name"]] = self.desc(a["clsname"], depth + 1)
            else:
                kwargs[a["name"]] = self.value(a)
        # list members
        args = []
        lists = [a for a in spec if a["k"] in ("listagg", "listelem")]
        if lists:
            need = extra in ("msgsetcore", "msgsetlist", "mfachallengers", "contribinfo", "tax1099msgsrqv1",
                             "tax1099msgsrsv1", "tax1099msgsetv1", "acctinfo", "tax1099rs")
            forced_lists = [a for a in lists if a["name"] in force]
            n = rng.randint(0, self.max_list if not deep else 1)
            if need or forced_lists:
                n = max(n, 1)
            if extra == "tax1099rs" and forced_lists:
                n = max(n, 2)
            chosen = []
            for i in range(n):
                a = forced_lists[0] if (forced_lists and i == 0) else rng.choice(lists)
                if extra == "tax1099rs" and i == (1 if forced_lists else 0) and not any(
                        x["name"].startswith("tax1099") for x in chosen):
                    a = rng.choice([x for x in lists if x["name"].startswith("tax1099")])
                if extra == "acctinfo" and a["name"] in [x["name"] for x in chosen]:
                    continue
                chosen.append(a)
            for a in chosen:
                if a["k"] == "listagg":
                    args.append(self.desc(a["clsname"], depth + 1))
                else:
                    args.append(self.value(a["inner"]))
        return (name, args, kwargs)

    # ------------------------------------------------------------------ building
    def build(self, desc):
        name, args, kwargs = desc
        cls = getattr(self.M, name)
        a = [self.build(x) if isinstance(x, tuple) else self._member(x) for x in args]
        k = {n: (self.build(v) if isinstance(v, tuple) else v) for n, v in kwargs.items()}
        return cls(*a, **k)

    @staticmethod
    def _member(x):
        # ElementList members are converted from text/native by the ListElement converter
        return x

    def valid_instance(self, name, tries=6, force=None):
        """-> (desc, instance) or (None, error)"""
        err = None
        for _ in range(tries):
            try:
                d = self.desc(name, force=force)     # (a schema damaged by the change under test can defeat the generator)
                return d, self.build(d)
            except Exception as e:  # noqa
                err = e
        return None, err


def concrete_classes(schema):
    return [c for c in schema["classes"] if not c["abstract"] and c["exported"]]
