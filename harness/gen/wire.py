"""
Generators and reference for the parser layer (C02, C08).

* abstract trees:            ("leaf", tag, data) | ("agg", tag, [kids])
* rendering-annotated trees: ("l", t, d, w1, w2, close, after) | ("c", t, d, w, close, after) | ("a", t, w0, [kids], after)
  — the Python twin of `Ofx.Spec.RTree` (lean/OfxModel/Spec/Renders.lean); `rt_str`/`rt_tree` mirror `RTree.str/tree`
  and are cross-checked against the Lean renderer through the driver op `spec.render`.
* `ref_parse`: an independent strict reference reader of the wire syntax (no regex, explicit name stack).
* fault injectors for C08.
"""
import itertools

from proto import S, Atom
from codec import tree as ctree

CDO, CDC = "<![CDATA[", "]]>"
PYSPACE = [chr(c) for c in (9, 10, 11, 12, 13, 28, 29, 30, 31, 32, 133, 160, 5760, 8192, 8193, 8194, 8195, 8196, 8197,
                            8198, 8199, 8200, 8201, 8202, 8232, 8233, 8239, 8287, 12288)]
NAMECH = "ABCDEFGHIJKLMNOPQRSTUVWXYZ0123456789._"

WS_SMALL = ["", " ", "\n", "\r\n  "]
WS_RICH = ["", "", "", " ", "\n", "\r\n  ", "\t\t", " ", "\u0085", "\u001c", " \n\t", "\r", " ", "\x0b\x0c"]
TAGS_SMALL = ["A", "B", "C1"]
TAGS_REAL = ["OFX", "SIGNONMSGSRSV1", "SONRS", "STATUS", "CODE", "SEVERITY", "DTSERVER", "LANGUAGE", "STMTTRN", "TRNAMT",
             "MEMO", "NAME", "BANKTRANLIST", "INTU.BID", "A", "AB", "A.B", "B_1", "0", "STMTRS", "FITID", "CURDEF"]
DATA_SMALL = ["x", "1 2", "a&amp;b", ">"]
DATA_RICH = ["x", "1 2", "a&amp;b", ">", "0", "-12.50", "20200101120000.000[-5:EST]", "a>b", "]]", "]", "a]]b", "]]>", "a]]>b",
             "&lt;tag&gt;", "A/B", "/", "x/", "![CDATA[", "a b", "a\nb", "a\rb", "a\tb", "é", "€uro", "日本", "a&b", "&", "x>",
             "Joe's \"Bar\" & Grill", "</", "a=b;c", "UPPER lower", "a" * 40, "]>", "]]]", "--", "<![CDATA[".replace("<", "")]


# ------------------------------------------------------------------------------------------------ predicates
def is_ws(w):
    return all(c.isspace() for c in w)


def tag_ok(t):
    return bool(t) and all(c in NAMECH for c in t)


def data_ok(d):
    return bool(d) and "<" not in d and d == d.strip()


def cdata_ok(d):
    return "&" not in d and "\n" not in d and CDC not in d


def cd_safe(s):
    """guard G1: at most one `]]>` per line"""
    return all(line.count(CDC) <= 1 for line in s.split("\n"))


# ------------------------------------------------------------------------------------------------ RT
def rt_after(r):
    return r[-1]


def rt_str(r):
    k = r[0]
    if k == "l":
        _, t, d, w1, w2, close, _a = r
        return f"<{t}>{w1}{d}" + (f"{w2}</{t}>" if close else "")
    if k == "c":
        _, t, d, w, close, _a = r
        return f"<{t}>{CDO}{d}{CDC}" + (f"{w}</{t}>" if close else "")
    _, t, w0, kids, _a = r
    return f"<{t}>{w0}" + "".join(rt_str(c) + rt_after(c) for c in kids) + f"</{t}>"


def rt_doc(r, lead=""):
    """whole body: leading whitespace, the root, its `after` as trailing whitespace"""
    return lead + rt_str(r) + rt_after(r)


def rt_abs(r):
    if r[0] in ("l", "c"):
        return ("leaf", r[1], r[2])
    return ("agg", r[1], [rt_abs(c) for c in r[3]])


def abs_canon(t):
    """abstract tree -> canonical nested-list tree as ET builds it (tails None, text None on aggregates)"""
    if t[0] == "leaf":
        return ctree(t[1], t[2])
    return ctree(t[1], None, [abs_canon(c) for c in t[2]])


def rt_tree(r):
    return abs_canon(rt_abs(r))


def rt_enc(r):
    k = r[0]
    if k == "l":
        return [Atom("l"), r[1], r[2], r[3], r[4], bool(r[5]), r[6]]
    if k == "c":
        return [Atom("c"), r[1], r[2], r[3], bool(r[4]), r[5]]
    return [Atom("a"), r[1], r[2], [rt_enc(c) for c in r[3]], r[4]]


def rt_ok(r, strict):
    """mirror of RTree.ok"""
    k = r[0]
    if k == "l":
        _, t, d, w1, w2, _c, a = r
        return tag_ok(t) and data_ok(d) and is_ws(w1) and is_ws(w2) and is_ws(a)
    if k == "c":
        _, t, d, w, close, a = r
        return tag_ok(t) and data_ok(d) and cdata_ok(d) and is_ws(w) and is_ws(a)
    _, t, w0, kids, a = r
    if not (tag_ok(t) and is_ws(w0) and is_ws(a) and all(rt_ok(c, strict) for c in kids)):
        return False
    if strict and kids and kids[-1][0] in ("l", "c") and kids[-1][1] == t:
        return False
    return True


def rt_guards(r, doc):
    """which guards of C02_complete_partial the rendering violates (ordered).  (G1, one `]]>` per line, was a guard
    while the CDATA group was greedy; `cd_safe` remains only to label such documents in the statistics.  G2, no white
    space between `]]>` and the element's own end tag, was a guard until `fix: white space may follow a CDATA section`;
    `rt_g2` remains only to label such renderings in the statistics.)"""
    out = []

    def walk(n):
        if n[0] == "a":
            kids = n[3]
            if kids and kids[-1][0] in ("l", "c") and kids[-1][1] == n[1]:
                out.append("G3")
            for c in kids:
                walk(c)
    walk(r)
    return out


def rt_g2(r):
    """the rendering puts white space between a CDATA section and the element's own end tag (former guard G2)"""
    if r[0] == "c":
        return bool(r[4]) and r[3] != ""
    return r[0] == "a" and any(rt_g2(c) for c in r[3])


def rt_nodes(r):
    return 1 + (sum(rt_nodes(c) for c in r[3]) if r[0] == "a" else 0)


# ------------------------------------------------------------------------------------------------ generators
def random_abs(rng, tags, datas, max_nodes=12, depth=0, root_agg=True):
    """random abstract tree; `max_nodes` is a soft budget"""
    budget = [max_nodes]

    def go(depth, force_agg=False):
        budget[0] -= 1
        t = rng.choice(tags)
        if not force_agg and (depth > 4 or budget[0] <= 0 or rng.random() < 0.55):
            if rng.random() < 0.12:
                return ("agg", t, [])
            return ("leaf", t, rng.choice(datas))
        n = rng.choice((0, 1, 1, 2, 2, 3, 4))
        kids = []
        for _ in range(n):
            if budget[0] <= 0:
                break
            kids.append(go(depth + 1))
        return ("agg", t, kids)
    return go(0, root_agg)


def strictify_abs(t):
    """rename the last leaf child bearing its parent's tag (guard G3) so the tree is in the strict domain"""
    if t[0] == "leaf":
        return t
    kids = [strictify_abs(c) for c in t[2]]
    if kids and kids[-1][0] == "leaf" and kids[-1][1] == t[1]:
        kids[-1] = ("leaf", t[1] + "X", kids[-1][2])
    return ("agg", t[1], kids)


def random_rt(rng, t, wss, p_cdata=0.25, strict=True, p_close=0.5):
    """random rendering choices for the abstract tree `t`"""
    w = lambda: rng.choice(wss)
    if t[0] == "leaf":
        _, tag, d = t
        if cdata_ok(d) and rng.random() < p_cdata:
            close = rng.random() < p_close
            return ("c", tag, d, w(), close, w())
        return ("l", tag, d, w(), w(), rng.random() < p_close, w())
    return ("a", t[1], w(), [random_rt(rng, c, wss, p_cdata, strict, p_close) for c in t[2]], w())


def fix_g1(rng, r):
    """make a rendering satisfy G1 by forcing a line break after every CDATA section that is followed, on its line,
    by another `]]>` (used to draw strict renderings): simply re-draw is cheaper; this helper reports safety"""
    return cd_safe(rt_doc(r))


def leaf_styles(d, wss, strict):
    """every rendering choice of one data element (without `after`)"""
    out = []
    for w1 in wss:
        out.append(("l", w1, "", False))
        for w2 in wss:
            out.append(("l", w1, w2, True))
    if cdata_ok(d):
        out.append(("c", "", False))
        for w in wss:
            out.append(("c", w, True))
    return out


def all_rts(t, wss, strict=False):
    """every rendering of an abstract tree over the whitespace set (generator)"""
    if t[0] == "leaf":
        _, tag, d = t
        for st in leaf_styles(d, wss, strict):
            for a in wss:
                if st[0] == "l":
                    yield ("l", tag, d, st[1], st[2], st[3], a)
                else:
                    yield ("c", tag, d, st[1], st[2], a)
        return
    _, tag, kids = t
    kid_sets = [list(all_rts(c, wss, strict)) for c in kids]
    for w0 in wss:
        for combo in itertools.product(*kid_sets):
            for a in wss:
                yield ("a", tag, w0, list(combo), a)


UNIFORM_STYLES = [("l", False), ("l", True), ("c", False), ("c", True), ("mix", 0), ("mix", 1)]


def uniform_rt(t, style, w, idx=[0]):
    """one rendering where every node takes the same choice (`mix`: alternate closed/open plain leaves)"""
    if t[0] == "leaf":
        _, tag, d = t
        kind, close = style
        if kind == "mix":
            idx[0] += 1
            return ("l", tag, d, w, w, (idx[0] + close) % 2 == 0, w)
        if kind == "c" and cdata_ok(d):
            return ("c", tag, d, w, close, w)
        return ("l", tag, d, w, w, bool(close), w)
    return ("a", t[1], w, [uniform_rt(c, style, w, idx) for c in t[2]], w)


def shapes(n):
    """ordered rooted tree shapes with n nodes, as nested tuples of children"""
    if n == 1:
        return [()]
    out = []
    # forest of n-1 nodes
    def forests(m):
        if m == 0:
            return [()]
        res = []
        for k in range(1, m + 1):
            for first in shapes(k):
                for rest in forests(m - k):
                    res.append((first,) + rest)
        return res
    return forests(n - 1)


def all_abs(n, tags, datas):
    """all abstract trees with exactly n nodes: inner nodes are aggregates, terminal nodes data elements (each datum)
    or empty aggregates"""
    def build(shape):
        if shape == ():
            for t in tags:
                for d in datas:
                    yield ("leaf", t, d)
                yield ("agg", t, [])
            return
        kid_sets = [list(build(c)) for c in shape]
        for t in tags:
            for combo in itertools.product(*kid_sets):
                yield ("agg", t, list(combo))
    for sh in shapes(n):
        yield from build(sh)


# ------------------------------------------------------------------------------------------------ reference reader
class Reject(Exception):
    def __init__(self, kind, pos):
        super().__init__(kind)
        self.kind, self.pos = kind, pos


def ref_tokens(s):
    """strict tokenizer: ('start', name) ('end', name) ('cdata', text) ('text', text); malformed markup -> Reject"""
    i, n, out = 0, len(s), []
    while i < n:
        if s[i] != "<":
            j = s.find("<", i)
            j = n if j < 0 else j
            out.append(("text", s[i:j], i))
            i = j
        elif s.startswith(CDO, i):
            j = s.find(CDC, i + len(CDO))
            if j < 0:
                raise Reject("malformed_markup", i)
            out.append(("cdata", s[i + len(CDO):j], i))
            i = j + len(CDC)
        else:
            j = s.find(">", i)
            if j < 0:
                raise Reject("malformed_markup", i)
            name = s[i + 1:j]
            end = name.startswith("/")
            if end:
                name = name[1:]
            if not tag_ok(name):
                raise Reject("malformed_markup", i)
            out.append(("end" if end else "start", name, i))
            i = j + 1
    return out


def ref_parse(s):
    """-> abstract tree; raises Reject(kind) where kind names the first well-formedness fault:
    empty_body, text_before_root, text_after_root, second_root, stray_end_tag, mismatched_end_tag,
    text_after_end_tag (text after an end tag / after a closed element inside an aggregate), unclosed_at_eof,
    malformed_markup"""
    toks = ref_tokens(s)
    stack = []          # open aggregates: [tag, kids]
    root = None
    i = 0
    n = len(toks)

    def emit(node, pos):
        nonlocal root
        if stack:
            stack[-1][1].append(node)
        elif root is None:
            root = node
        else:
            raise Reject("second_root", pos)

    while i < n:
        kind, val, pos = toks[i]
        if kind == "text":
            if val.strip():
                if root is not None and not stack:
                    raise Reject("text_after_root", pos)
                if not stack:
                    raise Reject("text_before_root", pos)
                raise Reject("text_after_end_tag", pos)
            i += 1
        elif kind == "cdata":
            raise Reject("malformed_markup", pos)     # a CDATA section anywhere but directly after a start tag
        elif kind == "end":
            if not stack:
                raise Reject("stray_end_tag", pos)
            if stack[-1][0] != val:
                raise Reject("mismatched_end_tag", pos)
            tag, kids = stack.pop()
            emit(("agg", tag, kids), pos)
            i += 1
        else:  # start
            tag = val
            if root is not None and not stack:
                raise Reject("second_root", pos)
            # data?
            j = i + 1
            data = None
            if j < n and toks[j][0] == "cdata":
                data = toks[j][1]
                j += 1
                if not data:
                    data = None
            elif j < n and toks[j][0] == "text" and toks[j][1].strip():
                data = toks[j][1].strip()
                j += 1
            if data is not None:
                # optional whitespace then optional matching end tag
                k = j
                if k < n and toks[k][0] == "text" and not toks[k][1].strip():
                    k += 1
                if k < n and toks[k][0] == "end" and toks[k][1] == tag:
                    j = k + 1
                emit(("leaf", tag, data), pos)
                i = j
            else:
                stack.append([tag, []])
                i += 1
    if stack:
        raise Reject("unclosed_at_eof", len(s))
    if root is None:
        raise Reject("empty_body", 0)
    return root


def ref_result(s):
    """('ok', abstract tree) | ('reject', kind)"""
    try:
        return ("ok", ref_parse(s))
    except Reject as e:
        return ("reject", e.kind)


# ------------------------------------------------------------------------------------------------ fault injection (C08)
def end_tag_spans(r, base=0):
    """spans (start, end, tag, is_aggregate) of every end tag in rt_str(r)"""
    out = []
    k = r[0]
    s = rt_str(r)
    if k in ("l", "c"):
        if (r[5] if k == "l" else r[4]):
            t = r[1]
            out.append((base + len(s) - len(t) - 3, base + len(s), t, False))
        return out
    _, t, w0, kids, _a = r
    pos = base + len(t) + 2 + len(w0)
    for c in kids:
        out += end_tag_spans(c, pos)
        pos += len(rt_str(c)) + len(rt_after(c))
    out.append((pos, pos + len(t) + 3, t, True))
    return out


def faults(rng, r, lead=""):
    """yield (fault_kind, mutated_document) for one valid rendering"""
    doc = rt_doc(r, lead)
    spans = end_tag_spans(r, len(lead))
    aggs = [sp for sp in spans if sp[3]]
    for (a, b, t, _) in aggs:
        yield "delete_end", doc[:a] + doc[b:]
        # spellings: longer, unrelated, proper prefix, other case, proper suffix, the name as the tail of a longer/'path' name
        for new in (t + "X", "ZZ", t[:-1] if len(t) > 1 else "Q", t.lower() if t.lower() != t else t + "x",
                    t[1:] if len(t) > 1 else "Q" + t, "X" + t, "A/" + t, t[len(t) // 2:] if len(t) > 3 else t + "_"):
            if new != t:
                yield "rename_end", doc[:a] + f"</{new}>" + doc[b:]
        yield "dup_end", doc[:b] + doc[a:b] + doc[b:]
        yield "end_with_blank", doc[:a] + f"</{t} >" + doc[b:]
    # transposition of two consecutive aggregate end tags (only separated by whitespace)
    for (x, y) in zip(aggs, aggs[1:]):
        if doc[x[1]:y[0]].strip() == "" and x[2] != y[2]:
            yield "swap_ends", doc[:x[0]] + doc[y[0]:y[1]] + doc[x[1]:y[0]] + doc[x[0]:x[1]] + doc[y[1]:]
    # stray insertions at token boundaries
    bounds = sorted({0, len(doc)} | {sp[0] for sp in spans} | {sp[1] for sp in spans} |
                    {i for i, c in enumerate(doc) if c == "<"})
    for p in bounds:
        for junk in ("junk", "</ZZ>", "</A>"):
            yield "insert_" + ("text" if junk == "junk" else "end"), doc[:p] + junk + doc[p:]
    # second root
    yield "second_root", doc + "<ZZ></ZZ>"
    yield "second_root", doc + "<ZZ>1"
    yield "second_root", doc + doc


def truncations(doc):
    for i in range(len(doc)):
        yield doc[:i]


SOUP = ["<A>", "</A>", "<B>", "</B>", "<C1>", "</C1>", CDO, CDC, "]]", "]", ">", "<", "/", "x", "1 2", " ", "\n", "\r\n", "\t",
        "< /B>", "<A B>", "<a>", "</a>", "<>", "</>", "<A", "A>", " ", "\u0085", "\u001c", "&amp;", ".", "_", "<A.B>", "</A.B>",
        "<![CDATA[x]]>", "<![CDATA[]]>", "<!", "[", "<//A>", "</A/>", "<A/>", "<A >", "</A >", "é"]


def soup(rng, n):
    return "".join(rng.choice(SOUP) for _ in range(n))


# ------------------------------------------------------------------------------------------------ violation buffer
class ViolationBuffer:
    """Collects oracle violations per tag, counts all of them, keeps full records of at most `cap` per tag and hands them to
    the framework smallest document first — so the replay written for a tag is the smallest failing case met."""

    def __init__(self, ctx, cap=200):
        self.ctx, self.cap = ctx, cap
        self.recs = {}

    def add(self, tag, case, what, detail):
        self.ctx.stat("oracle:" + tag)
        lst = self.recs.setdefault(tag, [])
        key = len(case["doc"])
        if len(lst) < self.cap:
            lst.append((key, case, what, detail))
        else:
            # replace the largest record if this one is smaller
            j = max(range(len(lst)), key=lambda i: lst[i][0])
            if key < lst[j][0]:
                lst[j] = (key, case, what, detail)

    def emit(self):
        for tag, lst in self.recs.items():
            for _k, case, what, detail in sorted(lst, key=lambda r: (r[0], r[1]["doc"])):
                self.ctx.violate(tag, case, what, detail)
