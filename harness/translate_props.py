"""
Translator for the shortcut properties of the model classes (C16).

/repo (imported package)  ->  lean/OfxModel/Generated/PropsTable.lean  +  JSON twin .work/props.json

For every class of the schema and every public `property` it has (inherited ones included) the source of the
getter is parsed, alpha-normalised (local variables by identity; attribute names, string constants and global
class names *by occurrence*, so that an edit which repeats or swaps a name still matches the same shape with
different parameters) and matched against the known body shapes (`Ofx.Getattr.Body`).  A getter of another shape
is emitted as `Body.unknown` (and listed in `problems`): the model then answers `other`, the correspondence
disagrees, and the property's oracle decides about the implementation.

Called by translate.py as  `import translate_props; translate_props.main_from(repo, out_dir, work_dir)`
or stand-alone:  /venv/bin/python harness/translate_props.py [--repo /repo]
"""
import argparse
import ast
import hashlib
import inspect
import json
import os
import sys
import textwrap

KEEP_ATTRS = {"__class__", "__name__", "extend", "append"}
KEEP_NAMES = {"isinstance", "getattr", "None", "self"}


def lean_chars(s: str) -> str:
    out = []
    for ch in s:
        o = ord(ch)
        if ch == "'":
            out.append("'\\''")
        elif ch == "\\":
            out.append("'\\\\'")
        elif 32 <= o < 127:
            out.append("'" + ch + "'")
        else:
            out.append("'\\u{%x}'" % o)
    return "[" + ", ".join(out) + "]"


def strip_doc(fn: ast.FunctionDef):
    body = fn.body
    if body and isinstance(body[0], ast.Expr) and isinstance(getattr(body[0], "value", None), ast.Constant) \
            and isinstance(body[0].value.value, str):
        fn.body = body[1:] or [ast.Pass()]
    return fn


def parse_fn(src: str) -> ast.FunctionDef:
    tree = ast.parse(textwrap.dedent(src))
    fn = next(n for n in ast.walk(tree) if isinstance(n, ast.FunctionDef))
    fn.decorator_list = []
    return strip_doc(fn)


def normalise(fn: ast.FunctionDef):
    """-> (skeleton string, params) ; params = [(kind, value)] by occurrence, kind in A (attribute name),
    S (string constant), SS (tuple of string constants), G (global name)"""
    locals_ = {}
    for n in ast.walk(fn):
        if isinstance(n, ast.Name) and isinstance(n.ctx, ast.Store) and n.id not in locals_:
            locals_[n.id] = None
    # number locals in source order
    order = sorted(((n.lineno, n.col_offset, n.id) for n in ast.walk(fn)
                    if isinstance(n, ast.Name) and isinstance(n.ctx, ast.Store)))
    k = 0
    for _, _, name in order:
        if locals_[name] is None:
            locals_[name] = f"v{k}"
            k += 1
    params = []

    def go(node):
        if isinstance(node, ast.Name):
            if node.id in locals_:
                return locals_[node.id]
            if node.id in KEEP_NAMES:
                return node.id
            params.append(("G", node.id))
            return "G"
        if isinstance(node, ast.Attribute):
            v = go(node.value)
            if node.attr in KEEP_ATTRS:
                return f"({v}.{node.attr})"
            params.append(("A", node.attr))
            return f"({v}.A)"
        if isinstance(node, ast.Constant):
            if isinstance(node.value, str):
                params.append(("S", node.value))
                return "S"
            return repr(node.value)
        if isinstance(node, ast.Tuple) and node.elts and all(
                isinstance(e, ast.Constant) and isinstance(e.value, str) for e in node.elts):
            params.append(("SS", [e.value for e in node.elts]))
            return "SS"
        if isinstance(node, ast.AST):
            parts = []
            for f in node._fields:
                if f in ("ctx", "type_comment", "kind", "returns", "decorator_list", "name", "type_params"):
                    continue
                parts.append(go(getattr(node, f, None)))
            return type(node).__name__ + "(" + ",".join(parts) + ")"
        if isinstance(node, list):
            return "[" + ",".join(go(x) for x in node) + "]"
        return repr(node)

    skel = go(fn.body)
    return skel, params


# ---------------------------------------------------------------------------------------------- the known shapes
TEMPLATES = {}


def template(name, src):
    skel, _ = normalise(parse_fn(src))
    TEMPLATES[skel] = name


template("alias", "def f(self):\n    return self.a\n")
template("path", "def f(self):\n    return self.a.b\n")
template("firstOrAssert", """
def f(self):
    if self.a is not None:
        return self.a.b
    else:
        assert self.c is not None
        return self.c.d
""")
template("optList", """
def f(self):
    seclist = []
    msgs = getattr(self, "x", None)
    if msgs:
        seclist = msgs.securities
    return seclist
""")
template("concat", """
def f(self):
    stmts = []
    for msgs in ("a", "b"):
        msg = getattr(self, msgs, None)
        if msg:
            stmts.extend(msg.statements)
    return stmts
""")
template("members2", """
def f(self):
    stmts = []
    for trnrq in self:
        stmtrq = None
        if isinstance(trnrq, T1):
            stmtrq = trnrq.a
        elif isinstance(trnrq, T2):
            stmtrq = trnrq.b
        if stmtrq is not None:
            stmts.append(stmtrq)
    return stmts
""")
template("members2staple", """
def f(self):
    stmts = []
    for trnrs in self:
        stmtrs = None
        if isinstance(trnrs, T1):
            stmtrs = trnrs.a
        elif isinstance(trnrs, T2):
            stmtrs = trnrs.b
        if stmtrs is not None:
            stmtrs.d1 = trnrs.f1
            stmtrs.d2 = trnrs.f2
            stmts.append(stmtrs)
    return stmts
""")
template("members2assertstaple", """
def f(self):
    stmts = []
    for trnrs in self:
        stmtrs = None
        if isinstance(trnrs, T1):
            stmtrs = trnrs.a
        else:
            assert isinstance(trnrs, T2)
            stmtrs = trnrs.b
        if stmtrs is not None:
            stmtrs.d1 = trnrs.f1
            stmtrs.d2 = trnrs.f2
            stmts.append(stmtrs)
    return stmts
""")
template("members1", """
def f(self):
    stmts = []
    for trnrq in self:
        if isinstance(trnrq, T1):
            stmtrq = trnrq.a
            if stmtrq is not None:
                stmts.append(stmtrq)
    return stmts
""")
template("members1staple", """
def f(self):
    stmts = []
    for trnrs in self:
        if isinstance(trnrs, T1):
            stmtrs = trnrs.a
            if stmtrs is not None:
                stmtrs.d1 = trnrs.f1
                stmtrs.d2 = trnrs.f2
                stmts.append(stmtrs)
    return stmts
""")
template("extendMembers", """
def f(self):
    securities = []
    for child in self:
        if isinstance(child, T1):
            securities.extend(child)
    return securities
""")
template("curName", """
def f(self):
    cur = self.a
    if cur is None:
        cur = self.b
    if cur is not None:
        return cur.__class__.__name__
""")
template("curAttr", """
def f(self):
    cur = self.a
    if cur is None:
        cur = self.b
    if cur is not None:
        return cur.c
""")


def body_of(fget, index_by_class):
    """-> (body dict | None, note)"""
    try:
        src = inspect.getsource(fget)
    except (OSError, TypeError):
        return None, "source unavailable"
    skel, params = normalise(parse_fn(src))
    shape = TEMPLATES.get(skel)
    if shape is None:
        return None, "unknown shape"
    vals = [v for _, v in params]
    kinds = "".join(k if k != "SS" else "L" for k, _ in params)

    def cls(name):
        obj = fget.__globals__.get(name)
        if obj not in index_by_class:
            raise KeyError(name)
        return [index_by_class[obj], obj.__name__]

    try:
        if shape == "alias":
            return {"k": "alias", "a": vals[0]}, ""
        if shape == "path":
            return {"k": "path", "a": vals[0], "b": vals[1]}, ""
        if shape == "firstOrAssert":
            a1, a1b, b1, a2, a2b, b2 = vals
            if a1 != a1b or a2 != a2b:
                return None, "firstOrAssert reads different attributes in test and result"
            return {"k": "firstOrAssert", "a1": a1, "b1": b1, "a2": a2, "b2": b2}, ""
        if shape == "optList":
            return {"k": "optList", "a": vals[0], "p": vals[1]}, ""
        if shape == "concat":
            return {"k": "concat", "names": vals[0], "p": vals[1]}, ""
        if shape in ("members2", "members2staple", "members2assertstaple"):
            t1, a, t2, b = vals[:4]
            st = vals[4:]
            return {"k": "members", "branches": [[cls(t1), a], [cls(t2), b]],
                    "elseAssert": shape == "members2assertstaple",
                    "staple": [[st[i], st[i + 1]] for i in range(0, len(st), 2)]}, ""
        if shape in ("members1", "members1staple"):
            t1, a = vals[:2]
            st = vals[2:]
            return {"k": "members", "branches": [[cls(t1), a]], "elseAssert": False,
                    "staple": [[st[i], st[i + 1]] for i in range(0, len(st), 2)]}, ""
        if shape == "extendMembers":
            return {"k": "extendMembers", "t": cls(vals[0])}, ""
        if shape == "curName":
            return {"k": "cur", "a1": vals[0], "a2": vals[1], "sel": None}, ""
        if shape == "curAttr":
            return {"k": "cur", "a1": vals[0], "a2": vals[1], "sel": vals[2]}, ""
    except KeyError as e:
        return None, f"global {e} is not a model class"
    return None, "unhandled shape " + shape + " " + kinds


def lean_body(b):
    S = lean_chars
    if b is None:
        return ".unknown"
    k = b["k"]
    if k == "alias":
        return f".alias {S(b['a'])}"
    if k == "path":
        return f".path {S(b['a'])} {S(b['b'])}"
    if k == "firstOrAssert":
        return f".firstOrAssert {S(b['a1'])} {S(b['b1'])} {S(b['a2'])} {S(b['b2'])}"
    if k == "optList":
        return f".optList {S(b['a'])} {S(b['p'])}"
    if k == "concat":
        return f".concat [{', '.join(S(n) for n in b['names'])}] {S(b['p'])}"
    if k == "members":
        br = ", ".join(f"({t[0]}, {S(a)})" for t, a in b["branches"])
        st = ", ".join(f"({S(d)}, {S(f)})" for d, f in b["staple"])
        return f".members [{br}] {'true' if b['elseAssert'] else 'false'} [{st}]"
    if k == "extendMembers":
        return f".extendMembers {b['t'][0]}"
    if k == "cur":
        sel = ".clsName" if b["sel"] is None else f"(.attr {S(b['sel'])})"
        return f".cur {S(b['a1'])} {S(b['a2'])} {sel}"
    raise ValueError(k)


def fingerprint(fget):
    try:
        fn = parse_fn(inspect.getsource(fget))
    except (OSError, TypeError):
        return "unavailable"
    return hashlib.sha256(ast.dump(fn, annotate_fields=False, include_attributes=False).encode()).hexdigest()[:16]


def extract(repo: str):
    if repo not in sys.path:
        sys.path.insert(0, repo)
    import ofxtools
    assert os.path.realpath(ofxtools.__file__).startswith(os.path.realpath(repo) + os.sep), \
        f"ofxtools imported from {ofxtools.__file__}, not from {repo}"
    import ofxtools.models as M
    from ofxtools.models.base import Aggregate

    classes = [(n, c) for n, c in vars(M).items() if inspect.isclass(c) and issubclass(c, Aggregate)]
    classes.sort(key=lambda nc: nc[0])
    index = {c: i for i, (n, c) in enumerate(classes)}
    entries, problems, refs = [], [], {}
    for i, (n, c) in enumerate(classes):
        seen = set()
        for b in c.__mro__:
            if b in (list, object):
                continue
            for pn, pv in vars(b).items():
                if type(pv) is not property or pn.startswith("_") or pn in seen:
                    continue
                seen.add(pn)
                body, note = body_of(pv.fget, index)
                if body is None:
                    problems.append(f"{n}.{pn}: {note}")
                entries.append({"cls": i, "clsname": c.__name__, "name": pn, "defined_in": b.__name__,
                                "body": body, "fingerprint": fingerprint(pv.fget)})
                refs[i] = c.__name__
                if body:
                    for t in ([t for t, _ in body.get("branches", [])] + ([body["t"]] if "t" in body else [])):
                        refs[t[0]] = t[1]
    entries.sort(key=lambda e: (e["cls"], e["name"]))
    return entries, refs, problems


def render(entries, refs):
    L = ["/- GENERATED by harness/translate_props.py from the property getters of the imported ofxtools.models — do not edit. -/",
         "import OfxModel.Ofx.Getattr", "", "namespace Ofx.Generated", "open Ofx Ofx.Getattr", "",
         "/-- every public property of every model class (inherited ones included) with the shape of its getter -/",
         "def propsTable : Props := ["]
    rows = []
    for e in entries:
        rows.append(f"  -- {e['clsname']}.{e['name']} (defined in {e['defined_in']}, source {e['fingerprint']})\n"
                    f"  ⟨{e['cls']}, {lean_chars(e['name'])}, {lean_body(e['body'])}⟩")
    L.append(",\n".join(rows))
    L.append("]")
    L.append("")
    L.append("/-- the classes the table mentions, with the names Python gives them -/")
    L.append("def propsClassNames : List (Nat × Str) := [")
    L.append(",\n".join(f"  ({i}, {lean_chars(n)})" for i, n in sorted(refs.items())))
    L.append("]")
    L.append("")
    L.append("end Ofx.Generated")
    return "\n".join(L) + "\n"


def write_if_changed(path, content):
    try:
        with open(path, encoding="utf-8") as f:
            if f.read() == content:
                return False
    except FileNotFoundError:
        pass
    os.makedirs(os.path.dirname(path), exist_ok=True)
    tmp = path + ".tmp"
    with open(tmp, "w", encoding="utf-8") as f:
        f.write(content)
    os.replace(tmp, path)
    return True


def main_from(repo, out_dir, work_dir):
    entries, refs, problems = extract(repo)
    ch = write_if_changed(os.path.join(out_dir, "PropsTable.lean"), render(entries, refs))
    write_if_changed(os.path.join(work_dir, "props.json"),
                     json.dumps({"entries": entries, "refs": {str(k): v for k, v in sorted(refs.items())},
                                 "problems": problems}, indent=1, sort_keys=True))
    return {"props_changed": ch, "props": len(entries), "problems": problems}


def main():
    here = os.path.dirname(os.path.abspath(__file__))
    root = os.path.dirname(here)
    ap = argparse.ArgumentParser()
    ap.add_argument("--repo", default=os.environ.get("OFX_REPO", "/repo"))
    ap.add_argument("--out", default=os.path.join(root, "lean", "OfxModel", "Generated"))
    ap.add_argument("--work", default=os.path.join(root, ".work"))
    a = ap.parse_args()
    print(json.dumps(main_from(a.repo, a.out, a.work)))


if __name__ == "__main__":
    main()
