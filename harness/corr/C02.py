"""
C02 correspondence + oracle: all wire renderings of one body parse to the same, faithful tree.

impl   = ofxtools.Parser.TreeBuilder: regex.finditer (groupdicts + spans), feed() + close()
model  = lean/OfxModel/Ofx/{Lexer,Builder}.lean via the driver ops `lex`, `build`
spec   = lean/OfxModel/Spec/Renders.lean (`spec.render`: the Lean renderer must produce the same string/tree as the
         generator's renderer, and agree on the grammar's side conditions)
oracle = the tree the implementation returns equals the tree the rendering was generated from (the property itself);
         a second, independent check: the strict reference reader `gen.wire.ref_parse` returns that tree too.
"""
import itertools

from framework import run_impl
from proto import line, S
from codec import canon_tree
from gen import wire

RULE = ("random trees over a 3-tag and a realistic tag alphabet x random rendering choices per node (end tag or not, "
        "whitespace from {none, blank, LF, CRLF+indent, tabs, U+00A0, U+0085, U+001C, VT/FF}, CDATA or plain, entity-escaped "
        "data, '>' ']' ']]' in data; white space after a CDATA section with and without the element's own end tag); 90% of "
        "the renderings drawn inside the strict grammar (guard G3 of C02_complete_partial), 10% in the full grammar; "
        "`<A><B><![CDATA[x]]>c</B></A>` and `...]]>c<C>1</A>` for every white-space code point c and for 16 look-alikes "
        "that are not white space; re's \\s against str.isspace on every code point; all trees of <= 2 nodes over {A,B,C1} x 4 data x every rendering "
        "choice over 4 whitespace values (both tiers); thorough adds all trees of 3-5 nodes x uniform style vectors and all "
        "3-node trees x every choice over 2 whitespace values; token soup for the lexer. A case is non-trivial when the "
        "implementation returned a tree; distinct by document text")


def canon_lex(regex, s):
    out = []
    for m in regex.finditer(s):
        g = m.groupdict()
        o = lambda v: "none" if v is None else ["some", S(v)]
        out.append([S(g["tag"]), o(g["cdata"]), o(g["text"]), o(g["closetag"]), o(g["tail"]), str(m.start()), str(m.end())])
    return out


def impl_build(TB, s):
    def f():
        b = TB()
        b.feed(s)
        return b.close()
    r = run_impl(f)
    if r[0] == "ok":
        return ["ok", "none" if r[1] is None else ["some", canon_tree(r[1])]], None
    return ["err"], r[1]


def model_build(rep):
    if rep.kind == "ok":
        return ["ok", rep.vals[0]], None
    if rep.kind == "err":
        return ["err"], rep.err
    return ["bad", rep.raw], None


def classify(guards, rt=None):
    if "G3" in guards:
        return "leaf_with_parent_tag_last_child"
    if rt is not None and wire.rt_g2(rt):
        return "cdata_space_before_end_tag"      # repaired finding: must not come back
    return None


# code points that look like white space but are not (`str.isspace()` false): they must stay `tail` text after `]]>`
NOT_SPACE = [0x200B, 0x200C, 0x200D, 0x2060, 0xFEFF, 0x180E, 0x00AD, 0x2028 + 2, 0x1B, 0x7F, 0x08, 0x0E, 0x2800, 0x3164,
             0x115F, 0x61]

WITNESSES = [
    # (rt, lead) -- the known findings' witnesses, run first
    (("a", "A", "", [("c", "B", "x", "", False, ""), ("c", "C", "y", "", False, "")], ""), ""),
    (("a", "A", "", [("c", "B", "x", " ", True, "")], ""), ""),
    (("a", "A", "", [("a", "B", "", [("l", "B", "1", "", "", False, "")], ""), ("l", "C", "2", "", "", False, "")], ""), ""),
]


def run(ctx):
    from ofxtools.Parser import TreeBuilder
    rng = ctx.rng
    regex = TreeBuilder.regex
    batch = []   # (rt, lead, doc)
    seen = set()
    counter = [0]

    vbuf = wire.ViolationBuffer(ctx)
    violate = vbuf.add

    def add(rt, lead=""):
        doc = wire.rt_doc(rt, lead)
        if doc in seen:
            return
        seen.add(doc)
        batch.append((rt, lead, doc))
        if len(batch) >= 30000:
            flush()

    def flush():
        cases = list(batch)
        del batch[:]
        if cases:
            process(cases)

    def process(cases):
        base = counter[0]
        counter[0] += len(cases)
        docs = [c[2] for c in cases]
        rep_build = ctx.model.ask([line("build", d) for d in docs])
        rep_lex = ctx.model.ask([line("lex", d) for d in docs])
        # the Lean renderer on a sample of the annotated trees (all of them would double the protocol volume)
        idx_r = [i for i in range(len(cases)) if base + i < 4000 or (base + i) % 17 == 0]
        rep_render = dict(zip(idx_r, ctx.model.ask([line("spec.render", wire.rt_enc(cases[i][0])) for i in idx_r])))
        for i, (rt, lead, doc) in enumerate(cases):
            want = wire.rt_tree(rt)
            guards = wire.rt_guards(rt, doc)
            case = {"doc": doc, "rt": rt, "lead": lead}
            impl, ikind = impl_build(TreeBuilder, doc)
            model, mkind = model_build(rep_build[i])
            ctx.stat("impl:" + (impl[0] if impl[0] == "ok" else "err:" + str(ikind)))
            ctx.stat("nodes:%d" % min(wire.rt_nodes(rt), 30))
            ctx.stat("guards:" + ("".join(sorted(set(guards))) or "strict") + ("" if wire.cd_safe(doc) else "+two-]]>-on-a-line")
                     + ("+ws-after-]]>-before-end-tag" if wire.rt_g2(rt) else ""))
            ctx.compare("build", {"doc": doc}, impl, model, nontrivial=(impl[0] == "ok"))
            if impl[0] == "err" and model[0] == "err" and ikind != mkind:
                ctx.stat("errkind-differs")
            ilex = canon_lex(regex, doc)
            mlex = rep_lex[i].vals[0] if rep_lex[i].ok else rep_lex[i].raw
            ctx.compare("lex", {"doc": doc}, ilex, mlex, nontrivial=False)
            ctx.sample({"case": {"doc": doc}, "impl": impl, "model": model, "expected_tree": want})
            # ---- oracle: the property itself ----
            if impl != ["ok", ["some", want]]:
                tag = classify(guards, rt) or ("valid_rendering_rejected" if impl[0] == "err" else "wrong_tree")
                violate(tag, case,
                        f"rendering of {wire.rt_abs(rt)!r} parsed to {impl} ({ikind or ''}) instead of the rendered tree",
                        {"guards": guards, "outcome": impl[0]})
            # ---- the generator explores the Lean grammar: renderer and side conditions agree ----
            if i in rep_render:
                rr = rep_render[i]
                ctx.evaluations += 1
                mine = [S(wire.rt_str(rt)), want, "T" if wire.rt_ok(rt, False) else "F", "T" if wire.rt_ok(rt, True) else "F"]
                if not rr.ok or rr.vals != mine:
                    ctx.disagree("spec.render", {"rt": rt}, mine, rr.vals if rr.ok else rr.raw)
                elif mine[2] != "T":
                    ctx.disagree("generator-outside-grammar", {"rt": rt}, "T", mine[2])
                if wire.rt_ok(rt, True) != (not guards):
                    ctx.disagree("strict-vs-guards", {"rt": rt}, wire.rt_ok(rt, True), guards)
            # independent reference reader (skips G3 documents: they are ambiguous without a DTD)
            if "G3" not in guards and (base + i) % 5 == 0:
                ctx.evaluations += 1
                ref = wire.ref_result(doc)
                if ref != ("ok", wire.rt_abs(rt)):
                    ctx.disagree("reference-reader", {"doc": doc}, wire.rt_abs(rt), ref)

    for rt, lead in WITNESSES:
        add(rt, lead)
    # ---- `\s*` after a CDATA section: every white-space code point, alone, before the element's end tag / a sibling ----
    import re as _re
    ctx.evaluations += 1
    re_space = [c for c in range(0x110000) if _re.fullmatch(r"\s", chr(c))]
    py_space = [c for c in range(0x110000) if chr(c).isspace()]
    if re_space != py_space or [chr(c) for c in py_space] != wire.PYSPACE:
        ctx.disagree("re-whitespace-vs-str.isspace", {"doc": ""}, py_space, re_space)
    for c in wire.PYSPACE:
        add(("a", "A", "", [("c", "B", "x", c, True, "")], ""))
        add(("a", "A", "", [("c", "B", "x", c, False, c), ("l", "C", "1", "", "", False, c)], ""))
        add(("a", "A", c, [("c", "B", "x", c + " " + c, True, c)], c), c)
    ctx.exhaustive.append("every white-space code point (29) between ']]>' and the element's own end tag, and after an unclosed "
                          "CDATA element; 16 non-white-space look-alikes there (lex + build only)")
    # ---- random renderings ----------------------------------------------------------------------------------
    n = ctx.budget(9000, 150000)
    for i in range(n):
        small = rng.random() < 0.5
        tags = wire.TAGS_SMALL if small else wire.TAGS_REAL
        datas = wire.DATA_SMALL if rng.random() < 0.4 else wire.DATA_RICH
        datas = [d for d in datas if wire.data_ok(d)]
        t = wire.random_abs(rng, tags, datas, max_nodes=rng.choice((3, 6, 12, 25)))
        strict = rng.random() < 0.9
        if strict:
            t = wire.strictify_abs(t)
        wss = wire.WS_SMALL if rng.random() < 0.5 else wire.WS_RICH
        rt = wire.random_rt(rng, t, wss, p_cdata=rng.choice((0.0, 0.25, 0.6)), strict=strict,
                            p_close=rng.choice((0.0, 0.5, 0.5, 1.0)))
        add(rt, rng.choice(wss) if rng.random() < 0.3 else "")
    # ---- small-scope exhaustive ------------------------------------------------------------------------------
    for nn in (1, 2):
        for t in wire.all_abs(nn, wire.TAGS_SMALL, wire.DATA_SMALL):
            for rt in wire.all_rts(t, wire.WS_SMALL):
                add(rt)
    ctx.exhaustive.append("all trees of <= 2 nodes over tags {A,B,C1}, data {x,'1 2',a&amp;b,>} x every end-tag/CDATA choice x "
                          "whitespace {none,' ',LF,CRLF+2 blanks} at every position (full grammar)")
    if ctx.thorough:
        for t in wire.all_abs(3, wire.TAGS_SMALL, wire.DATA_SMALL):
            for rt in wire.all_rts(t, ["", "\n"]):
                add(rt)
        ctx.exhaustive.append("all trees of 3 nodes over the same alphabet x every end-tag/CDATA choice x whitespace {none,LF}")
        for nn in (3, 4, 5):
            datas = wire.DATA_SMALL if nn == 3 else ["x"]
            for t in wire.all_abs(nn, wire.TAGS_SMALL, datas):
                for st in wire.UNIFORM_STYLES:
                    for w in wire.WS_SMALL:
                        add(wire.uniform_rt(t, st, w))
        ctx.exhaustive.append("all trees of 3 nodes (4 data) and of 4-5 nodes (data x) over {A,B,C1} x 6 uniform style vectors x 4 "
                              "whitespace values")
    else:
        # a slice of the 3..5-node space in the quick tier
        pool = []
        for nn in (3, 4):
            pool += list(itertools.islice(wire.all_abs(nn, wire.TAGS_SMALL, ["x", "a&amp;b"]), 0, None, 7))
        for t in pool:
            st = rng.choice(wire.UNIFORM_STYLES)
            add(wire.uniform_rt(t, st, rng.choice(wire.WS_SMALL)))
            add(wire.random_rt(rng, t, wire.WS_SMALL, strict=False))

    flush()

    # ---- lexer / builder soup ----------------------------------------------------------------------
    m = ctx.budget(6000, 120000)
    soups = [wire.soup(rng, rng.choice((1, 2, 3, 5, 8, 12))) for _ in range(m)]
    for cp in NOT_SPACE:       # not white space: `tail` text, refused
        soups.append("<A><B><![CDATA[x]]>%s</B></A>" % chr(cp))
        soups.append("<A><B><![CDATA[x]]> %s\n<C>1</A>" % chr(cp))
    soups = list(dict.fromkeys(soups))
    rl = ctx.model.ask([line("lex", d) for d in soups])
    rb = ctx.model.ask([line("build", d) for d in soups])
    for d, l, b in zip(soups, rl, rb):
        ctx.compare("lex", {"doc": d}, canon_lex(regex, d), l.vals[0] if l.ok else l.raw, nontrivial=False)
        impl, ikind = impl_build(TreeBuilder, d)
        model, mkind = model_build(b)
        ctx.compare("build", {"doc": d}, impl, model, nontrivial=False)
        ctx.stat("soup:" + (impl[0] if impl[0] == "ok" else "err:" + str(ikind)))
    vbuf.emit()


def replay(ctx, data):
    from ofxtools.Parser import TreeBuilder
    case = data.get("case") or data.get("first_disagreement", {}).get("case")
    doc = case["doc"]
    print("document:", repr(doc))
    print("finditer:", [(m.groupdict(), m.span()) for m in TreeBuilder.regex.finditer(doc)])
    impl, kind = impl_build(TreeBuilder, doc)
    print("feed+close ->", impl, kind or "")
    if "rt" in case:
        rt = case["rt"]
        rt = _retuple(rt)
        print("rendered from:", wire.rt_abs(rt), "guards violated:", wire.rt_guards(rt, doc))


def _retuple(r):
    if r[0] == "a":
        return ("a", r[1], r[2], [_retuple(c) for c in r[3]], r[4])
    return tuple(r)
