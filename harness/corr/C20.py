"""
C20 correspondence + oracle: security-identifier check digits.

impl  = ofxtools.utils.{cusip_checksum, validate_cusip, sedol_checksum, isin_checksum, validate_isin,
        cusip2isin, sedol2isin}
model = lean/OfxModel/Ofx/SecId.lean via the driver
oracle= the Lean spec (spec.cusip/sedol/isin) and an independent pure-Python reference below
"""
import itertools
import string

from framework import run_impl
from proto import line, opt, dstr, dbool

RULE = ("bases drawn from digits-only / upper alnum / lower+upper alnum / CUSIP alphabet incl. * @ # / wrong "
        "lengths / foreign characters (ASCII); every check character replaced by every other candidate; every agency "
        "prefix; a case is non-trivial when the implementation returned a value (not an exception) and distinct by "
        "(op, input)")

DIG = string.digits
UP = string.digits + string.ascii_uppercase
ALN = string.digits + string.ascii_uppercase + string.ascii_lowercase
CUS = UP + "*@#"
SED = "".join(c for c in UP if c not in "AEIO")
CHECKSET = DIG + "ABZ*x "


# ---------- independent reference (integer arithmetic only) ----------
def ref_val(c, cusip=False):
    if cusip and c in "*@#":
        return 36 + "*@#".index(c)
    if c in string.digits:
        return ord(c) - 48
    if c in string.ascii_uppercase:
        return ord(c) - 55
    if c in string.ascii_lowercase:
        return ord(c) - 87
    return None


def ref_cusip(base):
    tot = 0
    for i, c in enumerate(base):
        v = ref_val(c, True)
        if i % 2:
            v *= 2
        tot += v // 10 + v % 10
    return (10 - tot % 10) % 10


def ref_sedol(base):
    return (10 - sum(ref_val(c) * w for c, w in zip(base, (1, 3, 1, 7, 3, 9))) % 10) % 10


def ref_isin(base):
    digits = []
    for c in base:
        v = ref_val(c)
        digits += [v] if v < 10 else [v // 10, v % 10]
    tot = 0
    for j, d in enumerate(reversed(digits)):
        if j % 2 == 0:
            d *= 2
            d = d // 10 + d % 10
        tot += d
    return (10 - tot % 10) % 10


def _canon(r):
    if r[0] == "ok":
        v = r[1]
        return ["ok", v]
    return ["err", r[1]]


def _model_canon(rep, conv):
    if rep.kind == "ok":
        return ["ok", conv(rep.vals[0])]
    if rep.kind == "err":
        return ["err", rep.err]
    return ["bad", rep.raw]


def run(ctx):
    from ofxtools import utils
    from ofxtools.lib import NUMBERING_AGENCIES
    rng = ctx.rng
    agencies = list(NUMBERING_AGENCIES.keys())
    ag2 = [a for a in agencies if len(a) == 2]

    def rs(alpha, n):
        return "".join(rng.choice(alpha) for _ in range(n))

    cases = []  # (op, args tuple)

    def add(op, *args):
        cases.append((op, args))

    n = ctx.budget(2500, 60000)
    # --- checksums ---
    for _ in range(n):
        for alpha in (DIG, UP, ALN, CUS):
            add("cusip", rs(alpha, 8))
        add("sedol", rs(DIG, 6)); add("sedol", rs(SED, 6)); add("sedol", rs(UP, 6)); add("sedol", rs(ALN, 6))
        pre = rng.choice(agencies) if rng.random() < 0.9 else rs(UP, 2)
        add("isin", (pre + rs(rng.choice((DIG, UP, ALN)), 11))[:11])
    for _ in range(n // 5):
        # wrong lengths, foreign characters
        add("cusip", rs(CUS, rng.choice((0, 1, 7, 9, 10))))
        add("sedol", rs(SED, rng.choice((0, 5, 7))))
        add("isin", rng.choice(ag2) + rs(UP, rng.choice((0, 8, 10))))
        b = list(rs(UP, 8)); b[rng.randrange(8)] = rng.choice(" +-_.$/&%"); add("cusip", "".join(b))
        b = list(rs(SED, 6)); b[rng.randrange(6)] = rng.choice(" +-_.$*"); add("sedol", "".join(b))
        b = list(rng.choice(ag2) + rs(UP, 9)); b[2 + rng.randrange(9)] = rng.choice(" +-_.*"); add("isin", "".join(b))
    if ctx.thorough:
        # digits-only SEDOL bases exhaustively (10^6); stratified digits-only CUSIP / ISIN
        for t in itertools.product(DIG, repeat=6):
            add("sedol", "".join(t))
        ctx.exhaustive.append("sedol_checksum over all 10^6 digits-only bases")
        for i in range(0, 10 ** 8, 97):
            add("cusip", "%08d" % i)
        for i in range(0, 10 ** 9, 1009):
            add("isin", rng.choice(ag2) + "%09d" % i)
    # --- validators: every replacement of the check character ---
    m = ctx.budget(400, 6000)
    for _ in range(m):
        b = rs(rng.choice((DIG, UP, CUS)), 8)
        for c in CHECKSET:
            add("vcusip", b + c)
        b = rng.choice(ag2) + rs(rng.choice((DIG, UP)), 9)
        for c in CHECKSET:
            add("visin", b + c)
    for _ in range(m):
        add("vcusip", rs(CUS, rng.choice((0, 8, 10, 12))))
        add("visin", rng.choice(ag2) + rs(UP, rng.choice((0, 9, 11))))
        add("visin", rs(UP, 2) + rs(UP, 10))      # mostly unknown prefixes
        add("visin", rng.choice([a for a in agencies if len(a) == 1]) + rs(UP, 11))
    # --- valid identifiers with white space / line ends / a sign around them (what reading a file line by line,
    # or copy-and-paste, produces): never valid
    for _ in range(max(40, m // 4)):
        b = rs(rng.choice((DIG, UP)), 8)
        try:
            goodc = b + utils.cusip_checksum(b)
        except Exception:
            goodc = "084670108"
        bi = rng.choice(ag2) + rs(rng.choice((DIG, UP)), 9)
        try:
            goodi = bi + utils.isin_checksum(bi)
        except Exception:
            goodi = "US0846701086"
        for w in ("\n", "\r", "\r\n", " ", "\t", "\x0b", "\x0c", "\x1c", "\x85", "\u2028", "\u00a0", "+", "-"):
            for good, op in ((goodc, "vcusip"), (goodi, "visin")):
                add(op, good + w); add(op, w + good)
                add(op, good[:-1] + w); add(op, good[:4] + w + good[4:])
    # --- conversions ---
    for _ in range(m):
        b = rs(rng.choice((DIG, UP, UP, CUS)), 8)
        try:
            good = b + utils.cusip_checksum(b)
        except Exception:
            good = b + "0"
        for nat in [None, ""] + rng.sample(agencies, 3) + [rs(UP, 2)]:
            add("cusip2isin", good, nat)
        bad = b + rng.choice(CHECKSET)
        add("cusip2isin", bad, rng.choice(ag2))
        s = rs(rng.choice((DIG, SED)), 6)
        try:
            goods = s + utils.sedol_checksum(s)
        except Exception:
            goods = s + "0"
        for nat in [None, ""] + rng.sample(agencies, 2):
            add("sedol2isin", goods, nat)
        add("sedol2isin", s + rng.choice(DIG), "GB")
        add("sedol2isin", rs(SED, rng.choice((6, 8))), None)
    # every agency prefix
    for a in agencies:
        add("cusip2isin", "084670108", a)
        add("sedol2isin", "0263494", a)
        add("visin", (a + "0846701086")[:12])
        add("isin", (a + "08467010800")[:11])

    impl_fn = {
        "cusip": utils.cusip_checksum, "sedol": utils.sedol_checksum, "isin": utils.isin_checksum,
        "vcusip": utils.validate_cusip, "visin": utils.validate_isin,
        "cusip2isin": utils.cusip2isin, "sedol2isin": utils.sedol2isin,
    }
    lines = []
    for op, args in cases:
        if op in ("cusip2isin", "sedol2isin"):
            lines.append(line(op, args[0], opt(args[1])))
        else:
            lines.append(line(op, args[0]))
    replies = ctx.model.ask(lines)
    spec_lines, spec_for = [], []
    for (op, args), rep in zip(cases, replies):
        impl = _canon(run_impl(impl_fn[op], *args))
        conv = dbool if op in ("vcusip", "visin") else dstr
        model = _model_canon(rep, conv)
        case = {"op": op, "args": list(args)}
        ctx.stat(f"op:{op}")
        ctx.stat(f"impl:{impl[0]}" + (":" + impl[1] if impl[0] == "err" else ""))
        ctx.compare(op, case, impl, model, nontrivial=(impl[0] == "ok"))
        ctx.sample({"case": case, "impl": impl, "model": model})
        # ---- oracle on the implementation's own answer ----
        x = args[0]
        if op == "cusip" and len(x) == 8 and all(c in ALN + "*@#" for c in x):
            want = str(ref_cusip(x))
            if impl != ["ok", want]:
                special = any(c in "*@#" for c in x)
                ctx.violate("cusip_special_char" if special and impl[0] == "err" else "cusip_checksum_wrong",
                            case, f"cusip_checksum({x!r}) -> {impl}, the public algorithm gives {want}",
                            {"special": special})
            spec_lines.append(line("spec.cusip", [ref_val(c, True) for c in x])); spec_for.append((case, want))
        elif op == "sedol" and len(x) == 6 and all(c in ALN for c in x) and not any(c in "AEIO" for c in x):
            want = str(ref_sedol(x))
            if impl != ["ok", want]:
                ctx.violate("sedol_checksum_wrong", case, f"sedol_checksum({x!r}) -> {impl}, expected {want}")
            spec_lines.append(line("spec.sedol", [ref_val(c) for c in x])); spec_for.append((case, want))
        elif op == "isin" and len(x) == 11 and all(c in ALN for c in x) and x[:2] in NUMBERING_AGENCIES:
            want = str(ref_isin(x))
            if impl != ["ok", want]:
                ctx.violate("isin_checksum_wrong", case, f"isin_checksum({x!r}) -> {impl}, expected {want}")
            spec_lines.append(line("spec.isin", [ref_val(c) for c in x])); spec_for.append((case, want))
        elif op == "vcusip":
            if len(x) != 9:
                if impl != ["ok", False]:
                    ctx.violate("cusip_wrong_length_validates", case, f"validate_cusip({x!r}) -> {impl}")
            elif all(c in ALN + "*@#" for c in x[:8]):
                want = (str(ref_cusip(x[:8])) == x[8])
                if impl != ["ok", want]:
                    special = any(c in "*@#" for c in x[:8])
                    ctx.violate("cusip_special_char" if special and impl[0] == "err" else "validate_cusip_wrong",
                                case, f"validate_cusip({x!r}) -> {impl}, expected {want}", {"special": special})
        elif op == "visin":
            if len(x) != 12 or x[:2] not in NUMBERING_AGENCIES:
                if impl != ["ok", False]:
                    ctx.violate("isin_bad_shape_validates", case, f"validate_isin({x!r}) -> {impl}")
            elif all(c in ALN for c in x[:11]):
                want = (str(ref_isin(x[:11])) == x[11])
                if impl != ["ok", want]:
                    ctx.violate("validate_isin_wrong", case, f"validate_isin({x!r}) -> {impl}, expected {want}")
        elif op in ("cusip2isin", "sedol2isin"):
            if impl[0] == "ok":
                r = impl[1]
                emb = x if op == "cusip2isin" else x.zfill(9)
                okv = run_impl(utils.validate_isin, r)
                if okv != ("ok", True) or emb not in r[1:] or str(ref_isin(r[:11])) != r[11:]:
                    ctx.violate(f"{op}_invalid_result", case, f"{op}{tuple(args)!r} -> {r!r} which does not validate / embed")
            else:
                # must return for valid alnum ids and a two-letter agency
                nat = args[1] or ("US" if op == "cusip2isin" else "GB")
                if op == "cusip2isin" and len(x) == 9 and all(c in ALN for c in x) and nat in ag2 \
                        and str(ref_cusip(x[:8])) == x[8]:
                    ctx.violate("cusip2isin_refuses_valid", case, f"cusip2isin{tuple(args)!r} -> {impl}")
    # Lean spec must agree with the independent reference on the same inputs (validates the Spec file)
    for (case, want), rep in zip(spec_for, ctx.model.ask(spec_lines)):
        ctx.evaluations += 1
        got = rep.vals[0] if rep.ok else rep.raw
        if got != want:
            ctx.disagree("spec-vs-reference", case, want, got)


def replay(ctx, data):
    from ofxtools import utils
    case = data.get("case") or data.get("first_disagreement", {}).get("case")
    fn = {"cusip": utils.cusip_checksum, "sedol": utils.sedol_checksum, "isin": utils.isin_checksum,
          "vcusip": utils.validate_cusip, "visin": utils.validate_isin,
          "cusip2isin": utils.cusip2isin, "sedol2isin": utils.sedol2isin}[case["op"]]
    print("replay", case, "->", run_impl(fn, *case["args"]))
