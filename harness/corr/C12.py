"""
C12 correspondence + oracle: headers round-trip for every supported version; invalid headers are refused.

impl  = ofxtools.header.make_header / OFXHeaderV1 / OFXHeaderV2 (constructors, __str__) / parse_header
model = lean/OfxModel/Ofx/Header.lean via the driver (hdr.make, hdr.ctor1, hdr.ctor2, hdr.str, hdr.parse)
oracle= (a) str(make_header(v, sec, old, new)) + body parses back to equal fields, the same body, and the kind the
            version calls for;
        (b) a header text with one field outside its domain / a mandatory field missing / two adjacent fields
            transposed is refused with OFXHeaderError (COMPRESSION may be omitted);
        (c) constructors refuse a field outside its domain; make_header refuses versions that are neither 1xx nor 2xx
"""
import itertools

from framework import run_impl
from proto import line, opt, dstr, Atom
from corr import hdrlib as L

RULE = ("make_header over every version 0..1100 (ints and strs) and sampled other spellings x security {NONE,TYPE1,None} "
        "x UIDs over [A-Za-z0-9_-] at lengths 1, 36, 37; the generated text + a body parsed back; constructors with "
        "every field replaced by values outside (and inside) its domain; every single-field corruption, omission and "
        "adjacent transposition of the nine v1 / five v2 fields of a valid header text (exhaustive over a fixed pool "
        "of bad tokens per field); a case is non-trivial when the implementation returned a header object, or refused "
        "a corrupted text; distinct by (op, arguments)")

V2_VERSIONS = [200, 201, 202, 203, 210, 211, 220]
BODY = "<OFX><SIGNONMSGSRSV1></SIGNONMSGSRSV1></OFX>"


def _canon_make(r):
    if r[0] == "ok":
        return ["ok", L.canon_hdr(r[1]), str(r[1])]
    return ["err", r[1]]


def _model_make(rep):
    if rep.kind == "ok":
        return ["ok", L.model_hdr(rep.vals[0]), dstr(rep.vals[1])]
    if rep.kind == "err":
        return ["err", rep.err]
    return ["bad", rep.raw]


def _model_ctor(rep):
    if rep.kind == "ok":
        return ["ok", L.model_hdr(rep.vals[0])]
    if rep.kind == "err":
        return ["err", rep.err]
    return ["bad", rep.raw]


# pools of corrupt values per field: (value, kind); kind "domain" = outside the field's domain (must be refused)
BAD_V1 = {
    "OFXHEADER": ["200", "101", "10", "abc", "", "1000"],
    "DATA": ["OFXXML", "ofxsgml", "", "OFXSGML1", "SGML"],
    "VERSION": ["abc", "1020", "", "-102", "1.02", "10200", "1O2"],
    "SECURITY": ["TYPE2", "none", "", "NONE1", "TYPE"],
    "ENCODING": ["UTF8", "ASCII", "", "usascii", "UTF-16"],
    "CHARSET": ["UTF-8", "8859-1", "CP1252", "", "none", "1253"],
    "COMPRESSION": ["GZIP", "", "none", "NONEX"],
    "OLDFILEUID": ["x" * 37, "", "a b", "a.b", "a" * 100],
    # the last three: a value that leaves the character class after an in-class prefix — for the LAST v1 field the
    # unanchored pattern matches the prefix and hands the rest to the body (recorded finding v1-newfileuid-prefix-accepted)
    "NEWFILEUID": ["y" * 37, "", "a" * 100, "a.b", "a b", "abc$def"],
}
# versions the v1 class accepts although they are not v1 (1xx) versions
V1_VERSION_NOT_1XX = ["220", "999", "7", "99", "200", "0", "000"]
BAD_V2 = {
    "OFXHEADER": ["100", "201", "abc", "", "2000"],
    "VERSION": ["204", "102", "abc", "", "2200", "20", "221", "199"],
    "SECURITY": ["TYPE2", "none", "", "NONE1"],
    "OLDFILEUID": ["x" * 37, "", "a b", "a" * 100],
    "NEWFILEUID": ["y" * 37, "", "a.b"],
}


def v1_text(vals, order=None, omit=None, sep="\r\n", gap="\r\n\r\n"):
    names = order or L.V1_NAMES
    d = dict(zip(L.V1_NAMES, vals))
    return sep.join(f"{n}:{d[n]}" for n in names if n != omit) + gap


def v2_text(vals, order=None, omit=None, sep=" "):
    names = order or L.V2_NAMES
    d = dict(zip(L.V2_NAMES, vals))
    attrs = sep.join(f'{n}="{d[n]}"' for n in names if n != omit)
    return '<?xml version="1.0" encoding="UTF-8" standalone="no"?>\r\n' + f"<?OFX {attrs}?>\r\n"


def run(ctx):
    from ofxtools import header as H
    rng = ctx.rng

    # ============ 1. make_header / str / parse round trip over the version table ============
    uid_pool = ["NONE", "a", "Z" * 36, "0-_" * 12, L.rand_uid(rng, 36), L.rand_uid(rng, 1), L.rand_uid(rng, 17)]
    mk = []
    for v in range(0, 1101):
        sec = rng.choice(("NONE", "TYPE1", None))
        old = rng.choice(uid_pool + [None])
        new = rng.choice(uid_pool + [None])
        mk.append((v, sec, old, new))
        if 100 <= v < 230:
            for sec2 in ("NONE", "TYPE1"):
                mk.append((v, sec2, rng.choice(uid_pool), rng.choice(uid_pool)))
                mk.append((str(v), sec2, L.rand_uid(rng), L.rand_uid(rng, rng.choice((1, 36)))))
    ctx.exhaustive.append("make_header over every integer version 0..1100")
    for v in (102, 103, 151, 160, 100, 199) + tuple(V2_VERSIONS):
        for sec in ("NONE", "TYPE1", "TYPE2", "", "none", None):
            for old, new in (("x" * 36, "y" * 37), ("x" * 37, "NONE"), ("a&amp;b", "NONE"), ("&lt;" * 12, "c"), ("", ""),
                             ("x" * 35 + "&amp;", "-")):
                mk.append((v, sec, old, new))
    for v in ["", "abc", " 102 ", "1_02", "+102", "-102", "1__02", "_102", "102_", "10 2", "0102", "00220", "\t220\n",
              "\x1c102", "102\x1f", "\xa0102", "2.0", "0x66", None, 0, -1, -100, -150, 1 << 70, "9" * 30, 99, 100, 199, 200, 299, 300]:
        mk.append((v, None, None, None))
    for _ in range(ctx.budget(300, 6000)):
        mk.append((rng.choice((102, 103, 151, 160, rng.randrange(100, 200), rng.choice(V2_VERSIONS))),
                   rng.choice(("NONE", "TYPE1")), L.rand_uid(rng, rng.choice((1, 36, 37, rng.randrange(1, 40)))),
                   L.rand_uid(rng, rng.choice((1, 36, 37)))))
    replies = ctx.model.ask([line("hdr.make", L.arg(v), opt(s), opt(o), opt(n)) for v, s, o, n in mk])
    rt_files, rt_meta = [], []
    for (v, s, o, n), rep in zip(mk, replies):
        r = run_impl(H.make_header, v, s, o, n)
        impl = _canon_make(r)
        case = {"op": "hdr.make", "args": [v, s, o, n]}
        ctx.stat("make:" + impl[0] + (":" + impl[1] if impl[0] == "err" else ""))
        ctx.compare("hdr.make", case, impl, _model_make(rep), nontrivial=(impl[0] == "ok"))
        ctx.sample({"case": case, "impl": impl})
        # ---- oracle (c): versions neither 1xx nor 2xx are refused; supported ones are made, of the right kind ----
        try:
            iv = int(v) if v is not None else None
        except (ValueError, TypeError):
            iv = "nonnumeric"
        valid_rest = (s in (None, "NONE", "TYPE1")) and all(x is None or (1 <= len(x) <= 36 and set(x) <= set(L.UIDCHARS)) for x in (o, n))
        if iv == "nonnumeric" or (isinstance(iv, int) and iv // 100 not in (1, 2)):
            if impl != ["err", "header"]:
                ctx.violate("make_header_bad_version_not_refused", case, f"make_header({v!r}) -> {impl!r:.120}")
        elif isinstance(iv, int) and valid_rest and (100 <= iv <= 199 or iv in V2_VERSIONS):
            kind = "v1" if iv < 200 else "v2"
            if impl[0] != "ok" or impl[1][0] != kind:
                ctx.violate("make_header_supported_version_refused_or_wrong_kind", case,
                            f"make_header({v!r}, {s!r}, ..) -> {impl!r:.120}, expected a {kind} header")
            else:
                text = impl[2]
                flat = text.startswith("OFXHEADER:")
                if (kind == "v1") != flat or (kind == "v2") != text.startswith("<?xml"):
                    ctx.violate("header_text_kind_mismatch", case, f"str(make_header({v!r})) = {text!r:.80}")
                rt_files.append((text + BODY).encode("ascii")); rt_meta.append((case, impl[1]))
        elif isinstance(iv, int) and 200 <= iv <= 299 and iv not in V2_VERSIONS:
            if impl[0] == "ok":
                ctx.violate("make_header_unsupported_2xx_accepted", case, f"make_header({v!r}) -> {impl!r:.120}")
        if impl[0] == "ok" and not valid_rest and s not in (None, "", "NONE", "TYPE1"):
            ctx.violate("make_header_bad_security_accepted", case, f"make_header(.., security={s!r}) -> {impl!r:.120}")
    # ---- oracle (a): round trip ----
    for (case, hdr), f, rep in zip(rt_meta, rt_files, ctx.model.ask([line("hdr.parse", f) for f in rt_files])):
        impl = L.impl_parse(f)
        ctx.compare("hdr.parse", {"file_hex": f.hex()}, impl, L.model_parse_canon(rep), nontrivial=(impl[0] == "ok"))
        if impl != ["ok", hdr, BODY]:
            ctx.violate("roundtrip_differs", dict(case, file_hex=f.hex()),
                        f"parse_header(str(make_header{tuple(case['args'])!r}) + body) -> {impl!r:.160}, made {hdr}")

    # ============ 2. constructors ============
    ctor = []
    good1 = dict(version=102, ofxheader=100, data="OFXSGML", security="NONE", encoding="USASCII", charset="1252",
                 compression="NONE", oldfileuid="NONE", newfileuid="NONE")
    f1 = ["version", "ofxheader", "data", "security", "encoding", "charset", "compression", "oldfileuid", "newfileuid"]
    val1 = {"version": [102, "102", 0, "", None, 999, 1000, "1000", "abc", -5, "99", 100, "1_0", " 7 "],
            "ofxheader": [100, "100", None, 0, "", 200, "abc", "0100", 101, "1_00"],
            "data": ["OFXSGML", None, "", "OFXXML", "ofxsgml"],
            "security": ["NONE", "TYPE1", None, "", "TYPE2", "none"],
            "encoding": ["USASCII", "UNICODE", "UTF-8", None, "", "UTF8", "ascii"],
            "charset": ["ISO-8859-1", "1252", "NONE", None, "", "UTF-8", "8859-1"],
            "compression": ["NONE", None, "", "GZIP"],
            "oldfileuid": ["NONE", None, "", "x" * 36, "x" * 37, "&amp;" * 36, "&amp;" * 37, "a b", "&lt;" + "x" * 35, "&" * 36 + "amp;"],
            "newfileuid": ["NONE", None, "", "y" * 36, "y" * 37, "&quot;&apos;&nbsp;"]}
    for fld in f1:
        for v in val1[fld]:
            a = dict(good1); a[fld] = v
            ctor.append(("hdr.ctor1", [a[k] for k in f1], fld, v))
    for _ in range(ctx.budget(300, 5000)):
        a = {k: rng.choice(val1[k]) for k in f1}
        ctor.append(("hdr.ctor1", [a[k] for k in f1], None, None))
    good2 = dict(version=220, ofxheader=200, security="NONE", oldfileuid="NONE", newfileuid="NONE")
    f2 = ["version", "ofxheader", "security", "oldfileuid", "newfileuid"]
    val2 = {"version": V2_VERSIONS + ["220", "0220", 204, 102, 0, "", None, "abc", 2200, " 211 ", "2_20"],
            "ofxheader": [200, "200", None, 0, "", 100, "abc", "0200"],
            "security": val1["security"], "oldfileuid": val1["oldfileuid"], "newfileuid": val1["newfileuid"]}
    for fld in f2:
        for v in val2[fld]:
            a = dict(good2); a[fld] = v
            ctor.append(("hdr.ctor2", [a[k] for k in f2], fld, v))
    for _ in range(ctx.budget(300, 5000)):
        a = {k: rng.choice(val2[k]) for k in f2}
        ctor.append(("hdr.ctor2", [a[k] for k in f2], None, None))
    lines = []
    for op, a, _, _ in ctor:
        lines.append(line(op, L.arg(a[0]), L.arg(a[1]), *[opt(x) for x in a[2:]]))
    str_lines, str_meta = [], []
    for (op, a, fld, v), rep in zip(ctor, ctx.model.ask(lines)):
        cls = H.OFXHeaderV1 if op == "hdr.ctor1" else H.OFXHeaderV2
        names = f1 if op == "hdr.ctor1" else f2
        r = run_impl(lambda: cls(**dict(zip(names, a))))
        impl = ["ok", L.canon_hdr(r[1])] if r[0] == "ok" else ["err", r[1]]
        case = {"op": op, "args": a}
        ctx.stat(op + ":" + impl[0] + (":" + impl[1] if impl[0] == "err" else ""))
        ctx.compare(op, case, impl, _model_ctor(rep), nontrivial=(impl[0] == "ok"))
        if r[0] == "ok":
            str_lines.append(line("hdr.str", L.hdr_sexp(impl[1]))); str_meta.append((case, str(r[1])))
        # ---- oracle (c): a field outside its domain is refused with the header error ----
        if fld is not None:
            bad = _ctor_bad(op, fld, v)
            if bad and impl != ["err", "header"]:
                tag = "v1_ctor_version_outside_1xx_accepted" if (op == "hdr.ctor1" and fld == "version" and impl[0] == "ok") \
                    else f"ctor_{fld}_outside_domain_not_refused"
                ctx.violate(tag, case, f"{cls.__name__}({fld}={v!r}) -> {impl!r:.120}", {"field": fld})
    for (case, text), rep in zip(str_meta, ctx.model.ask(str_lines)):
        ctx.compare("hdr.str", case, ["ok", text], ["ok", dstr(rep.vals[0])] if rep.ok else ["bad", rep.raw])

    # ============ 3. header texts: corruption, omission, transposition ============
    texts = []   # (bytes, expectation, meta)
    for ver in (102, 103, 151, 160, 100, 199):
        for sec in ("NONE", "TYPE1"):
            for cs, enc in (("1252", "USASCII"), ("ISO-8859-1", "UNICODE"), ("NONE", "UTF-8")):
                old, new = rng.choice(uid_pool), rng.choice(uid_pool)
                vals = ["100", "OFXSGML", str(ver), sec, enc, cs, "NONE", old, new]
                for sep, gap in (("\r\n", "\r\n\r\n"), ("\n", "\n"), ("\r", "\r"), ("", "")):
                    texts.append((v1_text(vals, sep=sep, gap=gap), "ok", {"kind": "v1", "what": "valid", "sep": sep}))
                    texts.append((v1_text(vals, omit="COMPRESSION", sep=sep, gap=gap), "ok",
                                  {"kind": "v1", "what": "omit", "field": "COMPRESSION", "sep": sep}))
                    for i, name in enumerate(L.V1_NAMES):
                        for bad in BAD_V1[name]:
                            if sep == "" and bad == "":
                                pass
                            vv = list(vals); vv[i] = bad
                            texts.append((v1_text(vv, sep=sep, gap=gap), "refuse",
                                          {"kind": "v1", "what": "corrupt", "field": name, "value": bad, "sep": sep}))
                        if name != "COMPRESSION":
                            texts.append((v1_text(vals, omit=name, sep=sep, gap=gap), "refuse",
                                          {"kind": "v1", "what": "omit", "field": name, "sep": sep}))
                        if i < 8:
                            order = list(L.V1_NAMES); order[i], order[i + 1] = order[i + 1], order[i]
                            texts.append((v1_text(vals, order=order, sep=sep, gap=gap), "refuse",
                                          {"kind": "v1", "what": "transpose", "field": name, "sep": sep}))
                    # the optional COMPRESSION line moved to the very end (recorded finding v1-compression-last-accepted:
                    # the unanchored pattern reads the eight mandatory lines and the line lands in front of the body)
                    order = [n for n in L.V1_NAMES if n != "COMPRESSION"] + ["COMPRESSION"]
                    texts.append((v1_text(vals, order=order, sep=sep, gap=gap), "refuse",
                                  {"kind": "v1", "what": "move_last", "field": "COMPRESSION", "sep": sep}))
                    for bad in V1_VERSION_NOT_1XX:
                        vv = list(vals); vv[2] = bad
                        texts.append((v1_text(vv, sep=sep, gap=gap), "refuse",
                                      {"kind": "v1", "what": "version_not_1xx", "field": "VERSION", "value": bad, "sep": sep}))
    for ver in V2_VERSIONS:
        for sec in ("NONE", "TYPE1"):
            old, new = rng.choice(uid_pool), rng.choice(uid_pool)
            vals = ["200", str(ver), sec, old, new]
            for sep in (" ", "\r\n"):
                texts.append((v2_text(vals, sep=sep), "ok", {"kind": "v2", "what": "valid"}))
                for i, name in enumerate(L.V2_NAMES):
                    for bad in BAD_V2[name]:
                        vv = list(vals); vv[i] = bad
                        texts.append((v2_text(vv, sep=sep), "refuse", {"kind": "v2", "what": "corrupt", "field": name, "value": bad}))
                    texts.append((v2_text(vals, omit=name, sep=sep), "refuse", {"kind": "v2", "what": "omit", "field": name}))
                    if i < 4:
                        order = list(L.V2_NAMES); order[i], order[i + 1] = order[i + 1], order[i]
                        texts.append((v2_text(vals, order=order, sep=sep), "refuse", {"kind": "v2", "what": "transpose", "field": name}))
    ctx.exhaustive.append("every single-field corruption (fixed bad-token pool), omission and adjacent transposition of the "
                          "nine v1 fields (x 4 separator styles x 36 valid bases) and five v2 fields (x 2 x 14 bases)")
    files = [(t + BODY).encode("ascii") for t, _, _ in texts]
    for (t, exp, meta), f, rep in zip(texts, files, ctx.model.ask([line("hdr.parse", f) for f in files])):
        impl = L.impl_parse(f)
        case = {"op": "hdr.parse", "file_hex": f.hex(), "meta": meta}
        ctx.stat(f"text:{meta['kind']}:{meta['what']}:{impl[0]}")
        ctx.compare("hdr.parse", {"file_hex": f.hex()}, impl, L.model_parse_canon(rep),
                    nontrivial=(impl[0] == "ok" or exp == "refuse"))
        if exp == "refuse" and impl != ["err", "header"]:
            if meta["what"] == "version_not_1xx" and impl[0] == "ok":
                tag = "v1_text_version_outside_1xx_accepted"
            elif impl[0] == "ok":
                tag = f"{meta['kind']}_{meta['what']}_{meta['field']}_accepted"
            else:
                tag = f"{meta['kind']}_{meta['what']}_{meta['field']}_raises_{impl[1]}"
            bad_v = meta.get("value") or ""
            k = 0
            while k < len(bad_v) and (bad_v[k].isalnum() and bad_v[k].isascii() or bad_v[k] in "_-"):
                k += 1
            vkind = ("class_prefix" if 0 < k < len(bad_v) and k <= 36 else "over_long" if k == len(bad_v) and k > 36
                     else "other") if meta["what"] == "corrupt" else meta["what"]
            ctx.violate(tag, case, f"header text with {meta} -> {impl!r:.160}; a header object must never come back",
                        {"field": meta["field"], "value_kind": vkind})
        if exp == "ok" and (impl[0] != "ok" or impl[2] != BODY):
            if meta["kind"] == "v1" and meta.get("sep") in ("\r\n", "\n") and impl[0] == "ok" and impl[2] == BODY[1:]:
                continue  # the C05 offset defect (glued body): reported under C05
            ctx.violate(f"{meta['kind']}_valid_text_refused", case, f"valid header text ({meta}) -> {impl!r:.160}")


def _ctor_bad(op, fld, v):
    """is `v` outside the domain of constructor field `fld` (after the constructor's own defaulting)?"""
    if fld == "version":
        if op == "hdr.ctor1":
            if v in (None, "", 0):
                return False
            try:
                i = int(v)
            except ValueError:
                return True
            return not (100 <= i <= 199)
        if v is None:
            return False      # TypeError, outside the property (version is mandatory)
        try:
            i = int(v)
        except ValueError:
            return True
        return i not in V2_VERSIONS
    if fld == "ofxheader":
        if v in (None, "", 0):
            return False
        try:
            i = int(v)
        except ValueError:
            return True
        return i != (100 if op == "hdr.ctor1" else 200)
    if v in (None, ""):
        return False
    dom = {"data": ["OFXSGML"], "security": ["NONE", "TYPE1"], "encoding": ["USASCII", "UNICODE", "UTF-8"],
           "charset": ["ISO-8859-1", "1252", "NONE"], "compression": ["NONE"]}
    if fld in dom:
        return v not in dom[fld]
    # UIDs: at most 36 characters (after the unescaping String.convert performs)
    from xml.sax import saxutils
    return len(saxutils.unescape(v, {"&nbsp;": " ", "&apos;": "'", "&quot;": '"'})) > 36


def replay(ctx, data):
    from ofxtools import header as H
    case = data.get("case") or data.get("first_disagreement", {}).get("case")
    if "file_hex" in case:
        f = bytes.fromhex(case["file_hex"])
        print("replay parse_header on", f[:300], "->", L.impl_parse(f))
    elif case.get("op") == "hdr.make":
        print("replay make_header", case["args"], "->", _canon_make(run_impl(H.make_header, *case["args"])))
    else:
        print("replay: ", case)
