"""
C19 correspondence + oracle: ofxget requests exactly the configured or discovered accounts and given dates.

impl   = ofxtools.scripts.ofxget.{request_stmt, request_stmtend, convert_datetime, init_client, _merge_acctinfo,
         extract_acctinfos, parse_*acctinfos} run in-process on ChainMaps, with `OFXClient.post_request` replaced
         (ACCTINFORQ -> a generated ACCTINFORS built with the real model classes and serialised by the real
         client; anything else echoed) and `OFXClient.request_statements/__init__/download` recorded; never the network
model  = lean/OfxModel/Ofx/Ofxget.lean via the driver (`stmt.plan`), DateTime.convert abstract (the harness applies
         the real converter to the text the model passes on)
oracle = the composed request parsed back with ofxtools' own parser: the list of (kind, acctid, accttype,
         bankid|brokerid, dates, flags) per wrapper must equal the Lean spec (`spec.stmt`) on the configured
         accounts; with --all the multiset of requested accounts must equal `spec.active` of the generated
         account list, and no requested account may be one the response lists with another status.
"""
import collections
import datetime
import io
import itertools

from framework import canon_exc
from proto import line, Atom, dstr, opt
from corr.ofxget_common import Env, quiet, run_impl_all, pv, cv, dv, pmap, dmap

RULE = ("ChainMaps [command line, user configuration, DEFAULTS] with 0-3 account numbers per account type (duplicates, "
        "empty strings, 22/23-character ids), dates valid / invalid / empty, every include flag, bankid/brokerid set or "
        "missing, stmt and stmtend, dry run and sent; --all with generated ACCTINFORS: any mix of bank (all five account "
        "types) / credit-card / investment accounts x {ACTIVE, AVAIL, PEND}, one or several bank ids, with and without "
        "configured lists underneath (all multisets of <= 3 accounts per class in the thorough tier).  Non-trivial: "
        "the implementation reached OFXClient.request_statements; distinct by (command, maps, account list).")

BANKTYPES = ("checking", "savings", "moneymrkt", "creditline")
ALLTYPES = BANKTYPES + ("creditcard", "investment")
STATUSES = ("ACTIVE", "AVAIL", "PEND")


def cdate(d):
    return None if d is None else d.isoformat()


class Rec:
    """what the patched OFXClient saw during one call"""

    def __init__(self):
        self.init = None
        self.requests = None
        self.kwargs = None
        self.sent = []
        self.final = None


_ORIG = {}


def install(env, rec, acct_response):
    """patch the real OFXClient in place (a subclass would break OFXClient.__repr__, which init_client logs)"""
    Real = env.RealClient
    if not _ORIG:
        for n in ("__init__", "request_statements", "post_request", "download"):
            _ORIG[n] = Real.__dict__[n]
        _ORIG["uuid"] = Real.__dict__["uuid"]

    def __init__(self, url, **kw):
        rec.init = dict(kw, url=url)
        _ORIG["__init__"](self, url, **kw)

    def request_statements(self, password, *requests, **kw):
        rec.requests = list(requests)
        rec.kwargs = dict(kw, password=password)
        return _ORIG["request_statements"](self, password, *requests, **kw)

    def post_request(self, url, serialized_request, timeout):
        rec.sent.append((url, serialized_request))
        if b"ACCTINFORQ" in serialized_request:
            return acct_response
        return serialized_request

    def download(self, ofx, **kw):
        r = _ORIG["download"](self, ofx, **kw)
        rec.final = r.read()
        r.seek(0)
        return r

    Real.__init__ = __init__
    Real.request_statements = request_statements
    Real.post_request = post_request
    Real.download = download
    Real.uuid = "TRNUID"
    env.ofxget.OFXClient = Real


def mk_response(env, infos, grouped, code=0):
    """ACCTINFORS for the account list, built with the real model classes"""
    from ofxtools import models
    from ofxtools.utils import UTC
    members = []
    for inf in infos:
        if inf[0] == "bank":
            m = models.BANKACCTINFO(bankacctfrom=models.BANKACCTFROM(bankid=inf[1], acctid=inf[2], accttype=inf[3]),
                                    suptxdl=True, xfersrc=False, xferdest=False, svcstatus=inf[4])
        elif inf[0] == "cc":
            m = models.CCACCTINFO(ccacctfrom=models.CCACCTFROM(acctid=inf[1]), suptxdl=True, xfersrc=False,
                                  xferdest=False, svcstatus=inf[2])
        else:
            m = models.INVACCTINFO(invacctfrom=models.INVACCTFROM(brokerid=inf[1], acctid=inf[2]),
                                   usproducttype="OTHER", checking=False, svcstatus=inf[3])
        members.append(m)
    groups = []
    if grouped:
        # pack greedily: at most one member per class in an ACCTINFO
        cur, seen = [], set()
        for m in members:
            if type(m) in seen:
                groups.append(models.ACCTINFO(*cur))
                cur, seen = [], set()
            cur.append(m)
            seen.add(type(m))
        if cur:
            groups.append(models.ACCTINFO(*cur))
    else:
        groups = [models.ACCTINFO(m) for m in members]
    t0 = datetime.datetime(2020, 1, 1, tzinfo=UTC)
    status = models.STATUS(code=0, severity="INFO")
    tstatus = models.STATUS(code=code, severity="INFO" if code == 0 else "ERROR")
    rs = models.ACCTINFORS(*groups, dtacctup=t0)
    trn = models.ACCTINFOTRNRS(trnuid="1", status=tstatus, acctinfors=rs)
    son = models.SIGNONMSGSRSV1(sonrs=models.SONRS(status=status, dtserver=t0, language="ENG"))
    ofx = models.OFX(signonmsgsrsv1=son, signupmsgsrsv1=models.SIGNUPMSGSRSV1(trn))
    return env.RealClient("").serialize(ofx)


def canon_info(a):
    n = type(a).__name__
    if n == "BANKACCTINFO":
        return ["bank", a.bankid, a.acctid, a.accttype, a.svcstatus]
    if n == "CCACCTINFO":
        return ["cc", a.acctid, a.svcstatus]
    if n == "INVACCTINFO":
        return ["inv", a.invacctfrom.brokerid, a.invacctfrom.acctid, a.svcstatus]
    return ["other", n]


def pinfo(i):
    return [Atom(i[0])] + list(i[1:])


def canon_rq(r):
    n = type(r).__name__
    if n == "StmtRq":
        return ["stmt", r.acctid, r.accttype, cdate(r.dtstart), cdate(r.dtend), cv(r.inctran)]
    if n == "CcStmtRq":
        return ["ccstmt", r.acctid, cdate(r.dtstart), cdate(r.dtend), cv(r.inctran)]
    if n == "InvStmtRq":
        return ["invstmt", r.acctid, cdate(r.dtstart), cdate(r.dtend), cdate(r.dtasof), cv(r.inctran), cv(r.incoo),
                cv(r.incpos), cv(r.incbal)]
    if n == "StmtEndRq":
        return ["stmtend", r.acctid, r.accttype, cdate(r.dtstart), cdate(r.dtend)]
    if n == "CcStmtEndRq":
        return ["ccstmtend", r.acctid, cdate(r.dtstart), cdate(r.dtend)]
    return ["?", repr(r)]


def parse_back(data):
    """the composed request, parsed by ofxtools' own parser -> per-kind lists of wire-level tuples"""
    from ofxtools.Parser import OFXTree
    t = OFXTree()
    t.parse(io.BytesIO(data))
    ofx = t.convert()
    out = {"stmt": [], "ccstmt": [], "invstmt": [], "stmtend": [], "ccstmtend": []}
    for w in (ofx.bankmsgsrqv1 or []):
        n = type(w).__name__
        if n == "STMTTRNRQ":
            rq = w.stmtrq
            a, inc = rq.bankacctfrom, rq.inctran
            out["stmt"].append(["stmt", a.acctid, a.accttype, a.bankid, cdate(inc.dtstart), cdate(inc.dtend), inc.include])
        elif n == "STMTENDTRNRQ":
            rq = w.stmtendrq
            a = rq.bankacctfrom
            out["stmtend"].append(["stmtend", a.acctid, a.accttype, a.bankid, cdate(rq.dtstart), cdate(rq.dtend)])
        else:
            out.setdefault("foreign", []).append(n)
    for w in (ofx.creditcardmsgsrqv1 or []):
        n = type(w).__name__
        if n == "CCSTMTTRNRQ":
            rq = w.ccstmtrq
            inc = rq.inctran
            out["ccstmt"].append(["ccstmt", rq.ccacctfrom.acctid, cdate(inc.dtstart), cdate(inc.dtend), inc.include])
        elif n == "CCSTMTENDTRNRQ":
            rq = w.ccstmtendrq
            out["ccstmtend"].append(["ccstmtend", rq.ccacctfrom.acctid, cdate(rq.dtstart), cdate(rq.dtend)])
        else:
            out.setdefault("foreign", []).append(n)
    for w in (ofx.invstmtmsgsrqv1 or []):
        n = type(w).__name__
        if n == "INVSTMTTRNRQ":
            rq = w.invstmtrq
            a, inc, pos = rq.invacctfrom, rq.inctran, rq.incpos
            out["invstmt"].append(["invstmt", a.acctid, a.brokerid,
                                   cdate(inc.dtstart) if inc is not None else None,
                                   cdate(inc.dtend) if inc is not None else None,
                                   cdate(pos.dtasof) if pos is not None else None,
                                   inc.include if inc is not None else False, rq.incoo,
                                   pos.include if pos is not None else False, rq.incbal])
        else:
            out.setdefault("foreign", []).append(n)
    return out


def expected_wire(kind, accts, o, bankid, brokerid, wire=True):
    """the property, written out: per kind, one wrapper per configured id in order"""
    out = {"stmt": [], "ccstmt": [], "invstmt": [], "stmtend": [], "ccstmtend": []}
    for ty in BANKTYPES:
        for i in accts[ty]:
            if kind == "stmt":
                out["stmt"].append(["stmt", i, ty.upper(), bankid, o["dtstart"], o["dtend"], o["inctran"]])
            else:
                out["stmtend"].append(["stmtend", i, ty.upper(), bankid, o["dtstart"], o["dtend"]])
    for i in accts["creditcard"]:
        if kind == "stmt":
            out["ccstmt"].append(["ccstmt", i, o["dtstart"], o["dtend"], o["inctran"]])
        else:
            out["ccstmtend"].append(["ccstmtend", i, o["dtstart"], o["dtend"]])
    if kind == "stmt":
        for i in accts["investment"]:
            # INVSTMTRQ carries the transaction dates inside INCTRAN, which is omitted when transactions are not wanted
            ds, de = (o["dtstart"], o["dtend"]) if (o["inctran"] or not wire) else (None, None)
            out["invstmt"].append(["invstmt", i, brokerid, ds, de, o["dtasof"], bool(o["inctran"]) if wire else o["inctran"], o["incoo"],
                                   o["incpos"], o["incbal"]])
    return out


def rq_key(c):
    """account designator of a canonical request tuple"""
    if c[0] in ("stmt", "stmtend"):
        return ("bank", c[1], c[2])
    if c[0] in ("ccstmt", "ccstmtend"):
        return ("cc", c[1])
    return ("inv", c[1])


def run(ctx):
    env = Env("c19")
    og = env.ofxget
    rng = ctx.rng
    from ofxtools.Types import DateTime
    D = DateTime().convert
    DEFAULTS = dict(env.tables["defaults"])

    dconv_cache = {}

    def dconv(text):
        """-> ('ok', canonical) | ('err', kind) for a date text as the implementation converts it"""
        if text not in dconv_cache:
            r = run_impl_all(D, text)
            dconv_cache[text] = ("ok", cdate(r[1])) if r[0] == "ok" else r
        return dconv_cache[text]

    DATE_OK = ["20200101", "20191231235959", "20200229120000.123", "20200101000000.000[-5:EST]", "19991231"]
    DATE_BAD = ["2020", "yesterday", "20201301", "2020-01-01", "20200230"]

    def rand_ids(maxn=3):
        n = rng.randrange(0, maxn + 1)
        pool = ["1", "22", "333", "A-1", "9" * 22, "x y", "0012"]
        ids = [rng.choice(pool) if rng.random() < 0.7 else str(rng.randrange(10 ** 6)) for _ in range(n)]
        if rng.random() < 0.04:
            ids.append("9" * 23)     # too long for ACCTID: composition fails, the tuple list is still observed
        if rng.random() < 0.03:
            ids.append("")
        return ids

    cases = []

    def mk_case(kind, cli, user, infos=None, grouped=False, code=0, fail=None, label=""):
        cases.append({"kind": kind, "cli": cli, "user": user, "infos": infos, "grouped": grouped, "code": code,
                      "fail": fail, "label": label})

    def base_cli(all_=False):
        cli = {"request": "stmt", "server": "srv", "url": "https://bank.example/ofx", "user": "bob"}
        if all_:
            cli.update({"all": True, "dryrun": False, "password": "pw", "skipprofile": True})
        else:
            if rng.random() < 0.8:
                cli["dryrun"] = True
            else:
                cli.update({"dryrun": False, "password": "pw", "skipprofile": True})
        return cli

    def rand_opts(cli):
        for d in ("dtstart", "dtend", "dtasof"):
            r = rng.random()
            if r < 0.5:
                cli[d] = rng.choice(DATE_OK)
            elif r < 0.56:
                cli[d] = rng.choice(DATE_BAD)
            elif r < 0.62:
                cli[d] = ""
        for f in ("inctran", "incbal", "incpos", "incoo"):
            if rng.random() < 0.4:
                cli[f] = rng.random() < 0.5
        if rng.random() < 0.3:
            cli["version"] = rng.choice([102, 103, 160, 203, 220])
        if rng.random() < 0.2:
            cli["pretty"] = True
        if rng.random() < 0.2:
            cli["clientuid"] = "CUID"
        if rng.random() < 0.3:
            cli["org"], cli["fid"] = "ORG", "FID"

    # ---- A. configured accounts
    for i in range(ctx.budget(550, 16000)):
        kind = "stmt" if rng.random() < 0.6 else "stmtend"
        cli, user = base_cli(), {}
        rand_opts(cli)
        for ty in ALLTYPES:
            r = rng.random()
            if r < 0.45:
                cli[ty] = rand_ids()
            elif r < 0.75:
                user[ty] = rand_ids()
            if r < 0.15:
                user[ty] = rand_ids()      # both: the command line wins
        if rng.random() < 0.9:
            (cli if rng.random() < 0.5 else user)["bankid"] = rng.choice(["111000614", "1", "123456789"])
        if rng.random() < 0.9:
            (cli if rng.random() < 0.5 else user)["brokerid"] = rng.choice(["broker.example", "B"])
        mk_case(kind, cli, user, label="configured")

    # as-of date with every combination of the include flags (the as-of date must reach INCPOS whatever the flags)
    for flags in itertools.product((True, False), repeat=4):
        cli = {"request": "stmt", "server": "srv", "url": "https://bank.example/ofx", "dryrun": True,
               "brokerid": "B", "bankid": "1", "investment": ["I1", "I2"], "checking": ["C1"],
               "dtasof": "20200301", "dtstart": "20200101", "dtend": "20200201"}
        cli.update(dict(zip(("inctran", "incbal", "incpos", "incoo"), flags)))
        mk_case("stmt", cli, {}, label="asof-flags")

    # small-scope exhaustive: ids per type from {[], [a], [a,b], [a,a]} for every type (stmt), thorough only
    if ctx.thorough:
        shapes = [[], ["a"], ["a", "b"], ["a", "a"]]
        for combo in itertools.product(range(4), repeat=6):
            cli = {"request": "stmt", "server": "srv", "url": "https://bank.example/ofx", "dryrun": True,
                   "bankid": "1", "brokerid": "B"}
            for ty, s in zip(ALLTYPES, combo):
                if s:
                    cli[ty] = [x + ty[:2] for x in shapes[s]]
            mk_case("stmt" if sum(combo) % 2 else "stmtend", cli, {}, label="exh-configured")
        ctx.exhaustive.append("configured accounts: every combination of {0,1,2 distinct,2 equal} ids over the six account types (4096)")

    # ---- B. --all
    def rand_infos(maxn=3):
        infos = []
        bankids = ["111000614"] if rng.random() < 0.85 else ["111000614", "222"]
        brokers = ["broker.example"] if rng.random() < 0.85 else ["broker.example", "other"]
        for _ in range(rng.randrange(0, maxn + 1)):
            infos.append(["bank", rng.choice(bankids), str(rng.randrange(1000)),
                          rng.choice(("CHECKING", "SAVINGS", "MONEYMRKT", "CREDITLINE", "CD")), rng.choice(STATUSES)])
        for _ in range(rng.randrange(0, maxn + 1)):
            infos.append(["cc", "cc" + str(rng.randrange(1000)), rng.choice(STATUSES)])
        for _ in range(rng.randrange(0, maxn + 1)):
            infos.append(["inv", rng.choice(brokers), "inv" + str(rng.randrange(1000)), rng.choice(STATUSES)])
        rng.shuffle(infos)
        return infos

    for i in range(ctx.budget(450, 14000)):
        kind = "stmt" if rng.random() < 0.6 else "stmtend"
        cli, user = base_cli(all_=True), {}
        rand_opts(cli)
        infos = rand_infos()
        r = rng.random()
        if r < 0.35:
            # configured lists underneath (may name accounts the server lists as inactive)
            inactive = [x for x in infos if x[-1] != "ACTIVE"]
            for ty in rng.sample(ALLTYPES, rng.randrange(1, 4)):
                ids = rand_ids(2)
                for x in inactive:
                    if (x[0] == "bank" and x[3].lower() == ty) or (x[0] == "cc" and ty == "creditcard") or \
                            (x[0] == "inv" and ty == "investment"):
                        ids.append(x[2] if x[0] != "cc" else x[1])
                user[ty] = ids
            user["bankid"], user["brokerid"] = "999", "cfgbroker"
        elif r < 0.45:
            cli[rng.choice(ALLTYPES)] = rand_ids(2)     # command-line accounts win over discovered ones
            cli["bankid"] = "777"
        fail, code = None, 0
        if rng.random() < 0.03:
            code = 2000
        mk_case(kind, cli, user, infos=infos, grouped=rng.random() < 0.5, code=code,
                label="all-merged" if rng.random() < 0.35 else "all")

    if ctx.thorough:
        # all multisets of <= 3 accounts per class over {type} x {status}, one bank id / broker id
        bank_kinds = [(t, s) for t in ("CHECKING", "SAVINGS", "CD") for s in STATUSES]
        n = 0
        for nb in range(4):
            for bsel in itertools.combinations_with_replacement(bank_kinds, nb):
                for ccsel in itertools.chain.from_iterable(itertools.combinations_with_replacement(STATUSES, k) for k in range(3)):
                    for invsel in itertools.chain.from_iterable(itertools.combinations_with_replacement(STATUSES, k) for k in range(3)):
                        infos = [["bank", "111", f"b{j}", t, s] for j, (t, s) in enumerate(bsel)] + \
                                [["cc", f"c{j}", s] for j, s in enumerate(ccsel)] + \
                                [["inv", "brk", f"i{j}", s] for j, s in enumerate(invsel)]
                        cli = base_cli(all_=True)
                        mk_case("stmt" if n % 3 else "stmtend", cli, {"checking": ["cfg1"]} if n % 5 == 0 else {},
                                infos=infos, label="exh-all")
                        n += 1
        ctx.exhaustive.append(f"--all: every multiset of <= 3 bank accounts over {{CHECKING,SAVINGS,CD}} x statuses, <= 2 credit-card "
                              f"and <= 2 investment accounts x statuses ({n} responses)")

    # ---- run the implementation
    lines, impls, extras = [], [], []
    for c in cases:
        kind = c["kind"]
        args = collections.ChainMap(dict(c["cli"]), dict(c["user"]), dict(DEFAULTS))
        if c["label"] == "all-merged":
            # the real three-layer ChainMap: command line, ofxget.cfg section read by read_config, DEFAULTS
            def raw(v):
                if isinstance(v, bool):
                    return "true" if v else "false"
                if isinstance(v, list):
                    return ", ".join(v)
                return str(v)
            usec = [[k, raw(v)] for k, v in c["user"].items()
                    if not (isinstance(v, list) and any(("," in m) or m != m.strip() or not m for m in v))]
            c["user"] = {k: v for k, v in c["user"].items() if any(k == kk for kk, _ in usec)}
            env.oh_table = {}
            env.fresh_process([], [["srv", usec]], "TRNUID")
            import argparse as _ap
            with quiet():
                mr = run_impl_all(og.merge_config, _ap.Namespace(**c["cli"]), og.USERCFG)
            if mr[0] == "ok":
                args = mr[1]
                c["cli"], c["user"] = dict(args.maps[0]), dict(args.maps[1])
        rec = Rec()
        resp = None
        if c["infos"] is not None:
            resp = mk_response(env, c["infos"], c["grouped"], c["code"])
        install(env, rec, resp)
        f = og.request_stmt if kind == "stmt" else og.request_stmtend
        with quiet():
            r = run_impl_all(f, args)
        # what extract_acctinfos makes of the response (document order), for the model
        acct = Atom("none")
        if args.maps[0].get("all") and resp is not None:
            e = run_impl_all(lambda: [canon_info(a) for a in og.extract_acctinfos(io.BytesIO(resp))])
            acct = [Atom("ok"), [pinfo(i) for i in e[1]]] if e[0] == "ok" else [Atom("err"), Atom(e[1])]
        # texts DateTime.convert rejects
        bad = []
        for d in ("dtstart", "dtend", "dtasof"):
            t = args[d]
            if isinstance(t, str) and t:
                dc = dconv(t)
                if dc[0] == "err":
                    bad.append([t, Atom(dc[1])])
        maps = [dict(c["cli"]), dict(c["user"]), dict(DEFAULTS)]
        lines.append(line("stmt.plan", Atom(kind), [pmap(m) for m in maps], bad, acct))
        if rec.requests is not None:
            impl = ["ok", [canon_rq(x) for x in rec.requests],
                    {k: cv(v) for k, v in rec.init.items()}]
        else:
            impl = ["err", r[1] if r[0] == "err" else "no-call"]
        impls.append(impl)
        extras.append((r, rec, args))

    replies = ctx.model.ask(lines)
    spec_lines, spec_for = [], []
    for c, impl, (r, rec, args), rep in zip(cases, impls, extras, replies):
        kind = c["kind"]
        case = {k: v for k, v in c.items()}
        case["cli"] = {k: cv(v) for k, v in c["cli"].items()}
        case["user"] = {k: cv(v) for k, v in c["user"].items()}
        if rep.kind == "ok":
            rqs = []
            for x in rep.vals[0]:
                tag = x[0]

                def dd(a):
                    if a == "none":
                        return None
                    return dconv(dstr(a[1]))[1]
                if tag == "stmt":
                    rqs.append(["stmt", dstr(x[1]), dstr(x[2]), dd(x[3]), dd(x[4]), dv(x[5])])
                elif tag == "ccstmt":
                    rqs.append(["ccstmt", dstr(x[1]), dd(x[2]), dd(x[3]), dv(x[4])])
                elif tag == "invstmt":
                    rqs.append(["invstmt", dstr(x[1]), dd(x[2]), dd(x[3]), dd(x[4]), dv(x[5]), dv(x[6]), dv(x[7]), dv(x[8])])
                elif tag == "stmtend":
                    rqs.append(["stmtend", dstr(x[1]), dstr(x[2]), dd(x[3]), dd(x[4])])
                else:
                    rqs.append(["ccstmtend", dstr(x[1]), dd(x[2]), dd(x[3])])
            model = ["ok", rqs, dmap(rep.vals[1])]
        elif rep.kind == "err":
            model = ["err", rep.err]
        else:
            model = ["bad", rep.raw]
        ctx.stat(f"{kind}:{c['label']}:{impl[0]}" + (":" + impl[1] if impl[0] == "err" else ""))
        ctx.compare("stmt.plan", case, impl, model, nontrivial=(impl[0] == "ok"))
        ctx.sample({"case": case, "impl": impl}, limit=6)

        # ---------------- oracle on the implementation's own behaviour ----------------
        is_all = bool(c["cli"].get("all"))
        infos = c["infos"] or []
        one_bankid = len({x[1] for x in infos if x[0] == "bank" and x[4] == "ACTIVE"}) <= 1
        one_broker = len({x[1] for x in infos if x[0] == "inv" and x[3] == "ACTIVE"}) <= 1
        dates_ok = all(dconv(args[d])[0] == "ok" for d in ("dtstart", "dtend", "dtasof") if isinstance(args[d], str) and args[d])
        if impl[0] == "err":
            if is_all and dates_ok and c["code"] == 0 and one_bankid and one_broker and impl[1] == "value":
                banks = [x for x in infos if x[0] == "bank"]
                invs = [x for x in infos if x[0] == "inv"]
                if banks and not any(x[4] == "ACTIVE" for x in banks):
                    ctx.violate("all_no_active_bank_raises", case,
                                "--all: the response lists bank accounts but none ACTIVE -> ValueError (collapseToSingle([])) "
                                "instead of requesting the ACTIVE accounts of the other kinds", {"cls": "BANKACCTINFO"})
                elif invs and not any(x[3] == "ACTIVE" for x in invs):
                    ctx.violate("all_no_active_inv_raises", case,
                                "--all: the response lists investment accounts but none ACTIVE -> ValueError "
                                "(collapseToSingle([]))", {"cls": "INVACCTINFO"})
                else:
                    ctx.violate("all_raises", case, f"--all raised {impl[1]}")
            continue
        tuples = impl[1]
        if not is_all:
            # configured: exactly one request per configured id, in order (Lean spec on the effective lists)
            accts = {ty: list(args[ty]) for ty in ALLTYPES}
            o = {d: (dconv(args[d])[1] if args[d] else None) for d in ("dtstart", "dtend", "dtasof")}
            for fl in ("inctran", "incoo", "incpos", "incbal"):
                o[fl] = args[fl]
            want = expected_wire(kind, accts, o, args["bankid"] or None, args["brokerid"] or None)
            # tuple level
            flat = []
            want_t = expected_wire(kind, accts, o, args["bankid"] or None, args["brokerid"] or None, wire=False)
            for k in ("stmt", "stmtend", "ccstmt", "ccstmtend", "invstmt"):
                for w in want_t[k]:
                    if k in ("stmt", "stmtend"):
                        flat.append(w[:3] + w[4:] if k == "stmtend" else w[:3] + w[4:6] + [cv(w[6])])
                    elif k == "ccstmt":
                        flat.append(w[:4] + [cv(w[4])])
                    elif k == "ccstmtend":
                        flat.append(w)
                    else:
                        flat.append([w[0], w[1]] + w[3:6] + [cv(x) for x in w[6:]])
            got_sorted = sorted(tuples, key=lambda t: ("stmt", "stmtend", "ccstmt", "ccstmtend", "invstmt").index(t[0]))
            if got_sorted != flat:
                ctx.violate("configured_requests_wrong", case,
                            f"request tuples {tuples} differ from one-per-configured-account {flat}")
            spec_lines.append(line("spec.stmt", Atom(kind), [accts[ty] for ty in ALLTYPES],
                                   [opt(args[d] or None) for d in ("dtstart", "dtend", "dtasof")] +
                                   [pv(args[fl]) for fl in ("inctran", "incoo", "incpos", "incbal")]))
            spec_for.append((case, tuples, dconv))
            # wire level
            if r[0] == "ok" and rec.final is not None:
                pb = run_impl_all(parse_back, rec.final)
                if pb[0] != "ok":
                    ctx.violate("request_unparsable", case, f"the composed request does not parse back: {pb[1]}")
                else:
                    if pb[1] != want:
                        ctx.violate("wire_requests_wrong", case,
                                    f"composed request has {pb[1]}, the configuration asks for {want}")
        else:
            # --all: requested accounts == ACTIVE accounts of requestable types (multiset), when the command line names none
            cli_names = any(ty in c["cli"] for ty in ALLTYPES) or "bankid" in c["cli"] or "brokerid" in c["cli"]
            got = collections.Counter(rq_key(t) for t in tuples)
            act = []
            for x in infos:
                if x[0] == "bank" and x[4] == "ACTIVE" and x[3] in ("CHECKING", "SAVINGS", "MONEYMRKT", "CREDITLINE"):
                    act.append(("bank", x[2], x[3]))
                elif x[0] == "cc" and x[2] == "ACTIVE":
                    act.append(("cc", x[1]))
                elif x[0] == "inv" and x[3] == "ACTIVE" and kind == "stmt":
                    act.append(("inv", x[2]))
            spec_lines.append(line("spec.active", Atom(kind), [pinfo(i) for i in infos]))
            spec_for.append((case, act, None))
            for ty in ALLTYPES:
                if ty in c["cli"] and isinstance(c["cli"][ty], list) and not (kind == "stmtend" and ty == "investment"):
                    want_ids = list(c["cli"][ty])
                    if ty in BANKTYPES:
                        got_ids = [t[1] for t in tuples if t[0] in ("stmt", "stmtend") and t[2] == ty.upper()]
                    elif ty == "creditcard":
                        got_ids = [t[1] for t in tuples if t[0] in ("ccstmt", "ccstmtend")]
                    else:
                        got_ids = [t[1] for t in tuples if t[0] == "invstmt"]
                    if got_ids != want_ids:
                        ctx.violate("all_cli_accounts_not_used", case,
                                    f"--all with --{ty} {want_ids} on the command line requested {got_ids} for that type "
                                    f"(the command line outranks the discovered accounts)", {"type": ty})
            if not cli_names and one_bankid and one_broker and c["code"] == 0:
                want = collections.Counter(act)
                if got != want:
                    extra = got - want
                    missing = want - got
                    listed_inactive = [k for k in extra if any(
                        (x[0] == "bank" and k == ("bank", x[2], x[3]) and x[4] != "ACTIVE") or
                        (x[0] == "cc" and k == ("cc", x[1]) and x[2] != "ACTIVE") or
                        (x[0] == "inv" and k == ("inv", x[2]) and x[3] != "ACTIVE") for x in infos)]
                    configured = {ty: list(c["user"].get(ty, [])) for ty in ALLTYPES}
                    from_cfg = all((k[0] == "bank" and k[1] in configured[k[2].lower()]) or
                                   (k[0] == "cc" and k[1] in configured["creditcard"]) or
                                   (k[0] == "inv" and k[1] in configured["investment"]) for k in extra)
                    if extra and not missing and from_cfg:
                        ctx.violate("all_falls_back_to_configured", case,
                                    f"--all also requests {sorted(extra)} from the configured lists: an account type for which the "
                                    f"response lists no ACTIVE account falls through to ofxget.cfg"
                                    + (f"; {listed_inactive} are listed by the server with another status" if listed_inactive else ""),
                                    {"inactive_requested": bool(listed_inactive)})
                    else:
                        ctx.violate("all_accounts_wrong", case,
                                    f"--all requested {sorted(got.elements())}, the response lists ACTIVE {sorted(want.elements())}")
                # bank id / broker id are the discovered ones
                if r[0] == "ok" and rec.final is not None and got == want:
                    pb = run_impl_all(parse_back, rec.final)
                    if pb[0] == "ok":
                        bid = {x[1] for x in infos if x[0] == "bank" and x[4] == "ACTIVE"}
                        brk = {x[1] for x in infos if x[0] == "inv" and x[3] == "ACTIVE"}
                        wb = {w[3] for w in pb[1]["stmt"] + pb[1]["stmtend"]}
                        wk = {w[2] for w in pb[1]["invstmt"]}
                        if (wb and wb != bid) or (wk and wk != brk):
                            ctx.violate("all_wrong_bank_or_broker_id", case,
                                        f"requests carry bank ids {wb} / broker ids {wk}, the response says {bid} / {brk}")

    # ---- Lean spec twin vs the independent reference / the implementation
    for (case, want, dc), rep in zip(spec_for, ctx.model.ask(spec_lines)):
        ctx.evaluations += 1
        if dc is not None:
            # spec.stmt: must equal the tuples the implementation built
            rqs = []

            def dd(a):
                return None if a == "none" else dc(dstr(a[1]))[1]
            for x in rep.vals[0] if rep.ok else []:
                tag = x[0]
                if tag == "stmt":
                    rqs.append(["stmt", dstr(x[1]), dstr(x[2]), dd(x[3]), dd(x[4]), dv(x[5])])
                elif tag == "ccstmt":
                    rqs.append(["ccstmt", dstr(x[1]), dd(x[2]), dd(x[3]), dv(x[4])])
                elif tag == "invstmt":
                    rqs.append(["invstmt", dstr(x[1]), dd(x[2]), dd(x[3]), dd(x[4]), dv(x[5]), dv(x[6]), dv(x[7]), dv(x[8])])
                elif tag == "stmtend":
                    rqs.append(["stmtend", dstr(x[1]), dstr(x[2]), dd(x[3]), dd(x[4])])
                else:
                    rqs.append(["ccstmtend", dstr(x[1]), dd(x[2]), dd(x[3])])
            if rqs != want:
                ctx.violate("configured_requests_wrong", case, f"request tuples {want} differ from the Lean spec {rqs}")
        else:
            got = []
            for x in rep.vals[0] if rep.ok else []:
                got.append(tuple([x[0]] + [dstr(a) for a in x[1:]]))
            if sorted(got) != sorted(want):
                ctx.disagree("spec.active-vs-reference", case, sorted(want), sorted(got))

    # ---- EXT-C19: the request text (command line -> wire), see run_wire below
    run_wire(ctx, env, DEFAULTS, cases, dconv)


def replay(ctx, data):
    print("replay: re-run ./check C19 with the same seed; case:", data.get("case", {}).get("label"))


# =====================================================================================================================
# EXT-C19 (wire): from the command line to the text of the request
#
# impl  = the same `request_stmt` / `request_stmtend`, and `ofxget.main()` on generated argument vectors, with
#         `OFXClient.uuid` replaced by a counting descriptor restarted when `request_statements` is entered and
#         `dtclient` by a fixed instant (what the repo's tests do with mock.patch); the request text is what a dry
#         run prints, or what `post_request` is handed
# model = lean/OfxModel/Ofx/OfxgetWire.lean via the driver (`wire.stmt`): `stmtBytes` / `stmtendBytes` with the model of
#         `Types.DateTime` for `convert_datetime`, `init_client` → `OFXClient.__init__`, `request_statements`, `serialize`
# compared = both texts read back by ofxtools' own parser (header version / NEWFILEUID, the sign-on, every wrapper with
#         its transaction id, account, dates and flags); identical texts are counted (`stat`)
# =====================================================================================================================
RULE = RULE + ("  Wire pass (command line -> request text): a sample of those ChainMaps with nonewfileuid / unclosedelements / "
               "empty password / unsupported version / appid-appver-language variations, and argument vectors through "
               "ofxget.main() (-C/-S/-M/-L/-c/-i repeated, -s/-e/-a valid and invalid, the include switches, --version x "
               "--unclosedelements, --pretty, --nonewfileuid, bank/broker id, org/fid, clientuid, a generated ofxget.cfg "
               "section underneath); non-trivial: a request text was produced by the implementation.")
WIRE_PREFIX = "7E57-C19-"
WIRE_DTCLIENT = datetime.datetime(2020, 1, 2, 3, 4, 5, 678000, tzinfo=datetime.timezone.utc)
WIRE_TYPED = "typed-pw"


class _CountingUuid:
    """stands in for the `uuid` classproperty: the n-th access returns prefix + str(n)"""

    def __init__(self, prefix):
        self.prefix, self.i = prefix, 0

    def __get__(self, obj, objtype=None):
        v = f"{self.prefix}{self.i}"
        self.i += 1
        return v


def _enc_dt(d):
    off = d.utcoffset()
    us = (off.days * 86400 + off.seconds) * 10 ** 6 + off.microseconds
    from proto import S
    return Atom("(dt %d %d %d %d %d %d %d (some (tz %d (some %s))))" % (
        d.year, d.month, d.day, d.hour, d.minute, d.second, d.microsecond, us, S(d.tzname())))


def _client_attrs(c):
    return [c.url, c.userid, c.clientuid, c.org, c.fid, c.version, c.appid, c.appver, c.language, c.prettyprint,
            c.close_elements, c.bankid, c.brokerid]


def wire_canon(data):
    """a request text read back by ofxtools' own parser -> everything it says, as plain data"""
    from ofxtools.Parser import OFXTree
    t = OFXTree()
    t.parse(io.BytesIO(data))
    ofx = t.convert()
    h = t.header
    so = ofx.signonmsgsrqv1.sonrq
    out = {"header": [type(h).__name__, h.version, getattr(h, "newfileuid", None), getattr(h, "oldfileuid", None)],
           "signon": [cdate(so.dtclient), so.userid, so.userpass, so.language, so.appid, so.appver, so.clientuid,
                      None if so.fi is None else [so.fi.org, so.fi.fid]],
           "wrappers": parse_back(data),
           "trnuids": [[w.trnuid for w in (m or [])]
                       for m in (ofx.bankmsgsrqv1, ofx.creditcardmsgsrqv1, ofx.invstmtmsgsrqv1)],
           "msgsets": [type(m).__name__ for m in (ofx.bankmsgsrqv1, ofx.creditcardmsgsrqv1, ofx.invstmtmsgsrqv1)
                       if m is not None]}
    return out


def run_wire(ctx, env, DEFAULTS, cases, dconv):
    import getpass as _getpass
    import sys as _sys
    og = env.ofxget
    Real = env.RealClient
    rng = ctx.rng
    counter = _CountingUuid(WIRE_PREFIX)

    def patched(rec, resp):
        """install() plus: counting uuid restarted at request_statements, fixed dtclient"""
        install(env, rec, resp)
        Real.uuid = counter
        inner = Real.request_statements

        def request_statements(self, password, *requests, **kw):
            counter.i = 0
            return inner(self, password, *requests, **kw)

        Real.request_statements = request_statements

    saved_dtclient = Real.__dict__["dtclient"]
    saved_getpass = _getpass.getpass
    Real.dtclient = lambda self: WIRE_DTCLIENT
    _getpass.getpass = lambda *a, **k: WIRE_TYPED

    def acct_of(maps0, resp, fresh=None):
        """what reaches `_merge_acctinfo`: the account infos of the response, or the exception on the way there (the
        ACCTINFORQ itself may fail: OFXClient.__init__, composition, make_header - C06 matters, external to this layer)"""
        if maps0.get("all") and resp is not None:
            if fresh is not None:
                patched(Rec(), resp)
                with quiet():
                    e0 = run_impl_all(og._request_acctinfo, fresh, "pw")
                if e0[0] == "err":
                    return [Atom("err"), Atom(e0[1])]
            e = run_impl_all(lambda: [canon_info(a) for a in og.extract_acctinfos(io.BytesIO(resp))])
            return [Atom("ok"), [pinfo(i) for i in e[1]]] if e[0] == "ok" else [Atom("err"), Atom(e[1])]
        return Atom("none")

    def outcome(r, rec, printed, dry):
        """-> ['ok', text bytes] | ['err', kind]"""
        if r[0] != "ok":
            return ["err", r[1]]
        if dry:
            if not printed.endswith("\n"):
                return ["err", "nothing-printed"]
            return ["ok", printed[:-1].encode("utf-8")]
        if not rec.sent:
            return ["err", "nothing-sent"]
        return ["ok", rec.sent[-1][1]]

    jobs = []       # (case, kind, maps, acct, impl)
    parts = []      # (case, maps, init_client outcome, get_passwd outcome)
    try:
        # ---- W1: ChainMaps (a sample of the cases above, plus format / password variations)
        pool = [c for c in cases if c["label"] in ("configured", "asof-flags", "all")]
        rng.shuffle(pool)
        for c in pool[:ctx.budget(110, 2600)]:
            cli = dict(c["cli"])
            r0 = rng.random()
            if r0 < 0.15:
                cli["nonewfileuid"] = True
            if r0 > 0.85 and cli.get("version", 203) < 200:
                cli["unclosedelements"] = True
            if rng.random() < 0.08:
                cli["unclosedelements"] = True          # with version >= 200: ValueError from OFXClient.__init__
            if not cli.get("dryrun") and rng.random() < 0.3:
                cli["password"] = ""                    # the terminal is asked
            if rng.random() < 0.05:
                cli["version"] = rng.choice([999, 0, 100, 201])     # 999/0/100: no such OFX version (make_header refuses)
            for k, v in (("appid", "MONEY"), ("appver", "1900"), ("language", "FRA")):
                if rng.random() < 0.15:
                    cli[k] = v
            args = collections.ChainMap(dict(cli), dict(c["user"]), dict(DEFAULTS))
            rec = Rec()
            resp = mk_response(env, c["infos"], c["grouped"], c["code"]) if c["infos"] is not None else None
            acct = acct_of(cli, resp, collections.ChainMap(dict(cli), dict(c["user"]), dict(DEFAULTS)))
            patched(rec, resp)
            f = og.request_stmt if c["kind"] == "stmt" else og.request_stmtend
            with quiet() as out:
                r = run_impl_all(f, args)
            maps = [dict(cli), dict(c["user"]), dict(DEFAULTS)]
            case = {"kind": c["kind"], "label": "wire-" + c["label"], "cli": {k: cv(v) for k, v in cli.items()},
                    "user": {k: cv(v) for k, v in c["user"].items()}, "infos": c["infos"]}
            jobs.append((case, c["kind"], maps, acct, outcome(r, rec, out.getvalue(), bool(cli.get("dryrun")))))
            # init_client / get_passwd on their own (the mapping before discovery)
            fresh = collections.ChainMap(dict(cli), dict(c["user"]), dict(DEFAULTS))
            with quiet():
                rc = run_impl_all(lambda: _client_attrs(og.init_client(fresh)))
                rp = run_impl_all(og.get_passwd, fresh)
            parts.append((case, maps, rc, rp))

        # ---- W2: argument vectors through ofxget.main()
        captured = {}
        real_merge = og.merge_config

        def merge_config(ns, cfg):
            m = real_merge(ns, cfg)
            captured["maps"] = [dict(x) for x in m.maps]
            return m

        og.merge_config = merge_config
        saved_argv = _sys.argv
        try:
            for i in range(ctx.budget(60, 1400)):
                kind = "stmt" if rng.random() < 0.6 else "stmtend"
                argv = ["ofxget", kind, "--url", "https://bank.example/ofx", "-n"]
                # what the user typed, for the oracle (independent of argparse and merge_config)
                typed = {ty: None for ty in ALLTYPES}
                typed.update({"dtstart": None, "dtend": None, "dtasof": None, "inctran": True, "incbal": True,
                              "incpos": True, "incoo": False, "bankid": None, "brokerid": None})
                if rng.random() < 0.7:
                    argv += ["-u", rng.choice(["bob", "al ice", "u&1"])]
                flagsets = [("-C", 3, "checking"), ("-S", 2, "savings"), ("-M", 1, "moneymrkt"), ("-L", 1, "creditline"),
                            ("-c", 2, "creditcard")] + ([("-i", 2, "investment")] if kind == "stmt" else [])
                for fl, mx, ty in flagsets:
                    for _ in range(rng.randrange(0, mx + 1) if rng.random() < 0.6 else 0):
                        v = rng.choice(["1", "22", "333", "A-1", "9" * 22, "0012", "a<b", "x&y"])
                        argv += [fl, v]
                        typed[ty] = (typed[ty] or []) + [v]
                for fl, d in (("-s", "dtstart"), ("-e", "dtend")) + ((("-a", "dtasof"),) if kind == "stmt" else ()):
                    r1 = rng.random()
                    if r1 < 0.5:
                        v = rng.choice(["20200101", "20191231235959", "20200229120000.123",
                                        "20200101000000.000[-5:EST]", "19991231", "20200615120000[+5.30]"])
                        argv += [fl, v]
                        typed[d] = v
                    elif r1 < 0.56:
                        v = rng.choice(["2020", "yesterday", "20201301", "20200230"])
                        argv += [fl, v]
                        typed[d] = v
                for fl, key, val in (("--pretty", None, None), ("--nonewfileuid", None, None)) + (
                        (("--no-transactions", "inctran", False), ("--no-balances", "incbal", False),
                         ("--no-positions", "incpos", False), ("--open-orders", "incoo", True)) if kind == "stmt" else ()):
                    if rng.random() < 0.25:
                        argv.append(fl)
                        if key:
                            typed[key] = val
                if rng.random() < 0.4:
                    v = rng.choice([102, 103, 151, 160, 200, 203, 220])
                    argv += ["--version", str(v)]
                    if v < 200 and rng.random() < 0.5:
                        argv.append("--unclosedelements")
                elif rng.random() < 0.05:
                    argv.append("--unclosedelements")
                if rng.random() < 0.8:
                    typed["bankid"] = rng.choice(["111000614", "1"])
                    argv += ["--bankid", typed["bankid"]]
                if kind == "stmt" and rng.random() < 0.8:
                    typed["brokerid"] = rng.choice(["broker.example", "B"])
                    argv += ["--brokerid", typed["brokerid"]]
                if rng.random() < 0.3:
                    argv += ["--org", "ORG", "--fid", "FID"]
                if rng.random() < 0.2:
                    argv += ["--clientuid", "CUID-1"]
                if rng.random() < 0.2:
                    argv += ["--appid", "MONEY", "--appver", "1900"]
                user = {}
                if rng.random() < 0.5:
                    user = {"checking": "u1, u2", "bankid": "999", "user": "cfguser"}
                    argv.append("srv")
                    if typed["checking"] is None:
                        typed["checking"] = ["u1", "u2"]
                    if typed["bankid"] is None:
                        typed["bankid"] = "999"
                env.oh_table = {}
                env.fresh_process([], [["srv", [[k, v] for k, v in user.items()]]] if user else [], "UNUSED")
                captured.clear()
                rec = Rec()
                patched(rec, None)
                _sys.argv = argv
                with quiet() as out:
                    r = run_impl_all(og.main)
                if "maps" not in captured:
                    ctx.stat("wire:argv:not-merged")
                    # the command line above uses only documented options of `ofxget stmt` / `stmtend` with well-typed
                    # values: if the run ends before the settings are even merged, the argument parser refused it — the
                    # accounts typed on the command line can then not be requested at all
                    ctx.violate("documented_command_line_rejected",
                                {"kind": kind, "label": "wire-argv", "argv": argv[1:]},
                                f"`ofxget {' '.join(argv[1:])}` ended before merge_config ({r[0]} {r[1] if r[0] != 'ok' else ''}): "
                                f"a documented option of `ofxget {kind}` is not accepted", {"kind": kind})
                    continue
                maps = captured["maps"]
                try:
                    [pmap(m) for m in maps]
                except TypeError:
                    ctx.stat("wire:argv:foreign-value")
                    continue
                case = {"kind": kind, "label": "wire-argv", "argv": argv[1:], "user": user, "typed": typed}
                jobs.append((case, kind, maps, Atom("none"), outcome(r, rec, out.getvalue(), True)))
        finally:
            _sys.argv = saved_argv
            og.merge_config = real_merge
    finally:
        Real.dtclient = saved_dtclient
        _getpass.getpass = saved_getpass
        Real.uuid = "TRNUID"

    lines = [line("wire.stmt", Atom(kind), [pmap(m) for m in maps], acct, WIRE_TYPED, WIRE_PREFIX, _enc_dt(WIRE_DTCLIENT))
             for (_, kind, maps, acct, _) in jobs]
    for (case, kind, maps, acct, impl), rep in zip(jobs, ctx.model.ask(lines)):
        if rep.kind == "ok":
            mtext = dstr(rep.vals[0]).encode("utf-8")
            model = ["ok", mtext]
        elif rep.kind == "err":
            model = ["err", rep.err]
        else:
            model = ["bad", rep.raw]
        label = case["label"]
        ctx.stat(f"wire:{label}:{impl[0]}" + (":" + impl[1] if impl[0] == "err" else ""))
        if impl[0] == "ok" and model[0] == "ok":
            if impl[1] == model[1]:
                ctx.stat("wire:text-identical")
                ci = cm = run_impl_all(wire_canon, impl[1])
            else:
                ci, cm = run_impl_all(wire_canon, impl[1]), run_impl_all(wire_canon, model[1])
            ctx.compare("wire.stmt", case, ["ok", list(ci)], ["ok", list(cm)], nontrivial=True)
            if ci[0] != "ok":
                ctx.violate("request_unparsable", case, f"the request text does not parse back: {ci[1]}")
            elif not collections.ChainMap(*maps).get("all"):
                # oracle on the implementation's own text: one wrapper per configured account, of the right kind, with
                # the configured bank / broker id and the dates the command line denotes, in order; nothing else.
                # For an argument vector the expectation is computed from what was typed, not from the parsed mapping.
                eff = case["typed"] if "typed" in case else collections.ChainMap(*maps)
                accts = {ty: list(eff[ty] or []) for ty in ALLTYPES}
                if kind == "stmtend":
                    accts["investment"] = []
                o = {d: (dconv(eff[d])[1] if eff[d] else None) for d in ("dtstart", "dtend", "dtasof")}
                for fl in ("inctran", "incoo", "incpos", "incbal"):
                    o[fl] = eff[fl]
                want = expected_wire(kind, accts, o, eff["bankid"] or None, eff["brokerid"] or None)
                if ci[1]["wrappers"] != want:
                    ctx.violate("wire_requests_wrong", case,
                                f"the request printed has {ci[1]['wrappers']}, the command line asks for {want}")
        else:
            ctx.compare("wire.stmt", case, impl if impl[0] == "err" else ["ok"], model if model[0] != "ok" else ["ok"],
                        nontrivial=False)

    # ---- the two conversions on their own: init_client(args) -> OFXClient attributes, get_passwd(args)
    plines = []
    for (case, maps, rc, rp) in parts:
        plines.append(line("wire.cfg", [pmap(m) for m in maps]))
        plines.append(line("wire.passwd", [pmap(m) for m in maps], WIRE_TYPED))
    reps = ctx.model.ask(plines)
    for i, (case, maps, rc, rp) in enumerate(parts):
        rep_c, rep_p = reps[2 * i], reps[2 * i + 1]
        if rep_c.kind == "ok":
            v = rep_c.vals[0]
            o_ = lambda a: None if a == "none" else dstr(a[1])
            mc = ["ok", [dstr(v[1]), dstr(v[2]), o_(v[3]), o_(v[4]), o_(v[5]), int(v[6]), dstr(v[7]), dstr(v[8]), dstr(v[9]),
                         v[10] == "T", v[11] == "T", o_(v[12]), o_(v[13])]]
        else:
            mc = ["err", rep_c.err] if rep_c.kind == "err" else ["bad", rep_c.raw]
        ctx.compare("wire.cfg", case, list(rc), mc, nontrivial=(rc[0] == "ok"))
        mp = ["ok", dstr(rep_p.vals[0])] if rep_p.kind == "ok" else (["err", rep_p.err] if rep_p.kind == "err" else ["bad", rep_p.raw])
        ctx.compare("wire.passwd", case, list(rp), mp, nontrivial=False)

    # ---- convert_datetime's D on its own: DateTime().convert(text or None)
    from ofxtools.Types import DateTime as _DT
    texts = ["", "20200101", "20191231235959", "20200229120000.123", "20200101000000.000[-5:EST]", "19991231",
             "20200615120000[+5.30]", "2020", "yesterday", "20201301", "2020-01-01", "20200230", "20200101120000[0:GMT]",
             "20200101120000.5", "09990101", "20200101000000[-12]", "20200101000000[+14.59:X]", "20200101000000[-13]"]
    reps = ctx.model.ask([line("wire.date", opt(t or None)) for t in texts])
    for t, rep in zip(texts, reps):
        r = run_impl_all(_DT().convert, t or None)
        if r[0] == "ok":
            d = r[1]
            impl = ["ok", None if d is None else [d.year, d.month, d.day, d.hour, d.minute, d.second, d.microsecond,
                                                 int(d.utcoffset().total_seconds() * 10 ** 6), d.tzname()]]
        else:
            impl = list(r)
        if rep.kind == "ok":
            v = rep.vals[0]
            if v == "none":
                model = ["ok", None]
            else:
                x = v[1]
                tz = x[8]
                model = ["ok", [int(a) for a in x[1:8]] + ([None, None] if tz == "none" else
                                                         [int(tz[1][1]), None if tz[1][2] == "none" else dstr(tz[1][2][1])])]
        else:
            model = ["err", rep.err] if rep.kind == "err" else ["bad", rep.raw]
        ctx.compare("wire.date", {"text": t}, impl, model, nontrivial=(impl[0] == "ok" and impl[1] is not None))
