"""
C10 correspondence + oracle: element converters are mutually inverse, canonical, strict at limits.

impl   = ofxtools.Types.{Bool,String,NagString,OneOf,Integer,Decimal,ListElement}(params).convert / .unconvert
model  = lean/OfxModel/Ofx/Types.lean (+ Py/Dec.lean) via the driver ops conv / unconv / quantum / py.*
oracle = the equations of the property evaluated on the implementation's own outputs, with the domain, the limits
         and the denotation of texts taken from an independent pure-Python reference (types_common.ref_*), and
         the Lean spec (spec.denote / spec.decode) checked against that reference.
"""
import datetime  # noqa: F401  (replay evals reprs)
import decimal
import warnings

from framework import run_impl
from codec import canon_val, text
from proto import S, dstr
import corr.types_common as tc

D = decimal.Decimal

RULE = ("every converter type x parameterisation built by the real constructors (String/NagString/Integer length None,1..40, "
        "Integer(0); Decimal scale None,0..8,12; required on/off; the real enumerations of the schema and random token sets; "
        "ListElement wrappers) x texts (entity-rich strings at len = limit and limit+1 before/after decoding; integer literals "
        "at 10^n-1 / 10^n with signs, leading zeros, white space, underscores, foreign digits; decimal literals with both "
        "separators, 26..30 digits, ties, exponents, specials) x Python values of every type (bool/int/float/str/Decimal/"
        "datetime/time/date/list/tuple/bytes/None) incl. Decimals with exponents -40..+40, signed zeros, normalised values, "
        "NaN/sNaN/Infinity. Model and implementation are compared at ok(value)-vs-error granularity on the model's domain "
        "(ASCII digits, no float/tuple/bytes inputs to default handlers). A case is non-trivial when the implementation "
        "returned a value other than None; distinct by (converter, op, input).")


# ------------------------------------------------------------------ implementation access
def call(f, v):
    """run the real converter, recording warnings -> (result, warned)"""
    with warnings.catch_warnings(record=True) as w:
        warnings.simplefilter("always")
        r = run_impl(f, v)
    return r, any(issubclass(x.category, UserWarning) for x in w)


def describe(conv, meta):
    return {"ctor": meta["ctor"], "required": bool(conv.required)}


def build(ctor, required):
    """rebuild a converter from its description (replay)"""
    from ofxtools import Types as T
    name, args = ctor[0], ctor[1]
    if name == "ListElement":
        inner = build(args[0]["ctor"], args[0]["required"])
        return T.ListElement(inner, required=required)
    return getattr(T, name)(*args, required=required)


def converters(ctx):
    """[(conv, meta)] with meta = {'ctor': [name, args], 'scale': declared scale}"""
    from ofxtools import Types as T
    rng = ctx.rng
    out = []

    def add(name, *args, required=False):
        c = getattr(T, name)(*args, required=required)
        out.append((c, {"ctor": [name, list(args)], "scale": args[0] if name == "Decimal" and args else None}))
        return c

    for req in (False, True):
        add("Bool", required=req)
        for ln in [None] + list(range(1, 41)):
            add("String", ln, required=req)
            add("NagString", ln, required=req)
            add("Integer", ln, required=req)
        add("Integer", 0, required=req)
        for sc in [None] + list(range(0, 9)) + [12]:
            add("Decimal", sc, required=req)
    enums = (ctx.schema or {}).get("enums") or []
    for e in enums:
        add("OneOf", *e, required=rng.random() < 0.5)
    toks = ["A", "B", "CALL", "PUT", "Y", "N", "0", "1", "a", "call", "", " ", "A B", "&amp;", "&", "X" * 40, "é", "None", "True"]
    for _ in range(ctx.budget(12, 60)):
        add("OneOf", *rng.sample(toks, rng.randint(0, 5)), required=rng.random() < 0.5)
    inner = [("String", [32], False), ("String", [3], True), ("NagString", [5], False), ("Integer", [2], False),
             ("Integer", [], True), ("Decimal", [2], False), ("Decimal", [], False), ("Decimal", [0], False), ("Bool", [], False),
             ("Bool", [], True), ("OneOf", ["A", "B"], False), ("OneOf", ["A", "B"], True)]
    if enums:
        inner.append(("OneOf", list(enums[0]), False))
    for name, args, ireq in inner:
        ic = getattr(T, name)(*args, required=ireq)
        req = rng.random() < 0.5
        c = T.ListElement(ic, required=req)
        out.append((c, {"ctor": ["ListElement", [{"ctor": [name, args], "required": ireq}]],
                        "scale": args[0] if name == "Decimal" and args else None}))
    return out


# ------------------------------------------------------------------ oracle helpers (independent of the code)
def declared_kind(conv, meta, kind):
    """the kind the *declaration* asks for (Decimal: quantum 10^-scale, not what __init__ stored)"""
    from ofxtools import Types as T
    b = tc.base_converter(conv)
    if isinstance(b, T.Decimal) and meta["scale"] is not None:
        return ["decimal", ["some", str(-meta["scale"])]]
    return tc.base_kind(kind)


def in_domain(conv, meta, v):
    """True: a value of the type within its limits; False: wrong type / beyond limits; None: not judged"""
    from ofxtools import Types as T
    b = tc.base_converter(conv)
    if isinstance(b, T.Bool):
        return type(v) is bool
    if isinstance(b, T.String):
        if type(v) is not str:
            return False
        if v == "":
            return None
        if b.length is not None and b.strict and len(v) > b.length:
            return False
        return True
    if isinstance(b, T.OneOf):
        if v == "" and type(v) is str:
            return None
        return type(v) is str and v in list(b.valid)
    if isinstance(b, T.Integer):
        if type(v) is not int:
            return False
        return b.length is None or abs(v) < 10 ** b.length
    if isinstance(b, T.Decimal):
        if type(v) is not D:
            return False
        if not v.is_finite():
            return False            # NaN / Infinity are not amounts: must be refused on write
        if meta["scale"] is None:
            return True
        t = v.as_tuple()
        if t.exponent == -meta["scale"] and len(t.digits) > 28 and any(t.digits):
            return None      # more digits than the default context's precision: an environment limit, not judged
        return t.exponent == -meta["scale"]
    return None


def renormalised(v, back):
    """plain notation cannot carry a positive exponent: Decimal('1E+2') is written '100' and reads back as
    Decimal('100') - numerically equal, different (coefficient, exponent)"""
    return (isinstance(v, D) and isinstance(back, D) and v.is_finite() and back.is_finite()
            and v.as_tuple().exponent > 0 and back.as_tuple().exponent == 0 and back == v
            and back.is_signed() == v.is_signed())


def has_entity(s):
    return tc.ref_decode(s) != s


def classify_accepted_text(conv, meta, dk, s, enums):
    """tag for: convert(s) succeeded although s has no denotation for the declared type"""
    kn = tc.kname(dk)
    if kn == "integer":
        core = s.strip()
        lenient = tc.ref_int(core.replace("_", "")) if not tc.has_foreign_digit(core) else None
        if tc.ref_int(s) is not None:       # a proper literal: only the limit can have failed
            return ("integer_negative_beyond_limit" if s.lstrip().startswith("-") else "integer_limit_not_enforced"), {}
        if tc.has_foreign_digit(s):
            return "integer_text_lenient", {"form": "foreign-digits"}
        if "_" in s:
            return "integer_text_lenient", {"form": "underscore"}
        if core != s and lenient is not None:
            return "integer_text_lenient", {"form": "whitespace"}
        return "integer_text_accepted", {}
    if kn == "decimal":
        low = s.lower()
        if "nan" in low.replace("_", "") or "inf" in low.replace("_", ""):
            return "decimal_text_nonfinite", {}
        if "e" in low:
            return "decimal_text_exponent", {}
        if tc.has_foreign_digit(s):
            return "decimal_text_lenient", {"form": "foreign-digits"}
        if "_" in s:
            return "decimal_text_lenient", {"form": "underscore"}
        if s.strip() != s:
            return "decimal_text_lenient", {"form": "whitespace"}
        if tc.ref_dec_literal(s) is not None:
            return "decimal_precision_not_enforced", {}
        return "decimal_text_accepted", {}
    if kn == "string":
        return "string_limit_not_enforced", {}
    if kn in ("oneof", "enum"):
        return "oneof_nonmember_accepted", {}
    if kn == "bool":
        return "bool_text_accepted", {}
    return "text_accepted", {}


# ------------------------------------------------------------------ case generation
def texts_for(rng, conv, n):
    from ofxtools import Types as T
    b = tc.base_converter(conv)
    out = [""]
    if isinstance(b, T.Bool):
        out += ["Y", "N", "y", "n", "YES", "T", "1", "0", " Y", "Y ", "True", "N\n", "&amp;"]
        out += [tc.gen_string(rng, 4) for _ in range(max(n // 6, 2))]
    elif isinstance(b, T.String):
        L = b.length
        for _ in range(n):
            r = rng.random()
            if L is not None and r < 0.25:
                out.append(tc.gen_string_len(rng, rng.choice((L, L, L + 1, max(L - 1, 1)))))
            elif L is not None and r < 0.5:
                # decoded length at the limit: L (or L+1) decoded characters, some spelled as entities
                k = rng.choice((L, L, L + 1))
                out.append("".join(rng.choice(("&amp;", "&lt;", "&gt;", "&nbsp;", "&apos;", "&quot;", "a", "b", "&", ";", "&amp;lt;"[0:5] + "lt;"))
                                   if rng.random() < 0.5 else rng.choice("abz0 <") for _ in range(k)))
            else:
                out.append(tc.gen_string(rng))
    elif isinstance(b, T.OneOf):
        valid = list(b.valid)
        for _ in range(n):
            r = rng.random()
            if valid and r < 0.5:
                out.append(rng.choice(valid))
            elif valid and r < 0.8:
                t = rng.choice(valid)
                out.append(rng.choice((t.lower(), t + " ", " " + t, t[:-1], t + t, t.swapcase(), t[::-1], t + "\n", t.replace("A", "&amp;"))))
            else:
                out.append(tc.gen_string(rng, 8))
    elif isinstance(b, T.Integer):
        out += [tc.gen_int_text(rng, b.length) for _ in range(n)]
    elif isinstance(b, T.Decimal):
        out += [tc.gen_dec_text(rng) for _ in range(n)]
    return out


def values_for(rng, conv, n):
    from ofxtools import Types as T
    b = tc.base_converter(conv)
    out = []
    if isinstance(b, T.Bool):
        out += [True, False]
    elif isinstance(b, T.String):
        out += [t for t in texts_for(rng, conv, n)]
    elif isinstance(b, T.OneOf):
        out += [t for t in texts_for(rng, conv, n)]
    elif isinstance(b, T.Integer):
        out += [tc.gen_int_value(rng, b.length) for _ in range(n)] + [True, False]
    elif isinstance(b, T.Decimal):
        out += [tc.gen_decimal_value(rng) for _ in range(n)]
        if b.scale is not None:
            qe = int(b.scale.as_tuple().exponent)
            for _ in range(max(n // 2, 2)):
                d = tc.gen_decimal_value(rng)
                if d.is_finite():
                    t = d.as_tuple()
                    out.append(D((t.sign, t.digits, rng.choice((qe, qe, qe, qe - 1, qe + 1, 0)))))
    return out


# ------------------------------------------------------------------ main
def run(ctx):
    rng = ctx.rng
    enums = (ctx.schema or {}).get("enums") or []
    convs = converters(ctx)
    n_txt = ctx.budget(90, 500)
    n_val = ctx.budget(60, 340)
    wrong = tc.wrong_type_values(rng)

    cases = []   # (conv, meta, kind, req, op, value)
    for conv, meta in convs:
        kind, req = tc.kind_of(conv, enums)
        ireq = bool(tc.base_converter(conv).required)
        for s in texts_for(rng, conv, n_txt):
            cases.append((conv, meta, kind, req, ireq, "convert", s))
        for v in values_for(rng, conv, n_val):
            cases.append((conv, meta, kind, req, ireq, "unconvert", v))
            if not isinstance(v, str):
                cases.append((conv, meta, kind, req, ireq, "convert", v))
        ws = wrong if rng.random() < 0.34 else rng.sample(wrong, 9) + [None]
        for v in ws:
            cases.append((conv, meta, kind, req, ireq, "convert", v))
            cases.append((conv, meta, kind, req, ireq, "unconvert", v))

    # ---- model, in one batch
    lines = []
    for conv, meta, kind, req, ireq, op, v in cases:
        lines.append(tc.conv_line("conv" if op == "convert" else "unconv", kind, req, canon_val(v)
                                  if not (isinstance(v, str) and tc.has_surrogate(v)) else "none"))
    replies = ctx.model.ask(lines)

    kinddiff = 0
    for (conv, meta, kind, req, ireq, op, v), rep in zip(cases, replies):
        f = conv.convert if op == "convert" else conv.unconvert
        r, warned = call(f, v)
        impl = tc.canon_result(r)
        model = tc.model_result(rep)
        case = {"conv": describe(conv, meta), "op": op, "value": repr(v)}
        kn = tc.kname(kind)
        ctx.stat(f"type:{kn}")
        ctx.stat(f"{op}:{impl[0]}" + (":" + impl[1] if impl[0] == "err" else ""))
        # ---------------- correspondence, on the model's domain
        cv = canon_val(v)
        in_model = tc.value_in_model_domain(kind, v)
        if isinstance(cv, list) and cv[0] == "o":
            in_model = impl[0] == "err"          # default handlers accept float/tuple/bytes: not modelled
        if in_model:
            a = impl if impl[0] == "ok" else ["err"]
            m = model if model[0] != "err" else ["err"]
            ctx.compare(op, case, a, m, nontrivial=(impl[0] == "ok" and impl[1] != "none"))
            if impl[0] == "err" and model[0] == "err" and impl[1] != model[1] and not (isinstance(cv, list) and cv[0] == "o"):
                kinddiff += 1
                ctx.stat(f"errkind-differs:{kn}:{impl[1]}/{model[1]}")
        else:
            ctx.stat("outside-model-domain")
        ctx.sample({"case": case, "impl": impl, "model": model})
        # ---------------- oracle on the implementation's own behaviour
        if v is None:
            want = ["err"] if ireq else ["ok", "none"]
            got = impl if impl[0] == "ok" else ["err"]
            if got != want:
                ctx.violate("none_rule", case, f"{op}(None) with required={ireq} -> {impl}")
            continue
        if op == "convert" and isinstance(v, str) and not tc.has_surrogate(v):
            oracle_read(ctx, conv, meta, kind, ireq, v, r, warned, case, enums)
        elif op == "unconvert":
            oracle_write(ctx, conv, meta, kind, v, r, warned, case)
    if kinddiff:
        ctx.notes.append(f"{kinddiff} cases where model and implementation both reject but with a different exception class (not part of the verdict)")
    run_primitives(ctx, enums)
    run_quantum(ctx)
    run_fixed_witnesses(ctx)
    # date-time and time are element types too (property C10 names them): their converters are exercised by
    # the date-time module; violations are recorded under C10 with that module's tags
    from corr import C09 as _dt
    _dt.run(ctx)


def oracle_read(ctx, conv, meta, kind, ireq, s, r, warned, case, enums):
    from ofxtools import Types as T
    b = tc.base_converter(conv)
    dk = declared_kind(conv, meta, kind)
    den = tc.ref_denote(dk, s, enums)
    scale0 = isinstance(b, T.Decimal) and meta["scale"] == 0
    if r[0] == "err":
        if den not in (None, "none"):
            ctx.violate("decimal_scale0_quantum" if scale0 else f"rejects_valid_text_{tc.kname(dk)}", case,
                        f"convert({s!r}) raised {r[1]} although the text denotes {text(den[1])}")
        return
    v = r[1]
    if v is None:
        if not (s == "" and not ireq):
            # OneOf reads "" as None; nothing else may turn a text into None
            ctx.violate("text_read_as_none", case, f"convert({s!r}) -> None (required={ireq})")
        return
    if den == "none":
        tag, det = classify_accepted_text(conv, meta, dk, s, enums)
        ctx.violate(tag, case, f"convert({s!r}) -> {v!r} although the text is not a value of the declared type / within its limits", det)
    elif den is not None and canon_val(v) != den[1]:
        ctx.violate("decimal_scale0_quantum" if scale0 else f"read_wrong_value_{tc.kname(dk)}", case,
                    f"convert({s!r}) -> {v!r}, the type rules give {text(den[1])}")
    if isinstance(b, T.NagString) and b.length is not None:
        if (len(v) > b.length) != warned:
            ctx.violate("nagstring_warning", case, f"convert({s!r}) -> {v!r}: warned={warned}, limit={b.length}")
    # canonical text: write, read again, write again
    s1r, _ = call(conv.unconvert, v)
    if s1r[0] != "ok" or not isinstance(s1r[1], str):
        tag = "canon_unwritable"
        if isinstance(v, D) and v.is_nan() and b.scale is not None:
            tag = "decimal_nan_scaled_unwritable"
        ctx.violate(tag, case, f"convert({s!r}) -> {v!r} but unconvert of that value gives {s1r}")
        return
    s1 = s1r[1]
    v1r, _ = call(conv.convert, s1)
    if v1r[0] != "ok" or not tc.same_value(v1r[1], v):
        tag = "canon_value_changes"
        if isinstance(v, str) and has_entity(v):
            tag = "string_not_escaped"
        if v1r[0] == "ok" and renormalised(v, v1r[1]):
            tag = "decimal_positive_exponent_renormalised"
        ctx.violate(tag, case, f"convert({s!r}) -> {v!r}; written as {s1!r}; read back as {v1r}")
        return
    s2r, _ = call(conv.unconvert, v1r[1])
    if s2r != ("ok", s1):
        ctx.violate("canon_not_fixed_point", case, f"canonical text {s1!r} is rewritten as {s2r}")


def oracle_write(ctx, conv, meta, kind, v, r, warned, case):
    from ofxtools import Types as T
    b = tc.base_converter(conv)
    dom = in_domain(conv, meta, v)
    if dom is None:
        return
    scale0 = isinstance(b, T.Decimal) and meta["scale"] == 0
    if dom:
        if r[0] != "ok" or not isinstance(r[1], str):
            ctx.violate("decimal_scale0_quantum" if scale0 else f"refuses_domain_value_{type(b).__name__}", case,
                        f"unconvert({v!r}) -> {r} although the value is in the declared domain")
            return
        if isinstance(b, T.NagString) and b.length is not None and (len(v) > b.length) != warned:
            ctx.violate("nagstring_warning", case, f"unconvert({v!r}): warned={warned}, limit={b.length}")
        if isinstance(b, T.NagString) and r[1] != v:
            ctx.violate("nagstring_not_whole", case, f"unconvert({v!r}) -> {r[1]!r}")
        back, _ = call(conv.convert, r[1])
        if back[0] != "ok" or not tc.same_value(back[1], v):
            tag = f"not_inverse_{type(b).__name__}"
            if isinstance(v, str) and has_entity(v):
                tag = "string_not_escaped"
            if back[0] == "ok" and renormalised(v, back[1]):
                tag = "decimal_positive_exponent_renormalised"
            ctx.violate(tag, case, f"unconvert({v!r}) -> {r[1]!r} which reads back as {back}")
    else:
        if r[0] == "ok":
            if isinstance(b, T.Integer) and type(v) is bool:
                tag = "integer_bool_written"
            elif isinstance(b, T.Integer) and type(v) is int and v < 0:
                tag = "integer_negative_beyond_limit"
            elif scale0:
                tag = "decimal_scale0_quantum"
            else:
                tag = f"writes_out_of_domain_{type(b).__name__}"
            ctx.violate(tag, case, f"unconvert({v!r}) -> {r[1]!r} although the value is of the wrong type or beyond the declared limits")


# ------------------------------------------------------------------ the Python primitives the model re-implements

def run_primitives(ctx, enums):
    from xml.sax import saxutils
    from xml.etree.ElementTree import _escape_cdata
    rng = ctx.rng
    n = ctx.budget(12000, 100000)
    lines, expect, label = [], [], []

    def add(ln, exp, what):
        lines.append(ln); expect.append(exp); label.append(what)

    def can_dec(d):
        return canon_val(d)

    for _ in range(n):
        s = tc.gen_int_text(rng)
        if tc.text_in_model_domain("integer", s):
            r = run_impl(int, s)
            add("py.int " + S(s), "none" if r[0] == "err" else ["some", str(r[1])], ("int", s))
        s = tc.gen_dec_text(rng)
        if tc.text_in_model_domain("decimal", s):
            r = run_impl(D, s)
            add("py.dec " + S(s), "none" if r[0] == "err" else ["some", can_dec(r[1])], ("Decimal", s))
        d = tc.gen_decimal_value(rng)
        add("py.decstr " + text(can_dec(d)), S(str(d)), ("str", repr(d)))
        add("py.decfmt " + text(can_dec(d)), S(format(d, "f")), ("format_f", repr(d)))
        qe = rng.choice((-1, -2, -2, -3, -4, -5, -8, 0, -12))
        r = run_impl(d.quantize, D((0, (1,), qe)))
        add(f"py.quantize {text(can_dec(d))} {qe}", ["ok", can_dec(r[1])] if r[0] == "ok" else ["err"], ("quantize", repr(d), qe))
        add(f"py.samequantum {text(can_dec(d))} {qe}", "T" if d.same_quantum(D((0, (1,), qe))) else "F", ("same_quantum", repr(d), qe))
        r = run_impl(int, d)
        add(f"py.decint {text(can_dec(d))}", ["ok", str(r[1])] if r[0] == "ok" else ["err"], ("int(Decimal)", repr(d)))
        i = tc.gen_int_value(rng)
        add(f"py.strint {i}", S(str(i)), ("str(int)", i))
        s = tc.gen_string(rng)
        add("py.unescape " + S(s), S(saxutils.unescape(s, {"&nbsp;": " ", "&apos;": "'", "&quot;": '"'})), ("unescape", s))
        add("py.escape " + S(s), S(_escape_cdata(s)), ("_escape_cdata", s))
        add("spec.decode " + S(s), S(tc.ref_decode(s)), ("spec.decode", s))
    for (ln, exp, what), rep in zip(zip(lines, expect, label), ctx.model.ask(lines)):
        if rep.kind == "ok":
            got = rep.vals[0]
            if isinstance(exp, list) and exp[0] in ("ok", "err"):
                got = ["ok", got]
        elif rep.kind == "err":
            got = ["err"]
        else:
            got = rep.raw
        ctx.stat(f"prim:{what[0]}")
        ctx.compare("prim:" + what[0], {"op": what[0], "args": [str(x) for x in what[1:]]}, exp, got, nontrivial=(exp != "none"))


def run_quantum(ctx):
    """Decimal.__init__: the quantum stored for scale = n"""
    from ofxtools import Types as T
    lines = [f"quantum {n}" for n in range(0, 41)]
    for n, rep in zip(range(0, 41), ctx.model.ask(lines)):
        q = T.Decimal(n).scale
        ctx.compare("quantum", {"op": "quantum", "scale": n}, ["some", canon_val(q)], rep.vals[0] if rep.ok else rep.raw)
        want = D((0, (1,), -n))
        if canon_val(q) != canon_val(want):
            ctx.violate("decimal_scale0_quantum" if n == 0 else "decimal_quantum_wrong", {"op": "quantum", "scale": n},
                        f"Decimal(scale={n}) stores the quantum {q!r}, expected {want!r}")
    ctx.exhaustive.append("Decimal(scale=n).scale for n = 0..40")


def run_fixed_witnesses(ctx):
    """witnesses of findings recorded as fixed: must pass on every run"""
    from ofxtools import Types as T

    def case(name, args, op, v):
        return {"conv": {"ctor": [name, args], "required": False}, "op": op, "value": repr(v)}

    for n in (1, 3, 9):
        for v in (-10 ** n, -10 ** 9 * 10 ** n):
            if run_impl(T.Integer(n).unconvert, v)[0] == "ok" or run_impl(T.Integer(n).convert, str(v))[0] == "ok":
                ctx.violate("integer_negative_beyond_limit", case("Integer", [n], "unconvert", v),
                            f"Integer({n}) accepts {v} (length limit ignores negative values)")
        ok = -(10 ** n - 1)
        if run_impl(T.Integer(n).unconvert, ok) != ("ok", str(ok)) or run_impl(T.Integer(n).convert, str(ok)) != ("ok", ok):
            ctx.violate("refuses_domain_value_Integer", case("Integer", [n], "unconvert", ok), f"Integer({n}) refuses {ok}")
        ctx.evaluations += 3
    for b in (True, False):
        if run_impl(T.Integer().unconvert, b)[0] == "ok":
            ctx.violate("integer_bool_written", case("Integer", [], "unconvert", b), f"Integer().unconvert({b}) is written")
        ctx.evaluations += 1
    r = run_impl(T.Decimal(0).convert, "5")
    if r[0] != "ok" or canon_val(r[1]) != canon_val(D("5")) or run_impl(T.Decimal(0).unconvert, D("5")) != ("ok", "5"):
        ctx.violate("decimal_scale0_quantum", case("Decimal", [0], "convert", "5"), f"Decimal(0).convert('5') -> {r}")
    for s in ("NaN", "sNaN7", "Infinity", "-inf"):
        for sc in (None, 2):
            if run_impl(T.Decimal(sc).convert, s)[0] == "ok":
                tag = "decimal_text_nonfinite" if sc is None else "decimal_nan_scaled_unwritable"
                ctx.violate(tag, case("Decimal", [sc], "convert", s), f"Decimal({sc}).convert({s!r}) is accepted")
        ctx.evaluations += 2
    ctx.evaluations += 1


def replay(ctx, data):
    case = data.get("case") or data.get("first_disagreement", {}).get("case")
    if "conv" not in case:
        print("replay", case)
        return
    conv = build(case["conv"]["ctor"], case["conv"]["required"])
    v = eval(case["value"], {"Decimal": D, "datetime": datetime, "nan": float("nan"), "inf": float("inf")})
    f = conv.convert if case["op"] == "convert" else conv.unconvert
    print("replay", case, "->", run_impl(f, v))
