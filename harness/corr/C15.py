"""
C15 correspondence + oracle: the cached FI profile is whole, the newest, and from the right server.

impl  = ofxtools.Client.OFXClient.request_profile, really executed against the in-process fake HTTP layer
        (harness/fakehttp.py) and a scratch DATADIR under .work/
model = lean/OfxModel/Ofx/Cache.lean via the driver (`cache.run`, `cache.sched`, `cache.key`)
oracle= the abstract cache of lean/OfxModel/Spec/CacheSpec.lean (`spec.cache`): per call the profile that must be
        returned, the DTPROFUP that must be sent, and the profile the cache must hold afterwards

Observed per call: ok(profile id)/error kind, the DTPROFUP of every PROFRQ the fake server saw, the cache file after.
"""
import io
import itertools
import os
import tempfile
import threading

import fakehttp as F
from framework import canon_exc
from proto import line, Atom, opt, dstr

RULE = ("sequential histories over the server behaviours {newer, same date/other body, older, up-to-date, error status, "
        "garbage, transport error}: every history of length <= 3 from an absent cache and from a cached profile plus a "
        "random sample of length 4 (thorough: all of length <= 6 / <= 5), executed as prefix trees (each prefix once, the "
        "cache file restored between siblings; the method keeps no other state); random histories (length <= 6) that add "
        "status-0-without-PROFRS and HTTP 500, start from absent / complete / empty / truncated / mixed cache files, "
        "re-create the client at random and use random ORG/FID; six crash points (a forked child that really dies with "
        "os._exit) and interleavings of two writers' mkstemp/write/close/replace (a sample of the 70 in quick, all in "
        "thorough, both size orders) replayed on the real method through proxies for the names `os` and `tempfile` in "
        "ofxtools.Client; a case is non-trivial when at least one call reached the server")

U = "https://h0.example/p0"
V = "https://h1.example/p0"
SYMS = "NSOUEGT"          # newer, same date (other body), older, up to date, error status, garbage, transport error


class Crash(BaseException):
    """a process dying: not an Exception, so nothing in ofxtools can catch it"""


# ----------------------------------------------------------------------------------------------
# concrete behaviours
# ----------------------------------------------------------------------------------------------
_BYTES = {}
_REV = {}


def pbytes(p):
    """(date, body, pad) -> response bytes (cached); also remembered in the reverse map"""
    b = _BYTES.get(p)
    if b is None:
        b = F.profrs_bytes(p[0], p[1], [("bank", U)], pad=20 * p[2])
        _BYTES[p] = b
        _REV[b] = p
    return b


_FIXED = {}


def fixed(kind):
    if kind not in _FIXED:
        _FIXED[kind] = {"U": lambda: F.status_bytes(1), "E": lambda: F.status_bytes(2000),
                        "X": lambda: F.status_bytes(0)}[kind]()
    return _FIXED[kind]


def answer(beh):
    k = beh[0]
    if k == "p":
        return F.Answer(pbytes(tuple(beh[1:])))
    if k in "UEX":
        return F.Answer(fixed(k))
    if k == "G":
        return F.Answer(F.GARBAGE)
    if k == "T":
        return F.Answer(transport_error=True)
    if k == "H":
        return F.Answer(F.GARBAGE, status=500)
    raise KeyError(k)


def enc_beh(beh):
    k = beh[0]
    if k == "p":
        return [Atom("p"), beh[1], beh[2], beh[3]]
    return Atom({"U": "u", "E": "e", "X": "n", "G": "g", "T": "t", "H": "t"}[k])


def concretise(sym, top, nbody):
    """symbol -> concrete behaviour, given the newest date in play so far (or None)"""
    if sym == "N":
        d = 5 if top is None else top + 1
        return ("p", d, nbody, nbody % 3), d
    if sym == "S":
        d = 5 if top is None else top
        return ("p", d, nbody, nbody % 3), d
    if sym == "O":
        d = 4 if top is None else top - 1
        return ("p", d, nbody, nbody % 3), (d if top is None else top)
    return (sym,), top


# ----------------------------------------------------------------------------------------------
# disk encodings
# ----------------------------------------------------------------------------------------------
def cells(p, lo=0, hi=None):
    hi = p[2] + 1 if hi is None else hi
    return [[p[0], p[1], p[2], i] for i in range(lo, hi)]


def enc_disk(d):
    """('absent',) | ('complete', p) | ('empty',) | ('prefix', p, k) | ('mixed', p_short, p_long)"""
    if d[0] == "absent":
        return Atom("absent")
    if d[0] == "complete":
        return [Atom("cells")] + cells(d[1])
    if d[0] == "empty":
        return [Atom("cells")]
    if d[0] == "prefix":
        return [Atom("cells")] + cells(d[1], 0, d[2])
    if d[0] == "mixed":
        a, b = d[1], d[2]
        return [Atom("cells")] + cells(a) + cells(b, a[2] + 1)
    raise KeyError(d)


def disk_bytes(d):
    if d[0] == "absent":
        return None
    if d[0] == "complete":
        return pbytes(d[1])
    if d[0] == "empty":
        return b""
    if d[0] == "prefix":
        b = pbytes(d[1])
        return b[: max(1, len(b) * d[2] // (d[1][2] + 1) - 7)]
    if d[0] == "mixed":
        a, b = pbytes(d[1]), pbytes(d[2])
        assert len(a) < len(b)
        return a + b[len(a):]
    raise KeyError(d)


def view_bytes(data):
    """file bytes -> the model's view: ['absent'] | ['complete', d, b, pad] | ['empty'] | ['torn']"""
    if data is None:
        return ["absent"]
    if data == b"":
        return ["empty"]
    p = _REV.get(data)
    if p is not None:
        return ["complete"] + list(p)
    v = F.read_profile(data)
    if v[0] == "complete":          # a complete profile this run did not generate: report what it is
        return ["complete", v[1], v[2], "?"]
    return ["torn"]


def dec_view(v):
    if isinstance(v, str):
        return [v]
    return [v[0]] + [int(x) for x in v[1:]]


def dec_ret(r):
    if r[0] == "ok":
        return ["ok"] + ([int(x) for x in r[2:]] if r[1] == "prof" else ["dry"])
    return ["err", r[1]]


def dec_sent(s):
    if s == "none":
        return None
    inner = s[1]
    return ["default"] if inner == "none" else [int(inner[1])]


# ----------------------------------------------------------------------------------------------
# running the real method
# ----------------------------------------------------------------------------------------------
class Bench:
    """One scratch DATADIR + fake network + helpers.  Not shared between processes."""

    def __init__(self, name):
        self.dir, self.datadir = F.scratch(name)
        F.patch_client()
        self.cur = None
        self.net = F.FakeNet(lambda seen: self._script(seen))
        self.hook = None

    def _script(self, seen):
        if self.hook is not None:
            self.hook(seen)
        return self.cur

    def __enter__(self):
        self.net.__enter__()
        return self

    def __exit__(self, *a):
        return self.net.__exit__(*a)

    def path(self, org="ORG", fid="FID"):
        return F.profile_dir() / f"{org}-{fid}.profrs"

    def client(self, url=U, org="ORG", fid="FID"):
        from ofxtools.Client import OFXClient
        return OFXClient(url, userid="me", org=org, fid=fid)

    def set_disk(self, data, org="ORG", fid="FID"):
        p = self.path(org, fid)
        if data is None:
            if p.exists():
                p.unlink()
        else:
            p.parent.mkdir(parents=True, exist_ok=True)
            p.write_bytes(data)

    def get_disk(self, org="ORG", fid="FID"):
        p = self.path(org, fid)
        return p.read_bytes() if p.exists() else None

    def call(self, client, beh, org="ORG", fid="FID", **kw):
        """-> [result, sent, view]"""
        self.cur = answer(beh)
        n0 = len(self.net.log)
        try:
            r = client.request_profile(**kw)
            data = r.read()
            p = _REV.get(data)
            res = ["ok"] + (list(p) if p is not None else ["?", len(data)])
        except Exception as e:  # noqa
            res = ["err", canon_exc(e)]
        sent = None
        for s in self.net.log[n0:]:
            dt = s.field("DTPROFUP")
            sent = ["default"] if dt and dt.startswith("19900101000000") else [parse_dt(dt)]
        return [res, sent, view_bytes(self.get_disk(org, fid))]


def parse_dt(text):
    from ofxtools.Types import DateTime
    try:
        return F.nat_of_date(DateTime().convert(text))
    except Exception:
        return ("unparsed", text)


def tree_worker(arg):
    """Run the prefix tree below `first` (a symbol) to `depth`, from initial disk `init`.
    -> list of (concrete history, observations per step) for every leaf and every inner node that ends a path."""
    name, init, first, depth = arg
    out = []
    with Bench(name) as bench:
        clients = [bench.client(), bench.client()]
        init_top = init[1][0] if init[0] == "complete" else None
        bench.set_disk(disk_bytes(init))

        def rec(prefix_behs, prefix_obs, top, nbody, syms):
            saved = bench.get_disk()
            for sym in syms:
                beh, top2 = concretise(sym, top, nbody)
                # a "restarted" client on every other level: request_profile keeps nothing in memory
                obs = bench.call(clients[len(prefix_behs) % 2], beh)
                behs, obss = prefix_behs + [beh], prefix_obs + [obs]
                if len(behs) == depth:
                    out.append((behs, obss))
                else:
                    rec(behs, obss, top2, nbody + 1, SYMS)
                bench.set_disk(saved)

        rec([], [], init_top, 1 if init[0] != "complete" else init[1][1] + 1, first)
    return out


def model_seq(ctx, jobs):
    """jobs: list of (init, behs) -> list of per-step [res, sent, view] from the model"""
    reps = ctx.model.ask([line("cache.run", enc_disk(init), [enc_beh(b) for b in behs]) for init, behs in jobs])
    outs = []
    for rep in reps:
        if not rep.ok:
            outs.append(["bad", rep.raw])
            continue
        outs.append([[dec_ret(st[0]), dec_sent(st[1]), dec_view(st[2])] for st in rep.vals])
    return outs


def canon_obs(obs, init, behs):
    """granularity: ok(profile)/error kind, sent, view.  When the cache file did not parse at the start of a call the
    error class is whatever the parser happens to raise on that byte string: only 'err' is compared."""
    out = []
    torn = init[0] in ("empty", "prefix", "mixed")
    for (res, sent, view), beh in zip(obs, behs):
        res = list(res)
        if res[0] == "err" and torn:
            res = ["err", "*"]
        if beh[0] == "H" and res[0] == "err":
            res = ["err", "other"]
        out.append([res, sent, view])
        torn = view[0] in ("empty", "torn")
    return out


def spec_oracle(ctx, jobs, observed):
    """abstract-cache oracle on what the implementation did (only from disks that have an abstraction)"""
    idx = [i for i, (init, _) in enumerate(jobs) if init[0] in ("absent", "complete")]
    reps = ctx.model.ask([line("spec.cache", opt(list(jobs[i][0][1]) if jobs[i][0][0] == "complete" else None),
                               [enc_beh(b) for b in jobs[i][1]]) for i in idx])
    for i, rep in zip(idx, reps):
        init, behs = jobs[i]
        for k, (st, obs) in enumerate(zip(rep.vals, observed[i])):
            want_state = None if st[0] == "none" else [int(x) for x in st[0][1]]
            want_res = None if st[1] == "none" else [int(x) for x in st[1][1]]
            want_sent = ["default"] if st[2] == "none" else [int(st[2][1])]
            res, sent, view = obs
            case = {"op": "seq", "init": init, "hist": behs[: k + 1]}
            want_view = ["absent"] if want_state is None else ["complete"] + want_state
            if view != want_view:
                ctx.violate("cache_seq_disk", case, f"after call {k} the cache file is {view}, the abstract cache holds {want_view}",
                            {"step": k})
            if want_res is None and res[0] == "ok":
                ctx.violate("cache_seq_result", case, f"call {k} must fail but returned {res}", {"step": k})
            if want_res is not None and res != ["ok"] + want_res:
                ctx.violate("cache_seq_result", case, f"call {k} returned {res}, the newest profile sent is {want_res}", {"step": k})
            if sent is not None and sent != want_sent:
                ctx.violate("cache_seq_dtprofup", case, f"call {k} asked with DTPROFUP {sent}, held {want_sent}", {"step": k})


# ----------------------------------------------------------------------------------------------
# proxies for the names `os` and `tempfile` as seen by ofxtools.Client: gates / crash points
# ----------------------------------------------------------------------------------------------
ACTS = ("mkstemp", "write", "close", "replace")


class Hooks:
    """Installed over the module globals `os` and `tempfile` of ofxtools.Client (nothing else sees them).
    `gate(kind)` runs before and `after(kind)` after each of the four actions of the write phase:
    tempfile.mkstemp, f.write, leaving the `with os.fdopen(...)` block, os.replace."""

    def __init__(self, gate, after=None):
        self.gate = gate
        self.after = after or (lambda kind: None)

    def __enter__(self):
        import ofxtools.Client as C
        hooks = self

        class OsProxy:
            def __getattr__(self, name):
                return getattr(os, name)

            def fdopen(self, fd, *a, **k):
                return _WFile(os.fdopen(fd, *a, **k), hooks)

            def replace(self, src, dst):
                hooks.gate("replace")
                os.replace(src, dst)
                hooks.after("replace")

        class TmpProxy:
            def __getattr__(self, name):
                return getattr(tempfile, name)

            def mkstemp(self, *a, **k):
                hooks.gate("mkstemp")
                r = tempfile.mkstemp(*a, **k)
                hooks.after("mkstemp")
                return r

        def open_(path, mode="r", *a, **k):
            # the repaired code does not open any file for writing by name; if some version does, then either it is the
            # cache file itself (in-place rewrite: the action 'inplace', the file has just been truncated) or it is some
            # other file that is to receive the profile (a temporary file by another route than tempfile.mkstemp): that
            # open is then the action 'mkstemp' and the file's write/close are gated like those of the mkstemp file, so
            # that crash points and schedules keep their meaning whatever way the temporary file is made
            writing = any(ch in mode for ch in "wax+")
            if not writing:
                return open(path, mode, *a, **k)
            is_cache = str(path).endswith(".profrs")
            if not is_cache:
                hooks.gate("mkstemp")
            f = open(path, mode, *a, **k)
            if is_cache:
                hooks.gate("inplace")
                return f
            hooks.after("mkstemp")
            return _WFile(f, hooks)

        self.saved = {n: C.__dict__.get(n, _MISSING) for n in ("os", "tempfile", "open")}
        C.os, C.tempfile, C.open = OsProxy(), TmpProxy(), open_
        return self

    def __exit__(self, *a):
        import ofxtools.Client as C
        for n, v in self.saved.items():
            if v is _MISSING:
                C.__dict__.pop(n, None)
            else:
                setattr(C, n, v)
        return False


_MISSING = object()


class _WFile:
    def __init__(self, f, hooks):
        self.f, self.hooks = f, hooks

    def __enter__(self):
        return self

    def write(self, data):
        self.hooks.gate("write")
        n = self.f.write(data)
        # (no flush here: whether the data have left Python's buffer when a later step runs is the code's business —
        #  a rename placed before the file is closed must be seen to publish an empty file)
        self.hooks.after("write")
        return n

    def __exit__(self, *a):
        try:
            if a[0] is None:
                self.hooks.gate("close")
        finally:
            self.f.close()
        if a[0] is None:
            self.hooks.after("close")
        return False

    def close(self):
        self.__exit__(None, None, None)

    def __getattr__(self, name):
        return getattr(self.f, name)


def stray_files(org="ORG", fid="FID"):
    d = F.profile_dir()
    if not d.exists():
        return []
    return sorted(x.name for x in d.iterdir() if x.name != f"{org}-{fid}.profrs")


def clean_strays():
    for n in stray_files():
        (F.profile_dir() / n).unlink()


# ----------------------------------------------------------------------------------------------
def tree_tasks(d_abs, d_held, held):
    tasks = []
    for i, s in enumerate(SYMS):
        tasks.append((f"C15-a{i}", ("absent",), s, d_abs))
        tasks.append((f"C15-h{i}", held, s, d_held))
    return tasks


def run(ctx):
    rng = ctx.rng
    import multiprocessing as mp
    from ofxtools.Client import OFXClient  # noqa  (import in the parent before forking)

    d_abs, d_held = (6, 5) if ctx.thorough else (3, 3)
    if ctx.escalated:
        d_abs, d_held = max(d_abs, 5), max(d_held, 4)
    held = ("complete", (5, 90, 0))
    tasks = tree_tasks(d_abs, d_held, held)

    with Bench("C15-main") as bench:
        # the three scenarios of the (former) negative theorems first: they fork, so before any helper thread exists
        findings_crash(ctx, bench)
        pool = mp.get_context("fork").Pool(3 if ctx.thorough else 2)
        pending = pool.map_async(tree_worker, tasks, chunksize=1)
        try:
            main_part(ctx, bench, rng)
            findings_interleave(ctx, bench, rng)
            findings_key(ctx, bench)
            results = pending.get(7200)
        finally:
            pool.terminate()

    jobs, observed = [], []
    for (name, init, first, depth), res in zip(tasks, results):
        for behs, obs in res:
            jobs.append((init, behs))
            observed.append(obs)
    mods = model_seq(ctx, jobs)
    for (init, behs), obs, mod in zip(jobs, observed, mods):
        ctx.compare("cache.run", {"op": "seq", "init": init, "hist": behs}, canon_obs(obs, init, behs),
                    canon_obs(mod, init, behs))
    spec_oracle(ctx, jobs, observed)
    ctx.stat("exhaustive histories", len(jobs))
    text = (f"all {len(SYMS)}^{d_abs} server histories from an absent cache and all {len(SYMS)}^{d_held} from a cached "
            f"profile ({len(jobs)} histories, every prefix executed on the real method)")
    (ctx.exhaustive if ctx.thorough else ctx.notes).append(text)


def main_part(ctx, bench, rng):
    from ofxtools.Client import OFXClient
    # ---- file name ---------------------------------------------------------------------------------
    names = [None, "ORG", "A-B", "B", "None", "x y", "Ünï", "a.b", ""]
    pairs = [(o, f) for o in names for f in names]
    rng.shuffle(pairs)
    pairs = [(None, None), ("A-B", "C"), ("A", "B-C"), ("None", None)] + pairs[: ctx.budget(8, 81)]
    reps = ctx.model.ask([line("cache.key", opt(o), opt(f)) for o, f in pairs])
    for (o, f), rep in zip(pairs, reps):
        F.wipe_profiles()
        c = OFXClient(U, org=o, fid=f)
        bench.cur = answer(("p", 5, 1, 0))
        try:
            c.request_profile()
            made = sorted(x.name for x in F.profile_dir().iterdir())
        except Exception as e:  # noqa
            made = ["err", canon_exc(e)]
        ctx.compare("cache.key", {"org": o, "fid": f}, made, [dstr(rep.vals[0])] if rep.ok else rep.raw)
    F.wipe_profiles()

    # ---- random histories ----------------------------------------------------------------------------
    jobs, observed = [], []
    p0, p1 = (5, 90, 0), (7, 91, 2)
    inits = [("absent",), ("complete", p0), ("complete", p1), ("empty",), ("prefix", p1, 2), ("mixed", p0, p1)]
    n_rand, n_len4 = ctx.budget(100, 3000), (0 if ctx.thorough else ctx.budget(150))
    for k in range(n_rand + n_len4):
        if k < n_rand:
            init = rng.choice(inits) if rng.random() < 0.5 else ("absent",)
            org, fid = rng.choice([("ORG", "FID"), (None, None), ("A-B", "C")])
            syms = [rng.choice("NNNSOUUEGTXH") for _ in range(rng.randint(1, 6))]
        else:   # the sample of the 7^4 space that the quick tier does not enumerate
            init, (org, fid) = ("absent",), ("ORG", "FID")
            syms = [rng.choice(SYMS) for _ in range(4)]
        top = init[1][0] if init[0] == "complete" else None
        behs, obs = [], []
        bench.set_disk(disk_bytes(init), org, fid)
        c = bench.client(org=org, fid=fid)
        nbody = 100
        for sym in syms:
            beh, top = concretise(sym, top, nbody)
            nbody += 1
            if rng.random() < 0.3:
                c = bench.client(org=org, fid=fid)       # restarted client
            behs.append(beh)
            obs.append(bench.call(c, beh, org, fid))
            ctx.stat("beh " + sym)
        bench.set_disk(None, org, fid)
        jobs.append((init, behs))
        observed.append(obs)
        ctx.stat("init " + init[0])
    for (init, behs), obs, mod in zip(jobs, observed, model_seq(ctx, jobs)):
        case = {"op": "seq", "init": init, "hist": behs}
        ctx.compare("cache.run", case, canon_obs(obs, init, behs), canon_obs(mod, init, behs),
                    nontrivial=any(o[1] is not None for o in obs))
    ctx.sample({"op": "cache.run", "init": jobs[0][0], "hist": jobs[0][1], "observed": observed[0]})
    spec_oracle(ctx, jobs, observed)


# ----------------------------------------------------------------------------------------------
# crashes, concurrent writers, the key: replayed on the real method
# ----------------------------------------------------------------------------------------------
P0, P1, P2 = (5, 90, 0), (6, 91, 2), (7, 92, 0)
# where the real process dies  ->  number of model actions it has performed
CRASH_POINTS = (("post", 2), ("mkstemp", 7), ("write", 8), ("close", 9), ("replace", 10), ("after", 11), ("inplace", None))


def findings_crash(ctx, bench):
    """A forked child runs request_profile() and really dies (os._exit) at the given point: no `except`, no `finally`,
    no flushing of buffers — the temporary file, if any, stays behind."""
    beh = ("p",) + P1
    answer(beh)                 # build the response bytes in the parent: the child's caches die with it
    for init in (("absent",), ("complete", P0)):
        for where, n in CRASH_POINTS:
            bench.set_disk(disk_bytes(init))
            clean_strays()
            pid = os.fork()
            if pid == 0:
                try:
                    def gate(kind):
                        if kind == where:
                            os._exit(9)

                    def after(kind):
                        if where == "after" and kind == "replace":
                            os._exit(9)
                    bench.hook = (lambda seen: os._exit(9)) if where == "post" else None
                    bench.cur = answer(beh)
                    with Hooks(gate, after):
                        bench.client().request_profile()
                    os._exit(0)
                except BaseException:  # noqa
                    os._exit(3)
            _, status = os.waitpid(pid, 0)
            died = os.WIFEXITED(status) and os.WEXITSTATUS(status) == 9
            if where == "inplace" and not died:
                ctx.stat("in-place rewrite not present")      # as it must be: the point does not exist in the repaired code
                continue
            after_view = view_bytes(bench.get_disk())
            strays = len(stray_files())
            clean_strays()
            start = ("absent",) if after_view == ["absent"] else (
                ("complete", tuple(after_view[1:])) if after_view[0] == "complete" else ("empty",))
            nxt = bench.call(bench.client(), ("U",))
            rep = ctx.model.ask1(line("cache.sched", enc_disk(init), [enc_beh(beh)],
                                      [[Atom("s"), 0]] * (n or 0) + [[Atom("c"), 0]]))
            if n is None:
                mod = "the model has no in-place rewrite"
            elif rep.ok:
                mod = [True, dec_view(rep.vals[0][-1]), 1 if rep.vals[1][0][2] == "T" else 0]
            else:
                mod = rep.raw
            case = {"op": "crash", "init": init, "beh": beh, "after_actions": n, "where": where}
            ctx.compare("cache.crash", case, [died, after_view, strays], mod)
            ctx.stat("crash points")
            ok_views = (["absent"], ["complete"] + list(P0), ["complete"] + list(P1))
            if after_view not in ok_views:
                ctx.violate("cache_torn_by_crash_after_open", case,
                            f"a process dying at '{where}' leaves the cache file {after_view[0]}; the next request_profile() "
                            f"gives {nxt[0]}", {"where": where, "file": after_view[0], "next_call_fails": nxt[0][0] == "err"})
            else:
                mnext = model_seq(ctx, [(start, [("U",)])])[0]
                ctx.compare("cache.crash.next", case, canon_obs([nxt], start, [("U",)]), canon_obs(mnext, start, [("U",)]))
                spec_oracle(ctx, [(start, [("U",)])], [[nxt]])
    bench.set_disk(None)
    clean_strays()
    ctx.exhaustive.append("crash (real process death in a forked child) at 6 points x 2 initial caches")


def findings_interleave(ctx, bench, rng):
    scheds = [s for s in itertools.product((0, 1), repeat=8) if sum(s) == 4]
    must = [(0, 0, 0, 0, 1, 1, 1, 1), (1, 1, 1, 1, 0, 0, 0, 0), (0, 1, 0, 1, 0, 1, 0, 1), (0, 1, 1, 0, 0, 1, 1, 0),
            (0, 0, 0, 1, 1, 1, 1, 0), (1, 0, 0, 0, 0, 1, 1, 1)]
    if not ctx.thorough:
        rest = [s for s in scheds if s not in must]
        rng.shuffle(rest)
        scheds = must + rest[: ctx.budget(6)]
    n_run = 0
    for (pa, pb) in ((P1, P2), (P2, P1)):
        for sched in scheds:
            bench.set_disk(pbytes(P0))
            order, pos = [], [0, 0]
            for t in sched:
                order.append((t, ACTS[pos[t]]))
                pos[t] += 1
            cond = threading.Condition()
            state = {"i": 0, "views": [], "arrived": 0}
            answers = {"T0": answer(("p",) + pa), "T1": answer(("p",) + pb)}

            state["done"] = set()
            state["came"] = set()

            def skip_done():
                # turns of a thread that has finished belong to nobody: pass over them
                while state["i"] < len(order) and order[state["i"]][0] in state["done"]:
                    state["i"] += 1

            def gate(kind):
                if kind not in ACTS:
                    return
                me = int(threading.current_thread().name[1:])
                with cond:
                    if me not in state["came"]:
                        state["came"].add(me)
                        state["arrived"] += 1
                        cond.notify_all()
                    ok = cond.wait_for(lambda: state["arrived"] == 2 and state["i"] < len(order)
                                       and order[state["i"]] == (me, kind), timeout=5)
                    if not ok:
                        raise RuntimeError("scheduler timeout")

            def after(kind):
                with cond:
                    state["views"].append(view_bytes(bench.get_disk()))
                    state["i"] += 1
                    skip_done()
                    cond.notify_all()

            results = {}

            def work(name):
                c = bench.client()
                try:
                    r = c.request_profile()
                    results[name] = ["ok"] + list(_REV.get(r.read(), ("?",)))
                except Exception as e:  # noqa
                    results[name] = ["err", canon_exc(e)]
                finally:
                    me = int(name[1:])
                    with cond:
                        state["done"].add(me)
                        if me not in state["came"]:
                            state["came"].add(me)
                            state["arrived"] += 1
                        skip_done()
                        cond.notify_all()

            bench.hook = None
            old_script = bench.net.script
            bench.net.script = lambda seen: answers[seen.thread]
            with Hooks(gate, after):
                ths = [threading.Thread(target=work, args=(f"T{i}",), name=f"T{i}") for i in (0, 1)]
                for t in ths:
                    t.start()
                for t in ths:
                    t.join(30)
            bench.net.script = old_script
            final = view_bytes(bench.get_disk())
            strays = len(stray_files())
            nxt = bench.call(bench.client(), ("U",))
            msched = [[Atom("s"), 0]] * 7 + [[Atom("s"), 1]] * 7 + [[Atom("s"), t] for t in sched]
            rep = ctx.model.ask1(line("cache.sched", enc_disk(("complete", P0)),
                                      [enc_beh(("p",) + pa), enc_beh(("p",) + pb)], msched))
            case = {"op": "interleave", "init": ("complete", P0), "behs": [("p",) + pa, ("p",) + pb], "sched": list(sched)}
            if rep.ok:
                mviews = [dec_view(v) for v in rep.vals[0][14:]]
                mres = [dec_ret(p[0]) if p[0] != "running" else ["running"] for p in rep.vals[1]]
                mstray = sum(1 for p in rep.vals[1] if p[2] == "T")
            else:
                mviews, mres, mstray = rep.raw, None, None
            ctx.compare("cache.sched", case, [state["views"], [results.get("T0"), results.get("T1")], strays],
                        [mviews, mres, mstray])
            n_run += 1
            ok_views = [["complete"] + list(p) for p in (P0, pa, pb)]
            bad = [v for v in state["views"] + [final] if v not in ok_views]
            if bad or nxt[0][0] != "ok":
                ctx.violate("cache_torn_by_two_writers", case,
                            f"two concurrent request_profile() calls (schedule {''.join(map(str, sched))} of their "
                            f"mkstemp/write/close/replace) leave the cache file {(bad or [final])[0][0]}: the next call {nxt[0]}",
                            {"file": (bad or [final])[0][0], "next_call_fails": nxt[0][0] == "err"})
            else:
                start = ("complete", tuple(final[1:]))
                spec_oracle(ctx, [(start, [("U",)])], [[nxt]])
    ctx.stat("interleavings", n_run)
    bench.set_disk(None)
    clean_strays()
    text = f"{n_run // 2} of the 70 interleavings of two writers' mkstemp/write/close/replace, both size orders"
    (ctx.exhaustive if ctx.thorough else ctx.notes).append(text)


def findings_key(ctx, bench):
    F.wipe_profiles()
    a = bench.client(url=U, org=None, fid=None)
    b = bench.client(url=V, org=None, fid=None)
    ra = bench.call(a, ("p",) + P2, None, None)
    url_a = bench.net.log[-1].url
    rb = bench.call(b, ("U",), None, None)       # server V holds an older profile: asked with A's date it says "up to date"
    url_b = bench.net.log[-1].url
    files = sorted(x.name for x in F.profile_dir().iterdir())
    rep = ctx.model.ask([line("cache.key", None, None), line("cache.run", Atom("absent"), [enc_beh(("p",) + P2), Atom("u")])])
    mod = [[dec_ret(st[0]), dec_sent(st[1]), dec_view(st[2])] for st in rep[1].vals]
    case = {"op": "key", "clients": [{"url": U, "org": None, "fid": None}, {"url": V, "org": None, "fid": None}]}
    ctx.compare("cache.key.shared", case, [files, [ra, rb]], [[dstr(rep[0].vals[0])], mod])
    if url_a != url_b and rb[0][:1] == ["ok"] and rb[0] == ra[0]:
        ctx.violate("cache_key_ignores_url", case,
                    f"clients for {url_a} and {url_b} without ORG/FID share {files[0]}: the second server was asked with "
                    f"the first server's DTPROFUP and its 'up to date' answer returned the first server's profile",
                    {"file": files[0], "same_file": True})
    F.wipe_profiles()
    # ... and two servers that DO name different FIs never share one (whatever characters ORG/FID contain)
    pairs = [(("msdw.com", "1235"), ("msdw.com", "14137")), (("a.b", "c"), ("a", "b.c")), (("X", "1.0"), ("X", "1.5")),
             (("bank-1", "2"), ("bank", "1-2")), (("Org", "7"), ("org", "7")),
             (("B&T Bank", "1"), ("B+T Bank", "1")), (("Bank One", "1"), ("Bank_One", "1")), (("Caf\u00e9", "1"), ("Cafe", "1")),
             (("a b", "1"), ("a  b", "1")), (("x", "1 "), ("x", "1"))]
    rng = ctx.rng
    alphabet = "ab.-_ 1"
    for _ in range(ctx.budget(6)):
        def word():
            return "".join(rng.choice(alphabet) for _ in range(rng.randint(1, 5))).strip() or "x"
        x, y = (word(), word()), (word(), word())
        if x != y:
            pairs.append((x, y))
    for (oa, fa), (ob, fb) in pairs:
        F.wipe_profiles()
        a = bench.client(url=U, org=oa, fid=fa)
        b = bench.client(url=V, org=ob, fid=fb)
        ra = bench.call(a, ("p",) + P2, oa, fa)
        rb = bench.call(b, ("U",), ob, fb)          # B's server holds nothing newer than 1990: with no cache that is an error
        files = sorted(x.name for x in F.profile_dir().iterdir()) if F.profile_dir().exists() else []
        rep = ctx.model.ask([line("cache.key", opt(oa), opt(fa)), line("cache.key", opt(ob), opt(fb))])
        keys = [dstr(rep[0].vals[0]), dstr(rep[1].vals[0])]
        case = {"op": "key2", "clients": [{"url": U, "org": oa, "fid": fa}, {"url": V, "org": ob, "fid": fb}]}
        # on a case-insensitive file system two names differing in case are one file; compare modulo that only if so
        same = keys[0] == keys[1]          # f"{org}-{fid}" is not injective: 'bank-1'/'2' and 'bank'/'1-2' (recorded finding)
        ctx.compare("cache.key.distinct", case, [files, rb[1]], [[keys[0]], [P2[0]] if same else ["default"]])
        if rb[1] != ["default"] or (rb[0][:1] == ["ok"] and rb[0] == ra[0]):
            ctx.violate("cache_shared_between_different_fis", case,
                        f"clients configured for different institutions (ORG/FID {oa!r}/{fa!r} and {ob!r}/{fb!r}) share the "
                        f"cache file(s) {files}: the second server was asked with DTPROFUP {rb[1]} and the call returned {rb[0]}",
                        {"files": files, "org_dash_fid_texts_equal": same})
    F.wipe_profiles()


def replay(ctx, data):
    """re-run a recorded sequential case"""
    case = data.get("case", data)
    if case.get("op") != "seq":
        return run(ctx)
    init = tuple(tuple(x) if isinstance(x, list) else x for x in case["init"])
    behs = [tuple(b) for b in case["hist"]]
    with Bench("C15-replay") as bench:
        bench.set_disk(disk_bytes(init))
        c = bench.client()
        obs = [bench.call(c, b) for b in behs]
    mod = model_seq(ctx, [(init, behs)])[0]
    ctx.compare("cache.run", case, canon_obs(obs, init, behs), canon_obs(mod, init, behs))
    spec_oracle(ctx, [(init, behs)], [obs])
