"""
Shared plumbing of the C18/C19 correspondence: a sandboxed ofxtools.scripts.ofxget (config paths in
.work/, OFX Home replaced by a table, OFXClient.uuid fixed, no network), value encodings for the driver.
"""
import argparse
import collections
import configparser
import contextlib
import io
import json
import os
import sys
import warnings

from framework import WORK, canon_exc
from proto import Atom, dstr, dint, dbool, dopt

MISSING = "<missing>"


# ---------------------------------------------------------------------------------------
# sandbox
# ---------------------------------------------------------------------------------------
class Env:
    """The real ofxget module with its import-time paths and globals under our control."""

    def __init__(self, name):
        self.dir = os.path.join(WORK, "ofxget", f"{name}-{os.getpid()}")
        self.cfgdir = os.path.join(self.dir, "cfg", "ofxtools")
        self.datadir = os.path.join(self.dir, "data")
        os.makedirs(self.cfgdir, exist_ok=True)
        os.makedirs(self.datadir, exist_ok=True)
        # must be in place before ofxtools.config is imported (paths are computed at import time)
        os.environ["XDG_CONFIG_HOME"] = os.path.join(self.dir, "cfg")
        os.environ["XDG_DATA_HOME"] = self.datadir
        os.environ["XDG_CACHE_HOME"] = os.path.join(self.dir, "cache")
        import pathlib
        from ofxtools import config, ofxhome, Client
        from ofxtools.scripts import ofxget
        self.ofxget, self.config, self.ofxhome, self.Client = ofxget, config, ofxhome, Client
        self.real_fidb = str(config.CONFIGDIR / "fi.cfg")
        self.fidb_path = os.path.join(self.dir, "fi.cfg")
        self.user_path = os.path.join(self.cfgdir, "ofxget.cfg")
        # in case the modules were imported before the environment was set: patch the attributes too
        config.USERCONFIGDIR = pathlib.Path(self.cfgdir)
        config.DATADIR = pathlib.Path(self.datadir) / "ofxtools"
        ofxget.USERCONFIGPATH = pathlib.Path(self.user_path)
        ofxget.CONFIGPATH = pathlib.Path(self.fidb_path)
        self.RealClient = Client.OFXClient
        self.oh_table = {}
        ofxhome.lookup = self._lookup
        with open(os.path.join(WORK, "ofxget.json")) as f:
            self.tables = json.load(f)
        self._real_fidb_sections = None

    # OFX Home ------------------------------------------------------------------------
    def _lookup(self, id_):
        try:
            rec = self.oh_table.get(id_)
        except TypeError:
            return None
        if rec is None:
            return None
        return self.ofxhome.OFXServer(id=id_, name="n", url=rec[0], org=rec[1], fid=rec[2], brokerid=rec[3])

    # files ---------------------------------------------------------------------------
    @staticmethod
    def write_ini(path, filec):
        if filec is None:
            if os.path.exists(path):
                os.remove(path)
            return
        with open(path, "w", encoding="utf-8") as f:
            for sec, items in filec:
                f.write(f"[{sec}]\n")
                for k, v in items:
                    f.write(f"{k} = {v}\n")
                f.write("\n")

    @staticmethod
    def read_ini(path):
        """What a reader sees in the file: [(section, [(key, raw value)])], DEFAULT included when non-empty."""
        if not os.path.exists(path):
            return []
        p = configparser.RawConfigParser(default_section="\x00no-default\x00")
        with open(path, encoding="utf-8") as f:
            p.read_file(f)
        return [[s, [[k, v] for k, v in p.items(s)]] for s in p.sections()]

    def real_fidb_section(self, server):
        if self._real_fidb_sections is None:
            p = configparser.RawConfigParser(default_section="\x00no-default\x00")
            p.read(self.real_fidb)
            self._real_fidb_sections = {s: [[k, v] for k, v in p.items(s)] for s in p.sections()}
        return self._real_fidb_sections.get(server)

    def real_fidb_servers(self):
        self.real_fidb_section("x")
        return [s for s in self._real_fidb_sections if s != "NAMES"]

    def fresh_process(self, fidb, user, uuid="UUID-0", real_fidb=False):
        """What importing ofxget does at the start of a process, on the given files."""
        import pathlib
        og = self.ofxget
        if real_fidb:
            og.CONFIGPATH = pathlib.Path(self.real_fidb)
        else:
            og.CONFIGPATH = pathlib.Path(self.fidb_path)
            self.write_ini(self.fidb_path, fidb)
        self.write_ini(self.user_path, user)
        og.USERCFG = og.UserConfig()
        og.USERCFG.read([og.CONFIGPATH, og.USERCONFIGPATH])
        og.LIBCFG = og.LibraryConfig()
        og.LIBCFG.read(og.CONFIGPATH)
        og.OFXClient = type("OFXClient", (self.RealClient,), {"uuid": uuid})


@contextlib.contextmanager
def quiet():
    out = io.StringIO()
    with contextlib.redirect_stdout(out), contextlib.redirect_stderr(io.StringIO()), warnings.catch_warnings():
        warnings.simplefilter("ignore")
        yield out


def run_impl_all(f, *a, **k):
    """like framework.run_impl but SystemExit (sys.exit() in merge_config) is an outcome too"""
    try:
        return ("ok", f(*a, **k))
    except SystemExit:
        return ("err", "other")
    except Exception as e:  # noqa
        return ("err", canon_exc(e))


# ---------------------------------------------------------------------------------------
# values
# ---------------------------------------------------------------------------------------
def pv(v):
    """Python config value -> protocol structure"""
    if v is None:
        return Atom("n")
    if isinstance(v, bool):
        return [Atom("b"), v]
    if isinstance(v, int):
        return [Atom("i"), v]
    if isinstance(v, str):
        return [Atom("s"), v]
    if isinstance(v, list) and all(isinstance(x, str) for x in v):
        return [Atom("l"), list(v)]
    raise TypeError(f"not a config value: {v!r}")


def cv(v):
    """Python config value -> canonical JSON-able form (type-tagged: True != 1)"""
    if v is None:
        return None
    if isinstance(v, bool):
        return ["b", v]
    if isinstance(v, int):
        return ["i", v]
    if isinstance(v, str):
        return ["s", v]
    if isinstance(v, (list, tuple)):
        return ["l", [x if isinstance(x, str) else repr(x) for x in v]]
    return ["?", repr(v)]


def dv(x):
    """protocol reply -> canonical form"""
    if x == "n":
        return None
    t = x[0]
    if t == "s":
        return ["s", dstr(x[1])]
    if t == "i":
        return ["i", dint(x[1])]
    if t == "b":
        return ["b", dbool(x[1])]
    if t == "l":
        return ["l", [dstr(a) for a in x[1]]]
    raise ValueError(x)


def pmap(d):
    return [[k, pv(v)] for k, v in d.items()]


def dmap(x):
    return {dstr(kv[0]): dv(kv[1]) for kv in x}


def pfile(filec):
    return [[s, [[k, v] for k, v in items]] for s, items in (filec or [])]


def dfile(x):
    return sorted([dstr(s[0]), sorted([dstr(kv[0]), dstr(kv[1])] for kv in s[1])] for s in x)


def canon_file(filec):
    """[(sec,[(k,v)])] as a reader sees it -> sorted, empty DEFAULT dropped"""
    out = []
    for s, items in filec:
        out.append([s, sorted([k, v] for k, v in items)])
    return sorted(x for x in out if not (x[0] == "DEFAULT" and not x[1]))


def poh(table):
    from proto import opt
    return [[k, opt(None if r is None else [opt(r[0]), opt(r[1]), opt(r[2]), opt(r[3])])] for k, r in table.items()]


def deff(x):
    """((key optval)...) -> {key: canonical | MISSING}"""
    out = {}
    for kv in x:
        k = dstr(kv[0])
        out[k] = MISSING if kv[1] == "none" else dv(kv[1][1])
    return out
