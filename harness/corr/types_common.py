"""
Shared by corr/C10.py and corr/C11.py (and usable by C03): protocol encoding of converter kinds, generators for
converter parameterisations / values / texts, and an independent pure-Python reference of the OFX lexical and
denotation rules (regexes + integer arithmetic; never calls ofxtools or the decimal parser).
Mirrors lean/OfxModel/Drv/Types.lean (`decKind`).
"""
import datetime
import decimal
import re
import unicodedata

from codec import canon_val, text
from proto import S

D = decimal.Decimal


# ------------------------------------------------------------------ kinds
def opt(v):
    return "none" if v is None else ["some", str(v)]


def kind_of(conv, schema_enums=None):
    """real converter instance -> (protocol kind as nested atom lists, required flag)"""
    from ofxtools import Types
    tn = type(conv)
    req = bool(getattr(conv, "required", False))
    if tn is Types.Bool:
        return "bool", req
    if tn in (Types.String, Types.NagString):
        return ["string", opt(conv.length), "T" if conv.strict else "F"], req
    if tn is Types.OneOf:
        toks = list(conv.valid)
        if schema_enums is not None and toks in schema_enums:
            return ["enum", str(schema_enums.index(toks))], req
        return ["oneof", [S(t) for t in toks]], req
    if tn is Types.Integer:
        return ["integer", opt(conv.length)], req
    if tn is Types.Decimal:
        if conv.scale is None:
            return ["decimal", "none"], req
        return ["decimal", ["some", str(int(conv.scale.as_tuple().exponent))]], req
    if tn is Types.DateTime:
        return "datetime", req
    if tn is Types.Time:
        return "time", req
    if tn is Types.ListElement:
        ik, ireq = kind_of(conv.converter, schema_enums)
        return ["list", ik, "T" if ireq else "F"], req
    raise TypeError(tn)


def base_kind(kind):
    """strip ListElement wrappers"""
    while isinstance(kind, list) and kind[0] == "list":
        kind = kind[1]
    return kind


def kname(kind):
    kind = base_kind(kind)
    return kind if isinstance(kind, str) else kind[0]


def conv_line(op, kind, req, val_canon):
    return " ".join([op, text(kind), "T" if req else "F", text(val_canon)])


# ------------------------------------------------------------------ canonical results
def canon_result(r):
    """run_impl result -> ['ok', canon] | ['err', kind]"""
    if r[0] == "ok":
        return ["ok", canon_val(r[1])]
    return ["err", r[1]]


def model_result(rep):
    if rep.kind == "ok":
        return ["ok", rep.vals[0]]
    if rep.kind == "err":
        return ["err", rep.err]
    return ["bad", rep.raw]


def same_value(a, b):
    """equality at the granularity of the canonical form (type, Decimal triple, NaN payload …)"""
    return canon_val(a) == canon_val(b)


# ------------------------------------------------------------------ domain of the model
def has_foreign_digit(s):
    """non-ASCII characters CPython's int()/Decimal() would read as digits (not modelled)"""
    return any(ord(c) > 127 and unicodedata.category(c) == "Nd" for c in s)


def has_surrogate(s):
    return any(0xD800 <= ord(c) <= 0xDFFF for c in s)


_EXP_RE = re.compile(r"[eE][+-]?([0-9_]*)")


def text_in_model_domain(kind, s):
    kn = kname(kind)
    if has_surrogate(s):
        return False
    if kn in ("integer", "decimal"):
        if has_foreign_digit(s):
            return False
        if len(s) > 3000:
            return False            # int(): 4300-digit limit; not modelled
        for m in _EXP_RE.finditer(s):
            ds = m.group(1).replace("_", "")
            if len(ds.lstrip("0")) > 5:
                return False        # exponent limits of the exact conversion are not modelled
    return True


def value_in_model_domain(kind, v):
    if isinstance(v, str):
        return text_in_model_domain(kind, v)
    if isinstance(v, decimal.Decimal) and v.is_finite():
        return abs(v.as_tuple().exponent) <= 100000
    return True


# ------------------------------------------------------------------ independent reference: Lex
RE_INT = re.compile(r"[+-]?[0-9]+\Z")
RE_DEC = re.compile(r"[+-]?[0-9]*[.,]?[0-9]*\Z")


def ref_lex(kind, s, enums=None):
    """True/False, or None when the rule belongs to another layer (date-time)"""
    kind = base_kind(kind)
    kn = kname(kind)
    if kn == "bool":
        return s in ("Y", "N")
    if kn == "string":
        ln, strict = kind[1], kind[2] == "T"
        return True if (ln == "none" or not strict) else len(s) <= int(ln[1])
    if kn == "oneof":
        from proto import dstr
        return s in [dstr(t) for t in kind[1]]
    if kn == "enum":
        return s in enums[int(kind[1])]
    if kn == "integer":
        return RE_INT.match(s) is not None and all(c in "+-0123456789" for c in s)
    if kn == "decimal":
        return (RE_DEC.match(s) is not None and any(c in "0123456789" for c in s)
                and all(c in "+-0123456789.," for c in s))
    return None


# ------------------------------------------------------------------ independent reference: denote
ENTITIES = [("&lt;", "<"), ("&gt;", ">"), ("&nbsp;", " "), ("&apos;", "'"), ("&quot;", '"'), ("&amp;", "&")]


def ref_decode(s):
    out, i = [], 0
    while i < len(s):
        for ent, ch in ENTITIES:
            if s.startswith(ent, i):
                out.append(ch)
                i += len(ent)
                break
        else:
            out.append(s[i])
            i += 1
    return "".join(out)


def ref_int(s):
    if not ref_lex(["integer", "none"], s):
        return None
    neg = s[0] == "-"
    body = s[1:] if s[0] in "+-" else s
    n = 0
    for c in body:
        n = n * 10 + (ord(c) - 48)
    return -n if neg else n


def ref_dec_literal(s):
    """(neg, coeff, exp) of a plain OFX decimal literal, or None"""
    if not ref_lex(["decimal", "none"], s):
        return None
    neg = s[0] == "-"
    body = s[1:] if s[0] in "+-" else s
    body = body.replace(",", ".")
    ip, _, fp = body.partition(".")
    n = 0
    for c in ip + fp:
        n = n * 10 + (ord(c) - 48)
    return (neg, n, -len(fp))


def ref_quantize(neg, coeff, exp, qe, prec=28):
    """nearest multiple of 10^qe, ties to even; None if it does not fit `prec` digits"""
    if coeff == 0:
        return (neg, 0, qe)
    if exp + len(str(coeff)) - qe > prec:
        return None
    if exp >= qe:
        c = coeff * 10 ** (exp - qe)
    else:
        den = 10 ** (qe - exp)
        lo, rem = divmod(coeff, den)
        if 2 * rem < den:
            c = lo
        elif 2 * rem > den:
            c = lo + 1
        else:
            c = lo if lo % 2 == 0 else lo + 1
    if len(str(c)) > prec:
        return None
    return (neg, c, qe)


def dec_triple(d):
    t = d.as_tuple()
    return (bool(t.sign), int("".join(map(str, t.digits)) or "0"), t.exponent)


def ref_denote(kind, s, enums=None):
    """canonical value the OFX type rules assign to text `s` ('none' canon = no denotation);
    returns None when the rule belongs to another layer"""
    kind = base_kind(kind)
    kn = kname(kind)
    if kn in ("datetime", "time"):
        return None
    if s == "":
        return "none"
    if kn == "bool":
        return ["some", ["b", "T" if s == "Y" else "F"]] if s in ("Y", "N") else "none"
    if kn == "string":
        t = ref_decode(s)
        ln, strict = kind[1], kind[2] == "T"
        if ln != "none" and strict and len(t) > int(ln[1]):
            return "none"
        return ["some", ["s", S(t)]]
    if kn in ("oneof", "enum"):
        return ["some", ["s", S(s)]] if ref_lex(kind, s, enums) else "none"
    if kn == "integer":
        i = ref_int(s)
        if i is None:
            return "none"
        if kind[1] != "none" and abs(i) >= 10 ** int(kind[1][1]):
            return "none"
        return ["some", ["i", str(i)]]
    if kn == "decimal":
        lit = ref_dec_literal(s)
        if lit is None:
            return "none"
        if kind[1] != "none":
            lit = ref_quantize(*lit, int(kind[1][1]))
            if lit is None:
                return "none"
        return ["some", ["d", "T" if lit[0] else "F", str(lit[1]), str(lit[2])]]
    return None


# ------------------------------------------------------------------ generators
ENT_PIECES = ["&amp;", "&lt;", "&gt;", "&nbsp;", "&apos;", "&quot;", "&amp;lt;", "&amp;amp;", "&amp;amp;lt;", "&am", "&;",
              "&", "&&", "amp;", ";", "<", ">", '"', "'", " ", "a", "b", "Z", "0", "9", "é", " ", "&lt",
              "lt;", "&AMP;", "&#38;", "&gt;&lt;", "&a", "mp;", "&amp", "&quot", "t;", "&l", "&g", "&n", "bsp;",
              "\t", "\n", "\x1c", " ", "x", "_", ",", ".", "-", "+", "]]>", "&apos", "&&amp;", "&amp;&"]

WS = [" ", "\t", "\n", "\x0b", "\x0c", "\r", "\x1c", "\x1f", "\x85", " ", " ", "　", "  "]


def gen_string(rng, maxlen=46):
    n = rng.choice((0, 1, 1, 2, 3, 5, 8, 12, 20))
    s = "".join(rng.choice(ENT_PIECES) for _ in range(n))
    return s[:maxlen]


def gen_string_len(rng, n):
    """a string of exactly n characters, entity-rich"""
    s = ""
    while len(s) < n:
        s += rng.choice(ENT_PIECES)
    return s[:n]


def digits(rng, n, first_nonzero=False):
    if n <= 0:
        return ""
    s = "".join(rng.choice("0123456789") for _ in range(n))
    if first_nonzero and s[0] == "0":
        s = rng.choice("123456789") + s[1:]
    return s


def gen_int_text(rng, length=None):
    """mostly valid integer literals around the limit, plus lenient / malformed spellings"""
    L = length if length is not None else rng.choice((1, 3, 9, 18, 30))
    r = rng.random()
    n = rng.choice((max(L - 1, 1), L, L, L + 1, rng.randint(1, 42)))
    body = rng.choice((digits(rng, n, True), "9" * n, "1" + "0" * (n - 1), "1" + "0" * n, "0" * rng.randint(1, 3) + digits(rng, n, True), "0"))
    sign = rng.choice(("", "", "-", "-", "+"))
    s = sign + body
    if r < 0.62:
        return s
    m = rng.randrange(14)
    if m == 0:
        return rng.choice(WS) + s
    if m == 1:
        return s + rng.choice(WS)
    if m == 2:
        return rng.choice(WS) + s + rng.choice(WS)
    if m == 3 and len(body) > 1:
        i = rng.randrange(1, len(body))
        return sign + body[:i] + "_" + body[i:]
    if m == 4:
        return sign + rng.choice(("_" + body, body + "_", body[:1] + "__" + body[1:]))
    if m == 5:
        return sign + rng.choice(WS) + body
    if m == 6:
        return "".join(chr(0x0660 + int(c)) if c.isdigit() and rng.random() < 0.5 else c for c in s)
    if m == 7:
        return s + rng.choice((".0", ".", "e3", "E+2", ",0", "L", "x", "\x00"))
    if m == 8:
        return rng.choice(("", "+", "-", "--1", "+-1", "0x10", "0b1", "0o7", "True", "None", "NaN", "１２", "1 2", "1,000", "١٢٣", "²"))
    if m == 9:
        return s[:len(s) // 2] + rng.choice(ENT_PIECES) + s[len(s) // 2:]
    if m == 10:
        return s.replace("0", "O", 1)
    if m == 11:
        return rng.choice(WS) * 2 + s + rng.choice(WS) * 2
    if m == 12:
        return sign + sign + body
    return s + " " + body


SPECIALS = ["NaN", "nan", "-NaN", "sNaN", "snan", "-sNaN", "Inf", "inf", "-Inf", "Infinity", "-infinity", "+Infinity",
            "INFINITY", "NaN123", "nan007", "sNaN5", "-NaN0", "NAN", "iNf", "in_f", "n_an", "Infinit", "NaN1.5", "Infinity1",
            "NaN" + "9" * 30, "nan_1", "+nan"]


def gen_dec_text(rng):
    r = rng.random()
    ni = rng.choice((0, 1, 1, 2, 3, 6, 12, 26, 27, 28, 29, 33))
    nf = rng.choice((0, 0, 1, 2, 2, 3, 4, 5, 8, 9, 12, 30))
    ip = rng.choice((digits(rng, ni), "9" * ni, "0" * ni, digits(rng, ni, True)))
    fp = rng.choice((digits(rng, nf), "9" * nf, "0" * nf, digits(rng, max(nf - 1, 0)) + "5" if nf else "", "5" + "0" * max(nf - 1, 0) if nf else ""))
    sign = rng.choice(("", "", "-", "-", "+"))
    sep = rng.choice((".", ".", ".", ",", ",")) if (fp or rng.random() < 0.3) else ""
    s = sign + ip + sep + fp
    if r < 0.55:
        return s
    m = rng.randrange(16)
    if m == 0:
        return rng.choice(SPECIALS)
    if m == 1:
        e = rng.choice((rng.randint(-40, 40), rng.randint(-8, 8), 0, 2, -7, 400, -400))
        return s + rng.choice("eE") + rng.choice(("", "+", "-") if e >= 0 else ("-",)) + str(abs(e))
    if m == 2:
        return rng.choice(WS) + s + rng.choice(WS + [""])
    if m == 3 and len(s) > 2:
        i = rng.randrange(1, len(s))
        return s[:i] + "_" + s[i:]
    if m == 4:
        return digits(rng, rng.randint(1, 3), True) + "," + digits(rng, 3) + "." + digits(rng, 2)      # 1,000.50
    if m == 5:
        return digits(rng, rng.randint(1, 3), True) + "." + digits(rng, 3) + "," + digits(rng, 2)      # 1.000,50
    if m == 6:
        return "".join(chr(0x0660 + int(c)) if c.isdigit() and rng.random() < 0.5 else c for c in s)
    if m == 7:
        return rng.choice(("", ".", ",", "+", "-", "+.", "-,", "e5", ".e5", "1e", "1e+", "1.e5", "..", "1..2", ",,", "1,2,3", "1.2.3", "--1", "+-1", "0x1p3", "1/2", "$1.00", "1.0 USD", "(1.00)", "1.00-", "١٢٣", "1\x00", "_", "_1", "1_", "1__0", "1_._5"))
    if m == 8:
        return s[:len(s) // 2] + rng.choice(ENT_PIECES) + s[len(s) // 2:]
    if m == 9:
        return s + rng.choice(("e", "E", "e+", "E-", "e1.5", "E1e1", "f", "d", "%"))
    if m == 10:
        return sign + rng.choice(WS) + ip + sep + fp
    if m == 11:
        return s.replace(".", ",") if "." in s else s + ","
    if m == 12:
        return rng.choice(WS) * 2 + s + rng.choice(WS) * 2
    if m == 13:
        return s + rng.choice(("E+2", "E-7", "E+0", "e0", "E-0", "E00012", "E+28", "E-28"))
    if m == 14:
        return rng.choice(SPECIALS) + rng.choice(("", " ", "0", "_"))
    return sign + sign + ip + sep + fp


def gen_decimal_value(rng):
    """decimal.Decimal values over the whole range: exponents −40…+40, normalised, signed zeros, specials"""
    r = rng.random()
    if r < 0.08:
        return D(rng.choice(("NaN", "-NaN", "sNaN", "-sNaN", "Infinity", "-Infinity", "NaN123", "sNaN7", "NaN" + "1234567890" * 4)))
    nd = rng.choice((1, 1, 2, 3, 5, 9, 15, 27, 28, 29, 30, 35))
    c = rng.choice((0, 0, 1, 5, 10 ** (nd - 1), 10 ** nd - 1, 10 ** nd, int(digits(rng, nd, True)), 25, 15, 5 * 10 ** (nd - 1)))
    e = rng.choice((0, 0, -1, -2, -2, -3, -4, -5, -6, -7, -8, -9, 1, 2, 3, rng.randint(-40, 40), rng.randint(-40, 40), -28, -29, 28))
    sign = rng.choice((0, 0, 1))
    d = D((sign, tuple(int(x) for x in str(c)), e))
    m = rng.random()
    if m < 0.15:
        d = d.normalize(decimal.Context(prec=60))
    return d


def gen_int_value(rng, length=None):
    L = length if length is not None else rng.choice((1, 3, 9, 18, 30))
    v = rng.choice((0, 1, 9, 10, 10 ** L - 1, 10 ** L, 10 ** L + 1, 10 ** max(L - 1, 0), int(digits(rng, rng.randint(1, 42), True)),
                    10 ** (L + 1), 10 ** 40, 2 ** 63, 10 ** L - 2))
    return -v if rng.random() < 0.4 else v


def wrong_type_values(rng):
    """one value of every Python type the converters could meet"""
    UTC = datetime.timezone.utc
    return [None, True, False, 0, 1, -1, 7, 10 ** 9, -10 ** 9, 1.5, float("nan"), float("inf"), 0.0, "", "Y", "N", "y", "1", "x",
            "1.5", "True", D("1"), D("1.50"), D("-0"), D("NaN"), D("sNaN"), D("Infinity"), D("1E+2"), D("12.345"),
            datetime.datetime(2020, 1, 2, 3, 4, 5, tzinfo=UTC), datetime.datetime(2020, 1, 2), datetime.time(1, 2, 3, tzinfo=UTC),
            datetime.date(2020, 1, 2), [], ["Y"], (), (0, (1,), 0), b"1", b"Y", {}, object(), 1 + 0j, bytearray(b"1")]


def make_converters(rng, ctx, n_random):
    """converter instances over every type × parameterisation (built by the real constructors)"""
    from ofxtools import Types as T
    out = []
    for req in (False, True):
        out.append(T.Bool(required=req))
        for ln in [None] + list(range(1, 41)):
            out.append(T.String(ln, required=req))
            out.append(T.NagString(ln, required=req))
            out.append(T.Integer(ln, required=req))
        out.append(T.Integer(0, required=req))
        for sc in [None] + list(range(0, 9)):
            out.append(T.Decimal(sc, required=req))
        out.append(T.Decimal(12, required=req))
    enums = (ctx.schema or {}).get("enums") or []
    for e in enums:
        out.append(T.OneOf(*e, required=rng.random() < 0.5))
    toks = ["A", "B", "CALL", "PUT", "Y", "N", "0", "1", "a", "call", "", " ", "A B", "&amp;", "&", "X" * 40, "é", "None", "True"]
    for _ in range(n_random):
        k = rng.randint(0, 5)
        out.append(T.OneOf(*rng.sample(toks, k), required=rng.random() < 0.5))
    inner = [T.String(32), T.String(3, required=True), T.NagString(5), T.Integer(2), T.Integer(required=True), T.Decimal(2),
             T.Decimal(), T.Bool(), T.Bool(required=True), T.OneOf("A", "B"), T.OneOf("A", "B", required=True)]
    if enums:
        inner.append(T.OneOf(*enums[0]))
    for c in inner:
        out.append(T.ListElement(c, required=rng.random() < 0.5))
    return out


def base_converter(conv):
    from ofxtools import Types as T
    while isinstance(conv, T.ListElement):
        conv = conv.converter
    return conv
