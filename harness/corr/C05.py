"""
C05 correspondence + oracle: the header parser hands over exactly the body, decoded as the header declares.

impl  = ofxtools.header.parse_header(io.BytesIO(b)) (and OFXTree._read on the same bytes); the compiled pattern
        objects OFXHeaderV1.regex / OFXHeaderV2.regex / XML_REGEX; bytes.decode / str.encode of the four codecs
model = lean/OfxModel/Ofx/Header.lean + Py/Codec.lean via the driver (hdr.parse, hdr.re, hdr.decode, hdr.encode)
spec  = lean/OfxModel/Spec/HeaderLayout.lean (spec.renderfile), cross-checked against the independent Python
        renderer in corr/hdrlib.py
oracle= for a file rendered from (layout, fields, body): the implementation returns exactly those fields and
        exactly that body
"""
import itertools

from framework import run_impl
from proto import line, opt, dstr, dbytes, dbool, dopt, Atom
from corr import hdrlib as L

RULE = ("files rendered from layouts: v1 uniform separators {CRLF,LF,CR,none} x blank after colon x leading blank "
        "lines {0,1,7} x gap {none,LF,CRLFCRLF,blank,CR} x with/without COMPRESSION x CHARSET {ISO-8859-1,1252,NONE} "
        "exhaustively, per-field mixed separators sampled; v2 quote styles per attribute, optional XML pseudo-"
        "attributes, line breaks or none; bodies with bytes 0x80-0x9F / 0xA0-0xFF / multi-byte UTF-8, starting with "
        "'<' and ending with '>'; plus byte-level corruptions of such files, regex-level comparison on header texts "
        "and their single-character corruptions, codec-level comparison on random and malformed byte strings; a case "
        "is non-trivial when the implementation returned a header and a body; distinct by file bytes")

CHARSETS = ["ISO-8859-1", "1252", "NONE"]
ENCODINGS = ["USASCII", "UNICODE", "UTF-8"]


def _re_impl(pat, mode, s):
    """named groups in pattern order (what groupdict() hands to the constructor) and match.end()"""
    m = getattr(pat, mode)(s)
    if m is None:
        return ["ok", None]
    names = [n for n, _ in sorted(pat.groupindex.items(), key=lambda kv: kv[1])]
    return ["ok", [[m.group(n) for n in names], m.end()]]


def _re_model(rep, ngroups_named):
    if rep.kind != "ok":
        return ["bad", rep.raw]
    v = rep.vals[0]
    if v == "none":
        return ["ok", None]
    caps = [dopt(c, dstr) for c in v[1]]
    return ["ok", [caps, int(v[2])]]


def run(ctx):
    from ofxtools import header as H
    rng = ctx.rng
    codecs = dict(L.CHARSET_CODEC)

    # ================= 0. witnesses of recorded findings (known: must still fail that way; fixed: must pass) ====
    import json, os
    import framework
    with open(os.path.join(framework.ROOT, "known_findings.json")) as fh:
        recorded = [e for e in json.load(fh)["findings"] if e["property"] == "C05"]
    for e in recorded:
        w = e.get("witness", {})
        f = bytes.fromhex(w["file_hex"]) if "file_hex" in w else w.get("file", "").encode("latin_1")
        impl = L.impl_parse(f)
        model = L.model_parse_canon(ctx.model.ask1(line("hdr.parse", f)))
        ctx.compare("hdr.parse", {"file_hex": f.hex(), "finding": e["id"]}, impl, model)
        ctx.stat(f"witness:{e['id']}:{impl[0]}")
        if e["status"] == "fixed" and not (impl[0] == "ok" and impl[2] == w.get("expect_body")):
            ctx.violate(e["tag"], {"op": "hdr.parse", "file_hex": f.hex(), "finding": e["id"]},
                        f"witness of fixed finding {e['id']} fails again: parse_header -> {impl!r:.160}", dict(e.get("params") or {}))

    # ================= 1. file-level: layouts =================
    cases = []

    def v1_fields(cs, wc, rng_uids=True):
        ver = rng.choice((102, 103, 151, 160, 100, 199))
        sec = rng.choice(("NONE", "TYPE1"))
        enc = rng.choice(ENCODINGS)
        old = L.rand_uid(rng) if rng_uids and rng.random() < 0.6 else "NONE"
        new = L.rand_uid(rng) if rng_uids and rng.random() < 0.6 else "NONE"
        return [100, "OFXSGML", ver, sec, enc, cs, "NONE", old, new]

    # uniform separators, exhaustively
    gaps = ["", "\n", "\r\n\r\n", " ", "\r", "\r\n"]
    for sep, blank, nlead, gap, wc, cs in itertools.product(("crlf", "lf", "cr", "none"), ("", " "), (0, 1, 7),
                                                          gaps, (True, False), CHARSETS):
        for body in L.bodies_for(codecs[cs], rng, ctx.budget(2, 4)):
            cases.append(L.default_v1_case(leading=[""] * nlead, fl=[(blank, sep)] * 8, newblank=blank, gap=gap,
                                           h=v1_fields(cs, wc), wc=wc, body=body))
    ctx.exhaustive.append("v1 uniform separator x blank x leading{0,1,7} x gap(6) x COMPRESSION x CHARSET: all 864 layouts")
    # mixed per-field layouts, sampled
    ws_line = ["", " ", "\r", "\t ", "\x0c", "\x1c\x1f"]
    for _ in range(ctx.budget(1500, 40000)):
        cs = rng.choice(CHARSETS)
        wc = rng.random() < 0.5
        fl = [(rng.choice(("", "", " ", "\t", "  ")), rng.choice(("crlf", "lf", "cr", "none"))) for _ in range(8)]
        if rng.random() < 0.25:
            fl = [(b, rng.choice(("cr", "none"))) for b, _ in fl]
        gap = rng.choice(gaps + ["\n\n\n", " \t\r\n ", "\x0c\n"])
        lead = [rng.choice(ws_line) for _ in range(rng.choice((0, 0, 1, 2, 6, 7)))]
        indent = rng.choice(("", "", "", " ", "\t", "\r"))
        cases.append(L.default_v1_case(leading=lead, indent=indent, fl=fl, newblank=rng.choice(("", " ")), gap=gap,
                                       h=v1_fields(cs, wc), wc=wc, body=rng.choice(L.bodies_for(codecs[cs], rng, 2))))
    # v2: all quote styles of the OFX declaration x XML pseudo-attribute presence, sampled whitespace
    v2_versions = [200, 201, 202, 203, 210, 211, 220]
    for q in itertools.product(("dq", "sq"), repeat=5):
        for xq in itertools.product(("dq", "sq", None), repeat=3):
            if rng.random() < (1.0 if ctx.thorough else 0.25) or q == ("dq",) * 5:
                nl = rng.choice(("", "\r\n", "\n", " ", "\r"))
                cases.append(L.default_v2_case(
                    xq=list(xq), q=list(q), afterxml=nl, gap=rng.choice(("", "\r\n", "\n", " \n\n")),
                    leading=[""] * rng.choice((0, 0, 1, 7)),
                    s=[rng.choice((" ", "\n", "  ", "\r\n", "\t")) for _ in range(5)],
                    xs=[rng.choice((" ", "  ", "\t"))] + [rng.choice(("", " ")) for _ in range(3)],
                    beforeclose=rng.choice(("", " ", "\n")),
                    h=[rng.choice(v2_versions), 200, rng.choice(("NONE", "TYPE1")),
                       rng.choice(("NONE", L.rand_uid(rng))), rng.choice(("NONE", L.rand_uid(rng)))],
                    body=rng.choice(L.bodies_for("utf_8", rng, 2))))
    if ctx.thorough:
        ctx.exhaustive.append("v2 quote style of the five OFX attributes x presence/quote of the three XML pseudo-attributes: all 864")
    # leading blank lines beyond the limit, and the limit itself
    for nlead in (7, 8, 9):
        cases.append(L.default_v1_case(leading=[""] * nlead))
        cases.append(L.default_v2_case(leading=[" "] * nlead))

    files = [L.render_file(c) for c in cases]
    replies = ctx.model.ask([line("hdr.parse", f) for f in files])
    spec_replies = ctx.model.ask([line("spec.renderfile", L.filespec_sexp(c), c["body"].encode(L.body_codec(c)))
                                  for c in cases])
    for c, f, rep, srep in zip(cases, files, replies, spec_replies):
        impl = L.impl_parse(f)
        model = L.model_parse_canon(rep)
        case = {"op": "hdr.parse", "file_hex": f.hex(), "layout": {k: v for k, v in c.items() if k != "body"},
                "body": c["body"]}
        ctx.stat(f"kind:{c['kind']}")
        ctx.stat("impl:" + impl[0] + (":" + impl[1] if impl[0] == "err" else ""))
        ctx.compare("hdr.parse", {"file_hex": f.hex()}, impl, model, nontrivial=(impl[0] == "ok"))
        ctx.sample({"case": {"file": f[:300].decode("latin_1")}, "impl": impl, "model": model})
        # the Lean renderer and its guards agree with the Python twins
        ctx.evaluations += 1
        tolerated = len(c["leading"]) <= 7
        if not (srep.ok and dbytes(srep.vals[0]) == f and dbool(srep.vals[1]) == tolerated):
            ctx.disagree("spec.renderfile-vs-reference", case, [f.hex(), tolerated], srep.raw)
        # ---- oracle ----
        if tolerated and impl != L.expected(c):
            tag, detail = L.classify_c05(c, impl)
            ctx.violate(tag, case, f"parse_header on a {c['kind']} file in a listed layout returned {impl!r:.200}, "
                        f"the file holds fields {L.expected(c)[1]} and body {c['body']!r:.80}", detail)
        elif not tolerated and impl[0] == "ok":
            pass  # more than seven leading blank lines: outside the property
    # OFXTree._read is the same function behind a file check
    for c, f in list(zip(cases, files))[:: max(1, len(cases) // ctx.budget(300, 3000))]:
        a, b = L.impl_parse(f), L.impl_parse(f, via_tree=True)
        ctx.evaluations += 1
        if a != b:
            ctx.violate("oftree_read_differs_from_parse_header", {"file_hex": f.hex()},
                        f"OFXTree._read -> {b!r:.120} but parse_header -> {a!r:.120}")

    # ================= 2. byte-level corruptions and trailing whitespace (correspondence only) =================
    mut = []
    pool = list(zip(cases, files))
    for _ in range(ctx.budget(3000, 60000)):
        c, f = rng.choice(pool)
        b = bytearray(f)
        k = rng.random()
        hdr_len = len(f) - len(c["body"].encode(L.body_codec(c)))
        if k < 0.35 and hdr_len > 0:      # replace one header byte
            i = rng.randrange(hdr_len)
            b[i] = rng.choice(b" \r\n\t:-_<>?\"'=AZaz09\x80\xe9\x1c\x0b") if rng.random() < 0.8 else rng.randrange(256)
        elif k < 0.55 and hdr_len > 0:    # delete one header byte
            del b[rng.randrange(hdr_len)]
        elif k < 0.7 and hdr_len > 0:     # insert
            b.insert(rng.randrange(hdr_len + 1), rng.choice(b" \r\n\tX9-_:\xa0"))
        elif k < 0.8:                     # truncate
            del b[rng.randrange(len(b) + 1):]
        elif k < 0.9:                     # trailing / leading whitespace around the file
            b = bytearray(rng.choice((b"", b"\n", b" \r\n"))) + b + bytearray(rng.choice((b"\n", b"\r\n\r\n", b" ", b"\x0c")))
        else:                             # body byte replaced (may break the declared encoding)
            if len(b) > hdr_len:
                b[rng.randrange(hdr_len, len(b))] = rng.choice(b"\x80\x81\x8d\x8f\x90\x9d\xa0\xc0\xc3\xe0\xed\xf4\xf5\xff\n<")
        mut.append(bytes(b))
    # adversarial adjacency: glued fields whose values contain the next field's name, garbage before the header
    base = L.default_v1_case(fl=[("", "none")] * 8, gap="")
    for old in ("NEWFILEUID", "XNEWFILEUID", "OLDFILEUID", "NEWFILEUIDNEWFILEUID", "COMPRESSION", "NONENEWFILEUID"):
        for sec in ("NONE", "ENCODING", "NONEENCODING"):
            c = dict(base); c["h"] = [100, "OFXSGML", 102, sec, "USASCII", "1252", "NONE", old, "NONE"]
            mut.append(L.render_file(c))
            c = dict(c); c["wc"] = False
            mut.append(L.render_file(c))
    for pre in (b"xx", b"OFXHEADER:1", b"\xef\xbb\xbf", b"garbage\n", b"<?xml?>", b"<?xml ?>", b" <?xml ?>\n"):
        mut.append(pre + files[0]); mut.append(pre + L.render_file(L.default_v2_case()))
    mut += [b"", b"\n" * 9, b"\n" * 7 + files[0], b"\n" * 8 + files[0], b"<?xml version='1.0\"?>" + files[-1]]
    for f, rep in zip(mut, ctx.model.ask([line("hdr.parse", f) for f in mut])):
        impl = L.impl_parse(f)
        if impl[0] == "ok" and not L.surrogate_free(impl[2]):
            continue
        ctx.stat("mut:" + impl[0] + (":" + impl[1] if impl[0] == "err" else ""))
        ctx.compare("hdr.parse", {"file_hex": f.hex()}, impl, L.model_parse_canon(rep), nontrivial=(impl[0] == "ok"))

    # ================= 3. regex-level =================
    texts = []
    seeds = [L.render_v1_text(c) + c["body"][:20] for c, _ in pool[:: max(1, len(pool) // 200)] if c["kind"] == "v1" and c["body"].isascii()]
    seeds += [L.render_v2_text(c) + "<OFX>" for c, _ in pool[:: max(1, len(pool) // 200)] if c["kind"] == "v2"]
    alphabet = " \r\n\t:-_<>?\"'=AZaz09.\x0b\x1c"
    for s in seeds:
        texts.append(s)
        for _ in range(ctx.budget(12, 60)):
            i = rng.randrange(len(s))
            k = rng.random()
            if k < 0.5:
                texts.append(s[:i] + rng.choice(alphabet) + s[i + 1:])
            elif k < 0.8:
                texts.append(s[:i] + s[i + 1:])
            else:
                texts.append(s[:i] + rng.choice(alphabet) + s[i:])
    texts += ["", "<?xml?>", "<?xml ?>", "<?xml  version='1.0' ?> x", "<?xml version=\"1.0'?>", "<?xml version=\"1.0\"encoding='a-b'standalone=\"no\"?>",
              "<?xml encoding=\"x\" version=\"1.0\"?>", " <?xml ?>", "<?xml\n?>", "<?xml version=\"\"?>", "<?xml version=\"1..0\"?>  \n"]
    re_lines, re_meta = [], []
    for s in texts:
        for which, pat, mode in (("v1", H.OFXHeaderV1.regex, "search"), ("v2", H.OFXHeaderV2.regex, "search"),
                                 ("xml", H.XML_REGEX, "match")):
            re_lines.append(line("hdr.re", Atom(which), Atom(mode), s)); re_meta.append((which, pat, mode, s))
    for (which, pat, mode, s), rep in zip(re_meta, ctx.model.ask(re_lines)):
        impl = _re_impl(pat, mode, s)
        model = _re_model(rep, None)
        if which == "xml":
            # only whether it matches is used by parse_header (groups differ in numbering: outer groups are not modelled)
            impl = ["ok", None if impl[1] is None else impl[1][1]]
            model = ["ok", None if model[1] is None else model[1][1]] if model[0] == "ok" else model
        ctx.stat(f"re:{which}:{'match' if impl[1] is not None else 'none'}")
        ctx.compare("hdr.re", {"which": which, "mode": mode, "text": s}, impl, model, nontrivial=(impl[1] is not None))

    # ================= 4. codec-level =================
    cod_lines, cod_meta = [], []
    def rb(n):
        return bytes(rng.randrange(256) for _ in range(n))
    samples = [bytes([x]) for x in range(256)]
    samples += [bytes([a, b]) for a in (0xC0, 0xC1, 0xC2, 0xDF, 0xE0, 0xED, 0xEF, 0xF0, 0xF4, 0xF5) for b in (0x7F, 0x80, 0x8F, 0x90, 0x9F, 0xA0, 0xBF, 0xC0)]
    samples += [bytes([a, b, c]) for a in (0xE0, 0xE1, 0xED, 0xEE, 0xEF, 0xF0, 0xF4) for b in (0x80, 0x8F, 0x90, 0x9F, 0xA0, 0xBF) for c in (0x7F, 0x80, 0xBF, 0xC0)]
    samples += [bytes([a, b, 0x80, c]) for a in (0xF0, 0xF1, 0xF4, 0xF5) for b in (0x80, 0x8F, 0x90, 0xBF) for c in (0x7F, 0x80, 0xBF, 0xC0)]
    for _ in range(ctx.budget(1500, 30000)):
        k = rng.random()
        if k < 0.4:
            samples.append(rb(rng.randrange(1, 6)))
        else:
            s = "".join(chr(rng.choice((rng.randrange(0x80), rng.randrange(0x80, 0x800), rng.randrange(0x800, 0xD800),
                                         rng.randrange(0xE000, 0x10000), rng.randrange(0x10000, 0x110000))))
                        for _ in range(rng.randrange(1, 5)))
            b = s.encode("utf_8")
            if k < 0.6 and len(b) > 1:
                b = b[:rng.randrange(1, len(b))]
            samples.append(b)
    for b in samples:
        for name in ("ascii", "latin_1", "cp1252", "utf_8"):
            cod_lines.append(line("hdr.decode", name, b)); cod_meta.append(("decode", name, b))
    strs = [chr(x) for x in list(range(0, 0x180)) + [0x2018, 0x20AC, 0x2122, 0x7FF, 0x800, 0xD7FF, 0xE000, 0xFFFF, 0x10000, 0x10FFFF]]
    for s in strs:
        for name in ("ascii", "latin_1", "cp1252", "utf_8"):
            cod_lines.append(line("hdr.encode", name, s)); cod_meta.append(("encode", name, s))
    for (op, name, x), rep in zip(cod_meta, ctx.model.ask(cod_lines)):
        if op == "decode":
            impl = run_impl(lambda: x.decode(name))
            impl = ["ok", impl[1]] if impl[0] == "ok" else ["err", impl[1]]
            model = ["ok", dstr(rep.vals[0])] if rep.ok else ["err", rep.err]
            case = {"codec": name, "bytes_hex": x.hex()}
        else:
            impl = run_impl(lambda: x.encode(name))
            impl = ["ok", impl[1].hex()] if impl[0] == "ok" else ["err", impl[1]]
            model = ["ok", dbytes(rep.vals[0]).hex()] if rep.ok else ["err", rep.err]
            case = {"codec": name, "text": x}
        ctx.stat(f"codec:{op}:{name}:{impl[0]}")
        ctx.compare("hdr." + op, case, impl, model, nontrivial=(impl[0] == "ok" and len(x) > 0))


def replay(ctx, data):
    case = data.get("case") or data.get("first_disagreement", {}).get("case")
    if "file_hex" in case:
        f = bytes.fromhex(case["file_hex"])
        print("replay parse_header on", f[:200], "->", L.impl_parse(f))
        print("model ->", L.model_parse_canon(ctx.model.ask1(line("hdr.parse", f))))
    else:
        print("replay: unsupported case", case)
