"""
C01 — serialize-then-parse returns the same model, for every class and wire form.

impl   = OFXClient.serialize(instance, version, oldfileuid, newfileuid, prettyprint, close_elements)
         then OFXTree().parse(BytesIO(bytes)); convert()
model  = Pipeline.writeFile / readFile (driver ops pipe.write, pipe.read): header + to_etree + indent +
         writer + utf-8, then parse_header + tokenizer/builder + from_etree
oracle = the property itself on the implementation: the read-back model is structurally equal to the
         original (date-times as instants to the millisecond, decimals in value and exponent, strings equal)
         and the header carries the version / UIDs written.
"""
import datetime
import decimal
import io
import xml.etree.ElementTree as ET

from codec import canon_inst, text
from proto import B, S, dbytes
from gen.instances import Gen, concrete_classes
from corr.agg_common import blame_class, quiet, model_ok_err
from framework import run_impl

RULE = ("every concrete class as root: generated valid instances (strings over printable incl. & < > quotes "
        "non-ASCII, decimals, UTC and offset date-times at ms and sub-ms resolution) x 6 wire forms "
        "(xml = version 2xx closed; sgml closed; sgml unclosed; each plain/pretty) x header versions; "
        "non-trivial and distinct by (class, instance, form, version)")

V1 = [102, 103, 151, 160]
V2 = [200, 201, 202, 203, 210, 211, 220]


def inst_equal(a, b, path="", out=None):
    """C01's structural equality; returns list of differences"""
    from ofxtools.models.base import Aggregate
    out = [] if out is None else out
    if type(a) is not type(b):
        out.append(f"{path}: class {type(a).__name__} vs {type(b).__name__}")
        return out
    da, db = a.__dict__, b.__dict__
    for k in sorted(set(da) | set(db)):
        va, vb = da.get(k), db.get(k)
        if isinstance(va, Aggregate) and isinstance(vb, Aggregate):
            inst_equal(va, vb, f"{path}.{k}", out)
        elif isinstance(va, datetime.datetime) and isinstance(vb, datetime.datetime):
            ra = va + datetime.timedelta(microseconds=500)
            ia = ra - datetime.timedelta(microseconds=ra.microsecond % 1000)
            if ia != vb:
                out.append(f"{path}.{k}: instant {va.isoformat()} read back as {vb.isoformat()}")
        elif isinstance(va, datetime.time) and isinstance(vb, datetime.time):
            def ms(t):
                off = t.utcoffset()
                us = ((t.hour * 60 + t.minute) * 60 + t.second) * 10 ** 6 + t.microsecond + 500
                us -= int(off.total_seconds() * 10 ** 6)
                return (us // 1000) % 86400000
            if ms(va) != (ms(vb) if vb.microsecond % 1000 else ((((vb.hour * 60 + vb.minute) * 60 + vb.second) * 1000 + vb.microsecond // 1000) - int(vb.utcoffset().total_seconds() * 1000)) % 86400000):
                out.append(f"{path}.{k}: time {va} read back as {vb}")
        elif isinstance(va, decimal.Decimal) and isinstance(vb, decimal.Decimal):
            if va.as_tuple() != vb.as_tuple():
                out.append(f"{path}.{k}: decimal {va!r} read back as {vb!r}")
        elif va != vb or type(va) is not type(vb):
            out.append(f"{path}.{k}: {va!r} read back as {vb!r}")
    la, lb = list(list.__iter__(a)), list(list.__iter__(b))
    if len(la) != len(lb):
        out.append(f"{path}: {len(la)} list members read back as {len(lb)}")
    for i, (x, y) in enumerate(zip(la, lb)):
        if isinstance(x, Aggregate) and isinstance(y, Aggregate):
            inst_equal(x, y, f"{path}[{i}]", out)
        elif x != y or type(x) is not type(y):
            out.append(f"{path}[{i}]: {x!r} read back as {y!r}")
    return out


def _only_renormalised(a, b):
    """every differing Decimal had exponent > 0 and reads back equal in value with exponent 0"""
    from ofxtools.models.base import Aggregate
    ok = True
    for k, va in a.__dict__.items():
        vb = b.__dict__.get(k)
        if isinstance(va, Aggregate) and isinstance(vb, Aggregate):
            ok = ok and _only_renormalised(va, vb)
        elif isinstance(va, decimal.Decimal) and isinstance(vb, decimal.Decimal) and va.as_tuple() != vb.as_tuple():
            ok = ok and va.as_tuple().exponent > 0 and vb.as_tuple().exponent == 0 and va == vb
    for x, y in zip(list.__iter__(a), list.__iter__(b)):
        if isinstance(x, Aggregate) and isinstance(y, Aggregate):
            ok = ok and _only_renormalised(x, y)
    return ok


def has_empty_aggregate(tree):
    """an aggregate (no text) element without children, anywhere"""
    for e in tree.iter():
        if len(e) == 0 and not e.text:
            return True
    return False


def hdr_canon(h):
    n = type(h).__name__
    if n == "OFXHeaderV1":
        return ["v1", str(h.ofxheader), S(h.data), str(h.version), S(h.security), S(h.encoding), S(h.charset),
                S(h.compression), S(h.oldfileuid), S(h.newfileuid)]
    return ["v2", str(h.version), str(h.ofxheader), S(h.security), S(h.oldfileuid), S(h.newfileuid)]


def run(ctx):
    from ofxtools.Client import OFXClient
    from ofxtools.Parser import OFXTree
    schema = ctx.schema
    rng = ctx.rng
    gen = Gen(schema, rng, max_depth=2)
    gen.p_posexp = 0.03
    gen.deep_entities = True   # instances holding literal entity spellings: escaping must be undone exactly once
    gen.p_tz = 0.35          # aware values with whole/fractional, positive/negative offsets: equality is by instant
    classes = concrete_classes(schema)
    client = OFXClient("https://example.com/ofx", userid="u")
    reps = ctx.budget(1, 10)
    forms = [(True, False), (True, True), (False, False), (False, True)]   # (close, pretty)
    lines_w, meta = [], []
    for c in classes:
        for _ in range(reps):
            d, inst = gen.valid_instance(c["name"])
            if d is None:
                continue
            combos = []
            for close, pretty in forms:
                combos.append((rng.choice(V1), close, pretty))
            for pretty in (False, True):
                combos.append((rng.choice(V2), True, pretty))
            if rng.random() < 0.1:
                combos.append((rng.choice(V2), False, False))      # refused
            for version, close, pretty in combos:
                old = rng.choice([None, None, "OLD-uid_1", "x" * 36])
                new = rng.choice([None, None, "NEW-uid_2", "y" * 36])
                r = quiet(client.serialize, inst, version=version, oldfileuid=old, newfileuid=new,
                          prettyprint=pretty, close_elements=close)
                lines_w.append("pipe.write %d %s %s %s %s %s" % (
                    version, "none" if old is None else "(some %s)" % S(old),
                    "none" if new is None else "(some %s)" % S(new), "T" if pretty else "F", "T" if close else "F",
                    text(canon_inst(inst))))
                meta.append((c["name"], inst, version, close, pretty, old, new, r))
    rep_w = ctx.model.ask(lines_w)
    lines_r, meta_r = [], []
    for (name, inst, version, close, pretty, old, new, r), rep in zip(meta, rep_w):
        form = ("xml" if version >= 200 else "sgml") + ("-closed" if close else "-unclosed") + ("-pretty" if pretty else "")
        case = {"cls": name, "form": form, "version": version, "old": old, "new": new}
        impl = ["ok", B(r[1])] if r[0] == "ok" else ["err"]
        model = model_ok_err(rep)
        ctx.stat("write:" + form + ":" + impl[0])
        ctx.compare("pipe.write", case, impl, model)
        if r[0] != "ok":
            if not (version >= 200 and not close):
                ctx.violate("valid_instance_not_written", case, f"{name}: serialize raised for a valid instance")
            continue
        data = r[1]
        case = dict(case, file=data.decode("utf-8", "replace")[:3000])

        def readback(b):
            t = OFXTree()
            t.parse(io.BytesIO(b))
            return t.header, t.convert()
        r2 = quiet(readback, data)
        lines_r.append("pipe.read " + B(data))
        meta_r.append((case, inst, r2, version, old, new, close))
    rep_r = ctx.model.ask(lines_r)
    for (case, inst, r2, version, old, new, close), rep in zip(meta_r, rep_r):
        impl = ["ok", hdr_canon(r2[1][0]), canon_inst(r2[1][1])] if r2[0] == "ok" else ["err"]
        model = ["ok", rep.vals[0], rep.vals[1]] if rep.ok else (["err"] if rep.kind == "err" else ["bad", rep.raw])
        ctx.stat("read:" + case["form"] + ":" + impl[0])
        ctx.compare("pipe.read", {k: v for k, v in case.items() if k != "file"} | {"file": case["file"][:600]}, impl, model)
        ctx.sample({"cls": case["cls"], "form": case["form"], "version": version, "impl": impl[0]}, limit=8)
        # ---- oracle: the property on the implementation ----
        empty_agg = (not close) and has_empty_aggregate(inst.to_etree())
        if r2[0] != "ok":
            ctx.violate("unclosed_empty_aggregate_no_end_tag" if empty_agg else "readback_rejected", case,
                        f"{case['cls']} ({case['form']}): the file the library wrote is rejected by its own reader",
                        {"form": case["form"], "empty_aggregate": empty_agg,
                         "cls": case["cls"] if empty_agg else blame_class(inst)})
            continue
        hdr, back = r2[1]
        diffs = inst_equal(inst, back)
        if diffs and all(": decimal " in x for x in diffs) and _only_renormalised(inst, back):
            ctx.violate("decimal_positive_exponent_renormalised", case,
                        f"{case['cls']}: a Decimal with positive exponent reads back numerically equal with exponent 0",
                        {"form": case["form"]})
        elif diffs:
            ctx.violate("unclosed_empty_aggregate_no_end_tag" if empty_agg else "readback_differs", case,
                        f"{case['cls']} ({case['form']}): read-back model differs: {diffs[:3]}",
                        {"form": case["form"], "empty_aggregate": empty_agg})
        if int(hdr.version) != version or (old and hdr.oldfileuid != old) or (new and hdr.newfileuid != new):
            ctx.violate("header_not_preserved", case, f"header read back as {hdr}")


def replay(ctx, data):
    print(data.get("case") or data.get("first_disagreement"))
