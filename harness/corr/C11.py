"""
C11 correspondence + oracle, leaf part: every text an element converter writes is lexically valid OFX for its type.

impl   = ofxtools.Types.<T>(params).unconvert on every value a model instance can hold (= every value .convert returns,
         for texts and for Python values of every type) and on directly supplied values
model  = lean/OfxModel/Ofx/Types.lean `unconvert` (driver op `unconv`)
oracle = the Lean spec `Ofx.Spec.Lex` (driver op `spec.lex`) and an independent Python regex reference
         (types_common.ref_lex), evaluated on the implementation's own outputs.

The wire-level part (serialized bytes: no raw '<', every '&' starts an entity) is added by the serializer layer:
`run(ctx)` calls `run_leaf(ctx)` and then `run_wire(ctx)` if a module `corr.C11_wire` exists.
"""
import decimal
import importlib

from codec import canon_val, text
from proto import S
import corr.types_common as tc
from corr.C10 import call, converters, describe, texts_for, values_for, build  # noqa: F401

D = decimal.Decimal

RULE = ("leaf part: every converter type x parameterisation (as in C10) x every value the converter accepts on read (texts "
        "and Python values of every type, Decimals over exponents -40..+40, normalised values, signed zeros, NaN/sNaN/"
        "Infinity, 26..30 digits; ints at 10^n-1/10^n, negative, bools; strings over entity spellings, markup, non-ASCII, "
        "at len = limit / limit+1) and directly supplied values; each text the implementation writes is judged by the Lean "
        "Lex spec and by an independent regex reference. Non-trivial = the implementation wrote a text; distinct by "
        "(converter, value).")


def lex_tag(kind, v, t):
    kn = tc.kname(kind)
    if kn == "decimal":
        if isinstance(v, D) and not v.is_finite():
            return "decimal_nonfinite_written"
        if "E" in t or "e" in t:
            return "decimal_exponent_notation"
        return "decimal_text_invalid"
    if kn == "integer":
        if type(v) is bool:
            return "integer_bool_text"
        return "integer_text_invalid"
    return f"lex_{kn}"


def run_leaf(ctx):
    rng = ctx.rng
    enums = (ctx.schema or {}).get("enums") or []
    convs = converters(ctx)
    n_txt = ctx.budget(160, 800)
    n_val = ctx.budget(160, 800)
    wrong = tc.wrong_type_values(rng)
    cases = []      # (conv, meta, kind, req, value held by an instance, provenance)
    for conv, meta in convs:
        kind, req = tc.kind_of(conv, enums)
        seen = set()
        inputs = list(texts_for(rng, conv, n_txt)) + list(values_for(rng, conv, n_val)) + rng.sample(wrong, 12)
        for x in inputs:
            r, _ = call(conv.convert, x)
            if r[0] == "ok":
                v, how = r[1], "convert(%r)" % (x,)
            elif not isinstance(x, str):
                v, how = x, "direct"          # refused on read: must be refused on write too, or written validly
            else:
                continue
            key = text(canon_val(v)) if not (isinstance(v, str) and tc.has_surrogate(v)) else None
            if key is None or key in seen:
                continue
            seen.add(key)
            cases.append((conv, meta, kind, req, v, how))
    lines = [tc.conv_line("unconv", kind, req, canon_val(v)) for conv, meta, kind, req, v, how in cases]
    replies = ctx.model.ask(lines)
    lex_lines, lex_for = [], []
    for (conv, meta, kind, req, v, how), rep in zip(cases, replies):
        r, _ = call(conv.unconvert, v)
        impl = tc.canon_result(r)
        model = tc.model_result(rep)
        case = {"conv": describe(conv, meta), "op": "unconvert", "value": repr(v), "from": how}
        kn = tc.kname(kind)
        ctx.stat(f"type:{kn}")
        ctx.stat(f"unconvert:{impl[0]}")
        cv = canon_val(v)
        if tc.value_in_model_domain(kind, v) and not (isinstance(cv, list) and cv[0] == "o" and impl[0] == "ok"):
            ctx.compare("unconvert", case, impl if impl[0] == "ok" else ["err"], model if model[0] != "err" else ["err"],
                        nontrivial=(impl[0] == "ok" and impl[1] != "none"))
        ctx.sample({"case": case, "impl": impl, "model": model})
        if r[0] != "ok" or r[1] is None:
            continue
        t = r[1]
        if not isinstance(t, str):
            ctx.violate(f"writes_non_text_{kn}", case, f"unconvert({v!r}) -> {t!r}, not a text")
            continue
        ok = tc.ref_lex(kind, t, enums)
        if ok is False:
            ctx.violate(lex_tag(kind, v, t), case, f"unconvert({v!r}) -> {t!r} which is not lexically valid for {text(tc.base_kind(kind))}")
        if ok is not None and not tc.has_surrogate(t):
            lex_lines.append("spec.lex " + text(kind) + " " + S(t)); lex_for.append((case, t, ok))
    # the Lean Lex spec must agree with the regex reference: on what was written, and on a stream of arbitrary texts
    for conv, meta in convs:
        kind, req = tc.kind_of(conv, enums)
        for _ in range(ctx.budget(30, 200)):
            kn = tc.kname(kind)
            t = (tc.gen_int_text(rng) if kn == "integer" else tc.gen_dec_text(rng) if kn == "decimal"
                 else rng.choice(("Y", "N", "y", "", "YN", " Y")) if kn == "bool" else rng.choice(texts_for(rng, conv, 3)))
            ok = tc.ref_lex(kind, t, enums)
            if ok is not None:
                lex_lines.append("spec.lex " + text(kind) + " " + S(t)); lex_for.append(({"kind": text(kind), "text": t}, t, ok))
    for (case, t, ok), rep in zip(lex_for, ctx.model.ask(lex_lines)):
        ctx.stat("spec.lex")
        ctx.compare("spec.lex", {"case": case, "text": t}, "T" if ok else "F", rep.vals[0] if rep.ok else rep.raw, nontrivial=ok)


def run_fixed_witnesses(ctx):
    """witnesses of the C11 leaf findings recorded as fixed: must pass on every run"""
    from ofxtools import Types as T
    from framework import run_impl
    for v in (D("1E+2"), D("0E-7"), D("1.5E-7"), D("-0E+2"), D("NaN"), D("sNaN"), D("Infinity"), D("-Infinity")):
        r = run_impl(T.Decimal().unconvert, v)
        case = {"conv": {"ctor": ["Decimal", []], "required": False}, "op": "unconvert", "value": repr(v)}
        if r[0] == "ok" and not tc.ref_lex(["decimal", "none"], r[1]):
            ctx.violate(lex_tag(["decimal", "none"], v, r[1]), case, f"Decimal().unconvert({v!r}) -> {r[1]!r}")
        ctx.evaluations += 1
    for b in (True, False):
        r = run_impl(T.Integer().unconvert, b)
        if r[0] == "ok":
            ctx.violate("integer_bool_text", {"conv": {"ctor": ["Integer", []], "required": False}, "op": "unconvert",
                                              "value": repr(b)}, f"Integer().unconvert({b}) -> {r[1]!r}")
        ctx.evaluations += 1


def run(ctx):
    run_leaf(ctx)
    run_fixed_witnesses(ctx)
    try:
        wire = importlib.import_module("corr.C11_wire")
    except ImportError:
        ctx.notes.append("wire-level part (corr/C11_wire.py) not present: leaf part only")
        return
    wire.run_wire(ctx)


def replay(ctx, data):
    from corr.C10 import replay as r10
    r10(ctx, data)
