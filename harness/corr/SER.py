from corr.serialize import *  # noqa: F401,F403
from corr.serialize import RULE, run, replay  # noqa: F401
