"""
Shared by corr/C05.py and corr/C12.py: canonicalisation of header objects, protocol encodings of the header ops,
an independent Python renderer of file layouts (twin of lean/OfxModel/Spec/HeaderLayout.lean), generators.
"""
import io

from framework import run_impl
from proto import line, opt, dstr, dbytes, dbool, Atom

V1_NAMES = ["OFXHEADER", "DATA", "VERSION", "SECURITY", "ENCODING", "CHARSET", "COMPRESSION", "OLDFILEUID", "NEWFILEUID"]
V2_NAMES = ["OFXHEADER", "VERSION", "SECURITY", "OLDFILEUID", "NEWFILEUID"]
SEPS = {"crlf": "\r\n", "lf": "\n", "cr": "\r", "none": ""}
UIDCHARS = "ABCDEFGHIJKLMNOPQRSTUVWXYZabcdefghijklmnopqrstuvwxyz0123456789_-"
ASCII_WS = "\t\n\x0b\x0c\r\x1c\x1d\x1e\x1f "


# ---------- canonical forms ----------
def canon_hdr(h):
    n = type(h).__name__
    if n == "OFXHeaderV1":
        return ["v1", h.ofxheader, h.data, h.version, h.security, h.encoding, h.charset, h.compression,
                h.oldfileuid, h.newfileuid]
    if n == "OFXHeaderV2":
        return ["v2", h.version, h.ofxheader, h.security, h.oldfileuid, h.newfileuid]
    return ["?", n]


def model_hdr(v):
    """protocol list -> canonical list"""
    if v[0] == "v1":
        return ["v1", int(v[1]), dstr(v[2]), int(v[3])] + [dstr(x) for x in v[4:]]
    if v[0] == "v2":
        return ["v2", int(v[1]), int(v[2])] + [dstr(x) for x in v[3:]]
    return ["?", v]


def impl_parse(b, via_tree=False):
    from ofxtools import header as H
    if via_tree:
        from ofxtools.Parser import OFXTree
        r = run_impl(lambda: OFXTree._read(io.BytesIO(b)))
    else:
        r = run_impl(lambda: H.parse_header(io.BytesIO(b)))
    if r[0] == "ok":
        h, body = r[1]
        return ["ok", canon_hdr(h), body]
    return ["err", r[1]]


def model_parse_canon(rep):
    if rep.kind == "ok":
        return ["ok", model_hdr(rep.vals[0]), dstr(rep.vals[1])]
    if rep.kind == "err":
        return ["err", rep.err]
    return ["bad", rep.raw]


def arg(v):
    if v is None:
        return None
    if isinstance(v, bool):
        raise TypeError("bool args are outside the model")
    if isinstance(v, int):
        return [Atom("int"), v]
    return [Atom("str"), v]


def hdr_sexp(c):
    """canonical list -> protocol value"""
    return [Atom(c[0])] + list(c[1:])


def surrogate_free(s):
    return not any(0xD800 <= ord(c) <= 0xDFFF for c in s)


# ---------- independent renderer ----------
def render_v1_text(case):
    """case: dict(kind='v1', leading=[..], indent, fl=[(blank, sepname)]*8, newblank, gap, h=[9 values], wc=bool)"""
    h = case["h"]
    vals = [str(h[0]), h[1], str(h[2])] + list(h[3:])
    out = "".join(l + "\n" for l in case["leading"]) + case["indent"]
    for i, name in enumerate(V1_NAMES[:8]):
        if name == "COMPRESSION" and not case["wc"]:
            continue
        blank, sep = case["fl"][i]
        out += name + ":" + blank + vals[i] + SEPS[sep]
    out += "NEWFILEUID:" + case["newblank"] + vals[8] + case["gap"]
    return out


def render_v2_text(case):
    """case: dict(kind='v2', leading, xq=[q|None]*3, xs=[4 strs], afterxml, s=[5 strs], q=[5 of 'dq'/'sq'],
    beforeclose, gap, h=[ver, oh, sec, old, new])"""
    qc = {"dq": '"', "sq": "'"}
    h = case["h"]
    out = "".join(l + "\n" for l in case["leading"]) + "<?xml" + case["xs"][0]
    for i, (nm, val) in enumerate((("version", "1.0"), ("encoding", "UTF-8"), ("standalone", "no"))):
        q = case["xq"][i]
        if q is not None:
            out += nm + "=" + qc[q] + val + qc[q]
        out += case["xs"][i + 1]
    out += "?>" + case["afterxml"] + "<?OFX"
    vals = [str(h[1]), str(h[0]), h[2], h[3], h[4]]
    for i, name in enumerate(V2_NAMES):
        out += case["s"][i] + name + "=" + qc[case["q"][i]] + vals[i] + qc[case["q"][i]]
    out += case["beforeclose"] + "?>" + case["gap"]
    return out


# the character sets the property names, independent of the implementation's own table
CHARSET_CODEC = {"ISO-8859-1": "latin_1", "1252": "cp1252", "NONE": "utf_8"}


def body_codec(case):
    if case["kind"] == "v2":
        return "utf_8"
    return CHARSET_CODEC[case["h"][5]]


def render_file(case):
    text = render_v1_text(case) if case["kind"] == "v1" else render_v2_text(case)
    return text.encode("ascii") + case["body"].encode(body_codec(case))


def filespec_sexp(case):
    if case["kind"] == "v1":
        return [Atom("v1"), list(case["leading"]), case["indent"]] + \
               [[b, Atom(s)] for b, s in case["fl"]] + \
               [case["newblank"], case["gap"], hdr_sexp(["v1"] + list(case["h"])), bool(case["wc"])]
    return [Atom("v2"), list(case["leading"]), [opt(Atom(q)) if q else None for q in case["xq"]], list(case["xs"]),
            case["afterxml"], list(case["s"]), [Atom(q) for q in case["q"]], case["beforeclose"], case["gap"],
            hdr_sexp(["v2"] + list(case["h"]))]


def expected(case):
    if case["kind"] == "v1":
        return ["ok", ["v1"] + list(case["h"]), case["body"]]
    return ["ok", ["v2"] + list(case["h"]), case["body"]]


# ---------- layout predicates (Python twins of the Lean guards; cross-checked against spec.renderfile) ----------
def v1_header_has_lf(case):
    for i, (b, s) in enumerate(case["fl"]):
        if V1_NAMES[i] == "COMPRESSION" and not case["wc"]:
            continue
        if s in ("crlf", "lf"):
            return True
    return False


def first_lines(b, n):
    out = b""
    for _ in range(n):
        i = b.find(b"\n")
        if i < 0:
            out += b
            b = b""
        else:
            out += b[:i + 1]
            b = b[i + 1:]
    return out


def v1_header_lines_ascii(case):
    lead = "".join(l + "\n" for l in case["leading"]).encode("ascii")
    data = render_file(case)[len(lead):]
    return all(x < 128 for x in first_lines(data, 9))


def guard(case):
    if case["kind"] == "v1":
        return (not (v1_header_has_lf(case) and case["gap"] == "")) and v1_header_lines_ascii(case)
    return all(q == "dq" for q in case["q"]) and v2_first_line_ascii(case)


def v2_first_line_ascii(case):
    lead = "".join(l + "\n" for l in case["leading"]).encode("ascii")
    return all(x < 128 for x in first_lines(render_file(case)[len(lead):], 1))


def classify_c05(case, impl):
    """tag of a C05 failure (impl != expected)"""
    exp = expected(case)
    if case["kind"] == "v1":
        glued = v1_header_has_lf(case) and case["gap"] == ""
        if glued and impl[0] == "ok" and impl[1] == exp[1] and impl[2] == case["body"][1:]:
            return "v1_multiline_glued_body_offset", {"glued": True}
        if impl == ["err", "unicode"] and not v1_header_lines_ascii(case):
            return "v1_oneline_nonascii_body", {"header_lines_ascii": False}
        pre = "v1"
    else:
        if impl == ["err", "header"] and any(q == "sq" for q in case["q"]):
            return "v2_ofx_declaration_single_quotes_refused", {"single_quotes": True}
        if impl == ["err", "unicode"] and not v2_first_line_ascii(case):
            return "v2_first_line_nonascii_body", {"first_line_ascii": False}
        pre = "v2"
    if impl[0] == "err":
        return f"{pre}_valid_file_raises_{impl[1]}", {}
    if impl[1] != exp[1]:
        return f"{pre}_header_fields_differ", {}
    return f"{pre}_body_differs", {}


# ---------- pools ----------
def default_v1_case(**kw):
    c = dict(kind="v1", leading=[], indent="", fl=[("", "crlf")] * 8, newblank="", gap="\r\n\r\n",
             h=[100, "OFXSGML", 102, "NONE", "USASCII", "1252", "NONE", "NONE", "NONE"], wc=True,
             body="<OFX></OFX>")
    c.update(kw)
    return c


def default_v2_case(**kw):
    c = dict(kind="v2", leading=[], xq=["dq", "dq", "dq"], xs=[" ", " ", " ", ""], afterxml="\r\n",
             s=[" "] * 5, q=["dq"] * 5, beforeclose="", gap="\r\n", h=[220, 200, "NONE", "NONE", "NONE"],
             body="<OFX></OFX>")
    c.update(kw)
    return c


def bodies_for(codec, rng, n=3):
    """bodies starting with '<', ending with '>', encodable in `codec`"""
    base = ["<OFX></OFX>", "<OFX>\r\n<A>1\r\n</OFX>", "<OFX>\n\n<A> x </A>\n</OFX>", "<>",
            "<OFX>" + "".join("<L>%d\n" % i for i in range(12)) + "</OFX>"]
    if codec == "latin_1":
        sp = ["<OFX><N>caf\xe9 \x80\x9f\xa0\xff</OFX>", "<A>\x85\n\xa0</A>", "<A>\n\n\n\xe9</A>"]
    elif codec == "cp1252":
        sp = ["<OFX><N>caf\xe9 €Ÿ’\xa0\xff</OFX>", "<A>…\n\xa0</A>", "<A>\n\n\nœ</A>"]
    else:
        sp = ["<OFX><N>caf\xe9 € \U0001F4A9 漢字 \x80\x9f\xa0\xff퟿\U0010ffff</OFX>",
              "<A>\x85\n \xa0</A>", "<A>\n\n\n߿ࠀ￿\U00010000</A>"]
    pool = base + sp
    out = [rng.choice(sp)]
    while len(out) < n:
        out.append(rng.choice(pool))
    return out


def rand_uid(rng, n=None):
    n = n if n is not None else rng.choice((1, 2, 8, 35, 36))
    return "".join(rng.choice(UIDCHARS) for _ in range(n))
