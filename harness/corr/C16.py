"""
C16 — shortcuts and flat attribute access agree with the full path; misses are clean.

impl   = getattr / hasattr / getattr-with-default on real instances (and on half-built instances with an empty or
         partial __dict__, which is what copy/pickle probe), every shortcut property, copy.copy / copy.deepcopy /
         pickle round trips
model  = Ofx.Getattr.getattr over the generated schema and the property table extracted from the getters' source
         (driver ops `getattrs`, `shortcut`, `probes`); ok value or error KIND is compared (AttributeError vs KeyError
         is the property)
oracle = on the implementation's own results, independent of the model:
         * proxy: an independent walk of the real instance (sub-aggregate fields only) finds the aggregates whose
           class declares the name; exactly one -> the result must be (`is`) the object stored there;
         * miss: a name that neither the class, nor a descendant, nor a property defines must raise AttributeError
           (on every dict state), hasattr must answer False, getattr-with-default the default;
         * shortcuts: a hand-written table of the documented shortcuts is walked on the real objects; the result must
           be the very objects (`is`), every one once, in document order; the Lean `Spec.documentedWalk` must agree;
         * copy / deepcopy / pickle must succeed and reproduce an equal model (canonical form).
copy protocol (EXT-C16, model Ofx.CopyProto, driver ops `copy.all`, `copy.pinned`, `copy.schemaquiet`):
impl   = x.__reduce_ex__(p) for p = 0..5 (callable, class, third argument of _reconstructor, state dict or None, list
         iterator), copy.copy, copy.deepcopy, pickle.loads(pickle.dumps(x, p)) for p = 0..5, on full instances and on
         half-built ones (cls.__new__(cls): empty / partial __dict__, members in place)
model  = reduceEx / copyNode / deepcopyNode / pickleRoundtrip over Getattr.getattr; the theorems' premise
         (probesUndefined && dictsWF, instQuiet) is evaluated on the same instance and compared with an independent walk
oracle = the clone has the same class, is structurally equal (canon_inst) and is a distinct object; copy.copy shares every
         child (dict values and members), deepcopy / pickle share no aggregate with the original
replay = with Aggregate.__getattr__ as it was before 0f0930a (installed for the duration of the call), the real
         copy/deepcopy/pickle fail exactly where the model over `getattrPinned` fails (ties the negative twin)
"""
import copy
import copyreg
import hashlib
import pickle
import xml.etree.ElementTree as ET

import codec
from codec import canon_inst, canon_val, text
from proto import S, dstr
from gen.instances import Gen, concrete_classes
from framework import run_impl

RULE = ("every concrete class x generated instances (optional parts present with p=1/2, 0-3 list members; message sets "
        "and OFX roots built with random mixtures of statement / closing-statement / other wrappers) x names: own spec "
        "attributes (all kinds), every shortcut property, names declared by non-repeated descendants, names declared only "
        "inside list members, undefined names, the dunder probes of copy/pickle that reach __getattr__; the same on "
        "half-built instances (empty and partial __dict__); copy/deepcopy/pickle of every instance; non-trivial and "
        "distinct by (class, instance digest, name)")

PROBES = ["__deepcopy__", "__setstate__", "__slots__", "__copy__", "__getnewargs__", "__getnewargs_ex__",
          "__getinitargs__", "__reduce_special__"]
UNDEFINED = ["nope", "xyzzy", "statementz", "no_such_attr", "_private", "balance_", "STATUS", "trnuid2", "x"]

# ------------------------------------------------------------------------------------------- documented shortcuts
WRAPPERS = {
    "BANKMSGSRQV1": [("STMTTRNRQ", "stmtrq"), ("STMTENDTRNRQ", "stmtendrq")],
    "BANKMSGSRSV1": [("STMTTRNRS", "stmtrs"), ("STMTENDTRNRS", "stmtendrs")],
    "CREDITCARDMSGSRQV1": [("CCSTMTTRNRQ", "ccstmtrq"), ("CCSTMTENDTRNRQ", "ccstmtendrq")],
    "CREDITCARDMSGSRSV1": [("CCSTMTTRNRS", "ccstmtrs"), ("CCSTMTENDTRNRS", "ccstmtendrs")],
    "INVSTMTMSGSRQV1": [("INVSTMTTRNRQ", "invstmtrq")],
    "INVSTMTMSGSRSV1": [("INVSTMTTRNRS", "invstmtrs")],
}
OFX_MSGS = ["bankmsgsrqv1", "creditcardmsgsrqv1", "invstmtmsgsrqv1", "bankmsgsrsv1", "creditcardmsgsrsv1",
            "invstmtmsgsrsv1"]
ALIASES = {
    ("STMTRS", "account"): "bankacctfrom", ("STMTRS", "transactions"): "banktranlist", ("STMTRS", "balance"): "ledgerbal",
    ("CCSTMTRS", "account"): "ccacctfrom", ("CCSTMTRS", "transactions"): "banktranlist", ("CCSTMTRS", "balance"): "ledgerbal",
    ("INVSTMTRS", "account"): "invacctfrom", ("INVSTMTRS", "transactions"): "invtranlist",
    ("INVSTMTRS", "positions"): "invposlist", ("INVSTMTRS", "balances"): "invbal",
    ("STMTTRNRS", "statement"): "stmtrs", ("CCSTMTTRNRS", "statement"): "ccstmtrs",
    ("INVSTMTTRNRS", "statement"): "invstmtrs", ("CCSTMTENDTRNRS", "statement"): "ccstmtendrs",
    ("PROFTRNRS", "profile"): "profrs",
}
STD_PROPS = {"elements", "listaggregates", "listelements", "spec", "spec_no_listaggregates", "subaggregates", "unsupported"}


def members(x):
    return list(list.__iter__(x))


def stmts_of_msgs(msgs):
    """documented: every wrapped statement of the message set, once, in document order"""
    out = []
    wr = WRAPPERS[type(msgs).__name__]
    for m in members(msgs):
        for cn, attr in wr:
            if type(m).__name__ == cn:
                s = m.__dict__.get(attr)
                if s is not None:
                    out.append(s)
    return out


def py_walk(inst, prop):
    """-> ('node', obj) | ('list', [objs]) | ('str', s) | None (nothing documented for this state)"""
    cn = type(inst).__name__
    d = inst.__dict__
    if (cn, prop) in ALIASES:
        return ("node", d.get(ALIASES[(cn, prop)]))
    if cn in WRAPPERS and prop == "statements":
        return ("list", stmts_of_msgs(inst))
    if cn == "OFX" and prop == "statements":
        out = []
        for a in OFX_MSGS:
            m = d.get(a)
            if m is not None:
                out.extend(stmts_of_msgs(m))
        return ("list", out)
    if cn == "OFX" and prop == "securities":
        m = d.get("seclistmsgsrsv1")
        out = []
        if m is not None:
            for ch in members(m):
                if type(ch).__name__ == "SECLIST":
                    out.extend(members(ch))
        return ("list", out)
    if cn == "SECLISTMSGSRSV1" and prop == "securities":
        out = []
        for ch in members(inst):
            if type(ch).__name__ == "SECLIST":
                out.extend(members(ch))
        return ("list", out)
    if cn == "OFX" and prop == "signon":
        if d.get("signonmsgsrqv1") is not None:
            return ("node", d["signonmsgsrqv1"].__dict__.get("sonrq"))
        if d.get("signonmsgsrsv1") is not None:
            return ("node", d["signonmsgsrsv1"].__dict__.get("sonrs"))
        return None
    if cn == "SONRS" and prop in ("org", "fid"):
        fi = d.get("fi")
        return None if fi is None else ("node", fi.__dict__.get(prop))
    if prop in ("curtype", "cursym", "currate"):
        cur = d.get("currency")
        if cur is None:
            cur = d.get("origcurrency")
        if cur is None:
            return ("node", None)
        if prop == "curtype":
            return ("str", type(cur).__name__)
        return ("node", cur.__dict__.get(prop))
    return None


# ------------------------------------------------------------------------------------------- helpers
def canon_res(v):
    from ofxtools.models.base import Aggregate
    if isinstance(v, list) and not isinstance(v, Aggregate):
        return ["list"] + [canon_val(x) for x in v]
    return ["node", canon_val(v)]


def impl_getattr(x, name):
    r = run_impl(getattr, x, name)
    return (["ok", canon_res(r[1])] if r[0] == "ok" else ["err", r[1]]), r


def digest(t):
    return hashlib.sha1(t.encode()).hexdigest()[:12]


def tree_text(x):
    try:
        return ET.tostring(x.to_etree(), encoding="unicode")[:2500]
    except Exception as e:  # noqa
        return f"<unserialisable {type(x).__name__}: {e!r}>"


class Env:
    def __init__(self, ctx):
        from ofxtools.models.base import Aggregate
        self.ctx = ctx
        self.Aggregate = Aggregate
        self.schema = ctx.schema
        self.by_name = {c["name"]: c for c in self.schema["classes"]}
        self.excluded = set(dir(Aggregate)) | set(dir(None))
        self.props = {c["name"]: sorted(set(c.get("props", [])) - STD_PROPS) for c in self.schema["classes"]}
        self.all_props = set(p for ps in self.props.values() for p in ps)
        self.all_names = set(a["name"] for c in self.schema["classes"] for a in c["spec"]) | self.all_props
        self.undefined = [n for n in UNDEFINED + PROBES if n not in self.excluded and n not in self.all_names]

    def spec(self, x):
        c = self.by_name.get(type(x).__name__)
        return c["spec"] if c else []

    def declares(self, x, name):
        """class of x declares `name` as a non-repeated child"""
        return any(a["name"] == name and a["k"] not in ("listagg", "listelem") for a in self.spec(x))

    def subs(self, x):
        """(attr name, sub-aggregate) in spec order, through sub-aggregate fields that hold an aggregate"""
        out = []
        for a in self.spec(x):
            if a["k"] in ("sub", "listagg"):
                v = x.__dict__.get(a["name"])
                if isinstance(v, self.Aggregate):
                    out.append((a["name"], v))
        return out

    def definers(self, x, name, path=()):
        """independent walk: [(path, holder)] depth-first, spec order, self first"""
        out = []
        if any(a["name"] == name and a["k"] in ("listagg", "listelem") for a in self.spec(x)):
            return out       # a repeated child of that name: not stored under its name, and the search stops here
        if self.declares(x, name):
            out.append((list(path), x))
        for an, v in self.subs(x):
            out.extend(self.definers(v, name, path + (an,)))
        return out

    def prop_below(self, x, name):
        if name in self.props.get(type(x).__name__, ()):
            return True
        return any(self.prop_below(v, name) for _, v in self.subs(x))

    def stray_below(self, x, name):
        """an instance attribute outside the spec (stapled by a getter) somewhere on the non-repeated path"""
        if name in x.__dict__ and not any(a["name"] == name for a in self.spec(x)):
            return True
        return any(self.stray_below(v, name) for _, v in self.subs(x))

    def names_below(self, x, acc, lists_acc, top=True, in_list=False):
        tgt = lists_acc if in_list else acc
        if not top:
            for a in self.spec(x):
                tgt.add(a["name"])
            tgt.update(self.props.get(type(x).__name__, ()))
        for _, v in self.subs(x):
            self.names_below(v, acc, lists_acc, False, in_list)
        for m in members(x):
            if isinstance(m, self.Aggregate):
                self.names_below(m, acc, lists_acc, False, True)


# ------------------------------------------------------------------------------------------- oracles
def check_lookup(env, x, name, r, case, state="full"):
    """the property's oracle on one implementation result r = ('ok', v) | ('err', kind)"""
    ctx = env.ctx
    cn = type(x).__name__
    own = [a for a in env.spec(x) if a["name"] == name]
    if own or name in env.props.get(cn, ()):
        return           # direct access / shortcut: handled elsewhere
    if env.prop_below(x, name) or env.stray_below(x, name):
        return           # a property below: compared with the model only
    ds = env.definers(x, name)
    has_list = any(a["k"] == "listagg" for a in env.spec(x))
    if not ds:
        # nothing defines it: AttributeError, whatever the dict state
        if r[0] == "ok":
            inlist = any(True for m in members(x) if isinstance(m, env.Aggregate) and
                         (env.definers(m, name) or name in m.__dict__))
            ctx.violate("miss_returns_value", dict(case, tree=tree_text(x)),
                        f"{cn}: undefined name {name!r} is readable" + (" (proxied into a list member)" if inlist else ""),
                        {"via_list_member": inlist})
        elif r[1] != "attr":
            ctx.violate("miss_not_attributeerror", dict(case, tree=tree_text(x)),
                        f"{cn}: looking up the undefined name {name!r} raises {r[1]} instead of AttributeError "
                        f"(dict state: {state})", {"kind": r[1]})
    elif len(ds) == 1 and state == "full":
        path, holder = ds[0]
        unsupported = any(a["name"] == name and a["k"] == "unsupported" for a in env.spec(holder))
        want = None if unsupported else holder.__dict__.get(name, KeyError)
        if want is KeyError:
            return
        if r[0] != "ok":
            ctx.violate("proxy_unreadable", dict(case, tree=tree_text(x), path=path),
                        f"{cn}: {name!r} is defined only at {'.'.join(path)} but reading it raises {r[1]}", {"kind": r[1]})
        elif r[1] is not want:
            ctx.violate("proxy_wrong_value", dict(case, tree=tree_text(x), path=path),
                        f"{cn}: {name!r} read on the instance is not the object stored at {'.'.join(path)}",
                        {"equal": canon_val(r[1]) == canon_val(want)})


def classify_list(got, want):
    ids_g, ids_w = [id(o) for o in got], [id(o) for o in want]
    if ids_g == ids_w:
        return None
    if sorted(ids_g) == sorted(ids_w):
        return "shortcut_wrong_order"
    it = iter(ids_w)
    if len(ids_g) < len(ids_w) and all(any(g == w for w in it) for g in ids_g):
        return "shortcut_drops_object"
    if len(got) == len(want) and all(canon_val(a) == canon_val(b) for a, b in zip(got, want)):
        return "shortcut_returns_copy"
    return "shortcut_wrong_objects"


def check_shortcut(env, x, prop, r, case):
    ctx = env.ctx
    cn = type(x).__name__
    want = py_walk(x, prop)
    if want is None:
        return
    detail = {"cls": cn, "prop": prop}
    if r[0] != "ok":
        ctx.violate("shortcut_raises", dict(case, tree=tree_text(x)), f"{cn}.{prop} raises {r[1]}", dict(detail, kind=r[1]))
        return
    v = r[1]
    tag = None
    if want[0] == "list":
        if not isinstance(v, list) or isinstance(v, env.Aggregate):
            tag = "shortcut_wrong_objects"
        else:
            tag = classify_list(v, want[1])
    elif want[0] == "node":
        if v is not want[1]:
            tag = "shortcut_returns_copy" if canon_val(v) == canon_val(want[1]) else "shortcut_wrong_object"
    else:
        if v != want[1]:
            tag = "shortcut_wrong_object"
    if tag:
        ctx.violate(tag, dict(case, tree=tree_text(x)),
                    f"{cn}.{prop} is not the objects found by walking the full path ({tag})", detail)


def check_copies(env, x, case, lines, meta):
    """copy / deepcopy / pickle must work and reproduce an equal model; model: all probes answer AttributeError"""
    ctx = env.ctx
    cn = type(x).__name__
    before = canon_inst(x)
    ok_all = True
    ops = [("copy", copy.copy), ("deepcopy", copy.deepcopy),
           ("pickle", lambda o: pickle.loads(pickle.dumps(o))),
           ("pickle2", lambda o: pickle.loads(pickle.dumps(o, 2))),
           ("pickle0", lambda o: pickle.loads(pickle.dumps(o, 0)))]
    for op, f in ops:
        r = run_impl(f, x)
        ctx.stat("copy:" + op)
        if r[0] != "ok":
            ok_all = False
            ctx.violate(op.rstrip("02") + "_raises", dict(case, op=op, tree=tree_text(x)),
                        f"{op} of a {cn} instance raises {r[1]}", {"kind": r[1]})
        elif type(r[1]) is not type(x) or canon_inst(r[1]) != before:
            ctx.violate(op.rstrip("02") + "_not_equal", dict(case, op=op, tree=tree_text(x)),
                        f"{op} of a {cn} instance does not reproduce an equal model", {})
        elif op == "copy" and any(a is not b for a, b in zip(r[1].__dict__.values(), x.__dict__.values())):
            ctx.violate("copy_not_shallow", dict(case, op=op), f"copy.copy of {cn} copied the children", {})
    if canon_inst(x) != before:
        ctx.violate("copy_mutates", case, f"copying a {cn} instance changed it", {})
    lines.append("probes " + text(before))
    meta.append(("probes", case, ok_all, x))


# ------------------------------------------------------------------------------------------- copy protocol (model)
COPY_PROBES = ["__deepcopy__", "__setstate__", "__slots__"]


def _rel(orig, e):
    """mirror of Drv.CopyProto.rel: what is the instance's own dict / member list / the instance itself -> `same`"""
    return "same" if e == orig else e


def _opt(v, f):
    return "none" if v is None else ["some", f(v)]


def canon_reduce(x, p, fields_c, items_c):
    """x.__reduce_ex__(p) -> (ok (func cls base state listitems)) | (err kind)"""
    r = run_impl(x.__reduce_ex__, p)
    if r[0] != "ok":
        return ["err", r[1]]
    rv = r[1]
    idx = codec.class_index()
    if not isinstance(rv, tuple) or len(rv) < 2:
        return ["ok", ["unexpected", type(rv).__name__]]
    func, args = rv[0], rv[1]
    state = rv[2] if len(rv) > 2 else None
    listit = rv[3] if len(rv) > 3 else None
    dictit = rv[4] if len(rv) > 4 else None
    if func is copyreg._reconstructor and len(args) == 3 and args[1] is list and isinstance(args[2], list):
        fname, cls, base = "reconstructor", args[0], args[2]
    elif func is copyreg.__newobj__ and len(args) == 1:
        fname, cls, base = "newobj", args[0], []
    else:
        return ["ok", ["unexpected", getattr(func, "__name__", "?"), str(len(args))]]
    if dictit is not None or (state is not None and not isinstance(state, dict)):
        return ["ok", ["unexpected-state", type(state).__name__]]
    return ["ok", [fname, str(idx.get(cls, -1)), _rel(items_c, [canon_val(b) for b in base]),
                   _opt(state, lambda d: _rel(fields_c, [[S(k), canon_val(v)] for k, v in d.items()])),
                   _opt(listit, lambda it: _rel(items_c, [canon_val(m) for m in it]))]]


def aggs_below(env, x, acc):
    """ids of all aggregates reachable from x through dict values and members (x excluded)"""
    for v in list(x.__dict__.values()) + members(x):
        if isinstance(v, env.Aggregate) and id(v) not in acc:
            acc[id(v)] = v
            aggs_below(env, v, acc)
    return acc


def copy_premise(env, x):
    """independent evaluation of the theorems' premises on the real instance:
       (nothing defines a probe name on any aggregate of the tree, known classes & no probe name as a dict key)"""
    idx = codec.class_index()
    alls = [x] + list(aggs_below(env, x, {}).values())
    und = all(not env.definers(a, n) and not env.prop_below(a, n) and not env.stray_below(a, n)
              and not any(at["name"] == n for at in env.spec(a)) and type(a).__name__ in env.by_name
              for a in alls for n in COPY_PROBES)
    quiet = all(idx.get(type(a), -1) >= 0 and not any(n in a.__dict__ for n in COPY_PROBES) for a in alls)
    return und, quiet


def copy_ops():
    ops = [("copy", copy.copy), ("deepcopy", copy.deepcopy)]
    ops += [(f"pickle{p}", (lambda o, p=p: pickle.loads(pickle.dumps(o, p)))) for p in range(6)]
    return ops


def pinned_getattr(self, attr):
    """Aggregate.__getattr__ as it was before 0f0930a (the sub-aggregate read outside the try)"""
    for subaggregate in self.subaggregates:
        subagg = getattr(self, subaggregate)
        try:
            return getattr(subagg, attr)
        except (AttributeError, KeyError):
            continue
    cls = self.__class__.__name__
    raise AttributeError(f"'{cls}' object has no attribute '{attr}'")


def protocol_customised(cls):
    """the class (or a base below `list`/`object`) takes the copy/pickle protocol into its own hands: then HOW a clone is
    made is the class's business and only the outcome is the property's (equal, distinct, sharing) — the mechanism
    comparisons (reduce value, replay of the pinned __getattr__) are skipped, outcome comparisons and oracles stay"""
    if any(getattr(cls, n, None) is not getattr(object, n, None) for n in ("__reduce_ex__", "__reduce__", "__getstate__")):
        return True
    return any(hasattr(cls, n) for n in ("__copy__", "__deepcopy__", "__setstate__", "__getnewargs__",
                                         "__getnewargs_ex__", "__slots__", "__getinitargs__"))


def check_copy_model(env, x, case, lines, meta, state="full", pinned=False):
    """the whole protocol against the model + the identity oracles the model cannot express"""
    ctx = env.ctx
    cn = type(x).__name__
    before = canon_inst(x)
    fields_c, items_c = before[2], before[3]
    custom = protocol_customised(type(x)) or copyreg.dispatch_table.get(type(x)) is not None
    if custom:
        ctx.stat("copyproto:protocol_customised_by_class")
        pinned = False
    reduces = None if custom else [canon_reduce(x, p, fields_c, items_c) for p in range(6)]
    below = aggs_below(env, x, {})
    clones = []
    for op, f in copy_ops():
        r = run_impl(f, x)
        ctx.stat("copyproto:" + op + ":" + state.split("/")[0].rstrip("0123456789"))
        if r[0] != "ok":
            clones.append(["err", r[1]])
            if state != "full":       # full instances are reported by check_copies
                ctx.violate(op.rstrip("012345") + "_raises", dict(case, op=op, state=state, tree=tree_text(x)),
                            f"{op} of a half-built {cn} instance ({state}) raises {r[1]}", {"kind": r[1]})
            continue
        y = r[1]
        cy = canon_inst(y) if isinstance(y, env.Aggregate) else ["not-an-aggregate", type(y).__name__]
        clones.append(["ok", _rel(before, cy)])
        c2 = dict(case, op=op, state=state)
        if type(y) is not type(x):
            ctx.violate(op.rstrip("012345") + "_wrong_class", c2, f"{op} of {cn} gives a {type(y).__name__}", {})
            continue
        if y is x:
            ctx.violate(op.rstrip("012345") + "_not_distinct", c2, f"{op} of {cn} returned the object itself", {})
        if cy != before and (state != "full" or op in ("pickle1", "pickle3", "pickle5")):
            ctx.violate(op.rstrip("012345") + "_not_equal", dict(c2, tree=tree_text(x)),
                        f"{op} of a {cn} instance ({state}) does not reproduce an equal model", {})
        if op == "copy":
            shared = (len(y.__dict__) == len(x.__dict__) and all(a is b for a, b in zip(y.__dict__.values(), x.__dict__.values()))
                      and len(y) == len(x) and all(a is b for a, b in zip(members(y), members(x))))
            if cy == before and not shared:
                ctx.violate("copy_not_shallow", c2, f"copy.copy of {cn} copied a child (dict value or member)", {})
        else:
            mine = aggs_below(env, y, {})
            both = [v for i, v in mine.items() if i in below]
            if both or id(x) in mine or id(y) in below:
                ctx.violate(op.rstrip("012345") + "_shares_child", c2,
                            f"{op} of {cn} shares the aggregate {type(both[0]).__name__ if both else cn} with the original", {})
    if canon_inst(x) != before:
        ctx.violate("copy_mutates", dict(case, state=state), f"copying a {cn} instance changed it", {})
    und, quiet = copy_premise(env, x)
    impl = [reduces, clones[0], clones[1], clones[2:], codec.b(und), codec.b(quiet)]
    lines.append("copy.all " + text(before))
    meta.append(("copy.all", dict(case, state=state), impl, x))
    if pinned:
        from ofxtools.models.base import Aggregate
        saved = Aggregate.__dict__["__getattr__"]
        res = []
        try:
            Aggregate.__getattr__ = pinned_getattr
            for op, f in (("copy", copy.copy), ("deepcopy", copy.deepcopy),
                          ("pickle0", lambda o: pickle.loads(pickle.dumps(o, 0))),
                          ("pickle2", lambda o: pickle.loads(pickle.dumps(o, 2)))):
                r = run_impl(f, x)
                ctx.stat("copyproto:pinned:" + op + ":" + r[0])
                res.append(["ok", _rel(before, canon_inst(r[1]))] if r[0] == "ok" else ["err", r[1]])
        finally:
            Aggregate.__getattr__ = saved
        lines.append("copy.pinned " + text(before))
        meta.append(("copy.pinned", dict(case, state=state), res, x))


# ------------------------------------------------------------------------------------------- generators
def msgs_desc(gen, name, rng):
    """a message set with a random mixture of statement / closing-statement / other wrappers"""
    c = gen.by_name[name]
    lists = [a for a in c["spec"] if a["k"] == "listagg"]
    wr = [w for w, _ in WRAPPERS[name]]
    out = []
    for _ in range(rng.choice([0, 1, 2, 3, 4, 6])):
        cn = rng.choice(wr) if rng.random() < 0.75 else rng.choice(lists)["clsname"]
        out.append(gen.desc(cn, depth=1))
    return (name, out, {})


def seclist_desc(gen, rng):
    out = []
    for _ in range(rng.randint(0, 4)):
        out.append(gen.desc(rng.choice(["SECLIST", "SECLIST", "SECLISTTRNRS"]), depth=1))
    return ("SECLISTMSGSRSV1", out, {})


def ofx_desc(gen, rng):
    fam = rng.choice(["rq", "rs"])
    kw = {}
    kw[f"signonmsgs{fam}v1"] = gen.desc(f"SIGNONMSGS{fam.upper()}V1", depth=1)
    for base in ("bankmsgs", "creditcardmsgs", "invstmtmsgs"):
        if rng.random() < 0.6:
            kw[f"{base}{fam}v1"] = msgs_desc(gen, f"{base.upper()}{fam.upper()}V1", rng)
    if fam == "rs" and rng.random() < 0.6:
        kw["seclistmsgsrsv1"] = seclist_desc(gen, rng)
    c = gen.by_name["OFX"]
    order = [a["name"] for a in c["spec"]]
    return ("OFX", [], {k: kw[k] for k in order if k in kw})


def special_desc(gen, name, rng):
    if name in WRAPPERS:
        return msgs_desc(gen, name, rng)
    if name == "OFX":
        return ofx_desc(gen, rng)
    if name == "SECLISTMSGSRSV1":
        return seclist_desc(gen, rng)
    return None


def half_built(x, k):
    """what copy/pickle work on: cls.__new__(cls), the first k dict entries, the members"""
    y = type(x).__new__(type(x))
    for i, (n, v) in enumerate(x.__dict__.items()):
        if i >= k:
            break
        y.__dict__[n] = v
    list.extend(y, members(x))
    return y


# ------------------------------------------------------------------------------------------- main
def lookups_case(env, x, fresh, names, cls, state, lines, meta):
    """queue getattr of `names` on x (fresh() gives an unused equal instance for names that run a getter)"""
    inst_text = text(canon_inst(x))
    h = digest(inst_text)
    before = inst_text
    results = []
    for n in names:
        target = fresh() if (n in env.all_props and fresh is not None) else x
        ci, r = impl_getattr(target, n)
        results.append((n, ci, r, target))
    lines.append("getattrs " + inst_text + " (" + " ".join(S(n) for n in names) + ")")
    meta.append(("getattrs", {"cls": cls, "state": state, "h": h}, results, x))
    lines.append("spec.lookups " + inst_text + " (" + " ".join(S(n) for n in names) + ")")
    meta.append(("spec.lookups", {"cls": cls, "state": state, "h": h}, names, x))
    if text(canon_inst(x)) != before:
        env.ctx.violate("getattr_mutates", {"cls": cls, "names": names}, f"{cls}: reading attributes changed the instance", {})


def pick_names(env, x, rng, n_below=8, n_own=6):
    cn = type(x).__name__
    own = [a["name"] for a in env.spec(x)]
    below, inlists = set(), set()
    env.names_below(x, below, inlists)
    below -= set(own)
    inlists -= set(own) | below
    names = list(env.props.get(cn, ()))
    names += rng.sample(own, min(n_own, len(own)))
    names += rng.sample(sorted(below), min(n_below, len(below)))
    names += rng.sample(sorted(inlists), min(3, len(inlists)))
    names += rng.sample(env.undefined, min(4, len(env.undefined)))
    names += ["__deepcopy__", "__setstate__"]
    seen, out = set(), []
    for n in names:
        if n not in seen and n not in env.excluded:
            seen.add(n)
            out.append(n)
    return out


def run(ctx):
    env = Env(ctx)
    rng = ctx.rng
    gen = Gen(ctx.schema, rng, max_depth=2)
    classes = concrete_classes(ctx.schema)
    lines, meta = [], []
    run_fixed_witnesses(env, gen)
    reps = ctx.budget(3, 14)
    n_copy = ctx.budget(1, 14)       # instances per class on which the whole copy protocol is run against the model
    for c in classes:
        name = c["name"]
        n_special = ctx.budget(24, 200) if special_desc(gen, name, rng) is not None else 0
        n_props = ctx.budget(10, 80) if env.props.get(name) else 0
        for k in range(max(reps, n_special, n_props)):
            d = None
            if k < n_special and k % 4 != 3:
                d = special_desc(gen, name, rng)
                try:
                    x = gen.build(d)
                except Exception:  # noqa
                    d = None
            if d is None:
                d, x = gen.valid_instance(name)
                if d is None:
                    continue
            ctx.stat("instances")
            fresh = (lambda d=d: gen.build(d))
            names = pick_names(env, x, rng)
            lookups_case(env, x, fresh, names, name, "full", lines, meta)
            # shortcuts of the class itself, each on an unused instance
            for p in env.props.get(name, ()):
                y = fresh()
                t = text(canon_inst(y))
                r = run_impl(getattr, y, p)
                case = {"cls": name, "prop": p, "h": digest(t)}
                lines.append(f"shortcut {t} {S(p)}")
                meta.append(("shortcut", case, r, y))
                lines.append(f"spec.shortcut {t} {S(p)}")
                meta.append(("spec.shortcut", case, r, y))
                check_shortcut(env, y, p, r, case)
                # a second call returns the same objects again
                r2 = run_impl(getattr, y, p)
                if r[0] == "ok" and (r2[0] != "ok" or canon_res(r2[1]) != canon_res(r[1])):
                    ctx.violate("shortcut_not_repeatable", case, f"{name}.{p}: second call differs", {"cls": name, "prop": p})
            if k < reps:
                # undefined names: hasattr / getattr default
                for n in rng.sample(env.undefined, min(3, len(env.undefined))):
                    if env.prop_below(x, n) or env.definers(x, n):
                        continue
                    h = run_impl(hasattr, x, n)
                    g = run_impl(getattr, x, n, 7)
                    ctx.evaluations += 1
                    if h != ("ok", False):
                        ctx.violate("hasattr_fails", {"cls": name, "name": n, "tree": tree_text(x)},
                                    f"hasattr({name}, {n!r}) gives {h}", {"kind": h[1] if h[0] == "err" else "true"})
                    if g != ("ok", 7):
                        ctx.violate("getattr_default_fails", {"cls": name, "name": n, "tree": tree_text(x)},
                                    f"getattr({name}, {n!r}, default) gives {g[0]} {g[1] if g[0] == 'err' else ''}",
                                    {"kind": g[1] if g[0] == "err" else "value"})
                check_copies(env, x, {"cls": name, "h": digest(text(canon_inst(x)))}, lines, meta)
                if k < n_copy:
                    check_copy_model(env, x, {"cls": name, "h": digest(text(canon_inst(x)))}, lines, meta, "full", pinned=True)
                # half-built instances: empty and partial dict
                nd = len(x.__dict__)
                for kk in sorted({0, rng.randint(0, nd)}):
                    y = half_built(x, kk)
                    lookups_case(env, y, None, [n for n in pick_names(env, x, rng, 5, 4) if n not in env.all_props],
                                 name, f"partial{kk}/{nd}", lines, meta)
                    if k < n_copy:
                        check_copy_model(env, y, {"cls": name, "h": digest(text(canon_inst(y)))}, lines, meta,
                                         f"partial{kk}/{nd}", pinned=(kk == 0))
    lines.append("copy.schemaquiet")
    meta.append(("copy.schemaquiet", {}, None, None))
    replies = ctx.model.ask(lines)
    for (op, case, data, x), rep in zip(meta, replies):
        if op == "copy.all":
            if rep.kind != "ok" or len(rep.vals) != 6:
                ctx.disagree(op, case, "n/a", rep.raw[:300])
                continue
            mv = rep.vals
            for p in range(6):
                if data[0] is not None and not ctx.compare("copy.reduce_ex", dict(case, proto=p), data[0][p], mv[0][p]):
                    ctx.disagreements[-1]["case"]["tree"] = tree_text(x)
            for nm, i_, m_ in ([("copy", data[1], mv[1]), ("deepcopy", data[2], mv[2])] +
                               [(f"pickle{p}", data[3][p], mv[3][p]) for p in range(6)]):
                if not ctx.compare("copy." + nm, case, i_, m_):
                    ctx.disagreements[-1]["case"]["tree"] = tree_text(x)
            ctx.compare("copy.premise", case, [data[4], data[5]], [mv[4], mv[5]])
            ctx.stat("copyproto:premise:" + str(mv[4]) + str(mv[5]))
            if mv[4] == "T" and any(c[0] != "ok" or c[1] != "same" for c in [data[1], data[2]] + data[3]):
                # the theorems' premise holds on this instance, so (C16_copy_eq / _deepcopy_eq / _pickle_eq) the model
                # reproduces it: an implementation that does not is outside what was proved
                ctx.stat("copyproto:premise_true_but_impl_differs")
            continue
        if op == "copy.pinned":
            if rep.kind != "ok" or len(rep.vals) != 4:
                ctx.disagree(op, case, "n/a", rep.raw[:300])
                continue
            for nm, i_, m_ in zip(("copy", "deepcopy", "pickle0", "pickle2"), data, rep.vals):
                if not ctx.compare("copy.pinned." + nm, case, i_, m_):
                    ctx.disagreements[-1]["case"]["tree"] = tree_text(x)
            continue
        if op == "copy.schemaquiet":
            und = [n for n in COPY_PROBES if n not in env.all_names]
            ctx.compare("copy.schemaquiet", {}, codec.b(len(und) == len(COPY_PROBES)), rep.vals[0] if rep.kind == "ok" else rep.raw[:100])
            continue
        if op == "getattrs":
            if rep.kind != "ok" or len(rep.vals) != len(data):
                ctx.disagree(op, case, "n/a", rep.raw[:300])
                continue
            for (n, ci, r, target), mv in zip(data, rep.vals):
                cc = dict(case, name=n)
                kind = ("own" if any(a["name"] == n for a in env.spec(x)) else
                        "prop" if n in env.all_props else "dunder" if n.startswith("__") else "other")
                ctx.stat(f"getattr:{kind}:{ci[0]}" + (":" + ci[1] if ci[0] == "err" else ""))
                if not ctx.compare("getattr", cc, ci, mv):
                    ctx.disagreements[-1]["case"]["tree"] = tree_text(x)
                check_lookup(env, target, n, r, cc, case["state"])
            ctx.sample({"cls": case["cls"], "state": case["state"], "names": [d[0] for d in data][:8],
                        "impl": [d[1][0] if d[1][0] == "ok" else d[1][1] for d in data][:8]}, limit=10)
        elif op == "spec.lookups":
            if rep.kind != "ok" or len(rep.vals) != len(data):
                ctx.disagree(op, case, "n/a", rep.raw[:300])
                continue
            for n, mv in zip(data, rep.vals):
                paths = [[dstr(s) for s in p] for p in mv[0]]
                mine = [p for p, _ in env.definers(x, n)]
                und = (not mine and not env.prop_below(x, n) and not env.stray_below(x, n)
                       and not any(a["name"] == n for a in env.spec(x)))
                ctx.compare("spec.definers", dict(case, name=n), [mine, und], [paths, mv[3] == "T"], nontrivial=bool(mine))
        elif op == "shortcut":
            impl = ["ok", canon_res(data[1])] if data[0] == "ok" else ["err", data[1]]
            mod = ["ok", rep.vals[0]] if rep.kind == "ok" else ["err", rep.err] if rep.kind == "err" else ["bad"]
            ctx.stat("shortcut:" + case["prop"])
            if not ctx.compare("shortcut", case, impl, mod):
                ctx.disagreements[-1]["case"]["tree"] = tree_text(x)
        elif op == "spec.shortcut":
            # the Lean documented walk, on the implementation's result
            if rep.kind != "ok":
                ctx.disagree(op, case, "n/a", rep.raw[:300])
                continue
            ctx.evaluations += 1
            if rep.vals[0] != "none" and data[0] == "ok":
                want = rep.vals[0][1]
                if canon_res(data[1]) != want and not any(v.tag.startswith("shortcut_") and v.case.get("h") == case["h"]
                                                          and v.case.get("prop") == case["prop"] for v in ctx.violations):
                    ctx.violate("shortcut_differs_from_documented_walk", dict(case, tree=tree_text(x)),
                                f"{case['cls']}.{case['prop']} differs from the documented path walk (Lean Spec.documentedWalk)",
                                {"cls": case["cls"], "prop": case["prop"]})
        elif op == "probes":
            mod = rep.kind == "ok" and rep.vals[0] == "T"
            ctx.compare("copy-probes", case, data, mod)
    if ctx.thorough:
        ctx.exhaustive.append("every concrete class x every shortcut property of that class")


def run_fixed_witnesses(env, gen):
    """witnesses of the two findings repaired in /repo (0f0930a, 4027f3c): replayed on every run, must pass"""
    ctx = env.ctx
    M = gen.M
    # 0f0930a: undefined name on a class with a ListAggregate / on a half-built nested instance
    x = M.BANKMSGSRQV1()
    r = run_impl(hasattr, x, "nope")
    ctx.evaluations += 1
    if r != ("ok", False):
        ctx.violate("miss_not_attributeerror", {"cls": "BANKMSGSRQV1", "name": "nope", "witness": "hasattr(BANKMSGSRQV1(), 'nope')"},
                    f"hasattr(BANKMSGSRQV1(), 'nope') gives {r}", {"kind": r[1] if r[0] == "err" else "true"})
    d, y = gen.valid_instance("STMTTRNRS", force=["stmtrs"])
    if d is not None:
        for op, f in (("deepcopy", copy.deepcopy), ("pickle", lambda o: pickle.loads(pickle.dumps(o)))):
            r = run_impl(f, y)
            ctx.evaluations += 1
            if r[0] != "ok":
                ctx.violate(op + "_raises", {"cls": "STMTTRNRS", "op": op, "witness": True},
                            f"{op} of a nested STMTTRNRS raises {r[1]}", {"kind": r[1]})
    # 4027f3c: closing-statement requests are statements too
    d1 = gen.desc("STMTTRNRQ", depth=1)
    d2 = gen.desc("STMTENDTRNRQ", depth=1)
    try:
        z = gen.build(("BANKMSGSRQV1", [d1, d2], {}))
    except Exception:  # noqa
        return
    r = run_impl(getattr, z, "statements")
    ctx.evaluations += 1
    check_shortcut(env, z, "statements", r, {"cls": "BANKMSGSRQV1", "prop": "statements", "witness": True, "h": "witness"})


def replay(ctx, data):
    print(data.get("case") or data.get("first_disagreement"))
