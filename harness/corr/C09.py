"""
C09 correspondence + oracle: date-time and time values mean the instant the OFX notation denotes.

impl   = ofxtools.Types.DateTime(required=…).convert/unconvert, ofxtools.Types.Time(required=…).convert/unconvert
model  = lean/OfxModel/Ofx/DateTime.lean via the driver (dt.conv, dt.unconv, tm.conv, tm.unconv)
oracle = an independent pure-integer reference below (strict recogniser of the notation + days-from-civil arithmetic;
         no use of `datetime` arithmetic), applied to the *implementation's* output; the Lean Spec
         (spec.innotation / spec.valinstant / spec.instant) is cross-checked against the same reference.
"""
import datetime
import decimal
import re

from framework import run_impl
from proto import S
import codec

RULE = ("texts: instants 1900-2200 (pools concentrated on month/year ends, 29 Feb, leap and non-leap centuries, "
        "00:00:00/23:59:59, ms 0/1/499/500/999) x the notations YYYYMMDD, YYYYMMDDHHMMSS, +.XXX, +[offset] (JPM), "
        "+.XXX[offset] and HHMMSS... x every offset -12:00..+14:00 in whole minutes in the spellings signed/unsigned, "
        "leading zero, with/without .MM x names (none, TZS names, containing ':' ']' blanks, non-ASCII) ; the Interactive "
        "Brokers [-:EST] form; every single-character deletion / substitution / insertion (alphabet 0369a.[]:-+ x\\n and "
        "two non-ASCII) of sampled valid texts; field corruptions (month 00/13, day 00/32/31-in-30, 29/30 Feb, hour 24, "
        "minute 60, second 60); values: aware datetimes/times with fixed-offset tzinfo (every whole-minute offset, name or "
        "None), sub-ms microseconds 0/499/500/501/999 around second/day/month/year roll-over, naive values, sub-minute "
        "offsets (impl vs model only), wrong types; tzinfos with a transition (custom PEP-495 class: 1 h / 30 min / 26 h back, "
        "1 h forward, name-only change; zoneinfo zones when tzdata is present) at transition +-{1,499,500,501,999} us and "
        "inside the 500 us window before it, canonicalised with the (offset, name) of the original value. Outputs compared as ok(value)/error. A case is non-trivial when the "
        "implementation returned a value; distinct by (op, required, input).")

TZS = {"EST": -5, "EDT": -4, "CST": -6, "CDT": -5, "MST": -7, "MDT": -6, "PST": -8, "PDT": -7}


# ---------------------------------------------------------------------------------------------
# independent reference (integers only)
# ---------------------------------------------------------------------------------------------
def ref_leap(y):
    return (y % 4 == 0 and y % 100 != 0) or y % 400 == 0


def ref_dim(y, m):
    return (31, 29 if ref_leap(y) else 28, 31, 30, 31, 30, 31, 31, 30, 31, 30, 31)[m - 1]


def days_from_civil(y, m, d):
    """ordinal of a proleptic Gregorian date, 0001-01-01 -> 1 (era-based algorithm, not datetime's)"""
    y -= m <= 2
    era = y // 400
    yoe = y - era * 400
    doy = (153 * (m + (-3 if m > 2 else 9)) + 2) // 5 + d - 1
    doe = yoe * 365 + yoe // 4 - yoe // 100 + doy
    return era * 146097 + doe - 305


assert days_from_civil(1, 1, 1) == 1 and days_from_civil(1970, 1, 1) == 719163 and days_from_civil(9999, 12, 31) == 3652059

MIN_MS = 86400000
END_MS = 3652060 * 86400000

_DT = re.compile(r"([0-9]{4})([0-9]{2})([0-9]{2})(?:([0-9]{2})([0-9]{2})([0-9]{2})(\.[0-9]{3})?(\[.*\])?)?\Z", re.S)
_TM = re.compile(r"()()()([0-9]{2})([0-9]{2})([0-9]{2})(\.[0-9]{3})?(\[.*\])?\Z", re.S)
_OFF = re.compile(r"([+-]?)([0-9+-]*?)(?:(.)([0-9]{2}))?(?::(.*))?\Z", re.S)
_OFF_STRICT = re.compile(r"([+-]?)([0-9]+)(?:\.([0-9]{2}))?(?::([^\n]*))?\Z", re.S)


class Ref:
    """classification of a text by the reference recogniser"""
    __slots__ = ("kind", "instant", "why", "sign", "hours", "minutes", "offmin", "name", "has_minutes")
    # kind: 'in' (must be accepted, denotes .instant), 'out' (must be rejected), 'dontcare' (well formed but offset
    # outside -12:00..+14:00, result outside years 1..9999, or > 4300 hour digits), 'ib' (Interactive Brokers form)


def ref_classify(is_time, text):
    r = Ref()
    r.kind, r.instant, r.why, r.sign, r.hours, r.minutes, r.offmin = "out", None, "shape", "", None, None, 0
    r.name, r.has_minutes = None, False
    m = (_TM if is_time else _DT).match(text)
    if m is None:
        return r
    ys, mos, ds, hs, mis, ss, mss, offs = m.groups()
    if not is_time:
        y, mo, d = int(ys), int(mos), int(ds)
        if not (1 <= y <= 9999 and 1 <= mo <= 12 and 1 <= d <= ref_dim(y, mo)):
            r.why = "date"
            return r
    h, mi, s = int(hs or 0), int(mis or 0), int(ss or 0)
    if not (h < 24 and mi < 60 and s < 60):
        r.why = "tod"
        return r
    ms = int(mss[1:]) if mss else 0
    off_min = 0
    kind = "in"
    if offs is not None:
        body = offs[1:-1]
        mo_ = _OFF_STRICT.match(body)
        if mo_ is None:
            # Interactive Brokers form: hours text over [0-9+-] that is not a number, name in TZS
            mi_ = re.match(r"([0-9+-]+)(?:\.([0-9]{2}))?:(.*)\Z", body, re.S)
            if mi_ and not re.match(r"[+-]?[0-9]+\Z", mi_.group(1)) and mi_.group(3) in TZS and int(mi_.group(2) or 0) < 60:
                hh = TZS[mi_.group(3)]
                off_min = -(60 * abs(hh) + int(mi_.group(2) or 0)) if hh < 0 else 60 * hh + int(mi_.group(2) or 0)
                kind = "ib"
            else:
                r.why = "offset"
                return r
        else:
            sg, hd, mm, r.name = mo_.groups()
            r.has_minutes = mm is not None
            mmv = int(mm or 0)
            if mmv >= 60:
                r.why = "offset-minutes"
                return r
            hv = int(hd.lstrip("0")[:6] or "0") if len(hd.lstrip("0")) <= 6 else 10 ** 6
            r.sign, r.hours, r.minutes = sg, hv, mmv
            off_min = (60 * hv + mmv) * (-1 if sg == "-" else 1)
            if hv > (12 if sg == "-" else 14):
                r.why = "offset-hours"          # the notation's hours are -12 .. +14
                return r
            if len(hd) > 4300:
                kind = "dontcare"               # CPython's int() limit
    if is_time:
        inst = ((h * 3600 + mi * 60 + s) * 1000 + ms - off_min * 60000) % 86400000
    else:
        inst = ((days_from_civil(y, mo, d) * 86400 + h * 3600 + mi * 60 + s) * 1000 + ms) - off_min * 60000
        if not (MIN_MS <= inst < END_MS) and kind != "out":
            kind = "dontcare"
    r.kind, r.instant, r.why, r.offmin = kind, inst, "", off_min
    return r


def value_instant_us(v):
    """instant in microseconds denoted by an aware datetime / time value (time: modulo 24 h); None if naive"""
    off = v.utcoffset()
    if off is None:
        return None
    off_us = (off.days * 86400 + off.seconds) * 10 ** 6 + off.microseconds
    tod = (v.hour * 3600 + v.minute * 60 + v.second) * 10 ** 6 + v.microsecond
    if isinstance(v, datetime.datetime):
        return days_from_civil(v.year, v.month, v.day) * 86400 * 10 ** 6 + tod - off_us
    return (tod - off_us) % (86400 * 10 ** 6)


class FixedTz(datetime.tzinfo):
    def __init__(self, off_us, name):
        self._o = datetime.timedelta(microseconds=off_us)
        self._n = name

    def utcoffset(self, dt):
        return self._o

    def tzname(self, dt):
        return self._n

    def dst(self, dt):
        return None

    def __repr__(self):
        return f"FixedTz({self._o!r},{self._n!r})"


class TransitionTz(datetime.tzinfo):
    """A zone with one transition at the UTC instant `t_utc` (naive datetime): (offset minutes, name) `before` it and
    `after` it.  utcoffset/tzname/dst look at the *wall-clock* fields of the datetime they are given, PEP-495 style:
    wall times that occur twice (offset decreases) or never (offset increases) are resolved by `fold` (0 = before)."""

    def __init__(self, t_utc, before, after):
        self.t, self.before, self.after = t_utc, before, after
        w1 = t_utc + datetime.timedelta(minutes=before[0])
        w2 = t_utc + datetime.timedelta(minutes=after[0])
        self.lo, self.hi = min(w1, w2), max(w1, w2)

    def _which(self, dt):
        wall = dt.replace(tzinfo=None)
        if wall < self.lo:
            return self.before
        if wall >= self.hi:
            return self.after
        return self.after if dt.fold else self.before

    def utcoffset(self, dt):
        return None if dt is None else datetime.timedelta(minutes=self._which(dt)[0])

    def tzname(self, dt):
        return None if dt is None else self._which(dt)[1]

    def dst(self, dt):
        return None if dt is None else datetime.timedelta(0)

    def spec(self):
        return {"kind": "transition", "t_utc": list(self.t.timetuple()[:6]) + [self.t.microsecond],
                "before": list(self.before), "after": list(self.after)}

    def at_utc(self, us_from_t):
        """the aware datetime `us_from_t` microseconds after (before, if negative) the transition"""
        side = self.after if us_from_t >= 0 else self.before
        wall = self.t + datetime.timedelta(microseconds=us_from_t) + datetime.timedelta(minutes=side[0])
        v = wall.replace(tzinfo=self, fold=1 if us_from_t >= 0 else 0)
        assert v.utcoffset() == datetime.timedelta(minutes=side[0]) and v.tzname() == side[1], (self, us_from_t)
        return v

    def __repr__(self):
        return f"TransitionTz({self.t!r},{self.before!r},{self.after!r})"


def tz_spec(tz):
    """JSON description of a time-dependent tzinfo (for replays), None for the fixed ones"""
    if isinstance(tz, TransitionTz):
        return tz.spec()
    key = getattr(tz, "key", None)
    if key:
        return {"kind": "zoneinfo", "key": key}
    return None


def tz_from_spec(sp):
    if sp["kind"] == "transition":
        t = sp["t_utc"]
        return TransitionTz(datetime.datetime(*t), tuple(sp["before"]), tuple(sp["after"]))
    import zoneinfo
    return zoneinfo.ZoneInfo(sp["key"])


# ---------------------------------------------------------------------------------------------
# generators
# ---------------------------------------------------------------------------------------------
YEARS = [1900, 1901, 1904, 1999, 2000, 2001, 2004, 2019, 2020, 2023, 2024, 2038, 2096, 2100, 2101, 2104, 2196, 2199, 2200]
NAMES = [None, None, "EST", "PST", "UTC", "GMT", "", "a:b", "x]y", "Z ", "été", "日本", "E.S.T", "+5", "EST5EDT", "[", "]"]
CORR = "0369a.[]:-+ x\n٣é"


def gen_date(rng):
    k = rng.random()
    y = rng.choice(YEARS) if k < 0.6 else rng.randint(1900, 2200)
    k = rng.random()
    if k < 0.25:
        m, d = 2, rng.choice((28, 29)) if ref_leap(y) else 28
    elif k < 0.45:
        m = rng.randint(1, 12)
        d = ref_dim(y, m)
    elif k < 0.6:
        m, d = rng.choice(((1, 1), (12, 31), (3, 1), (12, 1)))
    else:
        m = rng.randint(1, 12)
        d = rng.randint(1, ref_dim(y, m))
    return y, m, d


def gen_tod(rng):
    k = rng.random()
    if k < 0.25:
        return 23, 59, 59
    if k < 0.4:
        return 0, 0, 0
    if k < 0.5:
        return rng.choice(((11, 59, 59), (12, 0, 0), (0, 0, 1), (23, 0, 0), (9, 59, 59)))
    return rng.randint(0, 23), rng.randint(0, 59), rng.randint(0, 59)


def gen_ms(rng):
    return rng.choice((0, 1, 499, 500, 999, 999, rng.randint(0, 999)))


def gen_name(rng):
    k = rng.random()
    if k < 0.6:
        return rng.choice(NAMES)
    if k < 0.8:
        return rng.choice(list(TZS))
    return "".join(rng.choice("ABCXYZ abc:].[-+0é日") for _ in range(rng.randint(0, 6)))


def spell_offset(rng, off_min, name, style=None):
    """one of the spellings of a whole-minute offset"""
    a = abs(off_min)
    h, mm = divmod(a, 60)
    style = rng.randrange(8) if style is None else style
    if off_min < 0:
        sg = "-"
    elif off_min == 0 and style == 7:
        sg = "-"
    else:
        sg = "+" if style & 1 else ""
    hs = ("%02d" % h) if style & 2 else str(h)
    t = sg + hs
    if mm or (style & 4):
        t += ".%02d" % mm
    if name is not None:
        t += ":" + name
    return "[" + t + "]"


def render(date, tod, ms, off):
    t = ""
    if date is not None:
        t += "%04d%02d%02d" % date
    if tod is not None:
        t += "%02d%02d%02d" % tod
    if ms is not None:
        t += ".%03d" % ms
    if off is not None:
        t += off
    return t


def mutations(text):
    n = len(text)
    for i in range(n):
        yield text[:i] + text[i + 1:]
    for i in range(n):
        for c in CORR:
            if text[i] != c:
                yield text[:i] + c + text[i + 1:]
    for i in range(n + 1):
        for c in CORR:
            yield text[:i] + c + text[i:]


def build_text_cases(ctx):
    rng = ctx.rng
    cases = []      # (is_time, required, text)

    def add(is_time, text, required=None):
        cases.append((is_time, rng.random() < 0.1 if required is None else required, text))

    # every whole-minute offset, two spellings each, both notations with offset; date-time and time
    reps = ctx.budget(1, 6)
    for _ in range(reps):
        for off in range(-720, 841):
            for _k in range(2):
                date, tod = gen_date(rng), gen_tod(rng)
                ms = gen_ms(rng) if rng.random() < 0.7 else None          # None: the JPM form
                add(False, render(date, tod, ms, spell_offset(rng, off, gen_name(rng))))
            add(True, render(None, gen_tod(rng), gen_ms(rng) if rng.random() < 0.7 else None,
                             spell_offset(rng, off, gen_name(rng))))
    # offsets with zero hours in every spelling (the sign of "-0" matters)
    for mm in range(0, 60):
        for style in range(8):
            add(False, render(gen_date(rng), gen_tod(rng), gen_ms(rng), spell_offset(rng, -mm, None, style)))
            add(True, render(None, gen_tod(rng), None, spell_offset(rng, -mm, gen_name(rng), style)))
    # notations without offset
    for _ in range(ctx.budget(1500, 20000)):
        date, tod = gen_date(rng), gen_tod(rng)
        add(False, render(date, None, None, None))
        add(False, render(date, tod, None, None))
        add(False, render(date, tod, gen_ms(rng), None))
        add(True, render(None, tod, None, None))
        add(True, render(None, tod, gen_ms(rng), None))
    # hours outside -12..14, minutes >= 60, long digit strings
    for _ in range(ctx.budget(300, 3000)):
        h = rng.choice((-14, -13, -12, 12, 13, 14, 15, 16, 23, 24, 99, 100, 530, 0))
        mm = rng.choice((None, 0, 30, 59, 60, 75, 99))
        t = "[" + rng.choice(("", "+", "-")) + str(abs(h)) + ("" if mm is None else ".%02d" % mm) + rng.choice(("", ":X")) + "]"
        add(False, render(gen_date(rng), gen_tod(rng), gen_ms(rng), t))
        add(True, render(None, gen_tod(rng), gen_ms(rng), t))
    add(False, "20200101120000[" + "0" * 4299 + "5]")
    add(False, "20200101120000[" + "0" * 4300 + "5]")
    add(False, "20200101120000[-" + "0" * 4300 + ":EST]")
    add(False, "20200101120000[+" + "0" * 4301 + ":EST]")
    # Interactive Brokers form and relatives
    for _ in range(ctx.budget(300, 3000)):
        ht = rng.choice(("-", "+", "--", "+-", "-+5", "1-2", "5-", "-", "-"))
        nm = rng.choice(list(TZS) + ["XYZ", "est", "", "EST "])
        mm = rng.choice(("", "", ".30", ".00", ".75"))
        col = rng.choice((":", ":", ":", ""))
        add(False, render(gen_date(rng), gen_tod(rng), gen_ms(rng), "[" + ht + mm + col + nm + "]"))
        add(True, render(None, gen_tod(rng), None, "[" + ht + mm + col + nm + "]"))
    # years near the ends of the representable range (OverflowError on normalisation)
    for y, mo, d in ((1, 1, 1), (1, 1, 2), (9999, 12, 31), (9999, 12, 30), (0, 1, 1), (999, 12, 31), (1000, 1, 1)):
        for off in (-720, -1, 0, 1, 840):
            for tod in ((0, 0, 0), (23, 59, 59), (12, 0, 0)):
                add(False, render((y, mo, d), tod, 0, spell_offset(rng, off, None)))
    # field corruptions
    for _ in range(ctx.budget(400, 6000)):
        y, mo, d = gen_date(rng)
        h, mi, s = gen_tod(rng)
        k = rng.randrange(10)
        if k == 0:
            mo = rng.choice((0, 13, 14, 19, 20, 99))
        elif k == 1:
            d = rng.choice((0, 32, 33, 39, 40, 99))
        elif k == 2:
            mo, d = rng.choice((4, 6, 9, 11)), 31
        elif k == 3:
            mo, d = 2, rng.choice((29, 30, 31)) if not ref_leap(y) else rng.choice((30, 31))
        elif k == 4:
            h = rng.choice((24, 25, 29, 30, 99))
        elif k == 5:
            mi = rng.choice((60, 61, 69, 70, 99))
        elif k == 6:
            s = rng.choice((60, 61, 69, 70, 99))
        elif k == 7:
            y = rng.choice((0, 1, 999, 1000, 9999))
        elif k == 8:
            y, mo, d = rng.choice((1900, 2100, 2200, 2000, 2024, 2023)), 2, 29
        tail = rng.choice(("", "", ".%03d" % gen_ms(rng), ".%03d" % gen_ms(rng) + spell_offset(rng, rng.randint(-720, 840), gen_name(rng))))
        add(False, "%04d%02d%02d%02d%02d%02d" % (y, mo, d, h, mi, s) + tail)
        add(False, "%04d%02d%02d" % (y, mo, d))
        add(True, "%02d%02d%02d" % (h, mi, s) + tail)
    # wrong lengths / letters
    for _ in range(ctx.budget(300, 3000)):
        base = render(gen_date(rng), gen_tod(rng), gen_ms(rng), None)
        cut = rng.randrange(len(base) + 1)
        add(False, base[:cut])
        add(True, base[8:][:max(0, cut - 8)])
        add(False, base + rng.choice("0 aZ\n.[]"))
        b = list(base)
        b[rng.randrange(len(b))] = rng.choice("abcxyzOIl ٣")
        add(False, "".join(b))
        add(True, "".join(b[8:]))
    for t in ("", "\n", " 20200101", "20200101 ", "2020-01-01", "20200101T120000", "20200101120000Z", "20200101\n", "20200101\n\n",
              "20200101120000.000[5]\n", "20200101120000.000[5:a\nb]", "20200101120000.000[5\n30]", "120000\n", "+120000", "-20200101",
              "20200101120000.000[-0.30]", "20200101120000[5.75]", "20200101120000[5.٣٠]",
              "20200101120000.000[5.٣٠]", "20200101120000.000[5-٣٠]", "20200101120000.000[5-3٠]",
              "20200101120000.000[5-٣٠٠]", "20200101120000[5x30]", "20200101120000[5]]", "20200101120000[5:x]y]",
              "20200101120000[530]", "20200101120000[5:30]", "20200101120000[5.30.30]", "20200101120000.000[]", "20200101120000.000[:EST]",
              "20200101120000.000[+]", "20200101120000.000[5.3]", "20200101120000.000[5.300]", "２０２００１０１", "20200101120000.０００"):
        add(False, t)
        add(True, t[8:] if t[:8].isdigit() else t)
    if ctx.thorough:
        # small-scope exhaustive enumerators
        for off in range(-720, 841):
            for style in range(8):
                for nm in (None, "EST"):
                    add(False, "20240229235959.999" + spell_offset(rng, off, nm, style), False)
                    add(False, "19991231235959" + spell_offset(rng, off, nm, style), False)
                    add(True, "000000.000" + spell_offset(rng, off, nm, style), False)
        ctx.exhaustive.append("every whole-minute offset -720..840 x 8 spellings x name/no name x {dt.ms, JPM dt, time}")
        for y in (1900, 2000, 2023, 2024):
            for mo in range(100):
                for d in range(100):
                    add(False, "%04d%02d%02d" % (y, mo, d), False)
        ctx.exhaustive.append("every month/day digit pair 00..99 x 00..99 for years 1900, 2000, 2023, 2024 (date-only notation)")
        for h in range(100):
            for mi in (0, 59, 60, 99):
                for sec in (0, 59, 60, 61, 99):
                    add(False, "20200101%02d%02d%02d" % (h, mi, sec), False)
                    add(True, "%02d%02d%02d" % (h, mi, sec), False)
        ctx.exhaustive.append("every hour 00..99 x minutes {00,59,60,99} x seconds {00,59,60,61,99} (date-time and time)")
    # all single-character corruptions of sampled valid texts
    for _ in range(ctx.budget(14, 150)):
        off = rng.choice((-720, -330, -300, -30, 0, 30, 345, 840, rng.randint(-720, 840)))
        full = render(gen_date(rng), gen_tod(rng), gen_ms(rng), spell_offset(rng, off, rng.choice((None, "EST", "a:b"))))
        jpm = render(gen_date(rng), gen_tod(rng), None, spell_offset(rng, off, rng.choice((None, "EST"))))
        for base in (full, jpm, render(gen_date(rng), gen_tod(rng), gen_ms(rng), None), render(gen_date(rng), None, None, None)):
            add(False, base)
            for t in mutations(base):
                add(False, t)
        tb = render(None, gen_tod(rng), gen_ms(rng), spell_offset(rng, off, rng.choice((None, "PST"))))
        add(True, tb)
        for t in mutations(tb):
            add(True, t)
    return cases


def build_value_cases(ctx):
    rng = ctx.rng
    cases = []   # (op, required, value)
    US = (0, 0, 1, 499, 500, 501, 999, 1000, 499499, 499500, 999499, 999500, 999500, 999999)

    def gen_us():
        return rng.choice(US) if rng.random() < 0.8 else rng.randint(0, 999999)

    def names():
        return rng.choice((None, "EST", "UTC", "", "a:b", "x]y", "été", "UTC+05:30", "Z Z"))

    def add(op, v, required=None):
        cases.append((op, rng.random() < 0.1 if required is None else required, v))

    reps = ctx.budget(1, 6)
    for _ in range(reps):
        for off in list(range(-720, 841)) + [-1439, -1000, -721, 841, 900, 1439]:
            tz = FixedTz(off * 60 * 10 ** 6, names())
            y, mo, d = gen_date(rng)
            h, mi, s = gen_tod(rng)
            add("dt.unconv", datetime.datetime(y, mo, d, h, mi, s, gen_us(), tzinfo=tz))
            add("tm.unconv", datetime.time(h, mi, s, gen_us(), tzinfo=tz))
    for _ in range(ctx.budget(2500, 40000)):
        y, mo, d = gen_date(rng)
        h, mi, s = gen_tod(rng)
        k = rng.random()
        if k < 0.7:
            off_us = rng.randint(-720, 840) * 60 * 10 ** 6
        elif k < 0.85:
            off_us = rng.randint(-1439, 1439) * 60 * 10 ** 6 + rng.choice((-1, 1, 10 ** 6, -10 ** 6, 30 * 10 ** 6, -59999999, 59999999))
        else:
            off_us = rng.randint(-86399999999, 86399999999)
        name = names()
        tz = rng.choice((FixedTz(off_us, name), None)) if rng.random() < 0.15 else FixedTz(off_us, name)
        if tz is not None and off_us % (60 * 10 ** 6) == 0 and name is not None and rng.random() < 0.3:
            tz = datetime.timezone(datetime.timedelta(microseconds=off_us), name)
        v = datetime.datetime(y, mo, d, h, mi, s, gen_us(), tzinfo=tz)
        t = datetime.time(h, mi, s, gen_us(), tzinfo=tz)
        add("dt.unconv", v)
        add("tm.unconv", t)
        if rng.random() < 0.3:
            add("dt.conv", v)
            add("tm.conv", t)
    # ends of the range and years < 1000
    for y, mo, d in ((9999, 12, 31), (9999, 12, 30), (1, 1, 1), (999, 12, 31), (1000, 1, 1), (99, 1, 1), (9, 12, 31)):
        for us in (0, 999499, 999500, 999999):
            for off in (-720, 0, 840):
                add("dt.unconv", datetime.datetime(y, mo, d, 23, 59, 59, us, tzinfo=FixedTz(off * 60 * 10 ** 6, None)))
    # tzinfos whose offset depends on the wall-clock time: values in the microseconds around a transition.
    # format_datetime must take utcoffset()/tzname() from the ORIGINAL value, not from the value bumped by 500 us
    # (2021-11-07 01:59:59.9996 EDT is written 20211107020000.000[-4:EDT]).  The model is given the original value's
    # (offset, name) by codec.canon_val, the oracle the value's true instant.
    DELTAS = (-1000000, -999, -501, -500, -499, -1, 0, 1, 499, 500, 501, 999, 1000000)
    zones = []
    for t_utc, before, after in (
            (datetime.datetime(2021, 11, 7, 6, 0, 0), (-240, "EDT"), (-300, "EST")),        # clocks back 1 h
            (datetime.datetime(2021, 3, 14, 7, 0, 0), (-300, "EST"), (-240, "EDT")),        # clocks forward 1 h
            (datetime.datetime(2024, 2, 29, 23, 30, 0), (570, "ACST"), (540, None)),        # back 30 min, name vanishes
            (datetime.datetime(2000, 1, 1, 0, 0, 0), (0, "GMT"), (0, "UTC")),               # name change only
            (datetime.datetime(1999, 12, 31, 12, 0, 0), (840, "+14"), (-720, "-12")),       # date-line switch (back 26 h)
            (datetime.datetime(2100, 6, 30, 15, 45, 0), (-30, "A"), (30, "B")),             # forward 1 h across zero
            (datetime.datetime(2100, 6, 30, 15, 45, 0), (30, "B"), (-30, "A"))):            # back 1 h across zero
        zones.append(TransitionTz(t_utc, before, after))
    for z in zones:
        for dlt in DELTAS:
            add("dt.unconv", z.at_utc(dlt), False)
        add("dt.conv", z.at_utc(-400))
        add("tm.unconv", datetime.time(1, 59, 59, 999600, tzinfo=z))      # utcoffset(None) is None: a naive time
        for _ in range(ctx.budget(6, 40)):
            add("dt.unconv", z.at_utc(rng.choice((-1, 1)) * rng.randint(0, 10 ** 9) * 1000 + rng.choice(US)))
            add("dt.unconv", z.at_utc(-rng.randint(1, 500)))                # the window the bump crosses
    try:
        import zoneinfo
        for key, trans in (("America/New_York", ((2021, 11, 7, 6, 0), (2021, 3, 14, 7, 0))),
                           ("Europe/London", ((2021, 10, 31, 1, 0), (2021, 3, 28, 1, 0))),
                           ("Australia/Lord_Howe", ((2021, 4, 3, 15, 0), (2021, 10, 2, 15, 30))),
                           ("Asia/Kolkata", ((2021, 1, 1, 0, 0),))):
            zi = zoneinfo.ZoneInfo(key)
            for t in trans:
                t0 = datetime.datetime(*t, tzinfo=datetime.timezone.utc)
                for dlt in DELTAS:
                    add("dt.unconv", (t0 + datetime.timedelta(microseconds=dlt)).astimezone(zi), False)
                for _ in range(ctx.budget(4, 30)):
                    add("dt.unconv", (t0 - datetime.timedelta(microseconds=rng.randint(1, 500))).astimezone(zi))
        ctx.stat("zoneinfo:available")
    except Exception as ex:        # no zoneinfo / tzdata offline: the custom class above is the portable one
        ctx.stat("zoneinfo:unavailable")
        ctx.notes.append(f"zoneinfo zones not exercised: {type(ex).__name__}")
    # None and wrong types
    wrong = [None, "20200101", "120000", "", 5, 0, True, 1.5, decimal.Decimal("20200101"), b"20200101", [2020], (2020, 1, 1),
             datetime.date(2020, 1, 1), datetime.timedelta(1), datetime.timezone.utc,
             datetime.datetime(2020, 1, 1, tzinfo=datetime.timezone.utc), datetime.time(1, 2, 3, tzinfo=datetime.timezone.utc),
             datetime.datetime(2020, 1, 1), datetime.time(1, 2, 3)]
    for v in wrong:
        for req in (False, True):
            for op in ("dt.conv", "dt.unconv", "tm.conv", "tm.unconv"):
                if isinstance(v, str) and op.endswith(".conv"):
                    continue        # strings to convert are the text cases
                add(op, v, req)
    return cases


# ---------------------------------------------------------------------------------------------
# running
# ---------------------------------------------------------------------------------------------
def _impl_canon(r):
    if r[0] == "ok":
        return ["ok", codec.canon_val(r[1])]
    return ["err"]


def _model_canon(rep):
    if rep.kind == "ok":
        return ["ok", rep.vals[0]]
    if rep.kind == "err":
        return ["err"]
    return ["bad", rep.raw]


def _b(x):
    return "T" if x else "F"


def classify_accept(is_time, text):
    """why a text outside the notation may nevertheless be accepted: tag of the tolerated deviation"""
    if text.endswith("\n") and ref_classify(is_time, text[:-1]).kind in ("in", "dontcare", "ib"):
        return "accepts_trailing_newline"
    m = re.search(r"\[(.*)\]\n?\Z", text, re.S)
    if m:
        body = m.group(1)
        mm = re.match(r"([0-9+-]+)(.)(\d\d)((?::.*)?)\Z", body, re.S)
        if mm:
            sep, dd = mm.group(2), mm.group(3)
            fixed = text[:m.start(1)] + mm.group(1) + "." + "%02d" % (int(dd) % 60) + mm.group(4) + text[m.end(1):]
            if not dd.isascii():
                return "accepts_nonascii_digits"
            if sep != ".":
                return "offset_separator_any_char"
            if int(dd) >= 60 and ref_classify(is_time, fixed).kind in ("in", "dontcare", "ib"):
                return "accepts_offset_minutes_ge60"
    return "accepts_outside_notation"


def run(ctx):
    from ofxtools.Types import DateTime, Time
    from ofxtools import utils
    if dict(utils.TZS) != TZS:
        ctx.notes.append("utils.TZS differs from the reference table; the model follows the generated table")
        TZS.clear()
        TZS.update(utils.TZS)
    conv = {("dt", False): DateTime(), ("dt", True): DateTime(required=True),
            ("tm", False): Time(), ("tm", True): Time(required=True)}

    # ---- texts -------------------------------------------------------------------------
    tcases = build_text_cases(ctx)
    # witnesses of every recorded C09 finding (known or fixed) are always replayed
    try:
        import json, os, framework
        with open(os.path.join(framework.ROOT, "known_findings.json")) as f:
            for e in json.load(f)["findings"]:
                w = e.get("witness") or {}
                if e.get("property") == "C09" and "text" in w:
                    tcases.append((w["op"].startswith("tm"), bool(w.get("required")), w["text"]))
    except Exception as ex:      # the registry is optional for the correspondence itself
        ctx.notes.append(f"known_findings.json not replayed: {ex}")
    lines, spec_lines = [], []
    for is_time, req, text in tcases:
        lines.append(f"{'tm' if is_time else 'dt'}.conv {_b(req)} (s {S(text)})")
        spec_lines.append(f"spec.innotation {_b(is_time)} {S(text)}")
    replies = ctx.model.ask(lines)
    spec_replies = ctx.model.ask(spec_lines)
    back = []     # accepted values, to write and read back
    for (is_time, req, text), rep, srep in zip(tcases, replies, spec_replies):
        ty = "tm" if is_time else "dt"
        op = ty + ".conv"
        r = run_impl(conv[(ty, req)].convert, text)
        impl, model = _impl_canon(r), _model_canon(rep)
        case = {"op": op, "required": req, "text": text}
        ref = ref_classify(is_time, text)
        ctx.stat(f"text:{ty}:{ref.kind}" + (":" + ref.why if ref.why else ""))
        ctx.stat(f"impl:{ty}:{r[0]}" + (":" + r[1] if r[0] == "err" else ""))
        if r[0] == "err" and rep.kind == "err" and rep.err != r[1]:
            ctx.stat(f"errkind-differs:{r[1]}/{rep.err}")
        ctx.compare(op, case, impl, model, nontrivial=(r[0] == "ok"))
        if len(ctx.samples) < 6 and r[0] == "ok" and "[" in text:
            ctx.sample({"case": case, "impl": impl, "model": model})
        # Lean spec against the reference
        ctx.evaluations += 1
        want = ref.instant if ref.kind in ("in", "dontcare") else None
        got = (None if srep.vals[0] == "none" else int(srep.vals[0][1])) if srep.ok else srep.raw
        if got != want:
            ctx.disagree("spec.innotation-vs-reference", case, want, got)
        # ---- oracle on the implementation's own answer ----
        if ref.kind in ("in", "ib"):
            v = r[1] if r[0] == "ok" else None
            good = False
            if v is not None and isinstance(v, datetime.time if is_time else datetime.datetime) and v.utcoffset() == datetime.timedelta(0):
                good = value_instant_us(v) == ref.instant * 1000
            if not good:
                negzero = ref.sign == "-" and ref.hours == 0 and bool(ref.minutes)
                if negzero:
                    tag = "offset_neg_zero_hour"
                elif r[0] == "ok" and not ref.has_minutes and ref.name and re.match(r"\d\d", ref.name):
                    tag = "offset_separator_any_char"      # [5:30] is +5 named "30", read as +5:30
                elif r[0] == "err":
                    tag = ty + "_rejects_valid_text"
                else:
                    tag = ty + "_reads_wrong_instant"
                ctx.violate(tag, case, f"{'Time' if is_time else 'DateTime'}().convert({text!r}) -> "
                            f"{r[1]!r}; the text denotes instant {ref.instant} ms, the value "
                            f"{value_instant_us(v) if v is not None else None} us",
                            {"sign": ref.sign, "hours": ref.hours, "minutes_nonzero": bool(ref.minutes), "dir": "read"})
            elif v is not None:
                back.append((is_time, v))
        elif ref.kind == "out":
            if r[0] == "ok":
                tag = classify_accept(is_time, text)
                ctx.violate(tag, case, f"{'Time' if is_time else 'DateTime'}().convert({text!r}) -> {r[1]!r}: "
                            f"the text is outside the notation ({ref.why}) and must be rejected", {"why": ref.why})

    # ---- values ------------------------------------------------------------------------
    vcases = build_value_cases(ctx)
    for is_time, v in back[:: max(1, len(back) // ctx.budget(3000, 30000))]:
        vcases.append(("tm.unconv" if is_time else "dt.unconv", False, v))
    lines = [f"{op} {_b(req)} {codec.text(codec.canon_val(v))}" for op, req, v in vcases]
    replies = ctx.model.ask(lines)
    rt_lines, rt_for = [], []
    for (op, req, v), rep in zip(vcases, replies):
        ty, dirn = op.split(".")
        is_time = ty == "tm"
        f = conv[(ty, req)].convert if dirn == "conv" else conv[(ty, req)].unconvert
        r = run_impl(f, v)
        impl, model = _impl_canon(r), _model_canon(rep)
        case = {"op": op, "required": req, "value": repr(v), "canon": codec.text(codec.canon_val(v))}
        sp = tz_spec(getattr(v, "tzinfo", None))
        if sp is not None:
            ctx.stat("value:time-dependent-tzinfo:" + sp["kind"])
            case["tz"] = sp
            case["fold"] = v.fold
        ctx.stat(f"value:{op}:{type(v).__name__}")
        ctx.stat(f"impl:{op}:{r[0]}" + (":" + r[1] if r[0] == "err" else ""))
        ctx.compare(op, case, impl, model, nontrivial=(r[0] == "ok" and v is not None))
        if len(ctx.samples) < 12 and r[0] == "ok" and v is not None:
            ctx.sample({"case": case, "impl": impl, "model": model})
        mine = isinstance(v, datetime.time) if is_time else isinstance(v, datetime.datetime)
        if not mine:
            if v is None:
                if (r[0] == "ok") == req or (r[0] == "ok" and r[1] is not None):
                    ctx.violate(ty + "_none_handling", case, f"{op}(None), required={req} -> {r}")
            continue
        if v.utcoffset() is None:
            if r[0] == "ok":
                ctx.violate(ty + "_naive_accepted", case, f"{op}({v!r}) -> {r[1]!r}: naive values must be refused")
            continue
        if dirn == "conv":
            if r[0] != "ok" or r[1] != v or r[1].utcoffset() != v.utcoffset():
                ctx.violate(ty + "_aware_value_changed", case, f"{op}({v!r}) -> {r}")
            continue
        # unconvert of an aware value: oracle only on the property's domain
        off = v.utcoffset()
        off_us = (off.days * 86400 + off.seconds) * 10 ** 6 + off.microseconds
        name = v.tzname()
        if off_us % (60 * 10 ** 6) != 0 or (name is not None and "\n" in name):
            ctx.stat("unconv:outside-domain:subminute-offset")
            continue
        inst_us = value_instant_us(v)
        want_ms = (inst_us + 500) // 1000
        if is_time:
            want_ms %= 86400000
        else:
            local_ms = want_ms + off_us // 1000
            if not (days_from_civil(1000, 1, 1) * 86400000 <= local_ms < END_MS):
                ctx.stat("unconv:outside-domain:year")
                continue
        off_min = off_us // (60 * 10 ** 6)
        negzero = -60 < off_min < 0
        detail = {"sign": "-" if off_min < 0 else "+", "hours": abs(off_min) // 60, "minutes_nonzero": abs(off_min) % 60 != 0, "dir": "write"}
        if r[0] != "ok" or not isinstance(r[1], str):
            ctx.violate(ty + "_write_refuses_aware", case, f"{op}({v!r}) -> {r}", detail)
            continue
        text = r[1]
        if not (-720 <= off_min <= 840):
            ctx.stat("unconv:outside-domain:offset-beyond-12..14")
            continue
        ref = ref_classify(is_time, text)
        head_ok = re.match((r"[0-9]{6}" if is_time else r"[0-9]{14}") + r"\.[0-9]{3}\[", text) is not None and text.endswith("]")
        mo_ = re.match(r"([+-])(0|[1-9][0-9]*)(?:\.([0-9]{2}))?(?::(.*))?\Z", text[text.index("[") + 1:-1], re.S) if head_ok else None
        a = abs(off_min)
        if mo_ is None or ref.kind not in ("in", "dontcare") or ref.instant != want_ms \
                or mo_.group(1) != detail["sign"] or int(mo_.group(2)) != a // 60 \
                or (mo_.group(3) is None) != (a % 60 == 0) or int(mo_.group(3) or 0) != a % 60 or mo_.group(4) != name:
            ctx.violate(ty + "_writes_wrong_text", case,
                        f"{op}({v!r}) -> {text!r}: not the canonical text of instant {want_ms} ms at offset {off_min} min "
                        f"(the text denotes {ref.instant}, {ref.kind} {ref.why})", detail)
            continue
        if not is_time and not (MIN_MS <= want_ms < END_MS):
            ctx.stat("unconv:outside-domain:utc-year")
            continue
        # read back
        rb = run_impl(conv[(ty, False)].convert, text)
        okb = rb[0] == "ok" and rb[1].utcoffset() == datetime.timedelta(0) and value_instant_us(rb[1]) == want_ms * 1000
        if okb:
            diff = value_instant_us(rb[1]) - inst_us
            if is_time:
                diff = min(diff % (86400 * 10 ** 6), -diff % (86400 * 10 ** 6))
            okb = abs(diff) <= 500
        if not okb:
            ctx.violate("offset_neg_zero_hour" if negzero else ty + "_roundtrip_instant", case,
                        f"{op}({v!r}) -> {text!r} reads back as {rb[1]!r} "
                        f"({value_instant_us(rb[1]) if rb[0] == 'ok' else None} us) instead of {want_ms} ms", detail)
        rt_lines.append(f"spec.valinstant {codec.text(codec.canon_val(v))}")
        rt_for.append((case, inst_us))
    # Lean Spec (value instants) against the reference
    for (case, inst_us), rep in zip(rt_for, ctx.model.ask(rt_lines)):
        ctx.evaluations += 1
        got = int(rep.vals[1][1]) if rep.ok and rep.vals[1] != "none" and rep.vals[0] == "T" else rep.raw
        if got != inst_us:
            ctx.disagree("spec.valinstant-vs-reference", case, inst_us, got)
    # Lean instantOf against the reference on random fields
    rng = ctx.rng
    fl, fw = [], []
    for _ in range(ctx.budget(1500, 30000)):
        y = rng.choice((1, 4, 100, 400, 1600, 1900, 2000, 2100, 9999, rng.randint(1, 9999)))
        mo = rng.randint(1, 12)
        d = rng.choice((1, 28, 29, 30, 31, rng.randint(1, 31)))
        h, mi, s = gen_tod(rng)
        ms, off = gen_ms(rng), rng.randint(-720, 840)
        valid = d <= ref_dim(y, mo)
        fl.append(f"spec.instant {y} {mo} {d} {h} {mi} {s} {ms} {off}")
        fw.append((valid, ((days_from_civil(y, mo, d) * 86400 + h * 3600 + mi * 60 + s) * 1000 + ms - off * 60000) if valid else None))
    for ln, (valid, want), rep in zip(fl, fw, ctx.model.ask(fl)):
        ctx.evaluations += 1
        if not rep.ok or (rep.vals[0] == "T") != valid or (valid and int(rep.vals[1]) != want):
            ctx.disagree("spec.instant-vs-reference", {"line": ln}, [valid, want], rep.raw)


def _value_from_canon(text):
    """(dt y m d H M S us tz) / (tm H M S us tz) protocol text -> datetime / time with a FixedTz"""
    from proto import parse, dstr
    n = parse(text)[0]

    def tz(t):
        if t == "none":
            return None
        _, (_tag, off, name) = t
        return FixedTz(int(off), None if name == "none" else dstr(name[1]))
    if n[0] == "dt":
        return datetime.datetime(*[int(x) for x in n[1:8]], tzinfo=tz(n[8]))
    if n[0] == "tm":
        return datetime.time(*[int(x) for x in n[1:5]], tzinfo=tz(n[5]))
    return None


def replay(ctx, data):
    from ofxtools.Types import DateTime, Time
    case = data.get("case") or data.get("first_disagreement", {}).get("case") or data.get("witness")
    ty, dirn = case["op"].split(".")
    c = (Time if ty == "tm" else DateTime)(required=bool(case.get("required")))
    if "text" in case:
        r = run_impl(c.convert, case["text"])
        ref = ref_classify(ty == "tm", case["text"])
        print("replay", case["op"], repr(case["text"]), "->", r, "| reference:", ref.kind, ref.why, ref.instant,
              "ms | value denotes", value_instant_us(r[1]) if r[0] == "ok" and r[1] is not None else None, "us")
        return
    v = _value_from_canon(case["canon"]) if str(case.get("canon", "")).startswith(("(dt", "(tm")) else None
    if v is not None and "tz" in case:          # a time-dependent tzinfo: same wall-clock fields, the real zone
        v = v.replace(tzinfo=tz_from_spec(case["tz"]), fold=case.get("fold", 0))
    if v is None:
        print("replay", case, "(not a datetime/time value; see its repr)")
        return
    r = run_impl(c.convert if dirn == "conv" else c.unconvert, v)
    print("replay", case["op"], repr(v), "->", r, "| value denotes", value_instant_us(v), "us")
    if dirn == "unconv" and r[0] == "ok" and isinstance(r[1], str):
        rb = run_impl((Time if ty == "tm" else DateTime)().convert, r[1])
        print("   read back:", rb, "| denotes", value_instant_us(rb[1]) if rb[0] == "ok" else None, "us;",
              "reference for the text:", ref_classify(ty == "tm", r[1]).instant, "ms")
