"""
C06 correspondence + oracle: a composed request says exactly what the caller asked, in every configuration.

impl  = ofxtools.Client.OFXClient(...).request_statements / request_accounts / _request_profile / request_tax1099
        (dryrun=True; `OFXClient.uuid` replaced by a counting descriptor, `dtclient` by a fixed instant — what the
        repo's own tests do with mock.patch), and `OFXClient.__init__`
model = lean/OfxModel/Ofx/Compose.lean via the driver (compose.init / compose.stmt / .acct / .prof / .tax /
        compose.readback)
oracle= RequestSpec: the Lean checker (spec.request) and an independent Python checker (`py_check`, attribute access
        on the real objects), both evaluated on what the implementation's own bytes parse back to with ofxtools'
        own parser

Compared (ctx.compare): ok-vs-error of `__init__` and of composing+serialising; the composed OFX instance
(captured as the argument `serialize` receives); the bytes returned; what the bytes read back to (ofxtools' parser vs the
model's header parser + lexer + builder + from_etree); the two oracles' verdicts.
"""
import datetime
import itertools
import warnings
from io import BytesIO

from codec import canon_inst, text
from framework import run_impl
from proto import S, Atom, line, dstr, dbytes, opt as popt

RULE = ("every OFX version of the header tables (102 103 151 160 200 201 202 203 210 211 220) x prettyprint x "
        "close_elements x {org/fid, clientuid, appid/appver, language} given or left to the class default; request "
        "sequences over the five request kinds (all sequences up to length 4 in the thorough tier, sampled in quick; "
        "random ones up to length 12) with account ids / credentials drawn from alphanumerics, markup characters "
        "(& < >), entity spellings, non-ASCII, maximal and over-long lengths, empty and None; account types over the "
        "ACCTTYPE enumeration (+ invalid); dates with whole-minute UTC offsets from -12:00 to +14:59 (the range the reader accepts; offsets -0:MM "
        "excluded: C09's finding), microseconds, or None; include flags True/False/None; account-info, profile (with the "
        "version/prettyprint/close_elements overrides) and tax requests. A case is non-trivial when the "
        "implementation composed a request (no exception); distinct by the full canonical case")

V1 = [102, 103, 151, 160]
V2 = [200, 201, 202, 203, 210, 211, 220]
VERSIONS = V1 + V2
KINDS = ["stmt", "ccstmt", "invstmt", "stmtend", "ccstmtend"]
ACCTTYPES = ["CHECKING", "SAVINGS", "MONEYMRKT", "CREDITLINE", "CD"]
UUID_PREFIX = "7E57-0000-"
DTCLIENT = datetime.datetime(2020, 1, 2, 3, 4, 5, 678000, tzinfo=datetime.timezone.utc)
MARKUP = "&<>"
ENTITIES = ["&amp;", "&lt;", "&gt;", "&quot;", "&apos;", "&nbsp;"]


# ----------------------------------------------------------------------------------------------------------------
# canonical encodings for the driver
# ----------------------------------------------------------------------------------------------------------------
def o(v, f=lambda x: x):
    return "none" if v is None else "(some " + f(v) + ")"


def enc_b(v):
    return "T" if v else "F"


def enc_dt(d):
    """datetime -> (dt y m d H M S us <opt tz>)"""
    off = d.utcoffset()
    if off is None:
        tz = "none"
    else:
        us = (off.days * 86400 + off.seconds) * 10 ** 6 + off.microseconds
        tz = "(some (tz %d %s))" % (us, o(d.tzname(), S))
    return "(dt %d %d %d %d %d %d %d %s)" % (d.year, d.month, d.day, d.hour, d.minute, d.second, d.microsecond, tz)


def enc_cfg(c):
    return "(cfg %s %s %s %s %s %d %s %s %s %s %s %s %s)" % (
        S(c["url"]), S(c["userid"]), o(c["clientuid"], S), o(c["org"], S), o(c["fid"], S), c["version"],
        S(c["appid"]), S(c["appver"]), S(c["language"]), enc_b(c["prettyprint"]), enc_b(c["close_elements"]),
        o(c["bankid"], S), o(c["brokerid"], S))


def enc_init(a):
    return "(init %s %s %s %s %s %s %s %s %s %s %s %s %s)" % (
        S(a["url"]), o(a.get("userid"), S), o(a.get("clientuid"), S), o(a.get("org"), S), o(a.get("fid"), S),
        o(a.get("version"), str), o(a.get("appid"), S), o(a.get("appver"), S), o(a.get("language"), S),
        o(a.get("prettyprint"), enc_b), o(a.get("close_elements"), enc_b), o(a.get("bankid"), S),
        o(a.get("brokerid"), S))


def enc_req(r):
    k = r["k"]
    if k == "stmt":
        return "(stmt %s %s %s %s %s)" % (o(r["acctid"], S), o(r["accttype"], S), o(r["dtstart"], enc_dt),
                                          o(r["dtend"], enc_dt), o(r["inctran"], enc_b))
    if k == "ccstmt":
        return "(ccstmt %s %s %s %s)" % (o(r["acctid"], S), o(r["dtstart"], enc_dt), o(r["dtend"], enc_dt),
                                         o(r["inctran"], enc_b))
    if k == "invstmt":
        return "(invstmt %s %s %s %s %s %s %s %s)" % (
            o(r["acctid"], S), o(r["dtstart"], enc_dt), o(r["dtend"], enc_dt), o(r["dtasof"], enc_dt),
            o(r["inctran"], enc_b), o(r["incoo"], enc_b), o(r["incpos"], enc_b), o(r["incbal"], enc_b))
    if k == "stmtend":
        return "(stmtend %s %s %s %s)" % (o(r["acctid"], S), o(r["accttype"], S), o(r["dtstart"], enc_dt),
                                          o(r["dtend"], enc_dt))
    if k == "ccstmtend":
        return "(ccstmtend %s %s %s)" % (o(r["acctid"], S), o(r["dtstart"], enc_dt), o(r["dtend"], enc_dt))
    raise ValueError(k)


def enc_reqs(rs):
    return "(" + " ".join(enc_req(r) for r in rs) + ")"


DEFAULTS = {"acctid": None, "accttype": None, "dtstart": None, "dtend": None, "dtasof": None, "inctran": True,
            "incoo": False, "incpos": True, "incbal": True}


def to_request(r):
    """the request NamedTuple; a field whose value is the documented default is left out, so that the class's own
    default is what the implementation uses"""
    from ofxtools.Client import StmtRq, CcStmtRq, InvStmtRq, StmtEndRq, CcStmtEndRq
    cls = {"stmt": StmtRq, "ccstmt": CcStmtRq, "invstmt": InvStmtRq, "stmtend": StmtEndRq, "ccstmtend": CcStmtEndRq}[r["k"]]
    kw = {k: v for k, v in r.items() if k != "k" and not (v is DEFAULTS[k] or (v is not None and v == DEFAULTS[k]
                                                                              and isinstance(v, bool)))}
    return cls(**kw)


def jsonable(x):
    if isinstance(x, dict):
        return {k: jsonable(v) for k, v in x.items()}
    if isinstance(x, (list, tuple)):
        return [jsonable(v) for v in x]
    if isinstance(x, datetime.datetime):
        off = x.utcoffset()
        return {"$dt": [x.year, x.month, x.day, x.hour, x.minute, x.second, x.microsecond,
                        None if off is None else int(off.total_seconds() // 60), x.tzname()]}
    if isinstance(x, bytes):
        return {"$bytes": x.hex()}
    return x


def unjson(x):
    if isinstance(x, dict):
        if "$dt" in x:
            y, mo, d, h, mi, s, us, off, name = x["$dt"]
            tz = None if off is None else datetime.timezone(datetime.timedelta(minutes=off), name)
            return datetime.datetime(y, mo, d, h, mi, s, us, tzinfo=tz)
        if "$bytes" in x:
            return bytes.fromhex(x["$bytes"])
        return {k: unjson(v) for k, v in x.items()}
    if isinstance(x, list):
        return [unjson(v) for v in x]
    return x


# ----------------------------------------------------------------------------------------------------------------
# running the implementation
# ----------------------------------------------------------------------------------------------------------------
class CountingUuid:
    """stands in for the `uuid` classproperty: the n-th access returns prefix + str(n)"""

    def __init__(self, prefix):
        self.prefix, self.i = prefix, 0

    def __get__(self, obj, objtype=None):
        v = f"{self.prefix}{self.i}"
        self.i += 1
        return v


INIT_KEYS = ["userid", "clientuid", "org", "fid", "version", "appid", "appver", "language", "prettyprint",
             "close_elements", "bankid", "brokerid"]


def make_client(init):
    from ofxtools.Client import OFXClient
    return OFXClient(init["url"], **{k: init.get(k) for k in INIT_KEYS})


def client_cfg(client):
    return {"url": client.url, "userid": client.userid, "clientuid": client.clientuid, "org": client.org,
            "fid": client.fid, "version": client.version, "appid": client.appid, "appver": client.appver,
            "language": client.language, "prettyprint": client.prettyprint, "close_elements": client.close_elements,
            "bankid": client.bankid, "brokerid": client.brokerid}


def impl_compose(case):
    """-> dict(init=('ok',cfg)|('err',k), result=('ok', bytes)|('err', k), inst=<OFX instance or None>)"""
    from ofxtools.Client import OFXClient
    out = {"inst": None, "result": None}
    r = run_impl(make_client, case["init"])
    if r[0] == "err":
        out["init"] = r
        return out
    client = r[1]
    out["init"] = ("ok", client_cfg(client))
    captured = []
    orig_ser = client.serialize

    def spy(ofx, **kw):
        captured.append(ofx)
        return orig_ser(ofx, **kw)

    client.serialize = spy
    client.dtclient = lambda: DTCLIENT
    saved = OFXClient.__dict__["uuid"]
    OFXClient.uuid = CountingUuid(UUID_PREFIX)
    try:
        with warnings.catch_warnings():
            warnings.simplefilter("ignore")
            kind = case["kind"]
            if kind == "stmt":
                f = lambda: client.request_statements(case["pw"], *[to_request(r) for r in case["reqs"]],
                                                      dryrun=True).read()
            elif kind == "acct":
                f = lambda: client.request_accounts(case["pw"], case["dtacctup"], dryrun=True).read()
            elif kind == "prof":
                f = lambda: client._request_profile(dtprofup=case["dtprofup"], version=case["version"],
                                                    prettyprint=case["prettyprint"],
                                                    close_elements=case["close_elements"], dryrun=True).read()
            else:
                f = lambda: client.request_tax1099(case["pw"], *case["years"], acctnum=case["acctnum"],
                                                   recid=case["recid"], dryrun=True).read()
            out["result"] = run_impl(f)
    finally:
        OFXClient.uuid = saved
    if captured:
        out["inst"] = captured[0]
    return out


def impl_readback(data):
    """ofxtools' own parser on the bytes -> ('ok', (hdrversion, OFX instance)) | ('err', kind)"""
    from ofxtools.Parser import OFXTree
    from ofxtools.header import parse_header

    def f():
        hdr, _ = parse_header(BytesIO(data))
        p = OFXTree()
        p.parse(BytesIO(data))
        return int(hdr.version), p.convert()

    with warnings.catch_warnings():
        warnings.simplefilter("ignore")
        return run_impl(f)


def model_lines(case, cfg):
    c = enc_cfg(cfg)
    dtc = enc_dt(DTCLIENT)
    k = case["kind"]
    if k == "stmt":
        return f"compose.stmt {c} {S(case['pw'])} {dtc} {S(UUID_PREFIX)} {enc_reqs(case['reqs'])}"
    if k == "acct":
        return f"compose.acct {c} {S(case['pw'])} {dtc} {S(UUID_PREFIX)} {o(case['dtacctup'], enc_dt)}"
    if k == "prof":
        return (f"compose.prof {c} {dtc} {S(UUID_PREFIX)} {o(case['dtprofup'], enc_dt)} {o(case['version'], str)} "
                f"{o(case['prettyprint'], enc_b)} {o(case['close_elements'], enc_b)}")
    ys = "(" + " ".join(S(y) for y in case["years"]) + ")"
    return (f"compose.tax {c} {S(case['pw'])} {dtc} {S(UUID_PREFIX)} {ys} {o(case['acctnum'], S)} "
            f"{o(case['recid'], S)}")


def spec_line(case, cfg, hv, inst_text):
    c = enc_cfg(cfg)
    dtc = enc_dt(DTCLIENT)
    k = case["kind"]
    if k == "stmt":
        return f"spec.request stmt {c} {S(case['pw'])} {dtc} {enc_reqs(case['reqs'])} {hv} {inst_text}"
    if k == "acct":
        return f"spec.request acct {c} {S(case['pw'])} {dtc} {o(case['dtacctup'], enc_dt)} {hv} {inst_text}"
    if k == "prof":
        return (f"spec.request prof {c} {dtc} {o(case['dtprofup'], enc_dt)} {o(case['version'], str)} {hv} "
                f"{inst_text}")
    ys = "(" + " ".join(S(y) for y in case["years"]) + ")"
    return (f"spec.request tax {c} {S(case['pw'])} {dtc} {ys} {o(case['acctnum'], S)} {o(case['recid'], S)} {hv} "
            f"{inst_text}")


# ----------------------------------------------------------------------------------------------------------------
# the independent oracle: RequestSpec by attribute access on the real objects
# ----------------------------------------------------------------------------------------------------------------
def ms_instant(d):
    """instant of an aware datetime in integer milliseconds, halves up"""
    epoch = datetime.datetime(1970, 1, 1, tzinfo=datetime.timezone.utc)
    delta = d - epoch
    us = (delta.days * 86400 + delta.seconds) * 10 ** 6 + delta.microseconds
    return (us + 500) // 1000


def same_date(want, got):
    if want is None or got is None:
        return want is None and got is None
    if not isinstance(got, datetime.datetime) or got.utcoffset() is None or want.utcoffset() is None:
        return False
    return ms_instant(want) == ms_instant(got)


def same_ostr(want, got):
    return (want or None) == got


def others_none(inst, keep):
    return all(v is None for k, v in inst.__dict__.items() if k not in keep)


def chk_inctran(node, dtstart, dtend, inc):
    return (type(node).__name__ == "INCTRAN" and same_date(dtstart, node.dtstart) and same_date(dtend, node.dtend)
            and node.include is inc and inc is not None and len(node) == 0)


def chk_bankacct(node, cfg, r):
    return (type(node).__name__ == "BANKACCTFROM" and same_ostr(cfg["bankid"], node.bankid)
            and same_ostr(r["acctid"], node.acctid) and same_ostr(r["accttype"], node.accttype)
            and others_none(node, ("bankid", "acctid", "accttype")) and len(node) == 0)


def chk_ccacct(node, r):
    return (type(node).__name__ == "CCACCTFROM" and same_ostr(r["acctid"], node.acctid)
            and others_none(node, ("acctid",)) and len(node) == 0)


WRAPPER = {"stmt": "STMTTRNRQ", "stmtend": "STMTENDTRNRQ", "ccstmt": "CCSTMTTRNRQ", "ccstmtend": "CCSTMTENDTRNRQ",
           "invstmt": "INVSTMTTRNRQ"}
INNER = {"stmt": "stmtrq", "stmtend": "stmtendrq", "ccstmt": "ccstmtrq", "ccstmtend": "ccstmtendrq",
         "invstmt": "invstmtrq"}
MSGSETS = [("bankmsgsrqv1", "BANKMSGSRQV1", ["stmt", "stmtend"]),
           ("creditcardmsgsrqv1", "CREDITCARDMSGSRQV1", ["ccstmt", "ccstmtend"]),
           ("invstmtmsgsrqv1", "INVSTMTMSGSRQV1", ["invstmt"])]


def chk_wrapper(w, cfg, r):
    k = r["k"]
    if type(w).__name__ != WRAPPER[k] or len(w) != 0:
        return False
    if not (isinstance(w.trnuid, str) and w.trnuid):
        return False
    if not others_none(w, ("trnuid", INNER[k])):
        return False
    rq = getattr(w, INNER[k])
    if rq is None or type(rq).__name__ != INNER[k].upper() or len(rq) != 0:
        return False
    if k == "stmt":
        return (chk_bankacct(rq.bankacctfrom, cfg, r) and chk_inctran(rq.inctran, r["dtstart"], r["dtend"], r["inctran"])
                and others_none(rq, ("bankacctfrom", "inctran")))
    if k == "stmtend":
        return (chk_bankacct(rq.bankacctfrom, cfg, r) and same_date(r["dtstart"], rq.dtstart)
                and same_date(r["dtend"], rq.dtend) and others_none(rq, ("bankacctfrom", "dtstart", "dtend")))
    if k == "ccstmt":
        return (chk_ccacct(rq.ccacctfrom, r) and chk_inctran(rq.inctran, r["dtstart"], r["dtend"], r["inctran"])
                and others_none(rq, ("ccacctfrom", "inctran")))
    if k == "ccstmtend":
        return (chk_ccacct(rq.ccacctfrom, r) and same_date(r["dtstart"], rq.dtstart)
                and same_date(r["dtend"], rq.dtend) and others_none(rq, ("ccacctfrom", "dtstart", "dtend")))
    acct = rq.invacctfrom
    if not (type(acct).__name__ == "INVACCTFROM" and same_ostr(cfg["brokerid"], acct.brokerid)
            and same_ostr(r["acctid"], acct.acctid) and len(acct) == 0):
        return False
    if r["inctran"]:
        if not chk_inctran(rq.inctran, r["dtstart"], r["dtend"], r["inctran"]):
            return False
    elif rq.inctran is not None:
        return False
    pos = rq.incpos
    if not (type(pos).__name__ == "INCPOS" and same_date(r["dtasof"], pos.dtasof) and pos.include is r["incpos"]
            and r["incpos"] is not None and len(pos) == 0):
        return False
    return (rq.incoo is r["incoo"] and r["incoo"] is not None and rq.incbal is r["incbal"]
            and r["incbal"] is not None
            and others_none(rq, ("invacctfrom", "inctran", "incoo", "incpos", "incbal")))


def signon_clauses(cfg, userid, pw, root):
    bad = []
    msgs = getattr(root, "signonmsgsrqv1", None)
    sonrq = getattr(msgs, "sonrq", None) if msgs is not None else None
    if not (type(msgs).__name__ == "SIGNONMSGSRQV1" and len(msgs) == 0 and others_none(msgs, ("sonrq",))
            and type(sonrq).__name__ == "SONRQ" and len(sonrq) == 0):
        return ["signon.shape"]
    if not same_date(DTCLIENT, sonrq.dtclient):
        bad.append("signon.dtclient")
    if sonrq.userid != userid:
        bad.append("signon.userid")
    if sonrq.userpass != pw:
        bad.append("signon.userpass")
    if sonrq.language != cfg["language"]:
        bad.append("signon.language")
    fi = sonrq.fi
    if cfg["org"]:
        if not (type(fi).__name__ == "FI" and same_ostr(cfg["org"], fi.org) and same_ostr(cfg["fid"], fi.fid)
                and len(fi) == 0):
            bad.append("signon.fi")
    elif fi is not None:
        bad.append("signon.fi")
    if sonrq.appid != cfg["appid"]:
        bad.append("signon.appid")
    if sonrq.appver != cfg["appver"]:
        bad.append("signon.appver")
    want_cu = (cfg["clientuid"] or None) if cfg["version"] >= 103 else None
    if sonrq.clientuid != want_cu:
        bad.append("signon.clientuid")
    if not others_none(sonrq, ("dtclient", "userid", "userpass", "language", "fi", "appid", "appver", "clientuid")):
        bad.append("signon.extra")
    return bad


def trnuid_clause(root, attrs):
    ids = []
    for a in attrs:
        m = getattr(root, a, None)
        if m is not None:
            ids += [getattr(w, "trnuid", None) for w in m]
    if any(not isinstance(i, str) for i in ids) or len(set(ids)) != len(ids):
        return ["trnuid.distinct"]
    return []


def root_clauses(root, attrs):
    bad = []
    if not (type(root).__name__ == "OFX" and len(root) == 0):
        bad.append("root.shape")
    if not others_none(root, ("signonmsgsrqv1",) + tuple(attrs)):
        bad.append("root.extra")
    return bad


def py_check(case, cfg, hv, root):
    """names of the RequestSpec clauses the instance `root` (read from a file whose header says `hv`) fails"""
    kind = case["kind"]
    bad = []
    if kind == "stmt":
        if hv != cfg["version"]:
            bad.append("header.version")
        attrs = [m[0] for m in MSGSETS]
        bad += root_clauses(root, attrs)
        bad += signon_clauses(cfg, cfg["userid"], case["pw"], root)
        for attr, clsname, kinds in MSGSETS:
            node = getattr(root, attr, None)
            asked = [r for r in case["reqs"] if r["k"] in kinds]
            if not asked:
                if node is not None:
                    bad.append(f"msgset.{attr}.absent")
                continue
            if not (type(node).__name__ == clsname and others_none(node, ())):
                bad.append(f"msgset.{attr}.shape")
                node = node if isinstance(node, list) else []
            if not all(type(w).__name__ in [WRAPPER[k] for k in kinds] for w in node):
                bad.append(f"msgset.{attr}.foreign")
            for k in kinds:
                want = [r for r in case["reqs"] if r["k"] == k]
                got = [w for w in node if type(w).__name__ == WRAPPER[k]]
                if not (len(want) == len(got) and all(chk_wrapper(w, cfg, r) for r, w in zip(want, got))):
                    bad.append(f"wrappers.{WRAPPER[k]}")
        bad += trnuid_clause(root, attrs)
        return bad
    from ofxtools.Client import AUTH_PLACEHOLDER
    if kind == "acct":
        attr, clsname, label, ver, userid, pw = ("signupmsgsrqv1", "SIGNUPMSGSRQV1", "ACCTINFOTRNRQ", cfg["version"],
                                                 cfg["userid"], case["pw"])
    elif kind == "prof":
        attr, clsname, label = "profmsgsrqv1", "PROFMSGSRQV1", "PROFTRNRQ"
        ver = case["version"] if case["version"] is not None else cfg["version"]
        userid = pw = AUTH_PLACEHOLDER
    else:
        attr, clsname, label, ver, userid, pw = ("tax1099msgsrqv1", "TAX1099MSGSRQV1", "TAX1099TRNRQ", cfg["version"],
                                                 cfg["userid"], case["pw"])
    if hv != ver:
        bad.append("header.version")
    bad += root_clauses(root, [attr])
    bad += signon_clauses(cfg, userid, pw, root)
    node = getattr(root, attr, None)
    if not (type(node).__name__ == clsname and others_none(node, ())):
        bad.append(f"msgset.{attr}.shape")
        node = node if isinstance(node, list) else []
    ok = len(node) == 1
    if ok:
        w = node[0]
        ok = (type(w).__name__ == label and len(w) == 0 and isinstance(w.trnuid, str) and bool(w.trnuid))
    if ok:
        if kind == "acct":
            rq = w.acctinforq
            ok = (others_none(w, ("trnuid", "acctinforq")) and type(rq).__name__ == "ACCTINFORQ"
                  and same_date(case["dtacctup"], rq.dtacctup) and case["dtacctup"] is not None and len(rq) == 0)
        elif kind == "prof":
            rq = w.profrq
            want = case["dtprofup"] or datetime.datetime(1990, 1, 1, tzinfo=datetime.timezone.utc)
            ok = (others_none(w, ("trnuid", "profrq")) and type(rq).__name__ == "PROFRQ"
                  and rq.clientrouting == "NONE" and same_date(want, rq.dtprofup) and len(rq) == 0)
        else:
            rq = w.tax1099rq
            ok = (others_none(w, ("trnuid", "tax1099rq")) and type(rq).__name__ == "TAX1099RQ"
                  and same_ostr(case["acctnum"], rq.acctnum) and same_ostr(case["recid"], rq.recid)
                  and len(rq) == len(case["years"])
                  and all(isinstance(g, int) and not isinstance(g, bool) and str(g) == y
                          for g, y in zip(rq, case["years"])))
    if not ok:
        bad.append(f"wrappers.{label}")
    bad += trnuid_clause(root, [attr])
    return bad


# ----------------------------------------------------------------------------------------------------------------
# classification of a rejected read-back
# ----------------------------------------------------------------------------------------------------------------
def py_eval(case):
    """implementation + independent oracle only: None (not composed) | list of failing clauses"""
    im = impl_compose(case)
    if im["init"][0] != "ok" or im["result"] is None or im["result"][0] != "ok":
        return None
    cfg = im["init"][1]
    rb = impl_readback(im["result"][1])
    if rb[0] != "ok":
        return ["wire.unreadable"]
    return sorted(set(py_check(case, cfg, rb[1][0], rb[1][1])))


def map_strings(case, f):
    """the case with every caller-supplied text mapped through f"""
    c = dict(case)
    c["init"] = {k: (f(v) if isinstance(v, str) and k != "url" else v) for k, v in case["init"].items()}
    if isinstance(c.get("pw"), str):
        c["pw"] = f(c["pw"])
    if "reqs" in c:
        c["reqs"] = [{k: (f(v) if isinstance(v, str) and k in ("acctid", "accttype") else v) for k, v in r.items()}
                     for r in c["reqs"]]
    for k in ("acctnum", "recid"):
        if isinstance(c.get(k), str):
            c[k] = f(c[k])
    return c


def effective_close(case, cfg):
    if case["kind"] == "prof" and case.get("close_elements") is not None:
        return case["close_elements"]
    return cfg["close_elements"]


def with_close(case, close):
    c = dict(case)
    if case["kind"] == "prof" and case.get("close_elements") is not None:
        c["close_elements"] = close
    c["init"] = dict(case["init"], close_elements=close)
    return c


def no_entity(t):
    for e in ENTITIES:
        t = t.replace(e, "x" * len(e))
    return t


def no_markup(t):
    return "".join("x" if ch in MARKUP else ch for ch in t)


def repairs(case, cfg):
    """(tag, detail, repaired case) for every recorded cause that is present in the case"""
    out = []
    if case["kind"] == "tax" and case.get("acctnum"):
        out.append(("tax1099_acctnum_dropped", {"acctnum_given": True}, lambda c: dict(c, acctnum=None)))
    if map_strings(case, no_entity) != case:
        out.append(("string_entity_unescaped", {"entity": True}, lambda c: map_strings(c, no_entity)))
    if not effective_close(case, cfg):
        if map_strings(case, no_markup) != case:
            out.append(("unclosed_no_escape", {"form": "unclosed"}, lambda c: map_strings(c, no_markup)))
        if case["kind"] == "tax" and not case["years"] and not case["recid"]:
            out.append(("unclosed_empty_aggregate_no_end_tag", {"form": "unclosed"}, lambda c: with_close(c, True)))
        else:
            out.append(("unclosed_form_only", {"form": "unclosed"}, lambda c: with_close(c, True)))
    return out


def classify(case, cfg, clauses, root=None):
    """-> [(tag, detail)]: the causes of a rejected request, established by re-running the case with the suspected
    causes removed — the smallest set of recorded causes whose removal makes the oracle accept; a failure that no
    recorded cause explains is tagged by its clauses"""
    clauses = sorted(set(clauses))
    rs = repairs(case, cfg)
    for n in range(1, len(rs) + 1):
        for combo in itertools.combinations(rs, n):
            c = case
            for _, _, f in combo:
                c = f(c)
            if py_eval(c) == []:
                return [(t, dict(d, clauses=clauses)) for t, d, _ in combo]
    # no set of recorded causes explains it: report what is left once all of them are removed
    c = case
    for _, _, f in rs:
        c = f(c)
    left = py_eval(c) if rs else clauses
    if left:
        clauses = sorted(set(left))
    return [("spec:" + "+".join(clauses), {"clauses": clauses})]


# ----------------------------------------------------------------------------------------------------------------
# one case
# ----------------------------------------------------------------------------------------------------------------
def model_reply_canon(rep):
    """compose.* reply -> ['err'] | ['ok', inst-nested, ['ok', bytes] | ['err']]"""
    if rep.kind == "err":
        return ["err"], rep.err
    if rep.kind != "ok":
        return ["bad", rep.raw], None
    inst, ser = rep.vals
    if ser[0] == "ok":
        return ["ok", inst, ["ok", dbytes(ser[1])]], None
    return ["ok", inst, ["err"]], ser[1]


def run_cases(ctx, cases, label):
    """cases: list of case dicts"""
    impl = [impl_compose(c) for c in cases]
    # 1. __init__
    init_replies = ctx.model.ask(["compose.init " + enc_init(c["init"]) for c in cases])
    live = []
    for c, im, rep in zip(cases, impl, init_replies):
        jc = jsonable(c)
        if im["init"][0] == "ok":
            icanon = ["ok", enc_cfg(im["init"][1])]
        else:
            icanon = ["err", im["init"][1]]
        if rep.kind == "ok":
            mcanon = ["ok", text(rep.vals[0])]
        elif rep.kind == "err":
            mcanon = ["err", rep.err]
        else:
            mcanon = ["bad", rep.raw]
        ctx.compare("compose.init", jc, icanon, mcanon, nontrivial=False)
        # the property's last sentence: versions 2xx refuse to omit end tags
        ia = c["init"]
        ver = ia.get("version") if ia.get("version") is not None else 203
        close = ia.get("close_elements") if ia.get("close_elements") is not None else True
        if ver >= 200 and not close and im["init"][0] == "ok":
            ctx.violate("v2_unclosed_accepted", jc, "OFXClient accepted version >= 200 with close_elements=False",
                        {"version": ver})
        if im["init"][0] == "ok":
            live.append((c, im, im["init"][1]))
        else:
            ctx.stat("init-refused")
    # 2. compose
    replies = ctx.model.ask([model_lines(c, cfg) for c, im, cfg in live])
    rb_lines, rb_idx = [], []
    todo = []
    for (c, im, cfg), rep in zip(live, replies):
        jc = jsonable(c)
        mcanon, merr = model_reply_canon(rep)
        res = im["result"]
        # ok / error of the whole call
        i_ok = res[0] == "ok"
        m_ok = mcanon[0] == "ok" and mcanon[2][0] == "ok"
        ctx.compare(f"compose.{c['kind']}.okerr", jc, i_ok, m_ok, nontrivial=False)
        if not i_ok and not m_ok and merr is not None and merr != res[1]:
            ctx.stat("errkind-differs")
        ctx.stat(f"{label}:{c['kind']}:" + ("ok" if i_ok else "err:" + res[1]))
        # the composed instance (argument of serialize)
        if im["inst"] is not None and mcanon[0] == "ok":
            ctx.compare(f"compose.{c['kind']}.instance", jc, text(canon_inst(im["inst"])), text(mcanon[1]),
                        nontrivial=False)
        elif (im["inst"] is not None) != (mcanon[0] == "ok"):
            ctx.compare(f"compose.{c['kind']}.instance", jc, im["inst"] is not None, mcanon[0] == "ok",
                        nontrivial=False)
        # version >= 200 must refuse to omit end tags (per-call override of the profile request)
        if i_ok and c["kind"] == "prof":
            ver = c["version"] if c["version"] is not None else cfg["version"]
            if ver >= 200 and not effective_close(c, cfg):
                ctx.violate("v2_unclosed_accepted", jc, "serialize accepted version >= 200 with close_elements=False",
                            {"version": ver})
        if not i_ok:
            continue
        data = res[1]
        if m_ok:
            ctx.compare(f"compose.{c['kind']}.bytes", jc, data.hex(), mcanon[2][1].hex(), nontrivial=True)
        ctx.sample({"case": jc, "bytes": data[:160].decode("utf-8", "replace")}, limit=8)
        todo.append((c, cfg, data))
    # 3. read back: ofxtools' parser vs the model's, then the oracles on the implementation's read-back
    rb_replies = ctx.model.ask(["compose.readback x" + d.hex() for _, _, d in todo])
    spec_lines, spec_meta = [], []
    for (c, cfg, data), rep in zip(todo, rb_replies):
        jc = jsonable(c)
        rb = impl_readback(data)
        if rb[0] == "ok":
            hv, root = rb[1]
            inst_text = text(canon_inst(root))
            icanon = ["ok", str(hv), inst_text]
        else:
            icanon = ["err"]
        if rep.kind == "ok":
            mcanon = ["ok", rep.vals[0], text(rep.vals[1])]
        elif rep.kind == "err":
            mcanon = ["err"]
        else:
            mcanon = ["bad", rep.raw]
        if rb[0] == "ok":
            # (what the parser layer makes of a file the library itself refuses is C08's business, not compared here)
            ctx.compare("compose.readback", jc, icanon, mcanon, nontrivial=False)
        if rb[0] != "ok":
            for tag, detail in classify(c, cfg, ["wire.unreadable"]):
                ctx.violate(tag, jc, "the composed request cannot be read back by the library's own parser",
                            dict(detail, error=rb[1]))
            continue
        spec_lines.append(spec_line(c, cfg, hv, inst_text))
        spec_meta.append((c, cfg, hv, root))
    spec_replies = ctx.model.ask(spec_lines)
    for (c, cfg, hv, root), rep in zip(spec_meta, spec_replies):
        jc = jsonable(c)
        pyc = sorted(set(py_check(c, cfg, hv, root)))
        if rep.kind == "ok":
            lc = sorted(set(dstr(x) for x in rep.vals[1]))
        else:
            lc = ["bad:" + rep.raw]
        ctx.compare("spec.request", jc, pyc, lc, nontrivial=False)
        clauses = sorted(set(pyc) | set(x for x in lc if not x.startswith("bad:")))
        if clauses:
            for tag, detail in classify(c, cfg, clauses, root):
                ctx.violate(tag, jc, "the composed request, read back, does not say what was asked: "
                            + ", ".join(clauses), detail)
        else:
            ctx.stat("spec-accepted")


# ----------------------------------------------------------------------------------------------------------------
# generators
# ----------------------------------------------------------------------------------------------------------------
class Gen:
    def __init__(self, rng):
        self.rng = rng

    ALNUM = "abcdefghijklmnopqrstuvwxyzABCDEFGHIJKLMNOPQRSTUVWXYZ0123456789"
    PRINT = "".join(chr(i) for i in range(33, 127))

    def word(self, lo, hi, alpha=None):
        alpha = alpha or self.ALNUM
        return "".join(self.rng.choice(alpha) for _ in range(self.rng.randint(lo, hi)))

    def text(self, maxlen, required=True, hot=0.35):
        """a text for a String(maxlen) element: mostly valid, boundary-heavy; trimmed, because element data cannot
        carry surrounding white space"""
        t = self.text0(maxlen, required, hot)
        if t:
            t = t.strip() or "x"
        return t

    def text0(self, maxlen, required=True, hot=0.35):
        r = self.rng.random()
        if r < 0.45:
            return self.word(1, min(maxlen, 8))
        if r < 0.45 + hot * 0.5:
            # markup characters
            n = self.rng.randint(1, min(maxlen, 10))
            # (quotes too: a serializer that escapes more than & < > writes entities the reader does not decode)
            return "".join(self.rng.choice(self.ALNUM[:8] + MARKUP * 3 + "'\"'\" ") for _ in range(n)).strip() or "&"
        if r < 0.45 + hot * 0.65:
            s = self.word(0, 2) + self.rng.choice(ENTITIES) + self.word(0, 2)
            return s[:maxlen]
        if r < 0.45 + hot * 0.8:
            return self.word(1, min(maxlen, 6), self.PRINT)
        if r < 0.45 + hot * 0.9:
            return self.word(1, min(maxlen, 4), "\u00e9\u00df\u03a9\u20ac\u65e5\u672c x")
        if r < 0.9:
            return self.word(maxlen, maxlen)
        if r < 0.95:
            return self.word(maxlen + 1, maxlen + 2)
        if r < 0.975:
            return ""
        return None if not required else self.word(1, 3)

    def date(self, p_none=0.3):
        r = self.rng.random()
        if r < p_none:
            return None
        while True:
            off = self.rng.choice([0, 0, 0, 60, -300, 330, -210, 765, -720, 899, self.rng.randint(-720, 899)])
            if not (-60 < off < 0):       # -0:MM is written -0.MM and read back +0:MM (C09's finding)
                break
        name = self.rng.choice([None, "UTC", "EST", "XYZ", "GMT"]) if off else self.rng.choice(["UTC", None, "GMT"])
        tz = datetime.timezone(datetime.timedelta(minutes=off), name) if name else \
            datetime.timezone(datetime.timedelta(minutes=off))
        if self.rng.random() < 0.03:
            tz = None       # naive: refused
        us = self.rng.choice([0, 0, 0, 1000, 999000, 123456, 999499, 500, 499])
        y = self.rng.choice([1990, 1999, 2000, 2015, 2024, 2038, self.rng.randint(1971, 2999)])
        mo = self.rng.randint(1, 12)
        d = self.rng.randint(1, 28)
        return datetime.datetime(y, mo, d, self.rng.randint(0, 23), self.rng.randint(0, 59), self.rng.randint(0, 59),
                                 us, tzinfo=tz)

    def flag(self, p_none=0.04):
        r = self.rng.random()
        if r < p_none:
            return None
        return self.rng.random() < 0.5

    def accttype(self):
        r = self.rng.random()
        if r < 0.9:
            return self.rng.choice(ACCTTYPES)
        if r < 0.95:
            return self.rng.choice(["checking", "BOGUS", "", "CHECKING "])
        return None

    def req(self, kind=None, wild=True):
        k = kind or self.rng.choice(KINDS)
        acctid = self.text(22) if wild else self.word(1, 8)
        r = {"k": k, "acctid": acctid}
        if k in ("stmt", "stmtend"):
            r["accttype"] = self.accttype() if wild else self.rng.choice(ACCTTYPES)
        r["dtstart"] = self.date()
        r["dtend"] = self.date()
        if k in ("stmt", "ccstmt"):
            r["inctran"] = self.flag() if wild else self.rng.random() < 0.5
        if k == "invstmt":
            r["dtasof"] = self.date()
            for f in ("inctran", "incoo", "incpos", "incbal"):
                r[f] = self.flag() if wild else self.rng.random() < 0.5
        return r

    def init(self, version=None, pretty=None, close=None, wild=True, ident=None):
        """ident: tuple of four bools (org/fid, clientuid, appid/appver, language given?) or None = random"""
        rng = self.rng
        if ident is None:
            ident = tuple(rng.random() < 0.6 for _ in range(4))
        a = {"url": "https://ofx.example.com/" + self.word(0, 4)}
        a["version"] = version if version is not None else rng.choice(VERSIONS + [None])
        if pretty is None:
            pretty = rng.choice([None, True, False])
        a["prettyprint"] = pretty
        if close is None:
            v = a["version"] if a["version"] is not None else 203
            close = rng.choice([None, True, False]) if v < 200 else rng.choice([None, True, True, True, False])
        a["close_elements"] = close
        t = (lambda n, req=True: self.text(n, req)) if wild else (lambda n, req=True: self.word(1, min(n, 8)))
        a["userid"] = t(32) if rng.random() < 0.9 else None
        if ident[0]:
            a["org"] = t(32, False)
            a["fid"] = t(32, False) if rng.random() < 0.8 else None
        else:
            a["org"] = None
            a["fid"] = t(32, False) if rng.random() < 0.3 else None      # FID without ORG: no FI
        a["clientuid"] = t(36, False) if ident[1] else None
        if ident[2]:
            a["appid"] = t(5)
            a["appver"] = t(4)
        if ident[3]:
            a["language"] = rng.choice(["ENG", "FRA", "SPA", "DEU", "ENG", "eng", "XXX"]) if wild else \
                rng.choice(["ENG", "FRA", "SPA"])
        a["bankid"] = t(9) if rng.random() < 0.9 else None
        a["brokerid"] = t(22) if rng.random() < 0.9 else None
        return a

    def password(self, wild=True):
        return self.text(171) if wild else self.word(1, 12)


def simple_req(kind, i):
    """the i-th request of an enumerated sequence: recognisable ids so that order is observable"""
    tz = datetime.timezone(datetime.timedelta(minutes=-300), "EST")
    d0 = datetime.datetime(2015, 1, 1 + i, tzinfo=datetime.timezone.utc)
    d1 = datetime.datetime(2015, 2, 1 + i, 12, 30, tzinfo=tz)
    r = {"k": kind, "acctid": f"acct{i}", "dtstart": d0, "dtend": d1}
    if kind in ("stmt", "stmtend"):
        r["accttype"] = ACCTTYPES[i % len(ACCTTYPES)]
    if kind in ("stmt", "ccstmt"):
        r["inctran"] = i % 2 == 0
    if kind == "invstmt":
        r.update(dtasof=d1, inctran=i % 2 == 1, incoo=i % 2 == 0, incpos=i % 3 != 0, incbal=i % 2 == 1)
    return r


def chunks(it, n):
    buf = []
    for x in it:
        buf.append(x)
        if len(buf) == n:
            yield buf
            buf = []
    if buf:
        yield buf


def known_witnesses():
    """the recorded defects, replayed on every run"""
    base = {"url": "https://ofx.example.com/", "userid": "user", "org": "ORG", "fid": "1", "version": 102,
            "bankid": "123456789", "brokerid": "broker.example.com"}
    w = []
    # request_tax1099(acctnum="777"): the account number is never placed
    w.append({"kind": "tax", "init": dict(base, version=203), "pw": "pass", "years": ["2019"], "acctnum": "777",
              "recid": None})
    # close_elements=False: password p&a<ss>w reads back p&a
    w.append({"kind": "stmt", "init": dict(base, close_elements=False), "pw": "p&a<ss>w",
              "reqs": [simple_req("stmt", 0)]})
    # close_elements=False: a childless aggregate gets no end tag
    w.append({"kind": "tax", "init": dict(base, close_elements=False), "pw": "pass", "years": [], "acctnum": None,
              "recid": None})
    # entity spelling in a credential
    w.append({"kind": "stmt", "init": dict(base), "pw": "p&amp;w", "reqs": [simple_req("ccstmt", 0)]})
    return w


def run(ctx):
    rng = ctx.rng
    g = Gen(rng)
    # --- 0. witnesses of the recorded defects ---
    run_cases(ctx, known_witnesses(), "witness")
    # --- 1. configuration x request sequences up to length 4 (distinct, recognisable ids; clean texts) ---
    seqs = [s for n in range(0, 5) for s in itertools.product(KINDS, repeat=n)]
    cfgs = [(v, p, c) for v in VERSIONS for p in (False, True) for c in (True, False)]   # incl. refused 2xx/False
    idents = list(itertools.product((False, True), repeat=4))

    def enum_case(seq, v, p, c, ident):
        init = g.init(version=v, pretty=p, close=c, wild=False, ident=ident)
        return {"kind": "stmt", "init": init, "pw": g.password(wild=False),
                "reqs": [simple_req(k, i) for i, k in enumerate(seq)]}

    if ctx.thorough:
        def all_cases():
            for seq in seqs:
                for (v, p, c) in cfgs:
                    if len(seq) <= 2:
                        ids = idents
                    else:
                        ids = [rng.choice(idents)]
                    for ident in ids:
                        yield enum_case(seq, v, p, c, ident)
        n = 0
        for ch in chunks(all_cases(), 400):
            run_cases(ctx, ch, "enum")
            n += len(ch)
        ctx.exhaustive.append(f"all {len(seqs)} request sequences of length <= 4 over the five kinds x all "
                              f"{len(cfgs)} (version, prettyprint, close_elements) triples (x all 16 identity-field "
                              f"subsets for length <= 2, one random subset otherwise): {n} cases")
    else:
        m = ctx.budget(1000)
        cases = []
        # every (version, pretty, close) x every identity subset at least once, with sampled sequences
        for (v, p, c) in cfgs:
            for ident in rng.sample(idents, 3):
                cases.append(enum_case(rng.choice(seqs), v, p, c, ident))
        # every sequence up to length 2 once
        for seq in seqs:
            if len(seq) <= 2:
                v, p, c = rng.choice(cfgs)
                cases.append(enum_case(seq, v, p, c, rng.choice(idents)))
        while len(cases) < m:
            v, p, c = rng.choice(cfgs)
            cases.append(enum_case(rng.choice(seqs), v, p, c, rng.choice(idents)))
        for ch in chunks(cases, 400):
            run_cases(ctx, ch, "enum")
    # --- 2. random larger requests with hostile texts, offsets, flags ---
    m = ctx.budget(1200)
    cases = []
    for _ in range(m):
        wild = rng.random() < 0.7
        n = rng.choice([0, 1, 1, 2, 3, 5, 8, 12])
        cases.append({"kind": "stmt", "init": g.init(wild=wild), "pw": g.password(wild),
                      "reqs": [g.req(wild=wild and rng.random() < 0.6) for _ in range(n)]})
    for ch in chunks(cases, 400):
        run_cases(ctx, ch, "random")
    # --- 3. account-info, profile, tax ---
    m = ctx.budget(700)
    cases = []
    for _ in range(m):
        wild = rng.random() < 0.5
        k = rng.choice(["acct", "prof", "tax"])
        c = {"kind": k, "init": g.init(wild=wild)}
        if k == "acct":
            c["pw"] = g.password(wild)
            c["dtacctup"] = g.date(p_none=0.05)
        elif k == "prof":
            c["dtprofup"] = g.date(p_none=0.5)
            c["version"] = rng.choice([None, None] + VERSIONS)
            c["prettyprint"] = rng.choice([None, True, False])
            c["close_elements"] = rng.choice([None, None, True, False])
        else:
            c["pw"] = g.password(wild)
            c["years"] = [str(rng.choice([1999, 2018, 2019, 2020, 2024, 9999, 0, 12345]))
                          for _ in range(rng.choice([0, 1, 1, 2, 3]))]
            if wild and rng.random() < 0.1:
                c["years"].append(rng.choice(["20x9", "2o19", "20190"]))
            c["acctnum"] = None if rng.random() < 0.85 else g.word(1, 8)
            c["recid"] = rng.choice([None, None, "", g.word(1, 8)])
        cases.append(c)
    for ch in chunks(cases, 400):
        run_cases(ctx, ch, "single")


def replay(ctx, data):
    case = unjson(data["case"]) if "case" in data else unjson(data["first_disagreement"]["case"])
    run_cases(ctx, [case], "replay")
