"""
C07 — unknown and vendor-specific tags never change or break the converted result.

impl   = Aggregate.from_etree(document) vs Aggregate.from_etree(document with insertions)
model  = Agg.fromEtree on the document with insertions (driver op `fromtree`)
oracle = the property itself on the implementation: both conversions succeed/fail alike and give
         structurally equal models.
"""
import copy
import xml.etree.ElementTree as ET

from codec import canon_inst
from gen.instances import Gen, concrete_classes
from corr.agg_common import fromtree_line, quiet, model_ok_err

RULE = ("for every concrete class a valid document (to_etree of a generated instance); insertions at child "
        "positions of aggregate nodes at any depth (every position of the root in the thorough tier) of: unknown "
        "leaf, unknown empty element, unknown aggregate with random — also otherwise-known — content, "
        "vendor-prefixed (INTU.xxx) leaf and aggregate, a second YIELD/FROM for the classes that rename the first, an unknown "
        "aggregate holding a YIELD/FROM at depth 1-3 placed before the real one; "
        "1–3 insertions per document; non-trivial and distinct by (class, document, insertion kind, position)")

UNKNOWN_TAGS = ["XYZZY", "FOO", "NEWFIELD2", "X_1",
                # names that ARE attributes of every model class / of list, though never declared children: a reader
                # that asks the class instead of its spec meets them
                "INDEX", "COUNT", "COPY", "SORT", "SPEC", "APPEND", "EXTEND", "POP", "REMOVE", "REVERSE", "CLEAR",
                "INSERT", "ELEMENTS", "SUBAGGREGATES", "UNSUPPORTED", "LISTAGGREGATES", "LISTELEMENTS", "GROOM",
                "UNGROOM", "VALIDATE_ARGS", "FROM_ETREE", "TO_ETREE", "OPTIONALMUTEXES", "REQUIREDMUTEXES",
                # tags of other classes
                "STATUS", "SONRS", "CURRENCY", "BANKACCTFROM", "STMTTRN", "OFX"]


def insertions(gen, rng, tree, by_name):
    """yield (kind, parent path, position, element) candidates"""
    out = []
    nodes = []

    def walk(e, path):
        c = by_name.get(e.tag)
        if c is not None and (len(e) > 0 or e.text is None):
            nodes.append((e, path, c))
        for i, ch in enumerate(e):
            walk(ch, path + [i])
    walk(tree, [])
    return nodes


def make_unknown(gen, rng, cls_c, kind):
    names = {a["name"] for a in cls_c["spec"]}
    renamed_src = cls_c["groom"][0] if cls_c.get("groom") else None

    def fresh():
        for _ in range(20):
            t = rng.choice(UNKNOWN_TAGS)
            if t.lower() not in names and t != renamed_src:
                return t
        return "QQQQQ"
    if kind == "leaf":
        e = ET.Element(fresh()); e.text = rng.choice(["1", "some text", "a&amp;b"])
    elif kind == "empty":
        e = ET.Element(fresh())
    elif kind == "agg":
        e = ET.Element(fresh())
        for _ in range(rng.randint(1, 3)):
            sub = ET.SubElement(e, rng.choice(["TRNUID", "STATUS", "DTSERVER", fresh()]))
            if rng.random() < 0.7:
                sub.text = "x"
            else:
                ET.SubElement(sub, "CODE").text = "0"
    elif kind == "known_inside_unknown":
        # a whole valid known aggregate wrapped in an unknown tag
        d, inst = gen.valid_instance("STATUS")
        e = ET.Element(fresh()); e.append(inst.to_etree())
    elif kind == "vendor_leaf":
        e = ET.Element("INTU." + rng.choice(["BID", "USERID", "X"])); e.text = "00002"
    elif kind == "vendor_agg":
        e = ET.Element("INTU.AGG"); ET.SubElement(e, "INTU.BID").text = "1"; ET.SubElement(e, "CODE").text = "0"
    elif kind == "vendor_known_suffix":
        # vendor prefix on an otherwise known tag of this class
        known = [a["name"].upper() for a in cls_c["spec"]] or ["CODE"]
        e = ET.Element("VND." + rng.choice(known)); e.text = "1"
    else:
        raise ValueError(kind)
    return e


KINDS = ["leaf", "empty", "agg", "known_inside_unknown", "vendor_leaf", "vendor_agg", "vendor_known_suffix"]


def run(ctx):
    from ofxtools.models.base import Aggregate
    schema = ctx.schema
    gen = Gen(schema, ctx.rng, max_depth=2)
    by_name = gen.by_name
    rng = ctx.rng
    classes = concrete_classes(schema)
    reps = ctx.budget(2, 12)
    lines, meta = [], []
    for c in classes:
        for _ in range(reps):
            d, inst = gen.valid_instance(c["name"])
            if d is None:
                continue
            base = inst.to_etree()
            r0 = quiet(Aggregate.from_etree, copy.deepcopy(base))
            t2 = copy.deepcopy(base)
            nodes = insertions(gen, rng, t2, by_name)
            if not nodes:
                continue
            n_ins = rng.randint(1, 3)
            desc = []
            for _ in range(n_ins):
                e, path, cc = rng.choice(nodes)
                kind = rng.choice(KINDS)
                pos = rng.randint(0, len(e))
                e.insert(pos, make_unknown(gen, rng, cc, kind))
                desc.append([kind, path, pos])
            r1 = quiet(Aggregate.from_etree, copy.deepcopy(t2))
            meta.append((c["name"], desc, r0, r1, t2))
            lines.append(fromtree_line(t2))
        if ctx.thorough and c["spec"]:
            # every root position x every kind, once
            d, inst = gen.valid_instance(c["name"])
            if d is None:
                continue
            base = inst.to_etree()
            r0 = quiet(Aggregate.from_etree, copy.deepcopy(base))
            for pos in range(len(base) + 1):
                for kind in KINDS:
                    t2 = copy.deepcopy(base)
                    t2.insert(pos, make_unknown(gen, rng, c, kind))
                    r1 = quiet(Aggregate.from_etree, copy.deepcopy(t2))
                    meta.append((c["name"], [[kind, [], pos]], r0, r1, t2))
                    lines.append(fromtree_line(t2))
    if ctx.thorough:
        ctx.exhaustive.append("every root child position x every insertion kind for one document of every class")
    # the three classes whose groom renames the first YIELD / FROM: an extra one stays unknown
    # (which classes rename is NOT taken from the translator's probe of the groom hooks alone — a changed hook may no longer
    #  look like a rename to it: OFX tags that are Python keywords are stored under YLD / FRM, so a class with such an
    #  attribute reads YIELD / FROM)
    RESERVED = {"yld": ("YIELD", "YLD"), "frm": ("FROM", "FRM")}
    renaming = {}
    for c in classes:
        if c.get("groom"):
            renaming[c["name"]] = tuple(c["groom"])
        for a in c["spec"]:
            if a["name"] in RESERVED:
                renaming.setdefault(c["name"], RESERVED[a["name"]])
    for name in sorted(renaming):
        c = by_name[name]
        src, dst = renaming[name]
        for _ in range(ctx.budget(10, 60)):
            d, inst = gen.valid_instance(name, force=[dst.lower()])
            if d is None:
                continue
            base = inst.to_etree()
            r0 = quiet(Aggregate.from_etree, copy.deepcopy(base))
            t2 = copy.deepcopy(base)
            idx = [i for i, ch in enumerate(t2) if ch.tag == src]
            if not idx:
                continue
            extra = ET.Element(src); extra.text = "9.99" if src == "YIELD" else "someone"
            t2.insert(rng.randint(idx[0] + 1, len(t2)), extra)       # after the first one
            r1 = quiet(Aggregate.from_etree, copy.deepcopy(t2))
            meta.append((name, [["second_" + src, [], -1]], r0, r1, t2))
            lines.append(fromtree_line(t2))
            # ... and an unknown / vendor AGGREGATE that holds the renamed-from tag somewhere inside, placed BEFORE the real
            # child: a reader that looks for the tag among all descendants renames the foreign one and drops the real one
            t3 = copy.deepcopy(base)
            idx3 = [i for i, ch in enumerate(t3) if ch.tag == src]
            wrap = ET.Element(rng.choice(["XYZZY", "INTU.PERF", "NEWFIELD2", "VND.INFO"]))
            holder = wrap
            for _d in range(rng.randint(0, 2)):
                holder = ET.SubElement(holder, rng.choice(["PERIOD", "INTU.X", "FOO"]))
            ET.SubElement(holder, src).text = "9.99" if src == "YIELD" else "someone"
            if rng.random() < 0.5:
                ET.SubElement(wrap, "CODE").text = "0"
            t3.insert(rng.randint(0, idx3[0]), wrap)
            r3 = quiet(Aggregate.from_etree, copy.deepcopy(t3))
            meta.append((name, [["unknown_agg_holding_" + src, [], -1]], r0, r3, t3))
            lines.append(fromtree_line(t3))
    replies = ctx.model.ask(lines)
    for (name, desc, r0, r1, t2), rep in zip(meta, replies):
        impl0 = ["ok", canon_inst(r0[1])] if r0[0] == "ok" else ["err"]
        impl1 = ["ok", canon_inst(r1[1])] if r1[0] == "ok" else ["err"]
        model = model_ok_err(rep)
        case = {"cls": name, "insertions": desc, "tree": ET.tostring(t2, encoding="unicode")[:3000]}
        for k, _, _ in desc:
            ctx.stat("ins:" + k)
        ctx.compare("fromtree+unknown", case, impl1, model)
        ctx.sample({"cls": name, "insertions": desc, "impl": impl1[0]}, limit=8)
        if impl1 != impl0:
            kinds = sorted({k for k, _, _ in desc})
            if impl1[0] == "err":
                ctx.violate("unknown_tag_rejected", case,
                            f"{name}: inserting {kinds} made a valid document be rejected", {"kinds": kinds})
            else:
                ctx.violate("unknown_tag_changes_model", case,
                            f"{name}: inserting {kinds} changed the converted model", {"kinds": kinds})


def replay(ctx, data):
    print(data.get("case") or data.get("first_disagreement"))
