"""
C14 correspondence + oracle: the client sends only what it should, where it should, nothing on a dry run.

impl  = the REAL OFXClient methods request_profile / request_statements / request_accounts / request_tax1099
        (→ _get_service_urls → request_profile → _request_profile → download → post_request, urllib branch),
        run against the in-process fake HTTP layer of harness/fakehttp.py (HTTPCookieProcessor really runs, no socket
        is ever opened) and a scratch DATADIR
model = lean/OfxModel/Ofx/ClientSM.lean via the driver (`client.run`)
oracle= the five C14 statements of lean/OfxModel/Spec/CacheSpec.lean (`spec.c14`) evaluated on the recorded trace,
        plus: the body of every POST equals what the same call returns on a dry run; no socket was attempted

Observed per request: method, URL, User-Agent / Content-Type / Accept, request kind, USERID / USERPASS in the body,
DTPROFUP of a PROFRQ, the cookies sent; per operation: ok / error kind and the cache file afterwards.
"""
import datetime
import re

import fakehttp as F
from framework import canon_exc
from proto import line, Atom, opt, dstr

RULE = ("random histories of 1..8 public calls over one or two client instances (same or different URL / ORG-FID / userid / "
        "user agent / persist_cookies) x {profile, statements, accounts, tax1099} x {dryrun, skip_profile, normal} x servers "
        "answering PROFRQ with profiles that advertise the configured URL, another path on the same host, another host, "
        "several equal or different URLs or none, or with up-to-date / error status / garbage / transport failure / "
        "HTTP 500, each response setting 0-2 cookies; a case is non-trivial when at least one request went out")

NAMES = {0: "https://h0.example/p0", 1: "https://h0.example/p1", 2: "https://h1.example/p0", 3: "https://h1.example/p1"}
URLS = {0: (0, 0), 1: (0, 1), 2: (1, 0), 3: (1, 1)}


def url_str(u):
    return "https://h%d.example/p%d" % u


def url_parse(s):
    m = re.fullmatch(r"https://h(\d+)\.example/p(\d+)", s)
    return [int(m.group(1)), int(m.group(2))] if m else ["?", s]


# advert variants: list of (msgset kind, url index relative to the pool); resolved per history
ADVERTS = [
    [("bank", "cfg")],
    [("signon", "other"), ("bank", "cfg"), ("cc", "cfg")],
    [("bank", "samehost")],
    [("bank", "other")],
    [("inv", "other"), ("signup", "cfg"), ("tax", "cfg")],
    [("bank", "cfg"), ("cc", "other")],          # two different URLs: assert len(urls) == 1 fails
    [("signon", "cfg"), ("prof", "cfg")],         # none advertised: the same assert fails
    [("bank_noclosing", "other"), ("inv", "other")],
]
STMT_KINDS = ("bank", "bank_noclosing", "cc", "inv")

_PB = {}
_REV = {}


def prof_bytes(date, body, msgsets):
    key = (date, body, tuple(msgsets))
    if key not in _PB:
        b = F.profrs_bytes(date, body, msgsets, pad=0)
        _PB[key] = b
        _REV[b] = (date, body)
    return _PB[key]


def gen_history(rng):
    """-> dict(clients, adv, script, hist) with everything symbolic (ids), JSON-able"""
    nclients = rng.choice((1, 2, 2))
    clients = []
    for i in range(nclients):
        if i == 1 and rng.random() < 0.4:
            c = dict(clients[0])           # an identical second instance
        else:
            c = {"url": rng.randrange(4), "userid": rng.choice((None, "alice", "bob")),
                 "orgfid": rng.choice((("ORG", "FID"), ("ORG", "FID"), (None, None), ("O2", "F2"))),
                 "useragent": rng.choice((None, None, "MyAgent/1.0")), "persist": rng.random() < 0.85}
        clients.append(c)
    # profile bodies: body id -> msgsets with concrete URLs (relative to the client the profile is "meant" for)
    adv = {}
    for body in range(1, 7):
        base = rng.choice(clients)["url"]
        h, p = URLS[base]
        rel = {"cfg": (h, p), "samehost": (h, 1 - p), "other": (1 - h, rng.randrange(2))}
        adv[body] = [(k, rel[u]) for k, u in rng.choice(ADVERTS)]
    nops = rng.randint(1, 8)
    hist = []
    for _ in range(nops):
        hist.append({"who": rng.randrange(nclients), "kind": rng.choice(("profile", "statements", "statements", "accounts", "tax")),
                     "mode": rng.choice(("dryrun", "skip", "normal", "normal", "normal")), "pass": rng.choice(("pw1", "s3cret"))})
    script = []
    cval = 0
    for i in range(2 * nops):
        cookies = []
        for _c in range(rng.choice((0, 0, 1, 1, 2))):
            cval += 1
            cookies.append((rng.randrange(3), cval))
        r = rng.random()
        if r < 0.7:
            base = 2 + i // 3      # mostly non-decreasing dates, now and then an older profile (the assert fires)
            bp = ("p", rng.choice((base, base, base + 1, base + 1, base - 1)), rng.randint(1, 6))
        else:
            bp = (rng.choice("UUEGTX"),)
        bm = ("T",) if rng.random() < 0.1 else ("G",)
        script.append({"cookies": cookies, "http_error": rng.random() < 0.08, "bp": bp, "bm": bm})
    return {"clients": clients, "adv": {str(k): v for k, v in adv.items()}, "script": script, "hist": hist}


# ----------------------------------------------------------------------------------------------
def enc_beh(b):
    if b[0] == "p":
        return [Atom("p"), b[1], b[2], 0]
    return Atom({"U": "u", "E": "e", "X": "n", "G": "g", "T": "t"}[b[0]])


def model_line(case):
    clients = [[URLS[c["url"]][0], URLS[c["url"]][1], opt(c["userid"]), opt(c["orgfid"][0]), opt(c["orgfid"][1]),
                opt(c["useragent"]), c["persist"]] for c in case["clients"]]
    adv = [[int(b), [list(u) for k, u in ms if k in STMT_KINDS]] for b, ms in sorted(case["adv"].items())]
    script = [[[list(c) for c in e["cookies"]], e["http_error"], enc_beh(e["bp"]), enc_beh(e["bm"])] for e in case["script"]]
    hist = [[o["who"], Atom(o["kind"]), Atom(o["mode"]), o["pass"]] for o in case["hist"]]
    return line("client.run", clients, adv, script, hist)


def dec_out(r):
    if r[0] == "ok":
        if r[1] == "prof":
            return ["ok", "prof", int(r[2]), int(r[3])]
        return ["ok", r[1]]
    return ["err", r[1]]


def dec_sent(s):
    if s == "none":
        return None
    return ["default"] if s[1] == "none" else [int(s[1][1])]


def dec_req(r):
    return {"method": r[0], "url": [int(r[1]), int(r[2])], "ua": dstr(r[3]), "ct": dstr(r[4]), "accept": dstr(r[5]),
            "kind": r[6], "user": dstr(r[7]), "pass": dstr(r[8]), "dtprofup": dec_sent(r[9]),
            "cookies": sorted([int(c[0]), int(c[1])] for c in r[10])}


def dec_view(v):
    if isinstance(v, str):
        return [v]
    return [v[0], int(v[1]), int(v[2])]


# ----------------------------------------------------------------------------------------------
class Runner:
    def __init__(self):
        self.dir, _ = F.scratch("C14")
        F.patch_client()
        self.script = None
        self.case = None
        self.net = F.FakeNet(self._answer)

    def _answer(self, seen):
        a = self._answer1(seen)
        i = seen.n - self.base
        a.ids = [] if a.transport_error or not (0 <= i < len(self.script)) else [list(x) for x in self.script[i]["cookies"]]
        return a

    def _answer1(self, seen):
        e = self.script[seen.n - self.base] if 0 <= seen.n - self.base < len(self.script) else None
        if e is None:
            return F.Answer(F.GARBAGE)
        b = e["bp"] if seen.kind == "profile" else e["bm"]
        cookies = ["c%d=v%d; Path=/" % (n, v) for n, v in e["cookies"]]
        # an HTTP error is 500, 404, or a 307 / 308 redirect of the POST to another URL (urllib refuses to follow those for
        # a POST: an error like the others — a client that follows them sends the request, credentials and all, twice)
        status = (500, 307, 404, 308)[(seen.n - self.base) % 4] if e["http_error"] else 200
        if b[0] == "p":
            ms = [(k, url_str(tuple(u))) for k, u in self.case["adv"][str(b[2])]]
            return F.Answer(prof_bytes(b[1], b[2], ms), cookies, status)
        if b[0] in "UEX":
            return F.Answer(F.status_bytes({"U": 1, "E": 2000, "X": 0}[b[0]]), cookies, status)
        if b[0] == "G":
            return F.Answer(F.GARBAGE if seen.kind == "profile" else PLAIN, cookies, status)
        return F.Answer(transport_error=True)

    def call(self, client, op, dry=None):
        from ofxtools.Client import StmtRq
        from ofxtools.utils import UTC
        mode = op["mode"] if dry is None else "dryrun"
        # the documented defaults (dryrun=False, skip_profile=False, persist_cookies=True) are part of what C14 promises
        # ("a dry run performs no request; otherwise ..."): they are left to the code wherever the case asks for the default
        # behaviour, so that a changed default shows up as a request that was not sent / went elsewhere / lost its cookies
        kw = {"dryrun": True} if mode == "dryrun" else {}
        if op["kind"] == "profile":
            return client.request_profile(**kw)
        if mode == "skip":
            kw["skip_profile"] = True
        if op["kind"] == "statements":
            return client.request_statements(op["pass"], StmtRq(acctid="1", accttype="CHECKING"), **kw)
        if op["kind"] == "accounts":
            return client.request_accounts(op["pass"], datetime.datetime(2017, 1, 1, tzinfo=UTC), **kw)
        return client.request_tax1099(op["pass"], "2019", **kw)

    def run(self, case):
        """-> (per-op observations, per-op event lists with set-cookies, twin mismatches)"""
        from ofxtools.Client import OFXClient, AUTH_PLACEHOLDER
        F.wipe_profiles()
        self.case, self.script, self.base = case, case["script"], len(self.net.log)
        cls = [OFXClient(NAMES[c["url"]], userid=c["userid"], org=c["orgfid"][0], fid=c["orgfid"][1],
                         useragent=c["useragent"], bankid="123456789", brokerid="b.example",
                         **({} if c["persist"] else {"persist_cookies": False}))
               for c in case["clients"]]
        obs, events, twins = [], [], []
        for op in case["hist"]:
            c, cfg = cls[op["who"]], case["clients"][op["who"]]
            n0 = len(self.net.log)
            try:
                r = self.call(c, op)
                data = r.read()
                if op["mode"] == "dryrun":
                    res = ["ok", "dry"]
                elif op["kind"] == "profile":
                    k = _REV.get(data)
                    res = ["ok", "prof"] + (list(k) if k else ["?", len(data)])
                else:
                    res = ["ok", "raw"]
            except Exception as e:  # noqa
                res = ["err", canon_exc(e)]
            reqs, evs = [], []
            for s in self.net.log[n0:]:
                dt = s.field("DTPROFUP")
                reqs.append({"method": s.method, "url": url_parse(s.url), "ua": s.header("User-agent"),
                             "ct": s.header("Content-type"), "accept": s.header("Accept"), "kind": s.kind,
                             "user": s.creds[0], "pass": s.creds[1],
                             "dtprofup": None if dt is None else (["default"] if dt.startswith("19900101000000") else [parse_dt(dt)]),
                             "cookies": sorted(cookie_ids(s.cookies))})
                evs.append((reqs[-1], getattr(s.answer, "ids", [])))
                # the body of the POST is the serialised request: what the same call returns on a dry run
                if s.kind != "profile":
                    try:
                        twin = self.call(c, op, dry=True).read()
                    except Exception as e:  # noqa
                        twin = repr(e).encode()
                    if twin != s.body:
                        twins.append({"op": op, "sent": s.body.decode("utf-8", "replace")[-300:], "dryrun": twin.decode("utf-8", "replace")[-300:]})
            path = F.profile_dir() / f"{cfg['orgfid'][0]}-{cfg['orgfid'][1]}.profrs"
            view = ["absent"]
            if path.exists():
                k = _REV.get(path.read_bytes())
                view = ["complete"] + list(k) if k else ["torn"]
            obs.append([res, reqs, view])
            events.append(evs)
        return obs, events, twins


def cookie_ids(pairs):
    out = []
    for k, v in pairs:
        m, n = re.fullmatch(r"c(\d+)", k), re.fullmatch(r"v(\d+)", v)
        out.append([int(m.group(1)), int(n.group(1))] if m and n else [k, v])
    return out


def parse_dt(text):
    from ofxtools.Types import DateTime
    try:
        return F.nat_of_date(DateTime().convert(text))
    except Exception:
        return ("unparsed", text)


PLAIN = None


def enc_req(r):
    cookies = [c for c in r["cookies"] if all(isinstance(x, int) for x in c)]
    u = r["url"] if isinstance(r["url"][0], int) else [99, 99]
    dt = r["dtprofup"]
    sent = None if dt is None else [Atom("some"), (None if dt == ["default"] else [Atom("some"), dt[0] if isinstance(dt[0], int) else 0])]
    return [Atom(r["method"] if r["method"] in ("POST", "GET") else "GET"), u[0], u[1], r["ua"] or "", r["ct"] or "", r["accept"] or "",
            Atom(r["kind"] if r["kind"] in ("profile", "statements", "accounts", "tax") else "statements"),
            r["user"] or "", r["pass"] or "", sent, cookies]


def oracle(ctx, case, obs, events, twins, sockets):
    """the five statements on the recorded trace"""
    clients = [[URLS[c["url"]][0], URLS[c["url"]][1], opt(c["userid"]), opt(c["orgfid"][0]), opt(c["orgfid"][1]),
                opt(c["useragent"]), c["persist"]] for c in case["clients"]]
    ops = []
    for op, (res, reqs, view), evs in zip(case["hist"], obs, events):
        cfg = case["clients"][op["who"]]
        allowed = None
        if op["mode"] == "skip":
            allowed = list(URLS[cfg["url"]])
        elif op["mode"] == "normal" and op["kind"] != "profile" and view[0] == "complete" and reqs and reqs[0]["kind"] == "profile":
            # the profile in force is the one in the cache file after the profile step of this call
            us = {tuple(u) for k, u in case["adv"][str(view[2])] if k in STMT_KINDS}
            if len(us) == 1:
                allowed = list(us.pop())
        ops.append([op["who"], Atom(op["mode"]), opt(allowed), [[enc_req(r), cs] for r, cs in evs]])
    rep = ctx.model.ask1(line("spec.c14", clients, ops))
    if not rep.ok:
        ctx.disagree("spec.c14", case, "oracle", rep.raw)
        return
    names = ("c14_dryrun_request", "c14_shape", "c14_profile_target_or_creds", "c14_creds_target", "c14_cookie_origin",
             "c14_cookie_not_replayed")
    what = ("a dry run issued a request", "a request is not one POST with content type application/x-ofx, an Accept admitting it "
            "and the configured user agent", "a PROFRQ went elsewhere than the configured URL or carried other than the placeholder credentials",
            "a request carrying the user's credentials went to a URL that is neither advertised by the profile nor (skip_profile) configured",
            "a request carried a cookie no earlier response to the same client at that host had set",
            "a cookie set in a response was not replayed on a later request of the same client to that host")
    for n, w, v in zip(names, what, rep.vals):
        if v != "T":
            ctx.violate(n, case, w, {"statement": n})
    for r, _ in [e for evs in events for e in evs]:
        if not isinstance(r["url"][0], int) or any(not isinstance(x, int) for c in r["cookies"] for x in c):
            ctx.violate("c14_unknown_url_or_cookie", case, f"request to {r['url']} with cookies {r['cookies']}", {})
    if twins:
        ctx.violate("c14_body_differs_from_dryrun", case, "the POSTed body is not the serialised request a dry run returns", twins[0])
    if sockets:
        ctx.violate("c14_real_socket", case, "the client tried to open a socket outside the opener", {})


def run_case(ctx, runner, case, reply):
    obs, events, twins = runner.run(case)
    if reply.ok:
        mod = [[dec_out(o[0]), [dec_req(r) for r in o[1]], dec_view(o[2])] for o in reply.vals]
    else:
        mod = reply.raw
    ctx.compare("client.run", case, obs, mod, nontrivial=any(o[1] for o in obs))
    oracle(ctx, case, obs, events, twins, runner.net.socket_attempts)
    for op, o in zip(case["hist"], obs):
        ctx.stat(f"{op['kind']}/{op['mode']}")
        ctx.stat("result " + (o[0][1] if o[0][0] == "err" else "ok"))
        for r in o[1]:
            ctx.stat("cookies sent" if r["cookies"] else "no cookie sent")


def run(ctx):
    global PLAIN
    rng = ctx.rng
    runner = Runner()
    PLAIN = F.plain_bytes()
    from ofxtools.Client import AUTH_PLACEHOLDER, OFXClient
    rep = ctx.model.ask1("client.consts")
    c0 = OFXClient("https://h0.example/p0")
    ctx.compare("client.consts", {}, [AUTH_PLACEHOLDER, c0.http_headers["Content-Type"], c0.http_headers["Accept"],
                                      c0.http_headers["User-Agent"]], [dstr(v) for v in rep.vals])
    cases = [gen_history(rng) for _ in range(ctx.budget(170, 4000))]
    replies = ctx.model.ask([model_line(c) for c in cases])
    with runner.net:
        for case, reply in zip(cases, replies):
            run_case(ctx, runner, case, reply)
        run_cookies(ctx, runner.net)
    ctx.sample({"case": cases[0]})


def replay(ctx, data):
    global PLAIN
    case = data.get("case", data)
    case = case.get("case", case)
    if case.get("kind") == "cookies":
        runner = CookieRunner()
        with runner.net:
            run_cookie_case(ctx, runner, case, ctx.model.ask1(cookie_model_line(case)))
        return
    runner = Runner()
    PLAIN = F.plain_bytes()
    with runner.net:
        run_case(ctx, runner, case, ctx.model.ask1(model_line(case)))


# ==============================================================================================
# The cookie clauses against the REAL http.cookiejar (EXT-C14)
#
# impl  = the real OFXClient.post_request (urllib branch: build_opener(HTTPCookieProcessor(self.cookiejar)) iff
#         persist_cookies) behind FakeNet, with http.cookiejar's clock replaced by FakeClock; the fake server answers with
#         generated Set-Cookie headers (Domain / Path / Secure / Max-Age / Expires / HttpOnly / SameSite in every combination
#         and order, repeated attributes, matching and non-matching domains and paths, dot-less hosts, IPv4 literals,
#         http and https) over histories of posts by several client instances to several hosts
# model = lean/OfxModel/Ofx/CookieJar.lean via the driver (`cookie.run`): the items of every Cookie header in wire order, and
#         every jar at the end in iteration order with all cookie fields
# oracle= the cookie clauses of C14 stated without reference to either: a cookie is sent only by the instance that received
#         it, only to a host and path it belongs to, never over http when Secure, never when expired or deleted, most
#         specific path first, nothing without persist_cookies; and a cookie certainly acceptable, still live and
#         matching IS sent.
# ==============================================================================================
CK_RULE = ("histories of 1..10 posts by 1..3 client instances (persist_cookies on/off) to http/https URLs over 14 hosts "
           "(names, sub-domains, look-alike suffixes, dot-less names, IPv4 literals, upper case) x 12 paths, each response "
           "setting 0..3 cookies with generated attribute lists (Domain, Path, Secure, Max-Age, Expires, unknown; any order, "
           "repeats) or failing, on a clock the check moves; a case is non-trivial when some Cookie header was sent")

CK_HOSTS = ["bank.example", "www.bank.example", "ofx.www.bank.example", "notbank.example", "bank.example.evil.test",
            "other.test", "BANK.Example", "example", "localhost", "intranet", "10.0.0.1", "110.0.0.1", "20.0.0.1", "a.b.local"]
# (path as it stands in the URL, the same after escape_path)
CK_PATHS = [("", "/"), ("/", "/"), ("/ofx", "/ofx"), ("/ofx/", "/ofx/"), ("/ofx/v1", "/ofx/v1"), ("/ofx/v1/req", "/ofx/v1/req"),
            ("/ofxx", "/ofxx"), ("/other/x", "/other/x"), ("/a b/c", "/a%20b/c"), ("/%7euser/x", "/%7Euser/x"),
            ("/q~x/y;p=1", "/q~x/y;p=1"), ("/caf\u00e9/x", "/caf%C3%A9/x")]
# (Path attribute value, the same after escape_path); "" = attribute present but empty
CK_PATH_ATTRS = [("/", "/"), ("/ofx", "/ofx"), ("/ofx/", "/ofx/"), ("/of", "/of"), ("", None), ("/ofx/v1", "/ofx/v1"),
                 ("/other", "/other"), ("ofx", "ofx"), ("/a b", "/a%20b"), ("/%7euser", "/%7Euser"), ("/caf\u00e9", "/caf%C3%A9")]
CK_T0 = 1_700_000_000


def ck_domain_attrs(rng, host):
    h = host.lower()
    parts = h.split(".")
    parent = ".".join(parts[1:]) if len(parts) > 1 else h
    pool = [h, "." + h, parent, "." + parent, host.upper(), parts[-1], "." + parts[-1], "other.test", ".other.test",
            "www." + h, ".local", "local", h + ".local", ".0.0.1", "bank.example", ".example", "k.example"]
    return rng.choice(pool)


def ck_attrs(rng, host, now):
    """-> list of (kind, value) in header order"""
    out = []
    for _ in range(rng.choice((0, 0, 1, 1, 2, 2, 3, 4))):
        k = rng.choice("ddppsmeeo")
        if k == "d":
            out.append(("d", ck_domain_attrs(rng, host)))
        elif k == "p":
            out.append(("p", rng.randrange(len(CK_PATH_ATTRS))))
        elif k == "s":
            out.append(("s", None))
        elif k == "m":
            out.append(("m", rng.choice((0, -1, 1, 5, 30, 100, 1000))))
        elif k == "e":
            out.append(("e", None if rng.random() < 0.15 else now + rng.choice((-100, -1, 0, 1, 5, 30, 100, 1000))))
        else:
            out.append(("o", rng.choice(("HttpOnly", "SameSite=Lax", "Priority=High"))))
    return out


def gen_cookie_history(rng):
    nclients = rng.choice((1, 2, 2, 3))
    clients = [rng.random() < 0.85 for _ in range(nclients)]
    # a history lives in a small neighbourhood of hosts and paths so that cookies meet requests
    hosts = rng.sample(CK_HOSTS, rng.choice((1, 2, 3)))
    if rng.random() < 0.5:
        hosts = [h for h in CK_HOSTS if "bank" in h.lower()][:rng.choice((2, 3, 5))] + hosts[:1]
    paths = rng.sample(range(len(CK_PATHS)), rng.choice((1, 2, 3, 4)))
    now = CK_T0
    posts, val = [], 0
    for _ in range(rng.randint(1, 10)):
        now += rng.choice((0, 0, 1, 2, 5, 20, 60))
        host = rng.choice(hosts)
        t_resp = now + rng.choice((0, 0, 0, 1, 3))
        scs = []
        for _c in range(rng.choice((0, 1, 1, 1, 2, 3))):
            val += 1
            scs.append({"name": "n%d" % rng.randrange(3), "value": "v%d" % val, "attrs": ck_attrs(rng, host, t_resp),
                        "case": rng.randrange(3)})
        r = rng.random()
        reply = None if r < 0.06 else {"t": t_resp, "status": 500 if r < 0.12 else 200, "set": scs}
        posts.append({"who": rng.randrange(nclients), "https": rng.random() < 0.7, "host": host, "path": rng.choice(paths),
                      "t": now, "reply": reply})
        now = max(now, t_resp)
    return {"kind": "cookies", "clients": clients, "posts": posts}


def ck_header_text(sc):
    """the Set-Cookie header the fake server sends"""
    import email.utils
    names = {"d": ("Domain", "domain", "DOMAIN"), "p": ("Path", "path", "PATH"), "s": ("Secure", "secure", "SECURE"),
             "m": ("Max-Age", "max-age", "MAX-AGE"), "e": ("Expires", "expires", "EXPIRES")}
    parts = ["%s=%s" % (sc["name"], sc["value"])]
    for k, v in sc["attrs"]:
        if k == "o":
            parts.append(v)
            continue
        n = names[k][sc["case"]]
        if k == "s":
            parts.append(n)
        elif k == "p":
            parts.append("%s=%s" % (n, CK_PATH_ATTRS[v][0]))
        elif k == "e":
            parts.append("%s=%s" % (n, "soon" if v is None else email.utils.formatdate(v, usegmt=True)))
        else:
            parts.append("%s=%s" % (n, v))
    return "; ".join(parts)


def ck_enc_attr(a):
    k, v = a
    if k == "d":
        return [Atom("d"), v]
    if k == "p":
        return [Atom("p"), CK_PATH_ATTRS[v][0]]
    if k == "s":
        return Atom("s")
    if k == "m":
        return [Atom("m"), v]
    if k == "e":
        return [Atom("e"), opt(v)]
    return Atom("o")


def cookie_model_line(case):
    posts = []
    for p in case["posts"]:
        rep = None
        if p["reply"] is not None:
            rep = [p["reply"]["t"], [[sc["name"], sc["value"], [ck_enc_attr(a) for a in sc["attrs"]]] for sc in p["reply"]["set"]]]
        posts.append([p["who"], [p["https"], p["host"], CK_PATHS[p["path"]][0]], p["t"], rep])
    return line("cookie.run", case["clients"], posts)


def ck_dec_cookie(c):
    return [dstr(c[0]), dstr(c[1]), dstr(c[2]), c[3] == "T", dstr(c[4]), c[5] == "T", c[6] == "T",
            None if c[7] == "none" else int(c[7][1])]


class CookieRunner:
    def __init__(self, net=None):
        if net is None:
            F.scratch("C14")
            F.patch_client()
        self.net = net or F.FakeNet(None)
        self.net.script = self._answer
        self.clock = F.FakeClock(CK_T0)
        self.posts = None
        self.base = 0

    def _answer(self, seen):
        p = self.posts[seen.n - self.base]
        if p["reply"] is None:
            return F.Answer(transport_error=True)
        self.clock.now = p["reply"]["t"]
        return F.Answer(b"OK", [ck_header_text(sc) for sc in p["reply"]["set"]], p["reply"]["status"])

    def run(self, case):
        """-> (per post: [who, header items in wire order], per client: jar contents)"""
        from ofxtools.Client import OFXClient
        self.posts, self.base = case["posts"], len(self.net.log)
        cls = [OFXClient("https://unused.invalid/", persist_cookies=p) for p in case["clients"]]
        sent = []
        with self.clock:
            for p in case["posts"]:
                self.clock.now = p["t"]
                url = "%s://%s%s" % ("https" if p["https"] else "http", p["host"], CK_PATHS[p["path"]][0])
                n0 = len(self.net.log)
                try:
                    cls[p["who"]].post_request(url, b"<OFX/>", None)
                except Exception:  # noqa: transport failure or HTTP 500, both scripted
                    pass
                seen = self.net.log[n0:]
                sent.append([list(x) for x in seen[0].cookie_items] if len(seen) == 1 else ["?", len(seen)])
        jars = [[[c.name, c.value, c.domain, bool(c.domain_specified), c.path, bool(c.path_specified), bool(c.secure), c.expires]
                 for c in cl.cookiejar] for cl in cls]
        return sent, jars


# ---- the clauses, stated on what was set and what was sent ------------------------------------
def ck_erhn(host):
    h = host.lower()
    return h if "." in h else h + ".local"


def ck_facts(post, sc):
    """what a Set-Cookie header asks for: (domain without its dot, domain given?, path, secure, expiry or None)"""
    dom = next((v.lower() for k, v in sc["attrs"] if k == "d"), None)
    pa = next((CK_PATH_ATTRS[v][1] for k, v in sc["attrs"] if k == "p"), None)
    if pa is None:
        rp = CK_PATHS[post["path"]][1]
        pa = rp[:rp.rfind("/")] or "/"
    ma = [v for k, v in sc["attrs"] if k == "m"]
    ex = next((v for k, v in sc["attrs"] if k == "e" and v is not None), None)
    expiry = post["reply"]["t"] + ma[-1] if ma else ex
    d = ck_erhn(post["host"]) if dom is None else (dom[1:] if dom.startswith(".") else dom)
    return {"domain": d, "given": dom is not None, "path": pa, "secure": any(k == "s" for k, _ in sc["attrs"]), "expiry": expiry}


def ck_host_ok(host, d):
    e = ck_erhn(host)
    return d != "" and (e == d or e.endswith("." + d))


def ck_path_ok(rp, cp):
    return rp == cp or (rp.startswith(cp) and (cp.endswith("/") or rp[len(cp):len(cp) + 1] == "/"))


def ck_certainly_accepted(post, f):
    """no Domain attribute, or one that names the host itself or a parent with an embedded dot"""
    return not f["given"] or ("." in f["domain"] and ck_host_ok(post["host"], f["domain"]))


def cookie_oracle(ctx, case, sent):
    posts = case["posts"]
    live = [dict() for _ in case["clients"]]          # per client: key -> (value, facts) | None (= cannot tell)
    origin = {}                                        # value -> (who, facts)
    for i, (p, items) in enumerate(zip(posts, sent)):
        who = p["who"]
        if items[:1] == ["?"]:
            ctx.violate("c14c_not_one_request", case, f"post {i} put {items[1]} requests on the wire", {"post": i})
            continue
        rp = CK_PATHS[p["path"]][1]
        if not case["clients"][who] and items:
            ctx.violate("c14c_cookie_without_persist", case, f"post {i}: a client without persist_cookies sent {items}", {"post": i})
        lens = []
        for n, v in items:
            o = origin.get(v)
            if o is None or o[0] != who or o[2] != n:
                ctx.violate("c14c_cookie_foreign", case, f"post {i}: client {who} sent {n}={v}, which no earlier response to this "
                            "client had set", {"post": i, "cookie": [n, v]})
                continue
            f = o[1]
            lens.append(len(f["path"]))
            if f["secure"] and not p["https"]:
                ctx.violate("c14c_secure_over_http", case, f"post {i}: Secure cookie {n}={v} sent over http", {"post": i})
            if f["expiry"] is not None and f["expiry"] <= p["t"]:
                ctx.violate("c14c_expired_sent", case, f"post {i}: cookie {n}={v} sent at {p['t']}, it expired at {f['expiry']}", {"post": i})
            if not ck_host_ok(p["host"], f["domain"]):
                ctx.violate("c14c_sent_to_foreign_host", case, f"post {i}: cookie {n}={v} of domain {f['domain']} sent to {p['host']}", {"post": i})
            if not ck_path_ok(rp, f["path"]):
                ctx.violate("c14c_sent_to_foreign_path", case, f"post {i}: cookie {n}={v} of path {f['path']} sent to {rp}", {"post": i})
        if lens != sorted(lens, reverse=True):
            ctx.violate("c14c_order", case, f"post {i}: cookies not in order of path specificity: {items}", {"post": i})
        # replay: what is live, acceptable beyond doubt and matching must be there
        if case["clients"][who]:
            for key, ent in list(live[who].items()):
                if ent is None:
                    continue
                v, f = ent
                if f["expiry"] is not None and f["expiry"] <= p["t"]:
                    del live[who][key]                  # clear_expired_cookies
                    continue
                if ck_host_ok(p["host"], f["domain"]) and ck_path_ok(rp, f["path"]) and (p["https"] or not f["secure"]):
                    if [key[2], v] not in items:
                        ctx.violate("c14c_cookie_not_replayed", case, f"post {i}: live cookie {key[2]}={v} (domain {f['domain']}, path "
                                    f"{f['path']}) not sent to {p['host']}{rp}", {"post": i})
        # the response
        if p["reply"] is None:
            continue
        made = []
        for sc in p["reply"]["set"]:
            f = ck_facts(p, sc)
            origin[sc["value"]] = (who, f, sc["name"])
            dom_key = ("." + f["domain"]) if f["given"] else f["domain"]
            made.append(((dom_key, f["path"], sc["name"]), sc["value"], f))
        if case["clients"][who]:
            for key, v, f in made:
                if f["expiry"] is not None and f["expiry"] <= p["reply"]["t"]:
                    live[who].pop(key, None)
            for key, v, f in made:
                if f["expiry"] is not None and f["expiry"] <= p["reply"]["t"]:
                    continue
                live[who][key] = (v, f) if ck_certainly_accepted(p, f) else None


def run_cookie_case(ctx, runner, case, reply):
    sent, jars = runner.run(case)
    if reply.ok:
        mod = [[[[dstr(nv[0]), dstr(nv[1])] for nv in h] for h in reply.vals[0]],
               [[ck_dec_cookie(c) for c in j] for j in reply.vals[1]]]
    else:
        mod = reply.raw
    ctx.compare("cookie.run", case, [sent, jars], mod, nontrivial=any(s for s in sent))
    cookie_oracle(ctx, case, sent)
    for s in sent:
        ctx.stat("cookie header: %s" % ("none" if not s else "one" if len(s) == 1 else "several"))
    for j in jars:
        for c in j:
            ctx.stat("stored: domain %s, path %s%s%s" % ("given" if c[3] else "default", "given" if c[5] else "default",
                                                          ", secure" if c[6] else "", ", expiring" if c[7] is not None else ""))


def run_cookies(ctx, net):
    rng = ctx.rng
    if ctx.model.ask1(line("cookie.path", "/")).kind == "bad":
        # only in a tree where Ofx.Drv.CookieJar.handle is not (yet) registered in lean/OfxModel/Drv/All.lean
        import sys
        msg = "cookie clauses NOT exercised: the driver has no cookie.* ops (Ofx.Drv.CookieJar.handle not registered in Drv/All.lean)"
        print("C14: " + msg, file=sys.stderr)
        ctx.notes.append(msg)
        return
    runner = CookieRunner(net)
    cases = [gen_cookie_history(rng) for _ in range(ctx.budget(1500, 30000))]
    replies = ctx.model.ask([cookie_model_line(c) for c in cases])
    for case, reply in zip(cases, replies):
        run_cookie_case(ctx, runner, case, reply)
    # escape_path on its own
    import http.cookiejar
    paths = [p for p, _ in CK_PATHS] + [p for p, _ in CK_PATH_ATTRS] + ["/%zz%4a%4A%", "/a%2fb%2Fc", "/\u20ac/\U0001f600", "/x?y#z[]{}|\\^`<>\""]
    for p, r in zip(paths, ctx.model.ask([line("cookie.path", p) for p in paths])):
        ctx.compare("cookie.path", {"path": p}, http.cookiejar.escape_path(p), dstr(r.vals[0]) if r.ok else r.raw)
    ctx.sample({"case": cases[0]})
