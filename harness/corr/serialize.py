"""
SER (pseudo-property) correspondence + oracle: the serializers behind OFXClient.serialize.

impl  = xml.etree.ElementTree.tostring(tree, encoding="utf_8", method="html"), ofxtools.utils.indent (on a deepcopy),
        ofxtools.utils.tostring_unclosed_elements, OFXClient.serialize (header + body, version guard)
model = lean/OfxModel/Ofx/Serialize.lean via the driver (ser.html, ser.indent, ser.indentl, ser.unclosed, ser.body,
        ser.serialize)
oracle= an independent reference tokenizer (below) applied to the bytes the implementation wrote, for trees of the
        property domain (as Aggregate.to_etree builds them): C11's wire clause on every data chunk (no raw '<', every
        '&' starts an entity) and reconstruction of the original tree from the tokens (C01/C06 at tree level);
        in the closed forms every element must carry its end tag.  The Lean spec (spec.wirelex / spec.dataok /
        spec.escapetree / spec.wiretree) is validated against the same reference.
"""
import copy
import itertools
import re
import xml.etree.ElementTree as ET

from framework import run_impl
from proto import Atom, line, dstr, dbytes, dbool, parse
import codec

RULE = ("random element trees (depth <= 6, fan-out <= 5, empty aggregates) with upper-case OFX-like tags; leaf texts "
        "over printable ASCII incl. & < > \" ', entity spellings, non-ASCII (incl. astral and Unicode whitespace), "
        "leading/trailing/internal whitespace; a second 'wild' stream with arbitrary text/tail on every node "
        "(None, '', blank, non-blank) and lower-case / mixed-case / br / script / style tags (HTML_EMPTY logic); "
        "bytes compared exactly, indent results compared as trees; six wire forms via OFXClient.serialize over all "
        "header versions; a case is non-trivial when the implementation returned a value, distinct by (op, input)")

# --------------------------------------------------------------------------------------------------
# trees as tuples (tag, text, tail, children)
# --------------------------------------------------------------------------------------------------
AGG_TAGS = ["OFX", "SIGNONMSGSRQV1", "SONRQ", "FI", "BANKMSGSRQV1", "STMTTRNRQ", "STMTRQ", "BANKACCTFROM", "INCTRAN",
            "A", "B1", "X.Y", "AGG_2", "INVSTMTMSGSRQV1", "LINKS", "BASES", "Q"]
LEAF_TAGS = ["DTCLIENT", "USERID", "USERPASS", "LANGUAGE", "ORG", "FID", "APPID", "APPVER", "TRNUID", "ACCTID",
             "BANKID", "ACCTTYPE", "INCLUDE", "C", "D2", "E.F", "G_H", "BR0", "SCRIPTS", "STYLE1", "LINK2"]
HTML_TAGS = ["br", "BR", "Br", "script", "SCRIPT", "Script", "style", "STYLE", "link", "LINK", "img", "IMG", "meta",
             "hr", "HR", "input", "base", "BASE", "col", "COL", "area", "AREA", "wbr", "track", "source", "embed",
             "param", "frame", "isindex", "basefont", "a", "p", "div", "ofx", "Ofx", "SCRIPTX", "xbr", "brx"]
ASCII_PRINT = [chr(i) for i in range(32, 127)]
SPECIAL = list("&<>\"'")
ENTITIES = ["&amp;", "&lt;", "&gt;", "&nbsp;", "&apos;", "&quot;", "&amp;amp;", "&#38;", "&bogus;", "&amp", "&;", "&lt",
            "]]>", "<![CDATA[", "</X>", "<X>", "<B1>", "</OFX>", "<", "&", ">", "<>", "</>", "< A>", "<A"]
NONASCII = ["\u00e9", "\u20ac", "\u00df", "\u03c0", "\u0416", "\u4e2d", "\u65e5\u672c\u8a9e", "\U0001f600", "\U0001d518",
            "\u00a0", "\u0085", "\u2003", "\u2028", "\u3000", "\u001c", "\u200b", "\ufeff", "\u00ad", "\u0130", "\u212a"]
WS = [" ", "\n", "\r\n", "\t", "  ", "\n  ", "\u00a0", "\u2003", "\x1c", "\x0b", "\x0c", "\u0085", "\u2028", "\u3000",
      "\x1f", "\u1680", "\u202f", "\u205f"]
VERSIONS = [102, 103, 151, 160, 200, 201, 202, 203, 210, 211, 220]


def rand_text(rng, trimmed=True):
    """non-empty leaf text"""
    k = rng.random()
    n = rng.choice((1, 1, 2, 3, 5, 8, 13, 32))
    parts = []
    for _ in range(n):
        r = rng.random()
        if r < 0.45:
            parts.append(rng.choice(ASCII_PRINT))
        elif r < 0.65:
            parts.append(rng.choice(SPECIAL))
        elif r < 0.78:
            parts.append(rng.choice(ENTITIES))
        elif r < 0.90:
            parts.append(rng.choice(NONASCII))
        else:
            parts.append(rng.choice(WS))
    s = "".join(parts)
    if k < 0.25:
        s = "".join(rng.choice("abcXYZ019 .-") for _ in range(n))  # plain
    if trimmed:
        s = s.strip()
        if not s:
            s = rng.choice(("x", "&", "<", ">", "a&b", "1<2", "\u00e9"))
    else:
        if rng.random() < 0.5:
            s = rng.choice(WS) + s
        if rng.random() < 0.5:
            s = s + rng.choice(WS)
    return s


def gen_domain(rng, depth, top=True, parent=None, p_empty=0.12, trimmed=True, markup=True):
    """a tree as Aggregate.to_etree builds it"""
    if depth <= 0 or (not top and rng.random() < 0.42):
        t = rand_text(rng, trimmed)
        if not markup:
            t = re.sub(r"[&<>]", "_", t) or "x"
        return (rng.choice(LEAF_TAGS), t, None, [])
    tag = rng.choice([a for a in AGG_TAGS if a != parent])
    if rng.random() < p_empty:
        return (tag, None, None, [])
    n = rng.choice((1, 1, 2, 2, 3, 4, 5))
    return (tag, None, None, [gen_domain(rng, depth - 1, False, tag, p_empty, trimmed, markup) for _ in range(n)])


def rand_opt_ws(rng):
    """text/tail for the wild stream"""
    r = rng.random()
    if r < 0.3:
        return None
    if r < 0.4:
        return ""
    if r < 0.65:
        return "".join(rng.choice(WS) for _ in range(rng.choice((1, 1, 2, 3))))
    return rand_text(rng, trimmed=rng.random() < 0.5)


def gen_wild(rng, depth, html_p=0.3):
    r = rng.random()
    if r < html_p:
        tag = rng.choice(HTML_TAGS)
    elif r < 0.9:
        tag = rng.choice(AGG_TAGS + LEAF_TAGS)
    else:
        tag = "".join(rng.choice("ABCabcsSTtyYlLeEbBrR19._-:") for _ in range(rng.choice((1, 2, 5, 6))))
        if tag[:1] in "{":
            tag = "T" + tag
    n = 0 if depth <= 0 or rng.random() < 0.45 else rng.choice((1, 1, 2, 3, 5))
    return (tag, rand_opt_ws(rng), rand_opt_ws(rng), [gen_wild(rng, depth - 1, html_p) for _ in range(n)])


def to_elem(t):
    e = ET.Element(t[0])
    e.text, e.tail = t[1], t[2]
    for c in t[3]:
        e.append(to_elem(c))
    return e


def from_elem(e):
    return (e.tag, e.text, e.tail, [from_elem(c) for c in e])


def to_json(t):
    return [t[0], t[1], t[2], [to_json(c) for c in t[3]]]


def from_json(j):
    return (j[0], j[1], j[2], [from_json(c) for c in j[3]])


def tree_atom(t):
    return Atom(codec.text(codec.canon_tree(to_elem(t))))


def chunks(s, n=48):
    """a string argument as a list of short atoms (see Drv/Serialize.lean decChunks)"""
    return [s[i:i + n] for i in range(0, len(s), n)] if len(s) > n else s


def size(t):
    return 1 + sum(size(c) for c in t[3])


def leaves_texts(t):
    if t[1] is not None:
        yield t[1]
    for c in t[3]:
        yield from leaves_texts(c)


def has_empty_agg(t):
    return (t[1] is None and not t[3]) or any(has_empty_agg(c) for c in t[3])


# --------------------------------------------------------------------------------------------------
# implementation under test
# --------------------------------------------------------------------------------------------------
def impl_html(t):
    return ET.tostring(to_elem(t), encoding="utf_8", method="html")


def impl_unclosed(t):
    from ofxtools import utils
    return utils.tostring_unclosed_elements(to_elem(t))


def impl_indent(t, level=None):
    from ofxtools import utils
    e = copy.deepcopy(to_elem(t))
    if level is None:
        utils.indent(e)
    else:
        utils.indent(e, level)
    return e


class _FakeOFX:
    """stands for a models.OFX instance: OFXClient.serialize only calls .to_etree()"""

    def __init__(self, t):
        self.t = t

    def to_etree(self):
        return to_elem(self.t)


_CLIENT = None


def client():
    global _CLIENT
    if _CLIENT is None:
        from ofxtools.Client import OFXClient
        _CLIENT = OFXClient("https://example.invalid/ofx", userid="u", org="O", fid="1")
    return _CLIENT


def impl_serialize(t, version, close, pretty):
    return client().serialize(_FakeOFX(t), version=version, oldfileuid="OLD", newfileuid="NEW",
                              prettyprint=pretty, close_elements=close)


def impl_header(version):
    from ofxtools.header import make_header
    return str(make_header(version=version, oldfileuid="OLD", newfileuid="NEW"))


# --------------------------------------------------------------------------------------------------
# independent reference: tokenizer, wire clause, tree reconstruction
# --------------------------------------------------------------------------------------------------
TOKEN = re.compile(r"(</?[A-Z0-9._]+>)")
BAD_AMP = re.compile(r"&(?!(?:amp|lt|gt|nbsp|apos|quot);)")
WIRELEX = re.compile(r"(?:[^<&]|</?[A-Z0-9._]+>|&(?:amp|lt|gt|nbsp|apos|quot);)*")
PYWS = "".join(chr(c) for c in range(0x3100) if chr(c).isspace())


def ref_escape(s):
    out = []
    for ch in s:
        out.append({"&": "&amp;", "<": "&lt;", ">": "&gt;"}.get(ch, ch))
    return "".join(out)


def ref_unescape(s):
    """inverse of ref_escape, one left-to-right pass (entities other than the three are left alone)"""
    return re.sub(r"&(amp|lt|gt);", lambda m: {"amp": "&", "lt": "<", "gt": ">"}[m.group(1)], s)


def ref_wirelex(s):
    return WIRELEX.fullmatch(s) is not None


def ref_dataok(s):
    return "<" not in s and BAD_AMP.search(s) is None


def reference_read(body: str, closed: bool):
    """tokens -> (tree, problems).  tree is (tag, text|None, None, children) or None."""
    problems = []
    root = ["#root", None, None, []]
    stack = [root]
    hasdata = {id(root): False}

    def is_open_leaf(n):
        return n[1] is not None

    for i, tok in enumerate(TOKEN.split(body)):
        if i % 2 == 0:
            # data chunk
            if not tok.strip():
                continue
            if "<" in tok:
                problems.append(("raw_lt", tok))
            if BAD_AMP.search(tok):
                problems.append(("raw_amp", tok))
            top = stack[-1]
            if top is root or top[3] or top[1] is not None:
                problems.append(("stray_data", tok))
            else:
                top[1] = ref_unescape(tok.strip())
        elif tok[1] != "/":
            tag = tok[1:-1]
            if is_open_leaf(stack[-1]):
                if closed:
                    problems.append(("missing_end_tag", stack[-1][0]))
                stack.pop()
            n = [tag, None, None, []]
            stack[-1][3].append(n)
            stack.append(n)
        else:
            tag = tok[2:-1]
            if is_open_leaf(stack[-1]) and stack[-1][0] != tag:
                if closed:
                    problems.append(("missing_end_tag", stack[-1][0]))
                stack.pop()
            if stack[-1] is root or stack[-1][0] != tag:
                problems.append(("mismatched_end_tag", tag))
            else:
                stack.pop()
    if len(stack) > 1 and is_open_leaf(stack[-1]):
        if closed:
            problems.append(("missing_end_tag", stack[-1][0]))
        stack.pop()
    if len(stack) > 1:
        problems.append(("unclosed_aggregate", stack[-1][0]))
    if len(root[3]) != 1:
        problems.append(("root_count", str(len(root[3]))))

    def freeze(n):
        return (n[0], n[1], None, [freeze(c) for c in n[3]])

    return (freeze(root[3][0]) if root[3] else None), problems


def oracle(t, form, body_bytes):
    """-> None | (tag, what).  t is a domain tree with trimmed non-empty leaf texts."""
    closed = form[0] != "unclosed"
    try:
        body = body_bytes.decode("utf-8")
    except UnicodeDecodeError:
        return ("wire_not_utf8", "body is not UTF-8")
    got, problems = reference_read(body, closed)
    kinds = [p[0] for p in problems]
    unclosed = not closed
    if "raw_lt" in kinds or "raw_amp" in kinds:
        p = [p for p in problems if p[0] in ("raw_lt", "raw_amp")][0]
        return ("unclosed_no_escape" if unclosed else "wire_raw_markup",
                f"element data {p[1]!r} contains a raw {'<' if p[0] == 'raw_lt' else '&'}")
    if got != t:
        if unclosed and has_empty_agg(t):
            return ("unclosed_empty_aggregate_no_end_tag",
                    f"childless aggregate written without end tag; reads back as {got!r} ({kinds})")
        if unclosed and any(ref_escape(x) != x for x in leaves_texts(t)):
            return ("unclosed_no_escape", f"markup characters written raw; reads back as {got!r} ({kinds})")
        return ("wire_tree_mismatch", f"reads back as {got!r} ({kinds})")
    if problems:
        if unclosed and has_empty_agg(t):
            return ("unclosed_empty_aggregate_no_end_tag",
                    f"childless aggregate written without end tag ({kinds})")
        if "missing_end_tag" in kinds:
            return ("closed_form_missing_end_tag", f"no end tag for {problems[0][1]} in a closed form")
        return ("wire_malformed", f"{problems[:3]}")
    return None


def shrink(t, fails):
    """greedy structural + textual minimisation of a failing domain tree"""
    changed = True
    while changed:
        changed = False
        # hoist a subtree that is itself an aggregate or wrap a leaf under the root tag
        for c in t[3]:
            cand = c if c[3] or c[1] is None else (t[0], None, None, [c])
            if cand != t and size(cand) < size(t) and fails(cand):
                t, changed = cand, True
                break
        if changed:
            continue
        for i in range(len(t[3])):
            cand = (t[0], t[1], t[2], t[3][:i] + t[3][i + 1:])
            if cand[3] and fails(cand):
                t, changed = cand, True
                break
        if changed:
            continue
        for i, c in enumerate(t[3]):
            if c[3]:
                def f2(x, i=i):
                    return fails((t[0], t[1], t[2], t[3][:i] + [x] + t[3][i + 1:]))
                c2 = shrink(c, f2)
                if c2 != c:
                    t, changed = (t[0], t[1], t[2], t[3][:i] + [c2] + t[3][i + 1:]), True
                    break
            elif c[1] is not None and len(c[1]) > 1:
                for cand_text in [c[1][:len(c[1]) // 2], c[1][len(c[1]) // 2:], c[1][1:], c[1][:-1]]:
                    if cand_text and cand_text == cand_text.strip():
                        cand = (t[0], t[1], t[2], t[3][:i] + [(c[0], cand_text, c[2], [])] + t[3][i + 1:])
                        if fails(cand):
                            t, changed = cand, True
                            break
                if changed:
                    break
    return t


FORMS = [(c, p) for c in ("closed", "unclosed") for p in (False, True)]


def impl_form(t, form):
    """body bytes of one wire form, through the real functions"""
    from ofxtools import utils
    e = to_elem(t)
    if form[1]:
        utils.indent(e)
    if form[0] == "unclosed":
        return utils.tostring_unclosed_elements(e)
    return ET.tostring(e, encoding="utf_8", method="html")


def check_oracle(ctx, t, form, body, produce=None):
    """produce(tree) -> body bytes of this form through the code path under test (for shrinking)"""
    v = oracle(t, form, body)
    if v is None:
        return
    tag0 = v[0]
    produce = produce or (lambda x: impl_form(x, form))
    ctx.stat(f"oracle-reject:{tag0}")
    if ctx.stats[f"oracle-reject:{tag0}"] > 6:
        # already minimised several of this kind: report as is
        ctx.violate(tag0, {"op": "form", "tree": to_json(t), "form": list(form)},
                    f"{form[0]}{'+pretty' if form[1] else ''}: {v[1]}", {"form": form[0], "pretty": form[1]})
        return

    def fails(x):
        r = run_impl(produce, x)
        if r[0] != "ok":
            return False
        o = oracle(x, form, r[1])
        return o is not None and o[0] == tag0

    m = shrink(t, fails)
    body_m = produce(m)
    tag, what = oracle(m, form, body_m) or v
    ctx.violate(tag, {"op": "form", "tree": to_json(m), "form": list(form)},
                f"{form[0]}{'+pretty' if form[1] else ''}: {what}; tree {m!r} written as {body_m!r}",
                {"form": form[0], "pretty": form[1]})


# --------------------------------------------------------------------------------------------------
MY_TAGS = ("unclosed_no_escape", "unclosed_empty_aggregate_no_end_tag")


def replay_findings(ctx):
    """replay the witness of every recorded finding of this layer (whatever property it is filed under) on the
    implementation; a `fixed` one that the oracle still rejects is reported as a violation (it matches no `known`
    entry), a `known` one that now passes is noted"""
    import json
    import os
    p = os.path.join(os.path.dirname(os.path.dirname(os.path.dirname(os.path.abspath(__file__)))), "known_findings.json")
    try:
        with open(p) as f:
            entries = json.load(f)["findings"]
    except Exception:
        return
    seen = set()
    for e in entries:
        w = e.get("witness") or {}
        if e.get("tag") not in MY_TAGS or w.get("op") != "form" or (e.get("id"), e.get("status")) in seen:
            continue
        seen.add((e.get("id"), e.get("status")))
        t, form = from_json(w["tree"]), tuple(w["form"])
        r = run_impl(impl_form, t, form)
        ctx.evaluations += 1
        v = oracle(t, form, r[1]) if r[0] == "ok" else ("serialize_raises", str(r[1]))
        ctx.stat(f"finding:{e.get('id')}:{e.get('status')}:{'rejected' if v else 'passes'}")
        if v is not None:
            ctx.violate(v[0], {"op": "form", "tree": to_json(t), "form": list(form)},
                        f"witness of {e.get('id')} ({e.get('status')}): {v[1]}; written as {r[1]!r}",
                        {"form": form[0], "pretty": form[1]})
        elif e.get("status") == "known":
            ctx.notes.append(f"known finding {e.get('id')}: its witness now passes (candidate for status fixed)")


def _b(rep):
    if rep.kind == "ok":
        return ["ok", dbytes(rep.vals[0]).hex()]
    if rep.kind == "err":
        return ["err", rep.err]
    return ["bad", rep.raw]


def _ib(r):
    return ["ok", bytes(r[1]).hex()] if r[0] == "ok" else ["err", r[1]]


def run(ctx):
    rng = ctx.rng
    n = ctx.budget(2000, 30000)
    domain, wild = [], []
    # fixed boundary cases first
    fixed = [
        ("OFX", None, None, []),
        ("A", "x", None, []),
        ("OFX", None, None, [("USERPASS", "p&a<ss>w", None, [])]),
        ("OFX", None, None, [("FI", None, None, []), ("ORG", "o", None, [])]),
        ("OFX", None, None, [("A", None, None, [("B1", None, None, [("C", "&amp;", None, [])])]), ("D2", "]]>", None, [])]),
    ]
    domain += fixed
    for k in range(n):
        depth = rng.choice((1, 2, 2, 3, 3, 4, 5, 6))
        domain.append(gen_domain(rng, depth, p_empty=rng.choice((0.0, 0.0, 0.12, 0.3)),
                                 trimmed=rng.random() < 0.8, markup=rng.random() < 0.7))
        wild.append(gen_wild(rng, rng.choice((0, 1, 2, 2, 3, 4)), html_p=rng.choice((0.0, 0.3, 0.7))))
    wild += [("br", "t", "tl", []), ("BR", None, None, [("x", "y", None, [])]), ("script", "a<b&c", "a<b&c", []),
             ("STYLE", "<", ">", []), ("p", None, " ", [("br", None, None, [])])]
    if ctx.thorough:
        opts = [(tg, tx, tl) for tg in ("A", "br", "Script") for tx in (None, "", " \n", "x&<") for tl in (None, "\n", "t>")]
        small = []
        for a in opts:
            small.append((a[0], a[1], a[2], []))
            for b_ in opts:
                small.append((a[0], a[1], a[2], [(b_[0], b_[1], b_[2], [])]))
                for c in opts[::3] + opts[1::5]:
                    small.append((a[0], a[1], a[2], [(b_[0], b_[1], b_[2], []), (c[0], c[1], c[2], [])]))
                    small.append((a[0], a[1], a[2], [(b_[0], b_[1], b_[2], [(c[0], c[1], c[2], [])])]))
        wild += small
        ctx.exhaustive.append("all trees with <= 2 nodes (and a stratified third node) over tags {A, br, Script} x "
                              "texts {None,'',blank,'x&<'} x tails {None,'\\n','t>'}: html, indent, unclosed")

    # ---------------- witnesses of recorded findings (known: still failing is expected; fixed: must pass) -------
    replay_findings(ctx)

    # ---------------- per-function correspondence ----------------
    lines, meta = [], []

    def add(op, t):
        lines.append(line(op, tree_atom(t)))
        meta.append((op, t, ()))

    for stream, ts in (("domain", domain), ("wild", wild)):
        for t in ts:
            ctx.stat(f"stream:{stream}")
            ctx.stat(f"size:{min(size(t), 64) // 8 * 8}+")
            add("ser.html", t)
            add("ser.unclosed", t)
            add("ser.indent", t)
            lvl = rng.choice((0, 1, 2, 3, 7))
            lines.append(line("ser.indentl", tree_atom(t), lvl))
            meta.append(("ser.indentl", t, (lvl,)))
    replies = ctx.model.ask(lines)
    for (op, t, extra), rep in zip(meta, replies):
        case = {"op": op, "tree": to_json(t), "extra": list(extra)}
        if op == "ser.html":
            impl = _ib(run_impl(impl_html, t))
            model = _b(rep)
        elif op == "ser.unclosed":
            impl = _ib(run_impl(impl_unclosed, t))
            model = _b(rep)
        else:
            r = run_impl(impl_indent, t, *extra)
            impl = ["ok", codec.canon_tree(r[1])] if r[0] == "ok" else ["err", r[1]]
            model = ["ok", rep.vals[0]] if rep.ok else ["bad", rep.raw]
        ctx.stat(f"op:{op}")
        ctx.compare(op, case, impl, model, nontrivial=(impl[0] == "ok"))
        if size(t) <= 4:
            ctx.sample({"case": case, "impl": impl, "model": model}, limit=8)

    # ---------------- OFXClient.serialize: six forms x versions ----------------
    lines, meta = [], []
    trees = domain + wild[: len(wild) // 3]
    for k, t in enumerate(trees):
        combos = [(c, p) for c in (True, False) for p in (False, True)]
        for close, pretty in combos:
            v = rng.choice(VERSIONS) if k >= len(VERSIONS) else VERSIONS[k]
            if not close and rng.random() < 0.6:
                v = rng.choice([x for x in VERSIONS if x < 200])
            if rng.random() < 0.15:
                v = rng.choice((200, 199 + rng.choice((1, 2, 3, 4)), 160))
            try:
                hdr = impl_header(v)
            except Exception:
                continue
            lines.append(line("ser.serialize", hdr, v, close, pretty, tree_atom(t)))
            meta.append((t, v, close, pretty, hdr, k < len(domain)))
            lines.append(line("ser.body", close, pretty, tree_atom(t)))
            meta.append(None)
    replies = ctx.model.ask(lines)
    wl_lines, wl_want = [], []
    for j in range(0, len(lines), 2):
        t, v, close, pretty, hdr, is_domain = meta[j]
        rep, rep_body = replies[j], replies[j + 1]
        case = {"op": "ser.serialize", "tree": to_json(t), "version": v, "close": close, "pretty": pretty}
        r = run_impl(impl_serialize, t, v, close, pretty)
        impl, model = _ib(r), _b(rep)
        ctx.stat(f"serialize:{'closed' if close else 'unclosed'}{'+pretty' if pretty else ''}:{impl[0]}")
        ctx.stat(f"version:{v}")
        ctx.compare("ser.serialize", case, impl, model, nontrivial=True)
        form = ("closed" if close else "unclosed", pretty)
        # body alone (also when the version guard raised): real indent + real writer
        body = impl_form(t, form)
        ctx.compare("ser.body", {"op": "ser.body", "tree": to_json(t), "close": close, "pretty": pretty},
                    ["ok", body.hex()], _b(rep_body), nontrivial=True)
        # version guard (C06: versions 2xx refuse to omit end tags)
        if (not close) and v >= 200 and r[0] == "ok":
            ctx.violate("v2_unclosed_accepted", case, f"serialize(version={v}, close_elements=False) returned bytes")
        if r[0] == "err" and not ((not close) and v >= 200):
            ctx.violate("serialize_raises", case, f"serialize(version={v}, close={close}, pretty={pretty}) raised {r[1]}")
        if r[0] == "ok":
            hb = hdr.encode("utf_8")
            if not r[1].startswith(hb):
                ctx.violate("serialize_header_prefix", case, "output does not start with str(make_header(...))")
            elif is_domain and all(x and x == x.strip() for x in leaves_texts(t)):
                # ---- property oracle on what the implementation wrote ----
                check_oracle(ctx, t, form, r[1][len(hb):],
                             lambda x, v=v, close=close, pretty=pretty, n=len(hb): impl_serialize(x, v, close, pretty)[n:])
                ctx.stat("oracle:forms")
            elif is_domain and all(x for x in leaves_texts(t)):
                # texts with edge blanks: they cannot come back as they are (element data is trimmed by every reader), but
                # what is written must still be lexically valid — no raw '<' or '&' in element data
                try:
                    _, probs = reference_read(r[1][len(hb):].decode("utf-8"), close)
                except UnicodeDecodeError:
                    probs = []
                raw = [p_ for p_ in probs if p_[0] in ("raw_lt", "raw_amp")]
                ctx.stat("oracle:forms_untrimmed")
                if raw:
                    ctx.violate("unclosed_no_escape" if not close else "wire_raw_markup",
                                {"op": "form", "tree": to_json(t), "form": list(form)},
                                f"element data {raw[0][1]!r} (a text with an edge blank) is written with a raw "
                                f"{'<' if raw[0][0] == 'raw_lt' else '&'}", {"form": form[0], "edge_blank": True})
            if is_domain and len(wl_lines) < 4000:
                s = r[1][len(hb):].decode("utf-8")
                wl_lines.append(line("spec.wirelex", chunks(s)))
                wl_want.append((case, ref_wirelex(s)))
    # ---------------- Lean spec vs the independent reference ----------------
    for t in domain[:1500]:
        for x in leaves_texts(t):
            for s in (x, ref_escape(x)):
                wl_lines.append(line("spec.dataok", chunks(s)))
                wl_want.append(({"op": "spec.dataok", "s": s}, ref_dataok(s)))
    for (case, want), rep in zip(wl_want, ctx.model.ask(wl_lines)):
        ctx.evaluations += 1
        got = dbool(rep.vals[0]) if rep.ok else rep.raw
        ctx.stat(f"spec:{want}")
        if got != want:
            ctx.disagree("spec-vs-reference", case, want, got)
    # escapeTree: the data the html writer puts on the wire
    et_lines = [line("spec.escapetree", tree_atom(t)) for t in domain[:600]]
    for t, rep in zip(domain[:600], ctx.model.ask(et_lines)):
        ctx.evaluations += 1

        def esc(x):
            return (x[0], None if x[1] is None else ref_escape(x[1]), x[2], [esc(c) for c in x[3]])
        want = codec.canon_tree(to_elem(esc(t)))
        got = rep.vals[0] if rep.ok else rep.raw
        if got != want:
            ctx.disagree("spec.escapetree", {"tree": to_json(t)}, want, got)


    # wireTree: the domain predicate of the rendering theorems
    TAGRE = re.compile(r"[A-Z0-9._]+")

    def ref_wiretree(x):
        if not TAGRE.fullmatch(x[0]) or x[2] is not None:
            return False
        if x[1] is not None:
            return not x[3] and x[1] != "" and x[1] == x[1].strip()
        return all(ref_wiretree(c) for c in x[3])
    wt = domain[:500] + wild[:500]
    for t, rep in zip(wt, ctx.model.ask([line("spec.wiretree", tree_atom(t)) for t in wt])):
        ctx.evaluations += 1
        want, got = ref_wiretree(t), (dbool(rep.vals[0]) if rep.ok else rep.raw)
        ctx.stat(f"wiretree:{want}")
        if got != want:
            ctx.disagree("spec.wiretree", {"tree": to_json(t)}, want, got)


def replay(ctx, data):
    case = data.get("case") or data.get("first_disagreement", {}).get("case")
    t = from_json(case["tree"])
    if case.get("op") == "form":
        form = tuple(case["form"])
        body = impl_form(t, form)
        print("replay", form, t, "->", body, "oracle:", oracle(t, form, body))
    elif case.get("op") == "ser.serialize":
        print("replay", case, "->", run_impl(impl_serialize, t, case["version"], case["close"], case["pretty"]))
    else:
        print("replay", case, "html:", run_impl(impl_html, t), "unclosed:", run_impl(impl_unclosed, t),
              "indent:", run_impl(lambda: from_elem(impl_indent(t))))
