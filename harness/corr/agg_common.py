"""Shared helpers for the aggregate-layer checks (C01, C03, C04, C07, C13, C16, C17)."""
import copy
import datetime
import decimal
import warnings
import xml.etree.ElementTree as ET

import codec
from codec import canon_inst, canon_tree, canon_val, text
from framework import run_impl
from proto import S, line, Atom


def enc_nested(n):
    """nested canonical lists -> protocol text"""
    return text(n)


def impl_ok_err(r, conv):
    return ["ok", conv(r[1])] if r[0] == "ok" else ["err"]


def model_ok_err(rep):
    if rep.kind == "ok":
        return ["ok", rep.vals[0]]
    if rep.kind == "err":
        return ["err"]
    return ["bad", rep.raw]


def kw_line(cls_idx, args, kwargs):
    """`construct` request for real values: args = list of python values / instances, kwargs ordered dict"""
    a = "(" + " ".join(text(canon_val(x)) for x in args) + ")"
    k = "(" + " ".join("(" + S(n) + " " + text(canon_val(v)) + ")" for n, v in kwargs.items()) + ")"
    return f"construct {cls_idx} {a} {k}"


def fromtree_line(elem):
    return "fromtree " + text(canon_tree(elem))


def totree_line(inst):
    return "totree " + text(canon_inst(inst))


def quiet(f, *a, **k):
    with warnings.catch_warnings():
        warnings.simplefilter("ignore")
        return run_impl(f, *a, **k)


# ---------------------------------------------------------------- independent validity oracle (C04)
def py_valid(inst, schema, by_name, problems=None, path=""):
    """Independent check that a real instance satisfies every declared constraint of its class
    (required present, mutex counts incl. groups declared anywhere in the MRO, enumerations, lengths,
    integer digits, list member classes); returns list of problem strings."""
    from ofxtools.models.base import Aggregate
    problems = [] if problems is None else problems
    name = type(inst).__name__
    c = by_name.get(name)
    if c is None:
        problems.append(f"{path}{name}: class not in schema")
        return problems
    d = inst.__dict__
    listnames = []
    for a in c["spec"]:
        k = a["k"]
        n = a["name"]
        if k in ("listagg", "listelem"):
            listnames.append(n)
            continue
        if k == "unsupported":
            continue
        v = d.get(n)
        if v is None:
            if a["required"]:
                problems.append(f"{path}{name}.{n}: required but None")
            continue
        if k == "sub":
            if not isinstance(v, Aggregate) or type(v).__name__ != a["clsname"]:
                problems.append(f"{path}{name}.{n}: holds {type(v).__name__}, wants {a['clsname']}")
            else:
                py_valid(v, schema, by_name, problems, f"{path}{name}.")
        elif k == "string":
            if not isinstance(v, str):
                problems.append(f"{path}{name}.{n}: not a str")
            elif a["strict"] and a["length"] is not None and len(v) > a["length"]:
                problems.append(f"{path}{name}.{n}: length {len(v)} > {a['length']}")
        elif k == "oneof":
            if v not in schema["enums"][a["enum"]]:
                problems.append(f"{path}{name}.{n}: {v!r} not in enumeration")
        elif k == "integer":
            if not isinstance(v, int) or isinstance(v, bool):
                problems.append(f"{path}{name}.{n}: not an int")
            elif a["length"] is not None and abs(v) >= 10 ** a["length"]:
                problems.append(f"{path}{name}.{n}: |{v}| has more than {a['length']} digits")
        elif k == "bool":
            if not isinstance(v, bool):
                problems.append(f"{path}{name}.{n}: not a bool")
        elif k == "decimal":
            if not isinstance(v, decimal.Decimal):
                problems.append(f"{path}{name}.{n}: not a Decimal")
        elif k == "datetime":
            if not isinstance(v, datetime.datetime) or v.utcoffset() is None:
                problems.append(f"{path}{name}.{n}: not an aware datetime")
        elif k == "time":
            if not isinstance(v, datetime.time) or v.utcoffset() is None:
                problems.append(f"{path}{name}.{n}: not an aware time")
    for g in c["opt_mutex"] + [x for x in c["decl_opt_mutex"] if x not in c["opt_mutex"]]:
        cnt = sum(1 for m in g if d.get(m) is not None)
        if cnt > 1:
            problems.append(f"{path}{name}: {cnt} of at-most-one group {g}")
    for g in c["req_mutex"] + [x for x in c["decl_req_mutex"] if x not in c["req_mutex"]]:
        cnt = sum(1 for m in g if d.get(m) is not None)
        if cnt != 1:
            problems.append(f"{path}{name}: {cnt} of exactly-one group {g}")
    for m in list.__iter__(inst):
        if c["element_list"]:
            continue
        if isinstance(m, Aggregate):
            if type(m).__name__.lower() not in listnames:
                problems.append(f"{path}{name}: list member {type(m).__name__} not permitted")
            else:
                py_valid(m, schema, by_name, problems, f"{path}{name}[].")
        else:
            problems.append(f"{path}{name}: list member of type {type(m).__name__} not permitted")
    return problems


def blame_class(inst):
    """The class of the deepest sub-aggregate of `inst` whose own to_etree -> from_etree round trip already fails
    (so that a recorded finding about one class is recognised when that class is nested in another); the instance's
    own class name when no proper part fails by itself."""
    from ofxtools.models.base import Aggregate

    def parts(x):
        for v in x.__dict__.values():
            if isinstance(v, Aggregate):
                yield v
        for m in list.__iter__(x):
            if isinstance(m, Aggregate):
                yield m

    def fails(x):
        r = quiet(lambda: Aggregate.from_etree(x.to_etree()))
        return r[0] != "ok"

    def go(x):
        for p_ in parts(x):
            b = go(p_)
            if b is not None:
                return b
        return type(x).__name__ if fails(x) else None
    return go(inst) or type(inst).__name__
