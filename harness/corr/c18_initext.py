"""
C18, persistence through the file: the INI *text* format (configparser write / read) against the model
`lean/OfxModel/Ofx/IniText.lean` (driver ops `ini.write`, `ini.read`, `ini.readfile`, `ini.clean`).

impl   = ofxtools.scripts.ofxget.UserConfig / LibraryConfig, constructed exactly as ofxget constructs them
         (`UserConfig()`), `write()` into a StringIO / a real file opened as `write_config` opens it,
         `read_string()` / `read(path)`
model  = iniWrite / iniReadInto / iniReadFile / iniClean / noCR
checks = (a) parser states built through the API (`cfg[sect][key] = value`) -> `write()` text, byte for byte;
             that text read back by a fresh parser -> same outcome as `iniRead`; and whenever the model's guard
             `iniClean` holds the real parser must read back exactly what was written (the theorem
             `C18_ini_roundtrip`, replayed on the implementation); the same through a real file with `noCR`
         (b) INI texts: the writer's range and hand-edited shapes (`:` delimiter, comments, blank lines,
             continuation lines, duplicate sections / options, missing header, mixed-case keys, `%` in values,
             `]` inside headers, odd white space) -> sections / options / values or the error class, for a fresh
             parser and for a parser that has already read another text (as USERCFG.read([fi.cfg, ofxget.cfg]))
         (c) the witnesses of `Props/C18Ini.lean` (each guard clause is necessary), replayed on the real parser
All randomness from ctx.rng.
"""
import configparser
import io
import json
import os
import sys

from proto import line, dstr, dbool

ERRS = [(configparser.DuplicateSectionError, "dupsection"), (configparser.DuplicateOptionError, "dupoption"),
        (configparser.MissingSectionHeaderError, "missingheader"), (configparser.ParsingError, "parsing")]


def state_of(cp):
    """(DEFAULT options, [(section, options)]) exactly as the parser holds them (no DEFAULT fall-through)"""
    return [[[k, v] for k, v in cp._defaults.items()],
            [[s, [[k, v] for k, v in cp._sections[s].items()]] for s in cp._sections]]


def read_outcome(f):
    try:
        cp = f()
    except configparser.Error as e:
        for cls, name in ERRS:
            if isinstance(e, cls):
                return ["err", name]
        return ["err", type(e).__name__]
    except Exception as e:  # noqa
        return ["err", "python:" + type(e).__name__]
    return ["ok"] + state_of(cp)


def model_outcome(rep):
    if rep.kind == "err":
        return ["err", rep.err]
    if rep.kind != "ok":
        return ["bad", rep.raw]
    d, s = rep.vals
    return ["ok", [[dstr(kv[0]), dstr(kv[1])] for kv in d],
            [[dstr(sec[0]), [[dstr(kv[0]), dstr(kv[1])] for kv in sec[1]]] for sec in s]]


def build(cls, dflt, sections):
    """a parser brought into the given state through the API ofxget uses (`cfg[s] = {}`, `cfg[s][k] = v`)"""
    cp = cls()
    for k, v in dflt:
        cp[cp.default_section][k] = v
    for name, items in sections:
        if not cp.has_section(name):
            cp[name] = {}
        for k, v in items:
            cp[name][k] = v
    return cp


# ----------------------------------------------------------------------------------------------------------
# generators
# ----------------------------------------------------------------------------------------------------------
KEY_CLEAN = ["url", "version", "user", "clientuid", "checking", "a", "b", "k1", "a b", "x.y", "pre-tty", "k]", "%k",
             "ofxhome", "appid"]
KEY_ODD = ["", " a", "a ", "\ta", "A", "Url", "a=b", "a:b", "=", ":", "#a", ";a", "[a", "[a]", "a\nb", "a\n b", "a#b",
           "a;b", "a\rb", "\x1fa", "a\xa0", "é", "a\x0cb", "[", "]"]
VAL_CLEAN = ["", "v", "https://ofx.example.com/cgi?x=%41&y=2", "100%", "%(url)s", "%%", "a b", "a = b", "a: b", "#x",
             ";x", "[x]", "x # y", "1, 2, 3", "true", "203", "a\nb", "a\n\nb", "\nb", "a\nb\nc", "x]", "é"]
VAL_ODD = [" a", "a ", "\ta", "a\t", " ", "\n", "a\n", "a\n ", "a\n b", "a\nb ", "a\n#b", "a\n;b", "a\n\t#b", "a\n\n",
           "\n\n", "a\rb", "a\r\nb", "a\r", "\ra", "a\x0bb", "a\x1c", "a\xa0", " a", "a\n[b]", "a\nb = c", "a\n\n\nb",
           "a\n \nb"]
NAME_CLEAN = ["srv1", "acme bank", "a]", "a]b", " a", "a ", "[a]", "a=b", "#a", "default", "Default", "x:y", "é", "NAMES"]
NAME_ODD = ["", "a\nb", "DEFAULT", "a\rb", "\n", "]", "[", "a\n"]


def pick(rng, clean, odd, p_odd):
    return rng.choice(odd) if rng.random() < p_odd else rng.choice(clean)


def rand_sect(rng, p_odd):
    n = rng.choice([0, 1, 1, 2, 2, 3, 4])
    return [[pick(rng, KEY_CLEAN, KEY_ODD, p_odd), pick(rng, VAL_CLEAN, VAL_ODD, p_odd)] for _ in range(n)]


def rand_state(rng, p_odd):
    dflt = rand_sect(rng, p_odd) if rng.random() < 0.5 else []
    sections = [[pick(rng, NAME_CLEAN, NAME_ODD, p_odd), rand_sect(rng, p_odd)] for _ in range(rng.choice([0, 1, 1, 2, 3]))]
    return dflt, sections


KEYS_T = ["url", "URL", "Version", "user", "a b", "k", "K", "k ", "", "é", "x]", "[x", "a\tb"]
VALS_T = ["", "v", "1 2", "a=b", "a:b", "100%", "%(k)s", "#c", "x ;c", "[s]", "x]", " v ", "v\t", "\x1f", "v\xa0", "é",
          "a\rb"]
NAMES_T = ["s", "s", "t", "DEFAULT", "srv 1", "a]", "a]]", "x] junk [y", " s ", "S", "", "default"]
WS = ["", "", "", " ", "  ", "\t", " \t", "\x0c", "\xa0", "\x1f", "\r"]


def rand_line(rng):
    r = rng.random()
    ws = rng.choice(WS)
    eol = rng.choice(["\n", "\n", "\n", "\n", " \n", "\t\n", "\r\n"])
    if r < 0.18:
        return ws * (rng.random() < 0.25) + "[" + rng.choice(NAMES_T) + "]" + rng.choice(["", "", "", " ", " junk", "]", " # c"]) + eol
    if r < 0.58:
        d = rng.choice([" = ", " = ", "=", ":", " : ", " =", "= ", "==", " := ", "\t=\t"])
        return ws * (rng.random() < 0.3) + rng.choice(KEYS_T) + d + rng.choice(VALS_T) + eol
    if r < 0.68:
        return rng.choice([" ", "\t", "  ", "    ", "\t\t", " \t"]) + rng.choice(VALS_T + ["#c", ";c", "k = v", "[s]"]) + eol
    if r < 0.78:
        return ws + rng.choice(["#", ";", "# c", ";c = d", "#[s]"]) + eol
    if r < 0.90:
        return rng.choice(["\n", "\n", " \n", "\t\n", "\x0c\n", "\r\n"])
    return rng.choice(["junk", "no delimiter here", "]", "[", "[]", "[ ]", "k", "!"]) + eol


def rand_text(rng):
    n = rng.choice([0, 1, 2, 3, 4, 5, 6, 8, 10])
    t = "".join(rand_line(rng) for _ in range(n))
    if rng.random() < 0.85 and not t.lstrip().startswith("["):
        t = "[" + rng.choice(["s", "DEFAULT", "t"]) + "]\n" + t
    if rng.random() < 0.15 and t.endswith("\n"):
        t = t[:-1]
    return t


HAND_TEXTS = [
    "", "\n", "[s]", "[s]\n", "[s]\nk = v\n", "[s]\nk: v\n", "[s]\nk = v\n\n[s]\nj = w\n", "[s]\nk = v\nk = w\n",
    "[s]\nk = v\nK = w\n", "k = v\n", "\n\nk = v\n[s]\n", "# c\n[s]\n; c\nk = v\n", "[s]\nk = v\n  more\n\n  again\n",
    "[s]\nk = v\n  more\n\n\n[t]\nj = w\n", "[s]\nk = v\n# c\n  more\n", "[s]\nk = v\n  # c\n  more\n",
    "[s]\nk = v\n  more\n deeper?\nj = w\n", "[s]\n  k = v\n  j = w\n", "[s]\n  k = v\n    more\n  j = w\n",
    "[s]\n  k = v\nj = w\n k2 = x\n", "[DEFAULT]\nk = v\n[DEFAULT]\nj = w\n", "[DEFAULT]\nk = v\n[DEFAULT]\nk = w\n",
    "[DEFAULT]\nk = v\n[s]\nk = w\n", "[s]\njunk\n", "[s]\njunk\nk = v\nk = w\n", "[s]\n = v\n", "[s]\n = v\n = w\n",
    "[s]\n= v\n  more\n", "[s]\nk = v\njunk\n  more\n", "[s]\nk\n", "[s]\nk =\n", "[s]\nk = \n\tb\n", "[s]\nk = a\n\t\n\tb\n\n",
    "[s] trailing\nk = v\n", "[s]]\nk = v\n", "[]\nk = v\n", "[ ]\nk = v\n", " [s]\nk = v\n", "[s]\nk = v\n [t]\nj = w\n",
    "[s]\nurl = https://h/ofx?a=%41\nlist = 1, 2,\n  3\n", "[s]\nk = v ; not a comment\n", "[s]\nk = v\n\n\n\n",
    "[s]\nk = v\r\nj = w\r\n", "[s]\rk = v\r", "[s]\nk = a\x0cb\n", "[s]\nk = v\n\x0c\n  more\n", "[s]\nk = v\n\xa0more\n",
    "[s]\nk = v", "[s]\nk = v\n  more", "[S]\nk = v\n[s]\nk = w\n", "[s]\nK = v\n", "[s]\nk = v\n[t]\n[s]\n",
]

# the witnesses of Props/C18Ini.lean: (DEFAULT options, sections) that are NOT iniClean, one per guard clause
WITNESSES = {
    "name_empty": ([], [["", []]]),
    "name_newline": ([], [["a\nb", [["k", "v"]]]]),
    "key_empty": ([], [["s", [["", "v"]]]]),
    "key_lead_blank": ([], [["s", [[" k", "v"]]]]),
    "key_trail_blank": ([], [["s", [["k ", "v"]]]]),
    "key_equals": ([], [["s", [["a=b", "v"]]]]),
    "key_colon": ([], [["s", [["a:b", "v"]]]]),
    "key_newline": ([], [["s", [["a\nb", "v"]]]]),
    "key_hash": ([], [["s", [["#k", "v"]]]]),
    "key_semicolon": ([], [["s", [[";k", "v"]]]]),
    "key_bracket": ([], [["s", [["[k]", "v"]]]]),
    "value_lead_blank": ([], [["s", [["k", " v"]]]]),
    "value_trail_blank": ([], [["s", [["k", "v "]]]]),
    "value_line_blank": ([], [["s", [["k", "a\n b"]]]]),
    "value_line_comment": ([], [["s", [["k", "a\n#b"]]]]),
    "value_trailing_newline": ([], [["s", [["k", "a\n"]]]]),
}
# states no API call produces (upper-case key, duplicate names): the model's guard excludes them, the real parser
# cannot hold them
WITNESS_MODEL_ONLY = {
    "name_default": ([], [["DEFAULT", [["k", "v"]]]]),
    "key_upper": ([], [["s", [["K", "v"]]]]),
    "key_duplicate": ([], [["s", [["k", "v"], ["k", "w"]]]]),
    "name_duplicate": ([], [["s", [["k", "v"]]], ["s", [["j", "w"]]]]),
}
WITNESS_CR = ([], [["s", [["k", "a\rb"]]]])


# ----------------------------------------------------------------------------------------------------------
def _integrated():
    """is the INI layer registered (lean/proofs_index.json lists Props.C18Ini for C18)?"""
    try:
        root = os.path.dirname(os.path.dirname(os.path.dirname(os.path.abspath(__file__))))
        with open(os.path.join(root, "lean", "proofs_index.json")) as f:
            return "OfxProofs.Props.C18Ini" in json.load(f)["C18"]["modules"]
    except Exception:  # noqa
        return False


def run_ini(ctx, og, workdir):
    rng = ctx.rng
    probe = ctx.model.ask([line("ini.lines", "a\nb")])[0]
    if not probe.ok:
        if _integrated():
            ctx.disagree("ini.driver", {"op": "ini.lines"}, "the driver answers the ini.* ops", probe.raw)
        else:
            # files delivered, handler not yet registered in Drv/All.lean: nothing to compare with
            ctx.stat("ini:skipped-driver-handler-not-registered")
            print("C18: INI text correspondence skipped (Ofx.Drv.IniText.handle not registered yet)", file=sys.stderr)
        return
    ctx.compare("ini.lines", {"text": "a\nb"}, ["a\n", "b"], [dstr(x) for x in probe.vals[0]], nontrivial=False)
    classes = (og.UserConfig, og.LibraryConfig)
    lines, todo = [], []

    def ask(ln, fn):
        lines.append(ln)
        todo.append(fn)

    def flush():
        for fn, rep in zip(todo, ctx.model.ask(lines)):
            fn(rep)
        del lines[:], todo[:]

    path = os.path.join(workdir, "initext.cfg")

    # ---- (a) states -> text -> states ---------------------------------------------------------------------
    def state_case(dflt_in, sections_in, label, through_file):
        cls = rng.choice(classes)
        try:
            cp = build(cls, dflt_in, sections_in)
        except Exception as e:  # noqa
            # `cfg[sect][key] = value` takes any str (interpolation=None: no validation of the text)
            ctx.compare("ini.build", {"defaults": dflt_in, "sections": sections_in, "label": label},
                        "refused:" + type(e).__name__, "ok")
            return
        dflt, sections = state_of(cp)
        buf = io.StringIO()
        cp.write(buf)
        text = buf.getvalue()
        case = {"defaults": dflt, "sections": sections, "label": label}

        def on_write(rep):
            model = ["ok", dstr(rep.vals[0])] if rep.ok else ["err", rep.err]
            ctx.stat("ini:write")
            ctx.compare("ini.write", case, ["ok", text], model, nontrivial=bool(dflt or sections))
        ask(line("ini.write", dflt, sections), on_write)

        impl_back = read_outcome(lambda: _read_string(cls, text))

        def on_read(rep):
            ctx.stat("ini:read-written")
            ctx.compare("ini.read(written)", case, impl_back, model_outcome(rep))
        ask(line("ini.read", [], [], text), on_read)

        if through_file:
            with open(path, "w") as f:        # as write_config opens it
                cp.write(f)
            with open(path, newline="") as f:
                content = f.read()
            impl_file = read_outcome(lambda: _read_path(cls, path))

            def on_file(rep):
                ctx.stat("ini:read-file")
                ctx.compare("ini.readfile(written)", dict(case, content=content), impl_file, model_outcome(rep))
            ask(line("ini.readfile", [], [], content), on_file)
        else:
            impl_file = None

        def on_clean(rep):
            clean, nocr = dbool(rep.vals[0]), dbool(rep.vals[1])
            ctx.stat("ini:clean" if clean else "ini:not-clean")
            want = ["ok", dflt, sections]
            if clean:
                # the theorem C18_ini_roundtrip, on the implementation
                ctx.evaluations += 1
                if impl_back != want:
                    ctx.violate("ini_roundtrip", case,
                                "a configuration inside the proved guard (iniClean) is not read back as written",
                                {"read_back": impl_back, "text": text})
                else:
                    ctx.mark(["ini.roundtrip", case])
                if nocr and impl_file is not None:
                    ctx.evaluations += 1
                    if impl_file != want:
                        ctx.violate("ini_roundtrip_file", case,
                                    "a configuration inside the proved guard (iniClean, noCR) is not read back from the file "
                                    "as written", {"read_back": impl_file, "text": text})
        ask(line("ini.clean", dflt, sections), on_clean)

    n = ctx.budget(350)
    for i in range(n):
        p_odd = rng.choice([0.0, 0.0, 0.05, 0.15, 0.4])
        d, s = rand_state(rng, p_odd)
        state_case(d, s, "random", through_file=(i % 7 == 0))
    flush()

    # ---- (c) witnesses --------------------------------------------------------------------------------------
    for tag, (d, s) in WITNESSES.items():
        cls = og.UserConfig
        cp = build(cls, d, s)
        d2, s2 = state_of(cp)
        buf = io.StringIO()
        cp.write(buf)
        back = read_outcome(lambda: _read_string(cls, buf.getvalue()))
        ctx.evaluations += 1
        if [d2, s2] != [d, s]:
            ctx.disagree("ini.witness-state", {"tag": tag}, [d2, s2], [d, s])
        if back == ["ok", d, s]:
            # the clause would not be necessary on the real parser
            ctx.disagree("ini.witness", {"tag": tag, "defaults": d, "sections": s}, back, "not read back as written")

        def on_w(rep, tag=tag, d=d, s=s, back=back):
            ctx.compare("ini.witness.read", {"tag": tag}, back, model_outcome(rep))
        ask(line("ini.read", [], [], buf.getvalue()), on_w)

        def on_c(rep, tag=tag):
            ctx.compare("ini.witness.clean", {"tag": tag}, False, dbool(rep.vals[0]))
        ask(line("ini.clean", d, s), on_c)
    for tag, (d, s) in WITNESS_MODEL_ONLY.items():
        def on_c2(rep, tag=tag):
            ctx.compare("ini.witness.clean", {"tag": tag}, False, dbool(rep.vals[0]))
        ask(line("ini.clean", d, s), on_c2)
    # carriage return: fine through read_string, broken through the file
    d, s = WITNESS_CR
    cp = build(og.UserConfig, d, s)
    with open(path, "w") as f:
        cp.write(f)
    back_file = read_outcome(lambda: _read_path(og.UserConfig, path))
    buf = io.StringIO()
    cp.write(buf)
    back_str = read_outcome(lambda: _read_string(og.UserConfig, buf.getvalue()))
    ctx.compare("ini.witness.cr", {"tag": "value_cr"}, [back_str == ["ok", d, s], back_file == ["ok", d, s]], [True, False])

    def on_cr(rep):
        ctx.compare("ini.witness.cr.clean", {"tag": "value_cr"}, [True, False], [dbool(rep.vals[0]), dbool(rep.vals[1])])
    ask(line("ini.clean", d, s), on_cr)
    with open(path, newline="") as f:
        content = f.read()

    def on_crf(rep):
        ctx.compare("ini.witness.cr.readfile", {"tag": "value_cr"}, back_file, model_outcome(rep))
    ask(line("ini.readfile", [], [], content), on_crf)
    flush()

    # ---- (b) texts ------------------------------------------------------------------------------------------
    def text_case(text, label, prior=None):
        cls = rng.choice(classes)
        case = {"text": text, "label": label}
        if prior is None:
            impl = read_outcome(lambda: _read_string(cls, text))
            d0, s0 = [], []
        else:
            try:
                cp0 = _read_string(cls, prior)
            except configparser.Error:
                return
            d0, s0 = state_of(cp0)
            case["prior"] = prior

            def two():
                cp0.read_string(text)
                return cp0
            impl = read_outcome(two)

        def on(rep):
            ctx.stat("ini:read-text:" + impl[0] + (":" + impl[1] if impl[0] == "err" else ""))
            ctx.compare("ini.read", case, impl, model_outcome(rep), nontrivial=(impl[0] == "ok" and len(impl[2]) + len(impl[1]) > 0))
        ask(line("ini.read", d0, s0, text), on)

    for t in HAND_TEXTS:
        text_case(t, "hand")
    for a in HAND_TEXTS[4:40:3]:
        for b in HAND_TEXTS[4:40:5]:
            text_case(b, "hand-2", prior=a)
    for i in range(ctx.budget(900)):
        text_case(rand_text(rng), "random")
    for i in range(ctx.budget(250)):
        text_case(rand_text(rng), "random-2", prior=rand_text(rng))
    # through a real file: universal newlines
    for i in range(ctx.budget(60)):
        t = rand_text(rng) if i >= 8 else HAND_TEXTS[42 + i % 4]
        try:
            with open(path, "w", newline="") as f:
                f.write(t)
        except UnicodeEncodeError:
            continue
        cls = rng.choice(classes)
        impl = read_outcome(lambda: _read_path(cls, path))

        def onf(rep, t=t, impl=impl):
            ctx.stat("ini:readfile-text")
            ctx.compare("ini.readfile", {"text": t}, impl, model_outcome(rep), nontrivial=(impl[0] == "ok"))
        ask(line("ini.readfile", [], [], t), onf)
    flush()
    try:
        os.remove(path)
    except OSError:
        pass


def _read_string(cls, text):
    cp = cls()
    cp.read_string(text)
    return cp


def _read_path(cls, path):
    cp = cls()
    ok = cp.read(path)
    assert ok, "file not read"
    return cp


def replay_ini(ctx, og, case):
    """re-run one recorded INI case on the implementation and the model; -> printable summary"""
    out = {}
    if "text" in case:
        prior = case.get("prior")
        if prior is None:
            d0, s0 = [], []
            impl = read_outcome(lambda: _read_string(og.UserConfig, case["text"]))
        else:
            cp0 = _read_string(og.UserConfig, prior)
            d0, s0 = state_of(cp0)

            def two():
                cp0.read_string(case["text"])
                return cp0
            impl = read_outcome(two)
        out["impl"] = impl
        out["model"] = model_outcome(ctx.model.ask([line("ini.read", d0, s0, case["text"])])[0])
    elif "sections" in case:
        cp = build(og.UserConfig, case.get("defaults", []), case["sections"])
        d, sec = state_of(cp)
        buf = io.StringIO()
        cp.write(buf)
        reps = ctx.model.ask([line("ini.write", d, sec), line("ini.read", [], [], buf.getvalue()), line("ini.clean", d, sec)])
        out["impl_text"] = buf.getvalue()
        out["model_text"] = dstr(reps[0].vals[0]) if reps[0].ok else reps[0].raw
        out["impl_back"] = read_outcome(lambda: _read_string(og.UserConfig, buf.getvalue()))
        out["model_back"] = model_outcome(reps[1])
        out["iniClean,noCR"] = [dbool(x) for x in reps[2].vals]
    return out
