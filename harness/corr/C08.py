"""
C08 correspondence + oracle: improperly nested or truncated markup is never accepted as a tree.

impl   = ofxtools.Parser.TreeBuilder().feed(s); close()   (returns a root / returns None / raises)
model  = lean/OfxModel/Ofx/{Lexer,Builder}.lean via the driver op `build`; `spec.balanced` = the Lean token-level
         `Balanced` predicate on the model's token list
oracle = the independent strict reference reader `gen.wire.ref_parse` (explicit name stack, no regex): the
         implementation returned a root (or None without raising) for a body the reference rejects.  The violation tag is
         the reference's *first* well-formedness fault, so each defect is matched narrowly:
           unmatched_markup_skipped, text_before_root_skipped                       (known: finditer skips what it cannot match)
           unclosed_aggregate_at_eof, mismatched_end_tag, empty_body_returns_none   (repaired in /repo; witnesses must pass)
           stray_end_tag_accepted, text_after_end_tag_accepted, text_after_root_accepted, second_root_accepted (never seen)
"""
from framework import run_impl
from proto import line
from gen import wire
from corr.C02 import impl_build, model_build, canon_lex

RULE = ("valid strict renderings (random trees over a 3-tag / realistic alphabet, random end-tag/whitespace/CDATA choices, and "
        "the small-scope set of all trees <= 3 nodes (thorough: <= 4) over {A,B,C1}) subjected to: every truncation point (each "
        "character), every single aggregate end-tag deletion / renaming (8 spellings: longer, unrelated, proper prefix, other case, proper suffix, prefixed, path-like, second half) / duplication / blank-padding, every "
        "transposition of adjacent aggregate end tags, stray text and stray end tags inserted at every token boundary, a second "
        "root (3 forms); plus empty / whitespace-only / garbage-only bodies and token soup. Non-trivial = the implementation "
        "raised or returned a root on a faulted body; distinct by document text")

REF2TAG = {
    "unclosed_at_eof": "unclosed_aggregate_at_eof",
    "mismatched_end_tag": "mismatched_end_tag",
    "malformed_markup": "unmatched_markup_skipped",
    "text_before_root": "text_before_root_skipped",
    "stray_end_tag": "stray_end_tag_accepted",
    "text_after_end_tag": "text_after_end_tag_accepted",
    "text_after_root": "text_after_root_accepted",
    "second_root": "second_root_accepted",
    "empty_body": "empty_body_returns_none",
}

FIXED = ["", " ", "\n\r\t ", "junk", "<", ">", "<a>", "<A", "A>", "</A>", "<A>", "<A><B>1", "<A><B><C>1</B>", "<A><B>1</B>",
         "<A></B>", "<A><B></A></B>", "<A></A></A>", "<A></A><B></B>", "<A></A>x", "x<A></A>", "<A><B>1</B>x</A>",
         "<A><B>1</B></A>x", "<A><B>1</b></A>", "<A><X><B>1</B></x></A>", "<A><B>1</B></A", "<A><B>1</B></", "<A><B>1</B><",
         "<A><B></B></A><C><D>", "<A>\n<B>\n<C>1\n</B>\n", "<A><B>1</B></A >", "<A><B>1</B></A></A>", "</A><A></A>",
         "<OFX><STMTRS><BANKTRANLIST><STMTTRN><TRNAMT>1</STMTTRN></BANKTRANLIST>",
         "<A><B><![CDATA[x]]></B></A><A><B><![CDATA[x]]></B></A>", "junk<A></A>",
         # white space after a CDATA section belongs to the match (C02's repaired finding cdata-space-before-end-tag);
         # anything else there is tail text
         "<A><B><![CDATA[x]]> </B></A>", "<A><B><![CDATA[x]]>\n</B>\n<C>1\n</A>", "<A><B><![CDATA[x]]> <C>2</A>",
         "<A><B><![CDATA[x]]> junk</A>", "<A><B><![CDATA[x]]> junk</B></A>", "<A><B><![CDATA[x]]>\u200b</B></A>",
         "<A><B><![CDATA[x]]> </B>", "<A><B><![CDATA[x]]> </A></A>", "<A><B><![CDATA[x]]> </B></B></A>"]


def run(ctx):
    from ofxtools.Parser import TreeBuilder
    rng = ctx.rng
    regex = TreeBuilder.regex
    seen = set()
    batch = []    # (doc, fault kind)

    vbuf = wire.ViolationBuffer(ctx)
    violate = vbuf.add

    def add(kind, doc):
        if doc in seen:
            return
        seen.add(doc)
        batch.append((doc, kind))
        if len(batch) >= 30000:
            flush()

    def flush():
        items = list(batch)
        del batch[:]
        if items:
            process(items)

    def process(items):
        rb = ctx.model.ask([line("build", d) for d, _ in items])
        rs = ctx.model.ask([line("spec.balanced", d) for d, _ in items])
        rl = ctx.model.ask([line("lex", d) for d, _ in items])
        for (doc, kind), b, sb, l in zip(items, rb, rs, rl):
            impl, ikind = impl_build(TreeBuilder, doc)
            model, mkind = model_build(b)
            ref = wire.ref_result(doc)
            returned_root = impl[0] == "ok" and impl[1] != "none"
            returned_none = impl == ["ok", "none"]
            ctx.stat("fault:" + kind)
            ctx.stat("impl:" + ("root" if returned_root else "none" if returned_none else "err:" + str(ikind)))
            ctx.stat("ref:" + (ref[0] if ref[0] == "ok" else ref[1]))
            ctx.compare("build", {"doc": doc}, impl, model, nontrivial=(kind not in ("valid", "soup")))
            ctx.compare("lex", {"doc": doc}, canon_lex(regex, doc), l.vals[0] if l.ok else l.raw, nontrivial=False)
            ctx.sample({"case": {"doc": doc, "fault": kind}, "impl": impl, "model": model, "reference": ref})
            case = {"doc": doc, "fault": kind}
            # ---- oracle ----
            if ref[0] == "reject" and (returned_root or returned_none):
                tag = "empty_body_returns_none" if returned_none else REF2TAG[ref[1]]
                violate(tag, case,
                            f"body {doc[:80]!r} is not well-formed ({ref[1]}) but feed()+close() returned "
                            f"{'None without raising' if returned_none else 'a root'}",
                            {"reference": ref[1], "returned": "none" if returned_none else "root"})
            if ref[0] == "ok" and kind == "valid":
                ctx.evaluations += 1
                if impl != ["ok", ["some", wire.abs_canon(ref[1])]]:
                    ctx.disagree("valid-base-vs-reference", case, ref, impl)
            # ---- the Lean `Balanced` predicate agrees with the reference on what is well-formed, wherever the reference's
            #      verdict does not hinge on characters the regex skips (malformed markup, text before the root) ----
            if wire.CDO in doc:
                pass        # the regex's token list of CDATA bodies differs from the reference's where C02's guards fail
            elif sb.ok and ref[0] == "ok":
                ctx.evaluations += 1
                if sb.vals[0] != "T":
                    ctx.disagree("spec.balanced", case, "T", sb.vals[0])
            elif sb.ok and ref[1] in ("unclosed_at_eof", "mismatched_end_tag", "stray_end_tag", "second_root", "text_after_root"):
                ctx.evaluations += 1
                if sb.vals[0] != "F":
                    ctx.disagree("spec.balanced", case, "F", sb.vals[0])

    for d in FIXED:
        add("fixed", d)
    bases = []
    # random valid strict renderings
    n = ctx.budget(260, 5000)
    for _ in range(n):
        small = rng.random() < 0.6
        tags = wire.TAGS_SMALL if small else wire.TAGS_REAL
        datas = [d for d in (wire.DATA_SMALL if rng.random() < 0.6 else wire.DATA_RICH) if wire.data_ok(d)]
        t = wire.strictify_abs(wire.random_abs(rng, tags, datas, max_nodes=rng.choice((2, 4, 7, 12))))
        wss = wire.WS_SMALL if rng.random() < 0.6 else wire.WS_RICH
        rt = wire.random_rt(rng, t, wss, p_cdata=rng.choice((0.0, 0.3)), strict=True)
        bases.append((rt, rng.choice(["", "", "\n", " "])))
    # small-scope: all trees <= 3 (thorough: 4) nodes, data x / a&amp;b, uniform styles
    top = 4 if ctx.thorough else 3
    for nn in range(1, top + 1):
        for t in wire.all_abs(nn, wire.TAGS_SMALL, ["x", "1 2"] if nn <= 3 else ["x"]):
            t = wire.strictify_abs(t)
            styles = wire.UNIFORM_STYLES if (ctx.thorough or nn <= 2) else [rng.choice(wire.UNIFORM_STYLES)]
            for st in styles:
                for w in (wire.WS_SMALL if (ctx.thorough and nn <= 3) else [rng.choice(wire.WS_SMALL)]):
                    bases.append((wire.uniform_rt(t, st, w), ""))
    ctx.exhaustive.append(f"every truncation point and every single end-tag fault of the uniform-style renderings of all trees of "
                          f"<= {top} nodes over {{A,B,C1}}")
    for rt, lead in bases:
        doc = wire.rt_doc(rt, lead)
        add("valid", doc)
        for d in wire.truncations(doc):
            add("truncate", d)
        for kind, d in wire.faults(rng, rt, lead):
            add(kind, d)
    m = ctx.budget(4000, 60000)
    for _ in range(m):
        add("soup", wire.soup(rng, rng.choice((1, 2, 3, 5, 8, 12))))

    flush()
    vbuf.emit()


def replay(ctx, data):
    from ofxtools.Parser import TreeBuilder
    case = data.get("case") or data.get("first_disagreement", {}).get("case")
    doc = case["doc"]
    print("document:", repr(doc))
    print("finditer:", [(m.groupdict(), m.span()) for m in TreeBuilder.regex.finditer(doc)])
    print("feed+close ->", impl_build(TreeBuilder, doc))
    print("reference reader ->", wire.ref_result(doc))
